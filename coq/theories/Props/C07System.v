(* Property C07, end to end: WHO is punished by equivocation evidence against a consumer key.
   Theorems about Model/EvidenceKeys.v, the composition of Model/KeyAssign.v (C05/C06) with Model/Evidence.v (C07) -
   the model run by harness/c07sys; proofs in Proofs/EvidenceKeysProofs.v combine C06_attributable /
   C06_forgotten_after / C06_identity / the C05 invariant of Proofs/KeyAssignProofs.v with the decision chain of
   Proofs/EvidenceProofs.v.

   A run is [srun ops (init_sys U nk)] for ANY sequence of
     SKey a                  key assignments, opt-ins, lifecycle steps (initialize, launch, stop, delete),
                             Begin/EndBlock (removal, pruning), time advances
     SRegister g             MsgCreateConsumer with chain id / minimum evidence height / double-sign parameters g
     SCreateVal / SRemoveVal / SExtVal   staking creates / removes / changes a validator (row of the table)
     SDoubleVote entry e     double-voting evidence for consumer [dv_cons e] naming consumer address [dv_addr e]
     SMisbehaviour entry m   light-client-attack evidence.
   There is NO resolution oracle: the validator evidence is about is KeyAssign.resolve on the key-assignment
   component ([K.resolve (ks s) c k]); validators are rows of the table indexed by PROVIDER KEY id and visible iff
   a registered operator owns that key.  [dv_facts s entry e P] says about the submission:
   (1) it is accepted IFF the evidence is valid for the consumer ([sys_dv_valid], spelled out by
   C07_system_conditions: consumer has a client - launched OR stopped-not-deleted, evidence handling has no phase
   check -, height >= minimum, all structural / signature bits for THAT consumer's chain id, parameters stored)
   and P is a registered validator that is not unbonded, not tombstoned (and has a signing info);
   (2) on acceptance every row but P is unchanged and row P is the punished record (consumer's parameters, power
   incl. unbonding / redelegating stake); (3) on rejection the whole state is unchanged; (4) the key-assignment
   component and the consumers' settings are never touched.
   Hypotheses that REMAIN are exactly those in the statements: validity of the evidence and P's guards (inside
   dv_facts, as an IFF); for the window theorems: c not deleted and every EndBlock before t + U ([quiet] on the
   KeyAssign trace).  Cryptography stays an oracle as in Props/C07.v. *)
From Coq Require Import ZArith List Bool.
From ICS Require Import Base.Tree.
From ICS Require Model.KeyAssign Model.Evidence Proofs.KeyAssignProofs Proofs.EvidenceProofs.
From ICS Require Import Model.EvidenceKeys Proofs.EvidenceKeysProofs.
Import ListNotations.
Open Scope Z_scope.

(* the composed run performs a KeyAssign run: every theorem of Props/C05.v and Props/C06.v applies to its
   key-assignment component *)
Theorem C07_system_refines : forall U nk ops,
  ks (srun ops (init_sys U nk)) = K.exec (ktrace (init_sys U nk) ops) (K.init U).
Proof. exact reach_ks. Qed.

(* validity of double-voting evidence in the composed machine, spelled out *)
Theorem C07_system_conditions : forall s entry e,
  sys_dv_valid s entry e <->
  exists c chain ds,
    E.dv_cons e = Z.of_nat c /\ (c < length (K.s_cons (ks s)))%nat /\ K.c_client (K.getc (ks s) c) = true /\
    ec_minh (nth c (es s) ecdflt) <= E.dv_height e /\ ec_chain (nth c (es s) ecdflt) = Some chain /\
    (entry = 0 -> E.dv_vb_ok e = true /\ E.dv_bid_cmp e < 0 /\ E.dv_valset_ok e = true /\ E.dv_key_in_valset e = true) /\
    (entry <> 0 -> E.dv_key_present e = true) /\
    E.dv_key_addr_ok e = true /\ E.dv_hrt_eq e = true /\ E.dv_addr_eq e = true /\ E.dv_bid_cmp e <> 0 /\
    In chain (E.dv_sigA e) /\ In chain (E.dv_sigB e) /\ ec_ds (nth c (es s) ecdflt) = Some ds.
Proof. exact sys_dv_valid_spec. Qed.

(* in ANY state a double-voting submission is about the validator the key-assignment component resolves the named
   consumer address to, on the named consumer *)
Theorem C07_system_evidence : forall s entry e,
  dv_facts s entry e (K.resolve (ks s) (dv_c e) (E.dv_addr e)).
Proof. exact dv_on_target. Qed.

(* ... and if staking knows no validator with that provider key, nobody is punished: rejected, nothing changes *)
Theorem C07_system_nobody : forall s entry e P,
  dv_facts s entry e P -> registered (ks s) P = false ->
  dv_code s entry e <> 0 /\ dv_submit s entry e = s.
Proof. exact nobody. Qed.

(* evidence signed with a key k that validator P replaced at time t on a launched consumer c punishes exactly P, for
   every continuation (assignments by anybody, removal and re-creation of validators, STOP of c, blocks) that does not
   delete c and whose EndBlocks all run before t + U *)
Theorem C07_system_old_key_punished : forall U nk ops0 c a P k s1 ops entry e,
  let s0 := srun ops0 (init_sys U nk) in
  K.c_phase (K.getc (ks s0) c) = 3 -> K.lookup P (K.c_assigned (K.getc (ks s0) c)) = Some k ->
  KP.replaces (ks s0) c P a -> sstep s0 (SKey a) = (s1, 0) ->
  KP.quiet c (K.s_now (ks s0) + U) (ktrace s1 ops) (ks s1) ->
  E.dv_cons e = Z.of_nat c -> E.dv_addr e = k ->
  let s2 := srun ops s1 in
  K.resolve (ks s2) c k = P /\ dv_facts s2 entry e P.
Proof. exact old_key_punished. Qed.

(* right after the first EndBlock at / after t + U (c launched or stopped, not deleted) the key resolves to itself:
   evidence for k is about the validator whose PROVIDER key is k, and by C07_system_nobody punishes nobody if there
   is none.  In later states the target is whatever the key-assignment component says (C07_system_evidence): whoever
   k has meanwhile been re-assigned to (C07_system_unique_signer / C07_system_store_signer). *)
Theorem C07_system_pruned_key : forall U nk ops0 c a P k s1 ops entry e,
  let s0 := srun ops0 (init_sys U nk) in
  K.c_phase (K.getc (ks s0) c) = 3 -> K.lookup P (K.c_assigned (K.getc (ks s0) c)) = Some k ->
  KP.replaces (ks s0) c P a -> sstep s0 (SKey a) = (s1, 0) ->
  KP.quiet c (K.s_now (ks s0) + U) (ktrace s1 ops) (ks s1) ->
  K.s_now (ks s0) + U <= K.s_now (ks (srun ops s1)) ->
  E.dv_cons e = Z.of_nat c -> E.dv_addr e = k ->
  let s3 := fst (sstep (srun ops s1) (SKey K.OEndBlock)) in
  K.resolve (ks s3) c k = k /\ dv_facts s3 entry e k.
Proof. exact pruned_key. Qed.

(* by C05_injective the signer is unique on an active (launched) consumer: EVERY validator associated with k (current
   assignment, by-address entry incl. keys awaiting pruning, provider key of an existing validator) is the one punished *)
Theorem C07_system_unique_signer : forall U nk ops c k P entry e,
  let s := srun ops (init_sys U nk) in
  K.is_active (K.c_phase (K.getc (ks s) c)) = true -> KP.assoc (ks s) c k P ->
  E.dv_cons e = Z.of_nat c -> E.dv_addr e = k ->
  K.resolve (ks s) c k = P /\ dv_facts s entry e P.
Proof. exact unique_signer. Qed.

(* for a STOPPED consumer C05_injective is refuted (Props/C05.v: a validator may be created with a key a stopped
   consumer still attributes to somebody else); what the code does there: the consumer's own stores win *)
Theorem C07_system_store_signer : forall U nk ops c k P,
  let s := srun ops (init_sys U nk) in KP.assoc_store (ks s) c k P -> K.resolve (ks s) c k = P.
Proof. exact store_signer. Qed.

(* a key never named in an assignment on c is attributed to the validator whose provider key it is (or nobody) *)
Theorem C07_system_never_assigned : forall U nk ops c k entry e,
  let s := srun ops (init_sys U nk) in
  (forall a, In a (ktrace (init_sys U nk) ops) -> KP.names a c k = false) ->
  E.dv_cons e = Z.of_nat c -> E.dv_addr e = k ->
  K.resolve (ks s) c k = k /\ dv_facts s entry e k.
Proof. exact never_assigned. Qed.

(* the same evidence submitted for two consumers (e.g. sharing a chain id) is resolved per consumer through THAT
   consumer's own assignments (and judged against that consumer's settings, see dv_facts / C07_system_conditions) *)
Theorem C07_system_shared_chain_id : forall s entry e c1 c2,
  dv_facts s entry (EP.dv_for e (Z.of_nat c1)) (K.resolve (ks s) c1 (E.dv_addr e)) /\
  dv_facts s entry (EP.dv_for e (Z.of_nat c2)) (K.resolve (ks s) c2 (E.dv_addr e)).
Proof. exact shared_chain_id. Qed.

(* misbehaviour: validator i is punished exactly as often as a byzantine address is attributed to it by the
   key-assignment component while its guards pass; the key-assignment component is untouched *)
Theorem C07_system_misbehaviour : forall s entry m cv ds l,
  snd (sstep s (SMisbehaviour entry m)) = 0 ->
  EP.mb_conditions (view s (mb_addrs m)) entry m cv ds l ->
  let s' := fst (sstep s (SMisbehaviour entry m)) in
  ks s' = ks s /\ es s' = es s /\
  forall i, getrow s' i = option_map (E.punish_n (K.s_now (ks s)) ds (count_tgt s (mb_c m) i l)) (getrow s i).
Proof. exact mb_on_targets. Qed.

(* ---- non-vacuity: two consumers with chain id 5 (5 % without tombstone / 100 % with tombstone); validator 0 assigns
   k1 = 5 on consumer 0 and replaces it by k2 = 6 at t = 0 (U = 1000); validator 1 assigns the SAME key 5 on consumer 1.
   Evidence for key 5 at t + U - 1 (after an EndBlock) punishes validator 0 through consumer 0 and validator 1 through
   consumer 1; after t + U + 1 and an EndBlock, with consumer 0 STOPPED, evidence for 5 on consumer 0 punishes nobody,
   evidence for 6 punishes validator 0 again.  (Replayed on the real code as the first case of part "system".) ---- *)
Definition ex_val (tokens pow : Z) : E.vrec := E.mkV 3 false 0 false tokens pow 0 0 true [].
Definition ex_g0 : ecfg := mkEC (Some 5) 10 (Some (E.mkDS 50000000000000000 600 false)).
Definition ex_g1 : ecfg := mkEC (Some 5) 10 (Some (E.mkDS 1000000000000000000 900 true)).
Definition ex_pre : list sop :=
  [SCreateVal 0 0 (ex_val 5000000 5); SCreateVal 1 1 (ex_val 3000000 3);
   SRegister ex_g0; SKey (K.OInitialize 0); SKey (K.OLaunch 0); SRegister ex_g1; SKey (K.OInitialize 1); SKey (K.OLaunch 1);
   SKey (K.OAssign 0 0 5 true); SKey (K.OAssign 1 1 5 true)].
Definition ex_mid : list sop := [SKey (K.OAdvance 999); SKey K.OEndBlock].
Definition ex_late : list sop := [SKey (K.OStop 0 true); SKey (K.OAdvance 2)].
Definition ex_dv (c k : Z) : E.dv := EP.dv_ok c k 10.
Definition jailed_rows (s : sys) : list bool := map E.v_jailed (vt s).
Definition tokens_rows (s : sys) : list Z := map E.v_tokens (vt s).

Example C07_system_ex :
  let s0 := srun ex_pre (init_sys 1000 4) in
  let s1 := fst (sstep s0 (SKey (K.OAssign 0 0 6 true))) in
  let s2 := srun ex_mid s1 in
  let r1 := dv_submit s2 0 (ex_dv 0 5) in
  let r2 := dv_submit r1 0 (ex_dv 1 5) in
  let s3 := fst (sstep (srun ex_late r2) (SKey K.OEndBlock)) in
  let r3 := dv_submit s3 0 (ex_dv 0 5) in
  let r4 := dv_submit r3 0 (ex_dv 0 6) in
  K.c_phase (K.getc (ks s0) 0) = 3 /\ K.lookup 0 (K.c_assigned (K.getc (ks s0) 0)) = Some 5 /\
  sstep s0 (SKey (K.OAssign 0 0 6 true)) = (s1, 0) /\
  KP.quiet 0 (K.s_now (ks s0) + 1000) (ktrace s1 ex_mid) (ks s1) /\
  K.resolve (ks s2) 0 5 = 0 /\ K.resolve (ks s2) 1 5 = 1 /\
  dv_code s2 0 (ex_dv 0 5) = 0 /\ jailed_rows r1 = [true; false; false; false] /\ tokens_rows r1 = [4750000; 3000000; 0; 0] /\
  dv_code r1 0 (ex_dv 1 5) = 0 /\ jailed_rows r2 = [true; true; false; false] /\ tokens_rows r2 = [4750000; 0; 0; 0] /\
  K.c_phase (K.getc (ks s3) 0) = 4 /\ K.resolve (ks s3) 0 5 = 5 /\ registered (ks s3) 5 = false /\
  dv_code s3 0 (ex_dv 0 5) = E.E_NOTFOUND /\ r3 = s3 /\
  K.resolve (ks s3) 0 6 = 0 /\ dv_code r3 0 (ex_dv 0 6) = 0 /\ tokens_rows r4 = [4500000; 0; 0; 0].
Proof.
  vm_compute. repeat split; try reflexivity; try discriminate; try (intros H; discriminate H).
Qed.

Example C07_system_ex_valid :
  sys_dv_valid (srun ex_mid (fst (sstep (srun ex_pre (init_sys 1000 4)) (SKey (K.OAssign 0 0 6 true))))) 0 (ex_dv 0 5).
Proof.
  apply sys_dv_valid_spec. exists 0%nat, 5, (E.mkDS 50000000000000000 600 false). vm_compute.
  repeat split; auto; try (intros H; discriminate H); try discriminate.
Qed.

Example C07_system_ex_replaces :
  KP.replaces (ks (srun ex_pre (init_sys 1000 4))) 0 0 (K.OAssign 0 0 6 true).
Proof. exists 0, 6. split; [left; reflexivity|reflexivity]. Qed.
