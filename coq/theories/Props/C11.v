(* Property C11: stopped consumers get no updates and are removed after the unbonding period.
   Theorems about Model/Lifecycle.v (the model the correspondence driver harness/c10 runs); proofs are in
   Proofs/Lifecycle{Base,Inv,Steps,C10,C11}.v.  [reach U ops] = the state after an arbitrary sequence of operations
   from the empty state; U = provider unbonding period.  A consumer is stopped (phase 4) by the owner's
   MsgRemoveConsumer, by a packet timeout or an error acknowledgement on its channel, or by a failing SendPacket in
   EndBlock; StopAndPrepareForConsumerRemoval may run again for a stopped consumer (another in-flight packet times
   out): it overwrites the removal time and queues the consumer a second time. *)
From Coq Require Import ZArith List Bool.
From ICS Require Import Base.Tree Model.Lifecycle Proofs.LifecycleBase Proofs.LifecycleInv Proofs.LifecycleSteps
  Proofs.LifecycleC10 Proofs.LifecycleC11.
Import ListNotations.
Open Scope Z_scope.

(* ---- "the provider immediately stops computing and sending validator updates for it" ----
   from the stop on (whatever its cause) and for every continuation of the history: no packet is handed to the
   channel (c_sent constant), none is queued (the pending count stays, until the deletion empties it), and the
   phase never goes back *)
Theorem C11_no_packets_after_stop : forall U ops ops' c r, get (reach U ops) c = Some r -> 4 <= c_phase r ->
  exists r', get (reach U (ops ++ ops')) c = Some r' /\
    c_sent r' = c_sent r /\ c_phase r <= c_phase r' <= 5 /\
    (p_pending (c_proto r') = p_pending (c_proto r) \/ (c_phase r' = 5 /\ p_pending (c_proto r') = 0)).
Proof. exact c11_no_packets_after_stop. Qed.

(* ---- "yet keeps its key assignments, client binding and evidence/slashing state until ..." ----
   while the consumer stays stopped, every step other than another sub-protocol's own write to this consumer
   (ODecorate c / OChannel c) leaves all protocol state except the removal time unchanged; together with
   C11_not_before the consumer stays stopped in every begin-block before stop time + U *)
Theorem C11_retained_until_removal : forall U ops ops' c r r', get (reach U ops) c = Some r -> c_phase r = 4 ->
  get (reach U (ops ++ ops')) c = Some r' -> c_phase r' = 4 ->
  Forall (fun o => targets o c = false) ops' ->
  c_desc r' = c_desc r /\ c_sent r' = c_sent r /\
  p_client (c_proto r') = p_client (c_proto r) /\ p_genesis (c_proto r') = p_genesis (c_proto r) /\
  p_evmin (c_proto r') = p_evmin (c_proto r) /\ p_channel (c_proto r') = p_channel (c_proto r) /\
  p_valset (c_proto r') = p_valset (c_proto r) /\ p_pending (c_proto r') = p_pending (c_proto r) /\
  p_optin (c_proto r') = p_optin (c_proto r) /\ p_extra (c_proto r') = p_extra (c_proto r).
Proof. exact c11_retained_until_removal. Qed.

(* ---- "until one provider unbonding period has elapsed since the stop" ----
   if step [o] takes c from launched to stopped (at block time s_now s1) and a later step [last] deletes it, then
   [last] is a begin-block whose time is at least stop time + U -- also when the consumer is stopped again in
   between (the FIRST queue entry fires first, and it is not earlier than the first stop + U).
   Hypotheses: block times do not decrease, U >= 0. *)
Theorem C11_not_before : forall U pre o mid last c, 0 <= U ->
  monotone 0 (pre ++ o :: mid ++ [last]) ->
  let s0 := reach U pre in let s1 := step U s0 o in
  let s2 := fold_left (step U) mid s1 in let s3 := step U s2 last in
  phase_of s0 c = 3 -> phase_of s1 c = 4 -> phase_of s2 c = 4 -> phase_of s3 c = 5 ->
  exists T ora, last = OBegin T ora /\ s_now s1 + U <= T.
Proof. exact c11_not_before. Qed.

(* ---- "It then deletes the consumer's protocol state ... and marks the consumer deleted, retaining only descriptive
        records" ---- *)

(* the deleting step (always a begin-block) empties every protocol field and keeps the descriptive record *)
Theorem C11_deletion_step : forall U ops o c r r', get (reach U ops) c = Some r -> c_phase r = 4 ->
  get (step U (reach U ops) o) c = Some r' -> c_phase r' = 5 ->
  c_proto r' = empty_proto /\ c_desc r' = c_desc r /\ c_sent r' = c_sent r /\ c_id r' = c_id r /\
  exists T ora, o = OBegin T ora.
Proof. exact c11_deletion_step. Qed.

(* and a deleted consumer never has any again (p_extra: records that other sub-protocols write through keeper
   setters without a phase check are outside this model's control; the message handlers check the phase) *)
Theorem C11_deleted_state : forall U ops c r, get (reach U ops) c = Some r -> c_phase r = 5 ->
  p_client (c_proto r) = false /\ p_genesis (c_proto r) = false /\ p_evmin (c_proto r) = false /\
  p_channel (c_proto r) = false /\ p_valset (c_proto r) = 0 /\ p_pending (c_proto r) = 0 /\
  p_removal (c_proto r) = 0 /\ p_optin (c_proto r) = [].
Proof. exact c11_deleted_state. Qed.

(* ---- "many consumers stopping at the same time": the removal queue is processed 200 ids per block ---- *)
Theorem C11_many : forall U ops now ora,
  let s := reach U ops in let s' := step U s (OBegin now ora) in let ratt := removal_due s now in
  all_ids (s_remq s') = skipn (length ratt) (all_ids (s_remq s)) /\
  (forall c r, In c ratt -> get s c = Some r -> c_phase r = 4 -> get s' c = Some (delete_consumer r)) /\
  (forall c r, ~ In c ratt -> get s c = Some r -> c_phase r = 4 -> get s' c = Some r).
Proof. exact c11_many. Qed.

Theorem C11_carry_over : forall U ops T bl, Forall (fun b => T <= fst b) bl ->
  let s := reach U ops in
  let s' := fold_left (step U) (map (fun b => OBegin (fst b) (snd b)) bl) s in
  length (due (s_remq s') T) = (length (due (s_remq s) T) - limit * length bl)%nat.
Proof. exact c11_carry_over. Qed.

(* ---- "It then deletes ...": every stopped consumer is queued under its removal time, and the first begin-block at
        or after it deletes the consumer (when at most 200 ids are due; otherwise C11_carry_over applies) ---- *)
Theorem C11_scheduled : forall U ops c r, get (reach U ops) c = Some r -> c_phase r = 4 ->
  In c (tq_get (s_remq (reach U ops)) (p_removal (c_proto r))).
Proof. exact c11_scheduled. Qed.

Theorem C11_removed_when_due : forall U ops now ora c r,
  let s := reach U ops in
  get s c = Some r -> c_phase r = 4 -> p_removal (c_proto r) <= now ->
  (length (due (s_remq s) now) <= limit)%nat ->
  get (step U s (OBegin now ora)) c = Some (delete_consumer r).
Proof. exact c11_removed_when_due. Qed.

(* ---- non-vacuity: launch, channel, packets, owner stop at time 20, a timeout re-stops it at time 40 (U = 50) ---- *)

Definition good : lora := mkLO 2 true false.
Definition ex_pre : list op :=
  [ OCreate 1 7 1 (Some (5, 1, 0)); OOptIn 0 3 true; ODecorate 0 39; OBegin 10 [(0, good)]; OChannel 0;
    OEnd true [0] [(0, mkEO true 2 0 false)]; OBegin 20 [] ].
Definition ex_mid : list op :=
  [ OEnd true [0] [(0, mkEO true 3 0 false)]; OBegin 40 []; OTimeout 0; OUpdate 0 1 None None None; OBegin 69 [] ].

Example C11_ex_stop :
  let s1 := reach 50 (ex_pre ++ [ORemove 0 1]) in
  let s2 := fold_left (step 50) ex_mid s1 in
  let s3 := step 50 s2 (OBegin 70 []) in
  monotone 0 (ex_pre ++ ORemove 0 1 :: ex_mid ++ [OBegin 70 []]) /\
  map (fun s => phase_of s 0) [reach 50 ex_pre; s1; s2; s3] = [3; 4; 4; 5] /\
  s_remq s1 = [(70, [0])] /\ s_remq s2 = [(70, [0]); (90, [0])] /\ s_remq s3 = [(90, [0])] /\
  match get s1 0, get s2 0, get s3 0 with
  | Some r1, Some r2, Some r3 =>
      c_sent r1 = 1 /\ c_sent r3 = 1 /\ p_removal (c_proto r1) = 70 /\ p_removal (c_proto r2) = 90 /\
      p_extra (c_proto r2) = [22; 23; 39] /\ p_client (c_proto r2) = true /\ c_proto r3 = empty_proto /\
      d_spawn (c_desc r3) = 5
  | _, _, _ => False
  end /\
  (* the second queue entry later finds the consumer deleted: a no-op *)
  phase_of (step 50 s3 (OBegin 90 [])) 0 = 5 /\ s_remq (step 50 s3 (OBegin 90 [])) = [].
Proof. vm_compute. repeat split; try reflexivity; try (intros H; discriminate H). Qed.
