(* Property C16: rewards are conserved end to end and reach only eligible validators.
   All statements are about Model/Rewards.v's step functions (the ones [run] executes); proofs in
   Proofs/RewardsProofs.v.  Amounts: Z coins; decimal amounts: Z scaled by P = 10^18. *)
From Coq Require Import ZArith List Bool.
From ICS Require Import Base.Tree Base.Dec Model.Rewards Proofs.RewardsProofs.
Import ListNotations.
Open Scope Z_scope.

(* ---- consumer: every block's fees are split exactly.  fp = fee-collector balance at EndBlock.
   consumer share = floor(fp * fraction) (the code's MulDec-then-TruncateDecimal is exactly the floor),
   provider share = the rest (it sits in the to-provider account or, once sent, in escrow); nothing is
   created or lost in any denom. *)
Theorem C16_split_exact : forall h fees open fail c d,
  bank_nonneg (c_bank c) -> qnonneg fees -> 0 <= c_frac c <= P -> NoDup (c_denoms c) -> In d (c_denoms c) ->
  let fp := get (FC, d) (c_bank c) + qsum d fees in
  let share := (fp * c_frac c) / P in
  let c' := cblock h fees open fail c in
  get (FC, d) (c_bank c') = 0 /\
  get (CR, d) (c_bank c') = get (CR, d) (c_bank c) + share /\
  get (TS, d) (c_bank c') + get (ES, d) (c_bank c') = get (TS, d) (c_bank c) + get (ES, d) (c_bank c) + (fp - share) /\
  0 <= share <= fp /\
  (forall d', row4 (c_bank c') d' = row4 (c_bank c) d' + qsum d' fees).
Proof. exact split_exact. Qed.

(* ---- consumer: coins leave the to-provider account (into escrow / in flight) only in allowed denoms,
   only in a block where height - LastTransmissionBlockHeight >= BlocksPerDistributionTransmission and the
   transfer channel is open; then the whole balance of every allowed denom is sent, or (a transfer failed)
   nothing at all; LastTransmissionBlockHeight moves exactly in the due blocks. *)
Theorem C16_send_only_allowed_open_period : forall h fees open fail c,
  bank_nonneg (c_bank c) -> qnonneg fees -> 0 <= c_frac c <= P ->
  let c' := cblock h fees open fail c in
  let due := should_send h (c_ltbh c) (c_bpdt c) in
  (forall d, get (ES, d) (c_bank c') <> get (ES, d) (c_bank c) ->
             due = true /\ open = true /\ In d (c_allowed c) /\ get (TS, d) (c_bank c') = 0) /\
  ((forall d, get (ES, d) (c_bank c') = get (ES, d) (c_bank c)) \/
   (due = true /\ open = true /\ forall d, In d (c_allowed c) -> get (TS, d) (c_bank c') = 0)) /\
  c_ltbh c' = (if due then h else c_ltbh c) /\
  (exists sent, c_inflight c' = c_inflight c ++ sent /\
     (forall d, qsum d sent = get (ES, d) (c_bank c') - get (ES, d) (c_bank c)) /\
     Forall (fun s => In (fst s) (c_allowed c) /\ 0 < snd s /\ memz (fst s) fail = false) sent).
Proof. exact send_discipline. Qed.

(* ---- provider middleware: a receive changes exactly one credit, that of [credited_consumer] (the consumer
   named in the reward memo, else the consumer bound to the channel's client; only if the wrapped transfer
   succeeded and the receiver is the rewards pool), by exactly the received amount; nothing else of the
   reward state moves; a failed acknowledgement changes nothing at all. *)
Theorem C16_credit_sender : forall ch memo db d amt ack_ok to_pool f m,
  let m' := receive ch memo db d amt ack_ok to_pool f m in
  (forall c' d', get (c', d') (alloc m') =
     get (c', d') (alloc m) +
     match credited_consumer ch memo ack_ok to_pool f with
     | Some c => if (c' =? c) && (d' =? d) then dec_of_int amt else 0
     | None => 0
     end) /\
  (forall c' d', get (c', d') (g_cred m') - get (c', d') (g_cred m) = get (c', d') (alloc m') - get (c', d') (alloc m)) /\
  outst m' = outst m /\ comm m' = comm m /\ cpool m' = cpool m /\
  (ack_ok = false -> m' = m) /\
  (forall a d', get (a, d') (bank m') =
     get (a, d') (bank m) + if ack_ok && (a =? (if to_pool then POOL else OTHER)) && (d' =? db) then amt else 0).
Proof. exact credit_sender. Qed.

(* a transfer built by consumer c's own module carries c's id in the memo: it credits c, whatever the channel *)
Theorem C16_credit_sender_own_memo : forall ch memo f, 0 <= memo -> has_chain memo f = true ->
  credited_consumer ch memo true true f = Some memo.
Proof. exact credited_own_memo. Qed.

(* relaying the oldest in-flight transfer of chain k is that receive, with the chain's memo and channel *)
Theorem C16_relay_is_receive : forall s k c d a q, nth_error (chains s) (Z.to_nat k) = Some c -> c_inflight c = (d, a) :: q ->
  step s (Relay k true) =
  mkS (mkP (receive (c_chan c) (c_memo c) (bank_denom (pf (prov s)) (c_chan c) (wire c d)) (cred_denom (pf (prov s)) (c_chan c) (wire c d))
                    a true (c_to_pool c) (pf (prov s)) (pm (prov s))) (pf (prov s)))
      (upd_nth (Z.to_nat k) cdelivered (chains s)).
Proof. exact relay_step. Qed.

(* ---- the denom of the credit is the denom of the coins.  For every shape of packet denom (segments: provider-native
   coin returned by the consumer, voucher that still has a trace after the consumer's hop is stripped, token whose
   source is the sender or a third chain) GetProviderDenom (string prefix + ParseDenomTrace) computes the key under
   which ibc-go's transfer application (ExtractDenomFromPath, Denom.HasPrefix, Trace[1:] / prepended hop, IBCDenom)
   unescrows or mints.  Hypotheses: non-empty denom with a non-empty base (ICS-20 validation), and no client-id
   segment (see the refutation below).  sha256 is abstracted by the per-case table dtab; only equality of keys is used. *)
Theorem C16_credit_denom_key : forall sp sc dp dc l,
  is_chan sc = true -> is_chan dc = true -> l <> [] -> no_client_ids l ->
  snd (denom_trace is_chan_or_client l) <> [] ->
  provider_denom_key sp sc dp dc l = ics20_key sp sc dp dc l.
Proof. exact credit_denom_key. Qed.

Theorem C16_credit_denom_is_bank_denom : forall f ch l,
  l <> [] -> no_client_ids l -> snd (denom_trace is_chan_or_client l) <> [] -> 0 <= ch < 990 ->
  cred_denom f ch l = bank_denom f ch l.
Proof. exact credit_denom_is_bank_denom. Qed.

(* hence a successful receive into the pool raises the credit and the pool balance under one and the same denom *)
Theorem C16_receive_credit_matches_pool : forall f m ch memo l amt c,
  l <> [] -> no_client_ids l -> snd (denom_trace is_chan_or_client l) <> [] -> 0 <= ch < 990 ->
  credited_consumer ch memo true true f = Some c ->
  let d := cred_denom f ch l in
  let m' := pm (pstep (mkP m f) (PReceive ch memo l amt true true)) in
  get (c, d) (alloc m') = get (c, d) (alloc m) + dec_of_int amt /\
  get (POOL, d) (bank m') = get (POOL, d) (bank m) + amt.
Proof. exact receive_credit_matches_pool. Qed.

(* REFUTED without the client-id hypothesis: ibc-go v10 also parses (port, "07-tendermint-N") as a hop, the copy
   of the v8 helpers in x/ccv/types/denom_helpers.go does not: transfer/channel-1/transfer/07-tendermint-3/uusdc
   is credited under the raw string "transfer/07-tendermint-3/uusdc" while the coins arrive as ibc/HASH(...) *)
Definition C16_credit_denom_full : Prop := forall sp sc dp dc l,
  is_chan sc = true -> is_chan dc = true -> l <> [] -> snd (denom_trace is_chan_or_client l) <> [] ->
  provider_denom_key sp sc dp dc l = ics20_key sp sc dp dc l.
Theorem C16_credit_denom_client_id_refuted : ~ C16_credit_denom_full.
Proof. exact credit_denom_full_refuted. Qed.

(* ---- never more paid out than credited: per consumer and denom, after any history,
   credited = still credited + paid to validators + paid to community pool + dust + forfeited, all >= 0
   (forfeited is identically 0 since fix 2504227: C16_lossless_partial) *)
Theorem C16_no_overpay : forall s0 ops, initial s0 -> Forall wf_op ops -> forall c d,
  let m := pm (prov (run_ops s0 ops)) in
  get (c, d) (g_cred m) =
    get (c, d) (alloc m) + get (c, d) (g_pv m) + get (c, d) (g_pc m) + get (c, d) (g_dust m) + get (c, d) (g_forf m) /\
  0 <= get (c, d) (alloc m) /\ 0 <= get (c, d) (g_pv m) /\ 0 <= get (c, d) (g_pc m) /\
  0 <= get (c, d) (g_dust m) /\ 0 <= get (c, d) (g_forf m) /\
  get (c, d) (g_pv m) + get (c, d) (g_pc m) + get (c, d) (alloc m) <= get (c, d) (g_cred m).
Proof. exact no_overpay. Qed.

(* the per-consumer totals of the previous theorem add up to x/distribution's own records *)
Theorem C16_paid_is_recorded : forall s0 ops, initial s0 -> forall d,
  let m := pm (prov (run_ops s0 ops)) in
  total d (outst m) = total d (g_pv m) /\ get (0, d) (cpool m) = total d (g_pc m).
Proof. exact ghost_link. Qed.

(* ---- only eligible validators: every outstanding-reward / commission amount of every validator is the sum of
   logged payouts, and every logged payout e was made in a reachable state s in which validator ev_v e was in
   consumer ev_c e's stored set with that power and join height, join height <= height - epochs*blocksPerEpoch,
   the amount is the coded share of the ev_T coins moved for that consumer (over the eligible power only), the
   commission uses the per-consumer rate if set, the consumer has a client and the denom is registered or
   allowlisted for it. *)
Theorem C16_only_eligible : forall s0 ops, initial s0 ->
  let m := pm (prov (run_ops s0 ops)) in
  Forall (fun e => exists s env, reach s0 s /\
            (ev_h e = b_h env /\ ev_thr e = epochs (pf (prov s)) * bpe (pf (prov s)) /\
             In (mkV (ev_v e) (ev_pow e) (ev_join e)) (lookup_list (ev_c e) (valsets (pf (prov s)))) /\
             ev_thr e <= ev_h e - ev_join e /\
             ev_total e = total_power (ev_thr e) (ev_h e) (lookup_list (ev_c e) (valsets (pf (prov s)))) /\
             ev_amt e = val_share (ev_T e) (ev_total e) (ev_pow e) /\
             (exists own, lookup (ev_v e) (b_staking env) = Some own /\
                ev_rate e = match crate (ev_c e, ev_v e) (crates (pf (prov s))) with Some r => r | None => own end) /\
             ev_comm e = dmul (ev_amt e) (ev_rate e)) /\
            ((exists i, In i (cons (pf (prov s))) /\ ci_id i = ev_c e /\ ci_client i = true) /\
             In (ev_d e) (registered (pf (prov s)) ++ lookup_list (ev_c e) (allowl (pf (prov s))))))
         (log m) /\
  forall v d, get (v, d) (outst m) = log_amt v d (log m) /\ get (v, d) (comm m) = log_comm v d (log m).
Proof. exact only_eligible. Qed.

(* the coded share: floor(power * 10^18 / eligible power) * coins, in 10^-18 units *)
Theorem C16_share_formula : forall T total pow, 0 <= T -> 0 <= pow -> 0 < total ->
  val_share T total pow = T * ((pow * P) / total).
Proof. exact val_share_eq. Qed.

(* a validator keeps its join height while it stays in the set and gets the current height when it (re)joins *)
Theorem C16_join_height : forall h old vp,
  cv_id (epoch_val h old vp) = fst vp /\ cv_pow (epoch_val h old vp) = snd vp /\
  cv_join (epoch_val h old vp) =
    match find (fun e => cv_id e =? fst vp) old with Some e => cv_join e | None => h end.
Proof. exact epoch_join. Qed.

(* ---- bank conservation: after any history the provider's three accounts hold exactly what entered from
   outside (World funding + successful receives), the pool is never overdrawn, and on every consumer chain
   fee collector + redistribute + to-provider + escrow = fees collected, escrow = in flight + delivered *)
Theorem C16_bank_conservation : forall s0 ops, initial s0 -> Forall wf_op ops ->
  let s := run_ops s0 ops in
  (forall d, get (POOL, d) (bank (pm (prov s))) + get (DISTR, d) (bank (pm (prov s))) + get (OTHER, d) (bank (pm (prov s)))
             = get (0, d) (g_mint (pm (prov s)))) /\
  (forall d, 0 <= get (POOL, d) (bank (pm (prov s)))) /\
  Forall (fun c => (forall d, row4 (c_bank c) d = get (0, d) (g_fees c)) /\
                   (forall d, get (ES, d) (c_bank c) = qsum d (c_inflight c) + get (0, d) (g_deliv c)) /\
                   bank_nonneg (c_bank c)) (chains s).
Proof. exact bank_conservation. Qed.

(* step form: every step (BeginBlock with any failing calls included) changes the sum of the provider balances
   exactly by the coins entering with that step *)
Theorem C16_bank_step : forall s o d, sinv s ->
  let tot := fun s => get (POOL, d) (bank (pm (prov s))) + get (DISTR, d) (bank (pm (prov s))) + get (OTHER, d) (bank (pm (prov s))) in
  tot (step s o) = tot s + (if fst (inflow_of s o) =? d then snd (inflow_of s o) else 0).
Proof. exact step_bank. Qed.

(* ---- remainders.  One allocation for (c, d) that moves T coins to the distribution account for the n eligible
   validators records sum_amt evs for them; the difference ("dust") is in [0, T*(n-1)] units of 10^-18, i.e.
   < n * T * 10^-18 coins; it is neither paid, nor in the community pool, nor left credited. *)
Theorem C16_remainder : forall env f c d m m',
  env_wf env -> conf_wf f -> ninv m -> alloc_body env f c d m = Some m' ->
  exists T evs,
    log m' = log m ++ evs /\
    get (c, d) (g_pv m') - get (c, d) (g_pv m) = sum_amt evs /\
    get (c, d) (g_dust m') - get (c, d) (g_dust m) = dec_of_int T - sum_amt evs /\
    0 <= dec_of_int T - sum_amt evs <= T * (Z.of_nat (length evs) - 1) /\
    0 <= T /\ dec_of_int T <= get (c, d) (alloc m).
Proof. exact remainder_bound. Qed.

(* where it sits: the distribution module account holds the recorded amounts plus all dust so far *)
Theorem C16_remainder_partial : forall s0 ops, initial s0 -> Forall wf_op ops -> forall d,
  let m := pm (prov (run_ops s0 ops)) in
  dec_of_int (get (DISTR, d) (bank m)) = total d (outst m) + get (0, d) (cpool m) + total d (g_dust m) /\
  (forall c, 0 <= get (c, d) (g_dust m)).
Proof. exact remainder_partial. Qed.

(* the property text says remainders go to the community pool or stay credited; then the distribution account
   would hold exactly what x/distribution records.  REFUTED by the model (and reproduced on the real code). *)
Definition C16_remainder_full : Prop := forall s0 ops, initial s0 -> Forall wf_op ops -> forall d,
  let m := pm (prov (run_ops s0 ops)) in
  dec_of_int (get (DISTR, d) (bank m)) = total d (outst m) + get (0, d) (cpool m).

Theorem C16_remainder_refuted : ~ C16_remainder_full.
Proof. exact remainder_refuted. Qed.

(* "no tokens are lost": every credit is still credited or was paid out.  REFUTED by the dust only (known
   finding C16-allocation-dust); the second way to lose a credit - a failing FundCommunityPool in the
   zero-power branch - was fixed in /repo commit 2504227 and is now a positive theorem below. *)
Definition C16_lossless_full : Prop := forall s0 ops, initial s0 -> Forall wf_op ops -> forall c d,
  let m := pm (prov (run_ops s0 ops)) in
  get (c, d) (g_cred m) = get (c, d) (alloc m) + get (c, d) (g_pv m) + get (c, d) (g_pc m).

Theorem C16_lossless_refuted : ~ C16_lossless_full.
Proof. exact lossless_refuted. Qed.

(* what holds: after any history no credit was dropped without payment, i.e. credited = still credited +
   paid to validators + paid to the community pool + dust, exactly *)
Theorem C16_lossless_partial : forall s0 ops, initial s0 -> forall c d,
  let m := pm (prov (run_ops s0 ops)) in
  get (c, d) (g_forf m) = 0 /\
  get (c, d) (g_cred m) = get (c, d) (alloc m) + get (c, d) (g_pv m) + get (c, d) (g_pc m) + get (c, d) (g_dust m).
Proof. exact no_forfeit. Qed.

(* fix 2504227: with no eligible voting power, a FundCommunityPool that fails (injected fault, or the pool does
   not hold the truncated credit) makes the allocation for that consumer and denom a no-op: credit, balances,
   community pool and rewards are all unchanged *)
Theorem C16_failed_community_funding_keeps_credit : forall env f c d m,
  total_power (epochs f * bpe f) (b_h env) (lookup_list c (valsets f)) = 0 ->
  let toSend := dtrunc_int (get (c, d) (alloc m)) in
  (toSend <> 0 /\ memz d (b_fail_fund env) = true) \/ get (POOL, d) (bank m) < toSend ->
  alloc_body env f c d m = None /\ alloc_one env f c m d = m.
Proof. exact fund_failure_keeps_credit. Qed.

Theorem C16_lossless_refuted_by_dust : exists s0 ops c d, initial s0 /\ Forall wf_op ops /\
  let m := pm (prov (run_ops s0 ops)) in
  get (c, d) (g_cred m) - (get (c, d) (alloc m) + get (c, d) (g_pv m) + get (c, d) (g_pc m)) = 1000000.
Proof. exact lossless_refuted_dust. Qed.

(* ---- non-vacuity *)
(* the history that used to forfeit the credit (no validators, FundCommunityPool failing): now the 1000 coins
   stay credited; and the PRE-FIX model (alloc_body_prefix, not used by run) on the same state drops the credit *)
Example C16_ex_no_forfeit :
  let m := pm (prov (run_ops w_init w_forfeit_ops)) in
  Forall wf_op w_forfeit_ops /\ get (0, 0) (alloc m) = 1000 * P /\ get (POOL, 0) (bank m) = 1000 /\ get (0, 0) (g_forf m) = 0.
Proof. split; [exact w_forfeit_wf|]. vm_compute. repeat split; reflexivity. Qed.

Example C16_ex_prefix_forfeit :
  exists m', alloc_body_prefix (w_env 5 [0]) w_conf 0 0 w_forfeit_pre = Some m' /\
    get (0, 0) (alloc w_forfeit_pre) = 1000 * P /\ get (0, 0) (alloc m') = 0 /\ get (0, 0) (g_forf m') = 1000 * P /\
    get (POOL, 0) (bank m') = 1000 /\ cpool m' = cpool w_forfeit_pre /\ outst m' = outst w_forfeit_pre.
Proof. exact w_forfeit_prefix_values. Qed.

(* the dust witness: 3 validators of power 1, 10^6 coins: 3 * 333333.333333333333 recorded, 10^-12 coin of dust *)
Example C16_ex_dust :
  let m := pm (prov (run_ops w_init w_dust_ops)) in
  initial w_init /\ Forall wf_op w_dust_ops /\
  get (DISTR, 0) (bank m) = 1000000 /\ total 0 (outst m) = 999999999999999999000000 /\ get (0, 0) (g_dust m) = 1000000.
Proof. split; [exact w_initial|]. split; [exact w_dust_wf|]. vm_compute. repeat split; reflexivity. Qed.

(* an end-to-end history: fees 1001 at fraction 0.75 -> 750 / 251; 251 sent, received and credited; height 4,
   threshold 2: validators 0 (join 0) and 1 (join 2) eligible with powers 5 and 3, validator 2 (join 9) not;
   tax 2%: 245 coins -> 153.125 and 91.875, 5 to the community pool, 1.0 stays credited; validator 1's
   per-consumer commission 0.5 *)
Example C16_ex_end_to_end :
  initial x_init /\
  map csnap (chains x_fin) =
    [TL [of_zs [0; 0; 0]; of_zs [750; 57; 0]; of_zs [0; 20; 0]; of_zs [251; 0; 0]; TI 2; TL []]] /\
  get (1, 1) (outst (pm (prov x_fin))) = 91875000000000000000 /\
  get (1, 1) (comm (pm (prov x_fin))) = 45937500000000000000 /\
  get (2, 1) (outst (pm (prov x_fin))) = 0 /\
  get (0, 1) (cpool (pm (prov x_fin))) = 5000000000000000000 /\
  get (0, 1) (alloc (pm (prov x_fin))) = 1000000000000000000 /\
  length (log (pm (prov x_fin))) = 2%nat.
Proof. split; [repeat split; repeat constructor; vm_compute; congruence|]. vm_compute. repeat split; reflexivity. Qed.
