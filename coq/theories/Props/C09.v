(* Property C09: jail throttling bounds consumer-initiated jailing; bounced reports are retried.
   Theorems about Model/Throttle.v (provider slash meter run by harness/c09 TestDriver, consumer state machine
   run by harness/c09 TestConsumer); proofs in Proofs/ThrottleProofs.v.

   Provider: [pstep frac period s op], ops PBegin now total (BeginBlockCIS at block time [now] with staking's last
   total power [total]) and PRecv reach pow (a slash packet; reach = it passed validation / phase / membership, pow =
   effective power of the reported validator).  All theorems hold from an arbitrary state and for arbitrary op
   sequences (any arrival pattern from any number of consumers, any powers, any total-power changes).
   Consumer: [cstep delay s op] with ops CQueueSlash / CQueueVsc / CSend now fail / CAck kind res / CRecvVSC / CApply. *)
From Coq Require Import ZArith List Bool.
From ICS Require Import Base.Dec Base.Tree Model.Throttle Proofs.ThrottleProofs.
Import ListNotations.
Open Scope Z_scope.

(* ---- after every begin-block: meter <= current allowance, allowance >= 1 ---- *)
Theorem C09_meter_le_allowance : forall frac period init ops now total,
  0 <= frac -> 0 <= total ->
  let s := fold_left (pstep frac period) (ops ++ [PBegin now total]) init in
  meter s <= allowance frac total /\ 1 <= allowance frac total.
Proof. exact meter_le_allowance_run. Qed.

(* ---- a begin-block adds at most one allowance, and only when a replenishment is due; otherwise the meter can
        only be clamped down to the allowance ---- *)
Theorem C09_replenish_at_most_one : forall frac period now total s,
  meter (begin_block frac period now total s) - meter s <= (if due now s then allowance frac total else 0).
Proof. exact begin_block_increment. Qed.

Theorem C09_no_early_replenish : forall frac period now total s,
  due now s = false ->
  meter (begin_block frac period now total s) = Z.min (meter s) (allowance frac total).
Proof. exact begin_block_not_due. Qed.

(* ---- two replenishments are at least one period apart (block times non-decreasing, starting at t0):
        the replenishment times x1, x2, ... of any run satisfy x1 >= min(candidate, t0+period), x(k+1) >= xk + period ---- *)
Theorem C09_replenish_spacing : forall frac period s ops t0,
  0 <= period -> mono t0 (ptimes ops) ->
  spaced_from period (Z.min (cand s) (t0 + period)) (replenish_times frac period s ops).
Proof. exact replenish_spacing_run. Qed.

(* ---- a packet is handled (power deducted) only with a non-negative meter; otherwise it is bounced ---- *)
Theorem C09_handle_only_nonneg : forall s reach pow,
  presult s (PRecv reach pow) = 2 <-> reach = true /\ 0 <= meter s.
Proof. exact handled_iff. Qed.

Theorem C09_bounce_iff_negative : forall s reach pow,
  presult s (PRecv reach pow) = 3 <-> reach = true /\ meter s < 0.
Proof. exact bounced_iff. Qed.

Theorem C09_deduct_iff_handled : forall frac period s reach pow,
  pstep frac period s (PRecv reach pow) =
  if presult s (PRecv reach pow) =? 2 then mkP (meter s - pow) (cand s) else s.
Proof. exact recv_effect. Qed.

(* ---- window bound: from ANY point s of any run, over ANY continuation ops: the power deducted (D) is at most
        max(0, meter at the start + allowances of the replenishments that happened (R)) + the power of the last
        validator handled (L); a_st is the real state reached ---- *)
Theorem C09_window : forall frac period s ops,
  0 <= frac -> Forall pop_ok ops ->
  let w := pwindow frac period s ops in
  a_D w <= Z.max 0 (meter s + a_R w) + a_L w /\ a_st w = fold_left (pstep frac period) ops s.
Proof. exact window_bound. Qed.

(* ---- consumer: while a slash packet is in flight or bounced-and-waiting nothing is sent, except the retry of that
        very packet (head of the queue) strictly after sendTime + retry delay, which puts it in flight again ---- *)
Theorem C09_no_send_while_waiting : forall delay ch ops op w t,
  let s := fold_left (cstep delay) ops (cinit ch) in
  srec s = Some (w, t) ->
  csent delay s op = [] \/
  (w = false /\ exists now fail p rest,
     op = CSend now fail /\ t + delay < now /\ queue s = p :: rest /\ is_slash p = true /\
     csent delay s op = [p] /\
     queue (cstep delay s op) = queue s /\ srec (cstep delay s op) = Some (true, now)).
Proof. exact no_send_while_waiting_run. Qed.

(* in any state whatsoever: waiting, or not later than sendTime + delay => EndBlock sends nothing and changes nothing *)
Theorem C09_retry_after_delay : forall delay s now fail w t,
  srec s = Some (w, t) -> (w = true \/ now <= t + delay) ->
  csent delay s (CSend now fail) = [] /\ cstep delay s (CSend now fail) = s.
Proof. exact no_send_while_blocked. Qed.

(* only EndBlock's SendPackets hands packets to IBC *)
Theorem C09_only_send_sends : forall delay s op,
  (forall now fail, op <> CSend now fail) -> csent delay s op = [].
Proof. exact csent_only_send. Qed.

(* a slash record exists only while a slash packet is at the head of the queue *)
Theorem C09_record_implies_head_slash : forall delay ch ops,
  let s := fold_left (cstep delay) ops (cinit ch) in
  match srec s with
  | None => True
  | Some _ => match queue s with p :: _ => is_slash p = true | [] => False end
  end.
Proof. exact reach_inv1. Qed.

(* ---- FIFO, no drop, no duplicate: for every history in which IBC delivers at most one acknowledgement per sent slash
        packet (wf_acks) and queued packet ids are distinct: everything ever enqueued = consumed ++ current queue, and the
        sequence of distinct packets handed to IBC (re-sends collapsed) = consumed ++ (the in-flight head, if any).
        Hence packets leave in queue order, each consumed packet was sent, nothing is sent twice except the retries of the
        in-flight slash packet, and nothing leaves the queue unsent. ---- *)
Theorem C09_fifo_no_drop_no_dup : forall delay ch ops,
  wf_acks delay (cinit ch) ops = true ->
  let g := grun delay (mkG (cinit ch) [] []) ops in
  NoDup (map p_id (g_enq g)) ->
  exists consumed,
    g_enq g = consumed ++ queue (g_s g) /\
    collapse (g_sent g) = map p_id consumed ++
                          (match srec (g_s g) with Some _ => firstn 1 (map p_id (queue (g_s g))) | None => [] end).
Proof. exact fifo_run. Qed.

Theorem C09_ghost_state : forall delay ops g, g_s (grun delay g ops) = fold_left (cstep delay) ops (g_s g).
Proof. exact grun_state. Qed.

(* a slash packet leaves the queue only by a v1 / handled acknowledgement of a slash packet (any state, any op) *)
Theorem C09_slash_never_dropped : forall delay s op p,
  In p (queue s) -> is_slash p = true ->
  (forall kind res, op = CAck kind res -> kind = 2 \/ (res <> 1 /\ res <> 2) \/ res = 4 \/ res = 6) ->
  In p (queue (cstep delay s op)).
Proof. exact slash_stays. Qed.

(* ---- non-vacuity ---- *)
Example C09_ex_allowance :
  allowance 50000000000000000 100 = 5 /\ allowance 50000000000000000 6 = 1 /\ allowance 500000000000000000 5 = 2
  /\ allowance 500000000000000000 7 = 4 /\ allowance 0 1000 = 1.
Proof. vm_compute. repeat split. Qed.

Example C09_ex_run :
  let ops := [PRecv true 7; PRecv true 3; PBegin 10 100; PBegin 3600 100; PRecv true 2; PBegin 7200 100; PBegin 7201 100] in
  map (fun o => tz (tnth 1 o)) (prun 50000000000000000 3600 (mkP 5 3600) ops) = [-2; -2; -2; 3; 1; 5; 5] /\
  replenish_times 50000000000000000 3600 (mkP 5 3600) ops = [3600; 7200] /\
  a_D (pwindow 50000000000000000 3600 (mkP 5 3600) ops) = 9.
Proof. vm_compute. repeat split. Qed.

Example C09_ex_retry :
  let ops := [CQueueVsc 1; CQueueSlash 7 2 true; CQueueVsc 3; CSend 100 None; CAck 1 3; CSend 105 None;
              CSend 106 None; CAck 1 2; CSend 107 None] in
  wf_acks 5 (cinit true) ops = true /\
  g_sent (grun 5 (mkG (cinit true) [] []) ops) = [1; 2; 2; 3] /\
  collapse (g_sent (grun 5 (mkG (cinit true) [] []) ops)) = [1; 2; 3] /\
  queue (g_s (grun 5 (mkG (cinit true) [] []) ops)) = [].
Proof. vm_compute. repeat split. Qed.
