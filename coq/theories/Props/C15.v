(* Property C15: the provider's own consensus set is the top-M bonded validators.
   Theorems about Model/ProviderConsensus.v (the model the correspondence driver runs); proofs are in
   Proofs/ProviderConsensusProofs.v.

   Vocabulary:
     oracle      the staking module's GetBondedValidatorsByPower list at the moment of the call (consensus address,
                 provider key, last power, bonded tokens), any length; M = MaxProviderConsensusValidators at that moment
     first_m oracle M       = the first min(M, length oracle) entries of the oracle list
     wf_oracle oracle       = distinct addresses, distinct keys, positive last powers (what staking guarantees;
                              checked on every implementation snapshot by the monitor, clause 7)
     history g M0 rest      = InitGenesis on oracle list g with parameter M0, then the ops of [rest]: blocks (each with its
                              own oracle list and its own M: governance may change M between any two blocks) and view queries
     run_sys ops            = (recorded set in store order, consensus engine's key -> power set after applying every
                              returned update in order; power 0 removes a key) *)
From Coq Require Import ZArith List Bool Permutation Sorted.
From ICS Require Import Base.Dec Base.Tree Model.ProviderConsensus Proofs.ProviderConsensusProofs.
Import ListNotations.
Open Scope Z_scope.

(* after ProviderValidatorUpdates, from ANY previously recorded set, the recorded set is exactly the first
   min(M, bonded) validators of the oracle list with their provider keys and last powers (CreateProviderConsensusValidator
   uses GetLastValidatorPower), stored in address order *)
Theorem C15_recorded_is_topM : forall (s : state) oracle M,
  NoDup (map s_addr oracle) ->
  let s' := fst (step s (Block oracle M)) in
  Permutation s' (map create_pcv (first_m oracle M)) /\ addr_sorted s'.
Proof. exact recorded_is_topM. Qed.

(* the same for InitGenesisValUpdates, whose returned updates are those validators themselves *)
Theorem C15_genesis_is_topM : forall (s : state) oracle M,
  NoDup (map s_addr oracle) ->
  let r := step s (Genesis oracle M) in
  Permutation (fst r) (map create_pcv (first_m oracle M)) /\ addr_sorted (fst r) /\
  snd r = map (fun v => (s_key v, s_pow v)) (first_m oracle M).
Proof. exact genesis_is_topM. Qed.

(* the updates returned by a block are DiffValidators(previously recorded set, new top-M) *)
Theorem C15_updates_are_diff : forall (s : state) oracle M,
  snd (step s (Block oracle M)) = diff_validators s (map create_pcv (first_m oracle M)).
Proof. exact block_updates. Qed.

(* after every history the engine's set IS the recorded set: same power for every key, and the same
   (key, power) pairs *)
Theorem C15_engine_eq_recorded : forall g M0 rest,
  wf_oracle g -> Forall wf_op rest ->
  let x := run_sys (history g M0 rest) in
  (forall k, eng_lookup (snd x) k = rec_lookup (fst x) k) /\
  Permutation (snd x) (map (fun v => (p_key v, p_pow v)) (fst x)).
Proof. exact engine_eq_recorded. Qed.

(* neither the recorded set nor the engine's set ever exceeds the M in force at the last block *)
Theorem C15_size : forall g M0 rest,
  wf_oracle g -> Forall wf_op rest -> 0 <= M0 ->
  Forall (fun o => match o with Block _ M => 0 <= M | _ => True end) rest ->
  let x := run_sys (history g M0 rest) in
  Z.of_nat (length (fst x)) <= last_M M0 rest /\ Z.of_nat (length (snd x)) <= last_M M0 rest.
Proof. exact size_history. Qed.

(* the staking views exposed to gov/mint: IterateBondedValidatorsByPower visits exactly the first min(M, bonded)
   validators of the staking iteration, i.e. the validators ProviderValidatorUpdates records for the same
   oracle list; TotalBondedTokens is the sum of their bonded tokens and BondedRatio that sum over the
   (unrestricted) staking token supply, truncated at 18 decimals *)
Theorem C15_views : forall oracle M supply,
  iterate_bonded M 0 oracle = first_m oracle M /\
  map s_addr (iterate_bonded M 0 oracle) = map p_addr (top_m oracle M) /\
  total_bonded oracle M = sum_tok (first_m oracle M) /\
  bonded_ratio oracle M supply = (if 0 <? supply then Z.quot (sum_tok (first_m oracle M) * P) supply else 0).
Proof. exact views. Qed.

(* ---- non-vacuity: genesis with M = 2 over three validators, then a validator crosses the boundary, then M grows ---- *)
Example C15_ex_history :
  let g := [mkS 30 1000 5 5000000; mkS 10 1001 3 3000000; mkS 20 1002 2 2000000] in
  let b1 := [mkS 30 1000 5 5000000; mkS 20 1002 4 4000000; mkS 10 1001 3 3000000] in
  let rest := [Block b1 2; Views b1 2 20000000; Block b1 3] in
  wf_oracle g /\ Forall wf_op rest /\
  snd (step (fst (run_sys (history g 2 []))) (Block b1 2)) = [(1001, 0); (1002, 4)] /\
  run_sys (history g 2 rest) =
    ([mkP 10 1001 3; mkP 20 1002 4; mkP 30 1000 5], [(1001, 3); (1002, 4); (1000, 5)]) /\
  total_bonded b1 2 = 9000000 /\ bonded_ratio b1 2 20000000 = 450000000000000000.
Proof.
  cbv zeta. split; [|split; [|vm_compute; repeat split; reflexivity]].
  - unfold wf_oracle. split; [|split]; simpl; repeat constructor; simpl; intuition discriminate.
  - repeat constructor; unfold wf_op, wf_oracle; simpl; repeat split; repeat constructor; simpl; intuition discriminate.
Qed.
