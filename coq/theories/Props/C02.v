(* Property C02: only eligible bonded provider validators secure a consumer, at provider power.
   Theorems about Model/Eligibility.v (the model the correspondence driver runs); proofs are in
   Proofs/EligibilityProofs.v.

   Vocabulary (Proofs/EligibilityProofs.v):
     oracle      the staking module's GetBondedValidatorsByPower list: bonded, not jailed, in power-index order;
                 entries (validator id, bonded tokens, last power, provider key); any length
     maxv, M     staking MaxValidators, provider MaxProviderConsensusValidators; height: the block height
     c, mp       the consumer as stored BEFORE the computation (parameters, opt-in index, key assignments,
                 previous stored set) and the result of ComputeMinPowerInTopN (oracle of this slice; C03)
     next_set oracle maxv M height c mp
                 the set ComputeConsumerNextValSet computes and stores (code as of commit "fix: consumers that
                 disallow inactive validators draw candidates from the provider's active set")
     opted_or_topn c mp v := v opted in, or (top_n > 0 and last power of v >= mp)
     lists_ok c v         := (allowlist empty or v listed) and v not denylisted
     stake_ok c v         := min_stake = 0 or bonded tokens of v >= min_stake
     candidates           := first M of oracle, or first maxv of oracle if the consumer allows inactive validators
   The only hypothesis is that validator ids in the oracle list are distinct (checked on every
   implementation snapshot by the monitor, clause 12).  All statements hold for EVERY consumer state and
   oracle list, hence for every reachable one; C02_epoch_is_next_set ties them to the state machine. *)
From Coq Require Import ZArith List Bool Permutation.
From ICS Require Import Base.SortDesc Base.Tree Model.PowerCap Model.Eligibility Proofs.EligibilityProofs.
Import ListNotations.
Open Scope Z_scope.

(* every member is a validator of the bonded list, opted in or required by Top-N, allowed by the lists and the
   minimum stake; without a power cap its power is its provider (last) power; its key is the assigned key if
   any, else the provider key; a previous member keeps its join height *)
Theorem C02_sound : forall oracle maxv M height c mp x,
  NoDup (map s_id oracle) ->
  In x (next_set oracle maxv M height c mp) ->
  exists v, In v oracle /\ s_id v = c_id x /\
    opted_or_topn c mp v /\ lists_ok c v /\ stake_ok c v /\
    (power_cap (cfg c) = 0 -> c_pow x = s_pow v) /\
    c_key x = expected_key c v /\
    c_height x = expected_height height c v.
Proof. exact sound. Qed.

(* unless inactive validators are allowed, every member is among the first M of the oracle list, i.e. in the
   provider's own active set.  In full: no hypothesis about ties, none about distinctness. *)
Theorem C02_active : forall oracle maxv M height c mp x,
  allow_inactive (cfg c) = false ->
  In x (next_set oracle maxv M height c mp) ->
  exists v, In v (firstn (Z.to_nat M) oracle) /\ s_id v = c_id x.
Proof. exact active_only. Qed.

(* with no validator-set cap (or for a Top-N consumer, where the cap does not apply) every candidate
   meeting all conditions is a member *)
Theorem C02_complete : forall oracle maxv M height c mp v,
  set_cap (cfg c) = 0 \/ 0 < top_n (cfg c) ->
  In v (candidates oracle maxv M c) ->
  opted_or_topn c mp v -> lists_ok c v -> stake_ok c v ->
  exists x, In x (next_set oracle maxv M height c mp) /\ c_id x = s_id v.
Proof. exact complete. Qed.

Theorem C02_no_dup : forall oracle maxv M height c mp,
  NoDup (map s_id oracle) -> NoDup (map c_id (next_set oracle maxv M height c mp)).
Proof. exact no_dup. Qed.

(* QueueVSCPackets / BeginBlockLaunchConsumers hand the same two slices to every consumer and
   ComputeNextValidators sorts them in place: the set computed for a consumer (and what the consumer stores,
   up to the order of its opt-in index) does not depend on which consumers [cs] were processed before it *)
Theorem C02_shared_slice : forall M height cs c mp sl,
  snd (fst (compute_consumer_next_valset M height c mp (thread M height cs sl))) =
  snd (fst (compute_consumer_next_valset M height c mp sl)) /\
  same_view (fst (fst (compute_consumer_next_valset M height c mp (thread M height cs sl))))
            (fst (fst (compute_consumer_next_valset M height c mp sl))).
Proof. exact shared_slice. Qed.

(* in the state machine run by the driver: after an epoch, in any state (hence after any history), the stored
   set of every launched consumer is [next_set] of that epoch's oracle list and of its own state before the
   epoch, whatever its position among the consumers; the other consumers are untouched *)
Theorem C02_epoch_is_next_set : forall (s : state) height oracle maxv M mp (i : nat),
  (i < length s)%nat -> launched (nth i s empty_consumer) = true ->
  valset (nth i (step s (Epoch height oracle maxv M mp)) empty_consumer) =
  next_set oracle maxv M height (nth i s empty_consumer) (nth i mp 0).
Proof. exact epoch_is_next_set. Qed.

Theorem C02_epoch_frame : forall (s : state) height oracle maxv M mp (i : nat),
  launched (nth i s empty_consumer) = false ->
  nth i (step s (Epoch height oracle maxv M mp)) empty_consumer = nth i s empty_consumer.
Proof. exact epoch_frame. Qed.

(* BeginBlockLaunchConsumers: a consumer due in this block (at any position of the due list) is launched iff it was
   not launched, its [next_set] is not empty and contains a validator of the provider's active set; its stored set
   is then that [next_set]; otherwise nothing about it changes (LaunchConsumer ran on a cached context) *)
Theorem C02_launch_is_next_set : forall (s : state) height oracle maxv M due i mp,
  NoDup (map fst due) -> In (i, mp) due -> 0 <= i < Z.of_nat (length s) ->
  let c := get s i in
  let nx := next_set oracle maxv M height c mp in
  let c' := get (step s (Launch height oracle maxv M due)) i in
  if launch_cond nx c (firstn (Z.to_nat M) oracle)
  then launched c' = true /\ valset c' = nx /\ cfg c' = cfg c /\ keys c' = keys c
  else c' = c.
Proof. exact launch_is_next_set. Qed.

Theorem C02_launch_frame : forall (s : state) height oracle maxv M due i,
  0 <= i -> ~ In i (map fst due) -> get (step s (Launch height oracle maxv M due)) i = get s i.
Proof. exact launch_frame. Qed.

(* regression for the repaired defect (DESIGN.md 9.1): the computation as it was before the fix admits a
   member outside the provider's active set on the tie witness *)
Theorem C02_active_refuted_prefix_bug :
  exists oracle maxv M height c mp x,
    NoDup (map s_id oracle) /\ allow_inactive (cfg c) = false /\
    In x (next_set_prefix_bug oracle maxv M height c mp) /\
    ~ exists v, In v (firstn (Z.to_nat M) oracle) /\ s_id v = c_id x.
Proof. exact active_refuted_prefix_bug. Qed.

(* ---- non-vacuity ---- *)

(* the tie witness: four validators, v0 power 10, v1..v3 power 1 with v3 holding more tokens, M = 2, opt-in
   consumer with everybody opted in and inactive validators disallowed *)
Example C02_ex_tie_fixed :
  NoDup (map s_id tie_oracle) /\
  next_set tie_oracle 100 2 5 tie_consumer 0 = [mkC 0 1000 10 5; mkC 1 1001 1 5] /\
  map c_id (next_set_prefix_bug tie_oracle 100 2 5 tie_consumer 0) = [0; 3].
Proof. split; [|vm_compute; split; reflexivity]. vm_compute. repeat constructor; simpl; intuition discriminate. Qed.

(* a Top-N consumer allowing inactive validators, with a denylist, a minimum stake, an assigned key, a
   previous member and a power cap: v2 is not active (M = 2) but has the threshold power *)
Example C02_ex_topn :
  let oracle := [mkS 7 5000000 5 1007; mkS 4 3000001 3 1004; mkS 9 3000000 3 1009; mkS 2 1000000 1 1002] in
  let c := mkCons (mkCfg 60 0 0 2000000 true [] [7] []) [2] [(9, 2001)] [mkC 9 2001 3 3] true in
  next_set oracle 100 2 8 c 3 = [mkC 4 1004 3 8; mkC 9 2001 3 3] /\
  opted (fst (fst (compute_consumer_next_valset 2 8 c 3 (mk_slices oracle 100 2)))) = [2; 7; 4].
Proof. vm_compute. split; reflexivity. Qed.

(* two consumers on the same slices: the second one sees token-sorted slices and computes the same set *)
Example C02_ex_shared :
  let oracle := [mkS 0 2000000 2 1000; mkS 1 1000000 1 1001; mkS 2 1900000 1 1002] in
  let c := mkCons (mkCfg 0 2 0 0 true [] [] []) [0; 1; 2] [] [] true in
  thread 3 1 [(c, 0)] (mk_slices oracle 100 3) <> mk_slices oracle 100 3 /\
  map c_id (snd (fst (compute_consumer_next_valset 3 1 c 0 (thread 3 1 [(c, 0)] (mk_slices oracle 100 3))))) = [0; 2].
Proof. vm_compute. split; [discriminate|reflexivity]. Qed.
