(* C05 - a consumer consensus key never belongs to two validators.
   Statements are about Model/KeyAssign.v (the model the correspondence driver runs): every state is
   [exec ops (init U)] for an arbitrary action sequence [ops] and unbonding period [U]; inside a consumer a
   validator is named by its provider consensus key P (that is how the provider store is keyed). *)
From Coq Require Import ZArith List Bool.
From ICS Require Import Base.Tree Model.KeyAssign Proofs.KeyAssignProofs.
Import ListNotations.
Open Scope Z_scope.

(* one key, at most one validator - on every active (registered / initialized / launched) consumer, counting
   current assignments, by-address entries (incl. keys awaiting pruning) and provider keys of existing validators *)
Theorem C05_injective : forall U ops c k P1 P2,
  let s := exec ops (init U) in
  is_active (c_phase (getc s c)) = true -> assoc s c k P1 -> assoc s c k P2 -> P1 = P2.
Proof. intros U ops c k P1 P2. exact (injective_active _ c k P1 P2 (reach_sinv U ops)). Qed.

(* the same in terms of staking operators *)
Theorem C05_injective_validators : forall U ops c k o1 o2 P1 P2,
  let s := exec ops (init U) in
  is_active (c_phase (getc s c)) = true ->
  reg_by_oper o1 (s_reg s) = Some P1 -> reg_by_oper o2 (s_reg s) = Some P2 ->
  assoc s c k P1 -> assoc s c k P2 -> o1 = o2.
Proof. intros U ops c k o1 o2 P1 P2. exact (injective_operators _ c k o1 o2 P1 P2 (reach_sinv U ops)). Qed.

(* The statement including STOPPED (not yet deleted) consumers is FALSE for the faithful model:
   ValidatorConsensusKeyInUse only inspects active consumers, so a validator can be created with a key that a
   stopped consumer still attributes to somebody else. *)
Definition C05_injective_full : Prop := forall U ops c k P1 P2,
  let s := exec ops (init U) in
  is_active (c_phase (getc s c)) = true \/ c_phase (getc s c) = 4 ->
  assoc s c k P1 -> assoc s c k P2 -> P1 = P2.
Theorem C05_injective_refuted : ~ C05_injective_full.
Proof. exact not_injective_incl_stopped. Qed.
Theorem C05_injective_refuted_witness :
  let s := exec witness_ops (init 1000) in
  c_phase (getc s 0) = 4 /\ assoc s 0 5 0 /\ assoc s 0 5 5 /\
  snd (step (exec (removelast witness_ops) (init 1000)) (OCreateVal 1 5)) = 0.
Proof. exact stopped_witness. Qed.
(* what does hold in every phase (stopped included): the consumer's own stores never attribute a key to two validators *)
Theorem C05_injective_partial : forall U ops c k P1 P2,
  let s := exec ops (init U) in assoc_store s c k P1 -> assoc_store s c k P2 -> P1 = P2.
Proof. intros U ops c k P1 P2. exact (injective_store _ c k P1 P2 (reach_sinv U ops)). Qed.

(* an assignment (MsgAssignConsumerKey or MsgOptIn with key) of a key that is another validator's provider key, some
   validator's current key on c, a key awaiting pruning on c, any key known by address on c, or the validator's own
   provider key without a previous assignment, fails and changes nothing *)
Theorem C05_reject_unchanged : forall U ops c o k sok,
  let s := exec ops (init U) in
  must_reject s c o k ->
  (fst (step s (OAssign c o k sok)) = s /\ snd (step s (OAssign c o k sok)) <> 0) /\
  (fst (step s (OOptIn c o (Some k) sok)) = s /\ snd (step s (OOptIn c o (Some k) sok)) <> 0).
Proof.
  intros U ops c o k sok s H.
  exact (conj (reject_assign s c o k sok (reach_sinv U ops) H) (reject_optin s c o k sok (reach_sinv U ops) H)).
Qed.

(* any failing action leaves the whole state unchanged *)
Theorem C05_failure_changes_nothing : forall s a, snd (step s a) <> 0 -> fst (step s a) = s.
Proof. exact step_err_unchanged. Qed.

(* a validator cannot be created with a consensus key known (by address, as current key, or awaiting pruning)
   on any active consumer *)
Theorem C05_create_validator_rejected : forall U ops o key c,
  let s := exec ops (init U) in
  is_active (c_phase (getc s c)) = true -> known_on (getc s c) key ->
  fst (step s (OCreateVal o key)) = s /\ snd (step s (OCreateVal o key)) <> 0.
Proof. intros U ops o key c. exact (reject_create _ o key c (reach_sinv U ops)). Qed.

(* the documented store invariant *)
Theorem C05_store_invariant : forall U ops c k P,
  let s := exec ops (init U) in
  lookup k (c_byaddr (getc s c)) = Some P ->
  lookup P (c_assigned (getc s c)) = Some k \/ In k (map snd (c_toprune (getc s c))).
Proof. intros U ops c k P. exact (store_invariant _ c k P (reach_sinv U ops)). Qed.

(* ---- non-vacuity ---- *)
Definition ex_ops : list op :=
  [OCreateVal 0 0; OCreateVal 1 1; ORegister; OInitialize 0; OLaunch 0;
   OAssign 0 0 5 true; OAssign 0 0 6 true; OAssign 0 1 7 true].

(* an active consumer on which all three kinds of association occur *)
Example C05_injective_nonvacuous :
  let s := exec ex_ops (init 1000) in
  is_active (c_phase (getc s 0)) = true /\ assoc s 0 6 0 /\ assoc s 0 5 0 /\ assoc s 0 1 1 /\
  lookup 5 (c_byaddr (getc s 0)) = Some 0 /\ c_toprune (getc s 0) = [(1000, 5)].
Proof.
  split; [reflexivity|]. split; [left; reflexivity|]. split; [right; left; reflexivity|].
  split; [|split; reflexivity]. right. right. split; [reflexivity|]. vm_compute. discriminate.
Qed.

(* each rejection reason occurs, with the error the implementation returns *)
Example C05_reject_nonvacuous :
  let s := exec ex_ops (init 1000) in
  must_reject s 0 1 0 /\ snd (step s (OAssign 0 1 0 true)) = E_INUSE /\        (* another validator's provider key *)
  must_reject s 0 1 6 /\ snd (step s (OAssign 0 1 6 true)) = E_INUSE /\        (* another validator's current key *)
  must_reject s 0 1 5 /\ snd (step s (OAssign 0 1 5 true)) = E_INUSE /\        (* a key awaiting pruning *)
  snd (step (exec [OCreateVal 0 0; ORegister] (init 1000)) (OAssign 0 0 0 true)) = E_DEFAULT /\
  snd (step s (OAssign 0 1 1 true)) = 0.                                       (* own provider key after an assignment *)
Proof.
  vm_compute. repeat split; try reflexivity.
  - left. exists 0. split; [reflexivity|discriminate].
  - right. left. exists 0. reflexivity.
  - right. right. left. left. reflexivity.
Qed.

Example C05_create_validator_nonvacuous :
  let s := exec ex_ops (init 1000) in
  known_on (getc s 0) 5 /\ snd (step s (OCreateVal 2 5)) = E_HOOK /\ snd (step s (OCreateVal 2 8)) = 0.
Proof. vm_compute. repeat split; try reflexivity. left. discriminate. Qed.
