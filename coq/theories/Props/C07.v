(* Property C07 (PARTIAL): equivocation evidence punishes exactly the signer, and only when valid.
   Theorems about Model/Evidence.v (the model the correspondence driver runs); proofs in
   Proofs/EvidenceProofs.v.  Everything is stated for ARBITRARY states (any validator table, any consumers,
   any key tables) and arbitrary evidence; the *_once theorems for arbitrary op sequences.

   PARTIAL because cryptographic validity is an ORACLE: dv_sigA / dv_sigB (chain ids over which a vote's
   signature verifies under the supplied key), g_ok (verifyLightBlockCommitSig), mb_cfm / mb_vcm (the
   07-tendermint light client) and the structural bits of the evidence are universally quantified inputs.
   That Ed25519 / the light client accept exactly the valid objects is exercised by the driver (real
   signatures, every single-field mutation), not proved.

   step s o = (state, result class, dirty, extra);  code = 0 <=> accepted;  st = resulting state.
   getv s p = staking/slashing record of the validator with provider address p (None: unknown to staking).
   dv_target s e = GetProviderAddrFromConsumerAddr(consumer, VoteA.ValidatorAddress). *)
From Coq Require Import ZArith List Bool.
From ICS Require Import Base.Dec Base.Tree Model.Evidence Proofs.EvidenceProofs.
Import ListNotations.
Open Scope Z_scope.

(* ---- "only when valid": a double-voting submission is accepted IFF the consumer has a client, the evidence
   is not older than its minimum height (equal is accepted), the supplied key hashes to the vote address,
   same height/round/type, same address, different block ids, BOTH signatures verify over THAT CONSUMER's
   chain id, (message entry: ValidateBasic incl. block-id order, the key is found in the supplied validator
   set), and the resolved validator exists, is not unbonded, not tombstoned (and has a signing info). ---- *)
Theorem C07_accept_iff : forall s entry e,
  code (step s (ODV entry e)) = 0 <->
  (exists c cl chain ds,
    getc s (dv_cons e) = Some c /\ c_client c = Some cl /\ c_minh c <= dv_height e /\
    c_chain c = Some chain /\
    (entry = 0 -> dv_vb_ok e = true /\ dv_bid_cmp e < 0 /\ dv_valset_ok e = true /\ dv_key_in_valset e = true) /\
    (entry <> 0 -> dv_key_present e = true) /\
    dv_key_addr_ok e = true /\ dv_hrt_eq e = true /\ dv_addr_eq e = true /\ dv_bid_cmp e <> 0 /\
    In chain (dv_sigA e) /\ In chain (dv_sigB e) /\ c_ds c = Some ds) /\
  (exists v, getv s (dv_target s e) = Some v /\ v_status v <> UNBONDED /\ v_tomb v = false /\ v_sinfo v = true).
Proof. exact dv_accept_iff. Qed.

(* misbehaviour: accepted IFF CheckMisbehaviour's conditions hold (chain id, client id, equal heights, minimum
   height, both light-client verdicts), GetByzantineValidators succeeds with list l, and at least one l-member
   resolves to a validator passing the guards (and none of those lacks a signing info: that would panic) *)
Theorem C07_accept_iff_misbehaviour : forall s entry m,
  code (step s (OMB entry m)) = 0 <->
  exists c ds l,
    (exists chain cl,
      getc s (mb_cons m) = Some c /\ c_chain c = Some chain /\ chain = mb_chain m /\
      c_client c = Some cl /\ cl = mb_client m /\ mb_heights_eq m = true /\ c_minh c <= mb_height m /\
      mb_cfm m = true /\ mb_vcm m = true /\ (entry = 0 -> mb_vb_ok m = true) /\
      get_byzantine m = Ok l /\ c_ds c = Some ds) /\
    (exists a, In a l /\ exists v, getv s (resolve c a) = Some v /\ guard_rec v = 0) /\
    (forall a, In a l -> ~ exists v, getv s (resolve c a) = Some v /\ guard_rec v = 0 /\ v_sinfo v = false).
Proof. exact mb_accept_iff. Qed.

Theorem C07_guard_spec : forall v, guard_rec v = 0 <-> v_status v <> UNBONDED /\ v_tomb v = false.
Proof. exact guard_rec_0. Qed.

(* ---- "exactly the signer": on acceptance only the record of resolve c (VoteA address) changes; block time,
   consumers and every other validator's record are EQUAL before and after ---- *)
Theorem C07_exact_signer : forall s entry e,
  code (step s (ODV entry e)) = 0 ->
  let s' := st (step s (ODV entry e)) in
  s_time s' = s_time s /\ s_cons s' = s_cons s /\ length (s_vals s') = length (s_vals s) /\
  forall i, i <> dv_target s e -> getv s' i = getv s i.
Proof. exact dv_exact_signer. Qed.

(* misbehaviour: validator i is punished exactly as often as a byzantine key resolves to it while its guards
   pass (punish_n; count_res counts the members of l resolving to i); nothing else changes *)
Theorem C07_exact_signer_misbehaviour : forall s entry m c ds l,
  code (step s (OMB entry m)) = 0 -> mb_conditions s entry m c ds l ->
  let s' := st (step s (OMB entry m)) in
  s_time s' = s_time s /\ s_cons s' = s_cons s /\ length (s_vals s') = length (s_vals s) /\
  forall i, getv s' i = option_map (punish_n (s_time s) ds (count_res c i l)) (getv s i).
Proof. exact mb_exact. Qed.

Theorem C07_frame_misbehaviour : forall s entry m c ds l i,
  code (step s (OMB entry m)) = 0 -> mb_conditions s entry m c ds l ->
  ~ (exists a, In a l /\ resolve c a = i /\ exists v, getv s i = Some v /\ guard_rec v = 0) ->
  getv (st (step s (OMB entry m))) i = getv s i.
Proof. exact mb_frame. Qed.

(* ---- "rejected changes nothing" (every op; rollback of the transaction) ---- *)
Theorem C07_reject_unchanged : forall s o, code (step s o) <> 0 -> st (step s o) = s.
Proof. exact reject_unchanged. Qed.

(* with signing infos for all validators a rejection never even wrote to staking before failing *)
Theorem C07_reject_wrote_nothing : forall s o,
  (forall p v, getv s p = Some v -> v_sinfo v = true) -> dirty (step s o) = false.
Proof. exact never_dirty. Qed.

(* ---- "consumer's double-sign parameters, counting unbonding and redelegating stake": the exact new record ---- *)
Theorem C07_power : forall s entry e,
  code (step s (ODV entry e)) = 0 ->
  exists c ds v,
    getc s (dv_cons e) = Some c /\ c_ds c = Some ds /\ dv_target s e = resolve c (dv_addr e) /\
    getv s (dv_target s e) = Some v /\
    getv (st (step s (ODV entry e))) (dv_target s e) =
      Some (mkV (v_status v) true (s_time s + ds_jail ds) (ds_tomb ds)
                (slash_tokens (ds_frac ds) (v_lastpow v + Z.quot (v_unb v + v_red v) PR) (v_tokens v))
                (v_lastpow v) (v_unb v) (v_red v) (v_sinfo v)
                (v_log v ++ [(v_lastpow v + Z.quot (v_unb v + v_red v) PR, ds_frac ds)])).
Proof. exact dv_power. Qed.

Theorem C07_power_misbehaviour : forall s entry m c ds l i a v,
  code (step s (OMB entry m)) = 0 -> mb_conditions s entry m c ds l ->
  In a l -> resolve c a = i -> getv s i = Some v -> guard_rec v = 0 ->
  exists v' more,
    getv (st (step s (OMB entry m))) i = Some v' /\ v_jailed v' = true /\
    v_log v' = v_log v ++ (v_lastpow v + Z.quot (v_unb v + v_red v) PR, ds_frac ds) :: more /\
    (ds_tomb ds = true ->
       v' = mkV (v_status v) true (s_time s + ds_jail ds) true
                (slash_tokens (ds_frac ds) (v_lastpow v + Z.quot (v_unb v + v_red v) PR) (v_tokens v))
                (v_lastpow v) (v_unb v) (v_red v) (v_sinfo v)
                (v_log v ++ [(v_lastpow v + Z.quot (v_unb v + v_red v) PR, ds_frac ds)])).
Proof. exact mb_punished. Qed.

(* ---- "at most once with tombstoning": an accepted submission under a tombstoning consumer tombstones its
   target; a tombstone survives EVERY op sequence; a tombstoned validator is never changed by any submission
   again and double-voting evidence resolving to it is rejected ---- *)
Theorem C07_tombstones : forall s entry e,
  code (step s (ODV entry e)) = 0 -> ds_tomb (ds_of s (dv_cons e)) = true ->
  tombstoned (st (step s (ODV entry e))) (dv_target s e).
Proof. exact dv_tombstones. Qed.

Theorem C07_tombstones_misbehaviour : forall s entry m c ds l a v,
  code (step s (OMB entry m)) = 0 -> mb_conditions s entry m c ds l -> ds_tomb ds = true ->
  In a l -> getv s (resolve c a) = Some v -> guard_rec v = 0 ->
  tombstoned (st (step s (OMB entry m))) (resolve c a).
Proof. exact mb_tombstones. Qed.

Theorem C07_once : forall s p ops,
  tombstoned s p ->
  let s2 := run_ops ops s in
  (forall o, is_evidence o -> getv (st (step s2 o)) p = getv s2 p) /\
  (forall entry e, dv_target s2 e = p -> code (step s2 (ODV entry e)) <> 0 /\ st (step s2 (ODV entry e)) = s2).
Proof. exact once. Qed.

(* within ONE misbehaviour a tombstoning consumer punishes a validator once however many keys resolve to it *)
Theorem C07_once_within_message : forall now ds k v,
  ds_tomb ds = true -> punishable v = true -> (1 <= k)%nat -> punish_n now ds k v = punished_rec now ds v.
Proof. exact punish_n_tomb. Qed.

(* ---- GetByzantineValidators: amnesia (no conflicting state transition AND different rounds) => nobody;
   otherwise exactly the addresses with a BlockIDFlagCommit signature (signed) in BOTH commits, all of whose signatures
   (header 1: the last one with that address) passed verifyLightBlockCommitSig ---- *)
Theorem C07_byzantine_set : forall m l,
  get_byzantine m = Ok l ->
  (mb_conflict m = false /\ mb_rounds_eq m = false -> l = []) /\
  (mb_conflict m = true \/ mb_rounds_eq m = true ->
     (forall a, In a l <->
        (exists e2, In e2 (mb_sigs2 m) /\ signed e2 = true /\ g_addr e2 = a) /\
        (exists e1, In e1 (mb_sigs1 m) /\ signed e1 = true /\ g_addr e1 = a)) /\
     (forall e2 e1, In e2 (mb_sigs2 m) -> signed e2 = true -> last_signer (g_addr e2) (mb_sigs1 m) = Some e1 ->
                    g_ok e1 = true /\ g_ok e2 = true)).
Proof. exact byzantine_set. Qed.

Theorem C07_byzantine_reject : forall m,
  mb_lb_ok m = true -> (mb_conflict m = true \/ mb_rounds_eq m = true) ->
  ((exists x, get_byzantine m = Err x) <->
   exists e2 e1, In e2 (mb_sigs2 m) /\ signed e2 = true /\ last_signer (g_addr e2) (mb_sigs1 m) = Some e1 /\
                 (g_ok e1 = false \/ g_ok e2 = false)).
Proof. exact byzantine_reject. Qed.

(* ---- clauses REFUTED by the faithful model (full statements are Definitions in Proofs/EvidenceProofs.v) ----
   (a) mb_all_signers_full: "every byzantine validator known to staking is punished": an unbonded (or already
       tombstoned) signer is skipped with `continue` while the others are punished and the message succeeds.
       Partial: C07_exact_signer_misbehaviour / C07_power_misbehaviour (exactly those whose guards pass). *)
Theorem C07_all_signers_refuted : ~ mb_all_signers_full.
Proof. exact mb_all_signers_refuted. Qed.

(* (b) FINDING C07-nil-precommit-framing (repaired in /repo): before the repair GetByzantineValidators skipped only
       BlockIDFlagAbsent, so an honest NIL precommit of another round attached to a lunatic header made its signer a
       member of the intersection and got it slashed, jailed and tombstoned.  With the repaired code (the model run by
       the driver) the clause holds: every byzantine validator COMMITTED to both headers, and a validator none of whose
       keys committed to both headers is never changed by an accepted misbehaviour. *)
Theorem C07_byzantine_committed_both : forall m l a,
  get_byzantine m = Ok l -> In a l ->
  exists e1 e2, In e1 (mb_sigs1 m) /\ In e2 (mb_sigs2 m) /\ g_addr e1 = a /\ g_addr e2 = a /\
                g_flag e1 = F_COMMIT /\ g_flag e2 = F_COMMIT.
Proof. exact byz_committed_both. Qed.

Theorem C07_nil_or_absent_never_punished : forall s entry m c ds l i,
  code (step s (OMB entry m)) = 0 -> mb_conditions s entry m c ds l ->
  (forall a, resolve c a = i ->
     ~ ((exists e1, In e1 (mb_sigs1 m) /\ g_addr e1 = a /\ g_flag e1 = F_COMMIT) /\
        (exists e2, In e2 (mb_sigs2 m) /\ g_addr e2 = a /\ g_flag e2 = F_COMMIT))) ->
  getv (st (step s (OMB entry m))) i = getv s i.
Proof. exact mb_nil_absent_untouched. Qed.

(* the PRE-FIX copy of GetByzantineValidators (get_byzantine_prefix, not run by the driver) refutes the clause; the
   witness is the first generated case and corpus/C07/nil_precommit.json *)
Theorem C07_prefix_committed_both_refuted : ~ byz_committed_both_prefix_full.
Proof. exact byz_committed_both_prefix_refuted. Qed.

Example C07_ex_nil_precommit_framing :
  get_byzantine_prefix framing_witness = Ok [0; 3] /\   (* before the repair: honest validator 3 is "byzantine" *)
  get_byzantine framing_witness = Ok [0].               (* repaired: only the attacker *)
Proof. vm_compute. split; reflexivity. Qed.

(* (c) the comment "JailAndTombstoneValidator should never return an error if SlashValidator succeeded" needs a
       signing info; partial: jail_after_slash *)
Theorem C07_jail_after_slash_refuted : ~ jail_after_slash_full.
Proof. exact jail_after_slash_refuted. Qed.

Theorem C07_jail_after_slash_partial : forall s p ds s1,
  (forall v, getv s p = Some v -> v_sinfo v = true) ->
  slash_validator s p ds = Ok s1 -> exists s2, jail_and_tombstone s1 p ds = Ok s2.
Proof. exact jail_after_slash. Qed.

(* (d) evidence is bound to a chain id, not to a consumer: the same evidence is accepted for every consumer with
       that chain id under which the key resolves to a punishable validator (an unassigned key resolves to itself
       everywhere), each time with THAT consumer's parameters. *)
Theorem C07_params_of_infraction_chain_refuted : ~ params_of_infraction_chain_full.
Proof. exact params_of_infraction_chain_refuted. Qed.

(* (e) an already jailed validator is punished again and its jail end is OVERWRITTEN (may become earlier) *)
Theorem C07_jail_not_shortened_refuted : ~ jail_not_shortened_full.
Proof. exact jail_not_shortened_refuted. Qed.

(* ---- non-vacuity ---- *)
(* evidence at exactly the minimum height, unassigned key, validator 0: accepted; 5 % of power 4 slashed *)
Example C07_ex_accept :
  code (step st2 (ODV 0 (dv_ok 0 0 10))) = 0 /\
  getv (st (step st2 (ODV 0 (dv_ok 0 0 10)))) 0 = Some (mkV 3 true 1100 true 3800000 4 0 0 true [(4, 50000000000000000)]) /\
  getv (st (step st2 (ODV 0 (dv_ok 0 0 10)))) 1 = getv st2 1.
Proof. vm_compute. repeat split; reflexivity. Qed.

(* one below the minimum; other chain id; second submission after the first *)
Example C07_ex_reject :
  code (step st2 (ODV 0 (dv_ok 0 0 9))) = E_OLD /\
  code (step st2 (ODV 0 (mkDV 0 true (-1) true true true true true true 10 [6] [5] 0))) = E_SIGA /\
  code (step (st (step st2 (ODV 0 (dv_ok 0 0 10)))) (ODV 0 (dv_ok 0 0 11))) = E_TOMB /\
  code (step st2 (ODV 0 (dv_ok 0 1 10))) = E_UNBONDED.
Proof. vm_compute. repeat split; reflexivity. Qed.

(* stake that is unbonding / redelegating counts: 4 + (1500000 + 2600000) / 10^6 = 8 *)
Example C07_ex_power :
  option_map v_log
    (getv (st (step (mkS 0 [mkV 2 false 0 false 4000000 4 1500000 2600000 true []] [cons_a]) (ODV 0 (dv_ok 0 0 10)))) 0)
  = Some [(8, 50000000000000000)].
Proof. vm_compute. reflexivity. Qed.

(* misbehaviour: validator 0 punished, unbonded validator 1 skipped, message accepted *)
Example C07_ex_misbehaviour :
  let m := mb_ok 0 5 0 10 [mkSig 0 2 true; mkSig 1 2 true] [mkSig 0 2 true; mkSig 1 2 true] in
  code (step st2 (OMB 0 m)) = 0 /\ get_byzantine m = Ok [0; 1] /\
  option_map v_jailed (getv (st (step st2 (OMB 0 m))) 0) = Some true /\
  getv (st (step st2 (OMB 0 m))) 1 = getv st2 1.
Proof. vm_compute. repeat split; reflexivity. Qed.
