(* Property C14: only owners, governance and the validator itself can change what is theirs.
   Theorems about Model/Auth.v (the model the correspondence driver harness/c14 runs); proofs are in
   Proofs/AuthProofs.v.  [step s o] = (result class, state after): ValidateBasic, then the handler, and a
   rejected message (class <> 0) returns the old state.  Messages come from ARBITRARY senders, in
   arbitrary sequences ([run_ops]); environment steps (launch / deletion in BeginBlock) are ops too.
   Accounts are address strings abstracted to integers: gov = the keeper authority,
   oper_acct v = the account with validator v's operator bytes. *)
From Coq Require Import ZArith List Bool.
From ICS Require Import Base.Tree Model.Auth Proofs.AuthProofs.
Import ListNotations.
Open Scope Z_scope.

(* ---- "Rejected messages leave the state unchanged" (every class <> 0, every message type) ---- *)
Theorem C14_reject_unchanged : forall s o, fst (step s o) <> 0 -> snd (step s o) = s.
Proof. exact step_reject_unchanged. Qed.

(* ---- "Only a consumer's current owner can update or remove it":
   owner_msg o = Some (c, sender) iff o is MsgUpdateConsumer / MsgRemoveConsumer for c sent by sender ---- *)
Theorem C14_owner_only : forall s o c sender,
  owner_msg o = Some (c, sender) -> owner_of s c <> Some sender ->
  fst (step s o) <> 0 /\ snd (step s o) = s.
Proof. exact owner_only. Qed.

Theorem C14_owner_only_success : forall s o c sender,
  owner_msg o = Some (c, sender) -> fst (step s o) = 0 -> owner_of s c = Some sender.
Proof. exact owner_only_success. Qed.

(* ---- "ownership changes only by the owner's explicit transfer": over ANY op (all message types, all
   senders, environment steps) a consumer keeps existing, and its owner differs afterwards only if the op is
   a successful MsgUpdateConsumer sent by the previous owner a that names the new owner a' ---- *)
Theorem C14_owner_changes_only_by_transfer : forall s o c a,
  owner_of s c = Some a ->
  exists a', owner_of (snd (step s o)) c = Some a' /\
    (a' <> a -> fst (step s o) = 0 /\ exists tn ini, o = Update c a (NewOwner a') tn ini).
Proof. exact owner_changes_only_by_transfer. Qed.

(* over sequences: without a transfer message for c in the sequence the owner of c is the same at the end *)
Theorem C14_owner_stable : forall ops s c a,
  owner_of s c = Some a ->
  (forall sender a' tn ini, ~ In (Update c sender (NewOwner a') tn ini) ops) ->
  owner_of (run_ops s ops) c = Some a.
Proof. exact owner_stable. Qed.

(* the same for Top_N: it changes only by a successful MsgUpdateConsumer of the current owner carrying it *)
Theorem C14_topn_changes_only_by_owner : forall s o c n,
  topn_of s c = Some n ->
  exists n', topn_of (snd (step s o)) c = Some n' /\
    (n' <> n -> fst (step s o) = 0 /\
       exists a no ini, o = Update c a no (Some n') ini /\ owner_of s c = Some a).
Proof. exact topn_changes_only_by_owner. Qed.

(* ---- "a consumer has a Top-N value (necessarily within 50..100) only while it is owned by the governance
   authority": invariant of every reachable state, for every consumer in every phase; preserved by every
   single op, including one MsgUpdateConsumer that changes owner and Top_N together (either direction) ---- *)
Theorem C14_topn_implies_gov_step : forall s o, topn_inv s -> topn_inv (snd (step s o)).
Proof. exact topn_inv_step. Qed.

Theorem C14_topn_implies_gov : forall nvals minrate params cparams ops c cr,
  get_cons (run_ops (init_state nvals minrate params cparams) ops) c = Some cr ->
  c_topn cr <> 0 -> c_owner cr = gov /\ 50 <= c_topn cr <= 100.
Proof. intros nv mr p cp ops c cr. apply topn_inv_get. apply topn_inv_reachable. Qed.

(* ---- "permissionless users create ... opt-in consumers only": MsgCreateConsumer with Top_N <> 0 is
   rejected (in ValidateBasic); a successful create appends one consumer owned by the submitter, Top_N = 0,
   no validator records, phase registered or initialized ---- *)
Theorem C14_create_optin_only : forall s sender tn ini,
  (forall n, tn = Some n -> n <> 0 -> fst (step s (Create sender tn ini)) = E_VB) /\
  (fst (step s (Create sender tn ini)) = 0 ->
   exists cr, s_cons (snd (step s (Create sender tn ini))) = s_cons s ++ [cr] /\
     c_owner cr = sender /\ c_topn cr = 0 /\ c_opted cr = [] /\ c_keys cr = [] /\ c_comm cr = [] /\
     (c_phase cr = 1 \/ c_phase cr = 2)).
Proof. exact create_optin_only. Qed.

(* ---- "Provider parameters and the global reward-denom list change only by the governance authority"
   (and the consumer chain's parameters): if any of them differs after an op, the op is a successful
   MsgUpdateParams / MsgChangeRewardDenoms / consumer MsgUpdateParams whose authority field is gov ---- *)
Theorem C14_gov_only : forall s o,
  (s_params (snd (step s o)) <> s_params s \/ s_denoms (snd (step s o)) <> s_denoms s \/
   s_cparams (snd (step s o)) <> s_cparams s) ->
  fst (step s o) = 0 /\ authority_of o = Some gov.
Proof. exact gov_only. Qed.

Theorem C14_gov_only_seq : forall ops s,
  (forall o, In o ops -> authority_of o <> Some gov) ->
  s_params (run_ops s ops) = s_params s /\ s_denoms (run_ops s ops) = s_denoms s /\
  s_cparams (run_ops s ops) = s_cparams s.
Proof. exact globals_stable. Qed.

(* ---- "opt-in, opt-out, key-assignment and commission messages affect only the validator whose operator
   signed them": for such a message naming (consumer c, validator v, signer sg):
   signer <> operator account -> rejected by ValidateBasic; success -> signer = operator account of a registered
   validator; params/denoms/number of consumers and every other consumer are untouched; on consumer c
   phase/owner/Top_N and every record keyed by another validator v' <> v (opted-in flag, assigned key,
   commission, consumer-address index entries pointing to v') are untouched ([vframe]).
   [key_inv]: the consumer-address index points back to the validator that assigned the key; it holds in
   every reachable state (C14_key_inv). ---- *)
Theorem C14_validator_only : forall s o c v sg,
  validator_msg o = Some (c, v, sg) ->
  (sg <> oper_acct v -> step s o = (E_VB, s)) /\
  (fst (step s o) = 0 -> sg = oper_acct v /\ 0 <= v < s_nvals s) /\
  s_params (snd (step s o)) = s_params s /\ s_denoms (snd (step s o)) = s_denoms s /\
  s_cparams (snd (step s o)) = s_cparams s /\ length (s_cons (snd (step s o))) = length (s_cons s) /\
  (forall c', c' <> c -> get_cons (snd (step s o)) c' = get_cons s c') /\
  (key_inv s -> forall cr, get_cons s c = Some cr ->
     exists cr', get_cons (snd (step s o)) c = Some cr' /\ vframe v cr cr').
Proof. exact validator_only. Qed.

Theorem C14_key_inv : forall nvals minrate params cparams ops,
  key_inv (run_ops (init_state nvals minrate params cparams) ops).
Proof. exact key_inv_reachable. Qed.

Theorem C14_key_inv_step : forall s o, key_inv s -> key_inv (snd (step s o)).
Proof. exact key_inv_step. Qed.

(* ---- non-vacuity ---- *)
(* user 1 creates consumer 0, hands it to gov, gov makes it Top N = 60:
   [Create 1 None NoInit; Update 0 1 (NewOwner gov) None NoInit; Update 0 gov NoOwner (Some 60) NoInit] *)
Example C14_ex_topn_reachable :
  let s := run_ops (init_state 3 5 600 1000)
             [Create 1 None NoInit; Update 0 1 (NewOwner gov) None NoInit; Update 0 gov NoOwner (Some 60) NoInit] in
  owner_of s 0 = Some gov /\ topn_of s 0 = Some 60 /\ topn_inv s /\ key_inv s.
Proof.
  cbv zeta. split; [vm_compute; reflexivity|]. split; [vm_compute; reflexivity|].
  split; [apply topn_inv_reachable|apply key_inv_reachable].
Qed.

(* single messages that change owner and Top_N together, on the gov-owned Top-N consumer:
   gov -> user 2 with Top_N 0 at once is accepted; gov -> user 2 keeping / setting Top_N is refused;
   a bare owner change is refused; and on a user-owned consumer: user -> gov with Top_N 60 at once is refused
   (the pre-check reads the OLD owner), user setting Top_N is refused *)
Example C14_ex_both_directions :
  let s := run_ops (init_state 3 5 600 1000)
             [Create 1 None NoInit; Update 0 1 (NewOwner gov) None NoInit; Update 0 gov NoOwner (Some 60) NoInit] in
  let s2 := snd (step s (Update 0 gov (NewOwner 2) (Some 0) NoInit)) in
  fst (step s (Update 0 gov (NewOwner 2) (Some 0) NoInit)) = 0 /\
  owner_of s2 0 = Some 2 /\ topn_of s2 0 = Some 0 /\
  fst (step s (Update 0 gov (NewOwner 2) (Some 60) NoInit)) = E_TOPN /\
  fst (step s (Update 0 gov (NewOwner 2) None NoInit)) = E_TOPN /\
  fst (step s (Update 0 gov NoOwner (Some 49) NoInit)) = E_VB /\
  fst (step s2 (Update 0 2 (NewOwner gov) (Some 60) NoInit)) = E_TOPN /\
  fst (step s2 (Update 0 2 NoOwner (Some 60) NoInit)) = E_TOPN /\
  fst (step s2 (Update 0 gov NoOwner (Some 60) NoInit)) = E_UNAUTH /\
  fst (step s2 (Remove 0 1)) = E_UNAUTH.
Proof. vm_compute. repeat split; reflexivity. Qed.

(* validators: v0 opts in with key 7; v1 cannot take key 7 nor v0's provider key; a foreign signer is
   refused by ValidateBasic; v1's own records are those of before *)
Example C14_ex_validators :
  let s := snd (step (run_ops (init_state 3 5 600 1000)
                        [Create 1 None NoInit; Update 0 1 (NewOwner gov) None NoInit; Update 0 gov NoOwner (Some 60) NoInit])
                     (OptIn 0 0 (oper_acct 0) 7)) in
  (exists cr, get_cons s 0 = Some cr /\ c_opted cr = [0] /\ c_keys cr = [(0, 7)] /\ c_used cr = [(7, 0)]) /\
  fst (step s (AssignKey 0 1 (oper_acct 1) 7)) = E_OTHER /\
  fst (step s (AssignKey 0 1 (oper_acct 1) 1000)) = E_OTHER /\
  fst (step s (AssignKey 0 1 (oper_acct 0) 8)) = E_VB /\
  fst (step s (SetCommission 0 1 (oper_acct 1) 3)) = E_OTHER /\
  fst (step s (SetCommission 0 1 (oper_acct 1) 10)) = 0 /\
  fst (step s (UpdateParams 1 700)) = E_UNAUTH /\
  fst (step s (ChangeDenoms gov [1; 2] [])) = 0.
Proof. vm_compute. repeat split; try reflexivity. eexists; repeat split; reflexivity. Qed.
