From Coq Require Import ZArith List Bool.
From ICS Require Import Base.Tree Model.Auth Proofs.AuthProofs.
