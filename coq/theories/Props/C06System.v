(* Property C06, end to end: WHO is punished for a downtime report against a consumer key.
   Theorems about Model/SlashKeys.v, the composition of Model/KeyAssign.v (C05/C06) with Model/Slash.v (C08) - the
   model run by harness/c06sys; proofs in Proofs/SlashKeysProofs.v combine C06_attributable / C06_forgotten_after /
   C06_identity / the C05 invariant of Proofs/KeyAssignProofs.v with the decision chain of Proofs/SlashProofs.v.

   A run is [srun g ops (init_sys U nk m0 c0)] for ANY sequence of
     SKey a                  key assignments, opt-ins, lifecycle steps, EndBlock (pruning), time advances
     SCreateVal / SRemoveVal staking creates / removes a validator (rows of the validator table follow)
     SBeginBlock, SSetMembers, SExtVal   consumer removal + meter replenishment, the consumer's stored validator
                             set, external staking changes of a validator (jail flag, tombstone, bond status)
     SRecvSlash c k ..       a slash packet on consumer c's channel for consumer address k.
   There is no resolution oracle: [target s c k] = KeyAssign.resolve on the key-assignment component.  Validators
   are rows of the table indexed by PROVIDER KEY id.  [report_facts g s c k infr power h P] says about the packet:
   (1) no row other than P changes, (2) P becomes jailed by it iff [sys_jail_cond] (spelled out by
   C06_system_conditions), (3) if no registered validator has provider key P, no row changes at all,
   (4) the key-assignment state is untouched.
   Hypotheses that REMAIN: Slash's own conditions (consumer launched, P in its stored set, meter >= 0, validator
   known / not unbonded / not tombstoned / not yet jailed, vsc id known, downtime, power <> 0, parameters stored);
   for the window theorems: c not deleted and every EndBlock before t + U (that is [quiet] on the KeyAssign trace). *)
From Coq Require Import ZArith List Bool.
From ICS Require Import Base.Tree Model.Throttle.
From ICS Require Model.KeyAssign Model.Slash Proofs.KeyAssignProofs.
From ICS Require Import Model.SlashKeys Proofs.SlashKeysProofs.
Import ListNotations.
Open Scope Z_scope.

(* the composed run performs a KeyAssign run: every theorem of Props/C05.v and Props/C06.v applies to its
   key-assignment component *)
Theorem C06_system_refines : forall g U nk m0 c0 ops,
  ks (srun g ops (init_sys U nk m0 c0)) = K.exec (ktrace g (init_sys U nk m0 c0) ops) (K.init U).
Proof. exact reach_ks. Qed.

(* the conditions, spelled out: the phase is KeyAssign's, everything else Slash's *)
Theorem C06_system_conditions : forall s c infr power h P,
  sys_jail_cond s c infr power h P = true <->
  K.c_phase (K.getc (ks s) c) = 3 /\
  exists x height,
    S.getc (sl s) (Z.of_nat c) = Some x /\ h = Some height /\
    S.validate true power infr = true /\ infr = S.DOWNTIME /\
    In P (S.c_set x) /\ 0 <= meter (S.thr (sl s)) /\
    S.v_found (S.getv (sl s) P) = true /\ S.v_status (S.getv (sl s) P) <> S.UNBONDED /\
    S.v_tomb (S.getv (sl s) P) = false /\ S.v_jailed (S.getv (sl s) P) = false /\
    S.c_params x <> None.
Proof. exact sys_jail_cond_spec. Qed.

(* the validator table agrees with the staking registry in every reachable state *)
Theorem C06_system_table_is_registry : forall g U nk m0 c0 ops key,
  let s := srun g ops (init_sys U nk m0 c0) in
  S.v_found (S.getv (sl s) key) = true <-> K.reg_by_key key (K.s_reg (ks s)) <> None.
Proof. intros g U nk m0 c0 ops key. exact (reach_found_ok g U nk m0 c0 ops key). Qed.

(* a report against a key replaced at time t on a launched consumer, handled before the pruning deadline t + U
   (consumer not deleted, every EndBlock so far before t + U), is about P: it jails P iff Slash's conditions hold
   for P, and touches nobody else *)
Theorem C06_system_old_key_punished : forall g U nk m0 c0 ops0 c a P k s1 ops infr power h,
  let s0 := srun g ops0 (init_sys U nk m0 c0) in
  K.c_phase (K.getc (ks s0) c) = 3 -> K.lookup P (K.c_assigned (K.getc (ks s0) c)) = Some k ->
  KP.replaces (ks s0) c P a -> sstep g s0 (SKey a) = (s1, 0) ->
  KP.quiet c (K.s_now (ks s0) + U) (ktrace g s1 ops) (ks s1) ->
  let s2 := srun g ops s1 in
  target s2 c k = P /\ report_facts g s2 c k infr power h P.
Proof. exact old_key_punished. Qed.

(* right after the first EndBlock at / after t + U the key resolves to itself: a report for k can only touch the
   validator whose PROVIDER key is k, and touches nobody if there is none.  (In later states the target is whatever
   [target] says - C06_system_unique_target: whoever k has meanwhile been assigned to.) *)
Theorem C06_system_forgotten_key_harmless : forall g U nk m0 c0 ops0 c a P k s1 ops infr power h,
  let s0 := srun g ops0 (init_sys U nk m0 c0) in
  K.c_phase (K.getc (ks s0) c) = 3 -> K.lookup P (K.c_assigned (K.getc (ks s0) c)) = Some k ->
  KP.replaces (ks s0) c P a -> sstep g s0 (SKey a) = (s1, 0) ->
  KP.quiet c (K.s_now (ks s0) + U) (ktrace g s1 ops) (ks s1) ->
  K.s_now (ks s0) + U <= K.s_now (ks (srun g ops s1)) ->
  let s3 := fst (sstep g (srun g ops s1) (SKey K.OEndBlock)) in
  target s3 c k = k /\ report_facts g s3 c k infr power h k.
Proof. exact forgotten_key_harmless. Qed.

(* by the C05 invariant the target is unique: on an active consumer EVERY validator associated with k (current
   assignment, by-address entry incl. keys awaiting pruning, provider key of an existing validator) is the target *)
Theorem C06_system_unique_target : forall g U nk m0 c0 ops c k P,
  let s := srun g ops (init_sys U nk m0 c0) in
  K.is_active (K.c_phase (K.getc (ks s) c)) = true -> KP.assoc (ks s) c k P -> target s c k = P.
Proof. exact unique_target. Qed.

(* in any reachable state a report touches only its target, jails it iff the conditions hold, and nobody if the
   target is not an existing validator *)
Theorem C06_system_report : forall g U nk m0 c0 ops c k infr power h,
  let s := srun g ops (init_sys U nk m0 c0) in report_facts g s c k infr power h (target s c k).
Proof. intros g U nk m0 c0 ops c k infr power h. apply report_on_target. apply reach_found_ok. Qed.

(* a key never named in an assignment on c is attributed to the validator whose provider key it is (nobody if none) *)
Theorem C06_system_never_assigned : forall g U nk m0 c0 ops c k infr power h,
  let s := srun g ops (init_sys U nk m0 c0) in
  (forall a, In a (ktrace g (init_sys U nk m0 c0) ops) -> KP.names a c k = false) ->
  target s c k = k /\ report_facts g s c k infr power h k.
Proof. exact never_assigned. Qed.

(* ---- non-vacuity: assign k1 = 5, replace it by k2 = 6 at t = 0 (U = 1000); a report for 5 at t + U - 1 (after an
   EndBlock) jails validator 0; after unjailing, at t + U + 1 and an EndBlock, a report for 5 jails nobody, a report
   for 6 jails validator 0 again.  (Replayed on the real code as the first case of part "system".) ---- *)
Definition ex_g : cfg := mkCfg 1000000000000000000 1 10000000000000000 600000000000.
Definition ex_pre : list sop :=
  [SCreateVal 0 0 5000000 5; SCreateVal 1 1 3000000 3; SKey K.ORegister; SKey (K.OInitialize 0); SKey (K.OLaunch 0);
   SSetMembers 0 [0; 1]; SBeginBlock 8; SKey (K.OAssign 0 0 5 true)].
Definition ex_mid : list sop := [SKey (K.OAdvance 999); SKey K.OEndBlock; SBeginBlock 8].
Definition ex_late : list sop := [SExtVal 0 false false 3 4990000 5; SKey (K.OAdvance 2)].
Definition jailed_rows (s : sys) : list bool := map S.v_jailed (S.vals (sl s)).

Example C06_system_ex :
  let s0 := srun ex_g ex_pre (init_sys 1000 4 1 1) in
  let s1 := fst (sstep ex_g s0 (SKey (K.OAssign 0 0 6 true))) in
  let s2 := srun ex_g ex_mid s1 in
  let r1 := report ex_g s2 0 5 S.DOWNTIME 1 (Some 2) in
  let s3 := fst (sstep ex_g (srun ex_g ex_late r1) (SKey K.OEndBlock)) in
  let r2 := report ex_g s3 0 5 S.DOWNTIME 1 (Some 2) in
  let r3 := report ex_g r2 0 6 S.DOWNTIME 1 (Some 2) in
  K.c_phase (K.getc (ks s0) 0) = 3 /\ K.lookup 0 (K.c_assigned (K.getc (ks s0) 0)) = Some 5 /\
  sstep ex_g s0 (SKey (K.OAssign 0 0 6 true)) = (s1, 0) /\
  KP.quiet 0 (K.s_now (ks s0) + 1000) (ktrace ex_g s1 ex_mid) (ks s1) /\
  target s2 0 5 = 0 /\ sys_jail_cond s2 0 S.DOWNTIME 1 (Some 2) 0 = true /\
  jailed_rows s2 = [false; false; false; false] /\ jailed_rows r1 = [true; false; false; false] /\
  S.v_tokens (S.getv (sl r1) 0) = 4990000 /\
  target s3 0 5 = 5 /\ jailed_rows s3 = [false; false; false; false] /\ jailed_rows r2 = [false; false; false; false] /\
  jailed_rows r3 = [true; false; false; false].
Proof.
  vm_compute. repeat split; try reflexivity; try discriminate; try (intros H; discriminate H).
Qed.

Example C06_system_ex_replaces :
  KP.replaces (ks (srun ex_g ex_pre (init_sys 1000 4 1 1))) 0 0 (K.OAssign 0 0 6 true).
Proof. exists 0, 6. split; [left; reflexivity|reflexivity]. Qed.
