(* Property C20: infraction parameters in force are used; changes are delayed by the unbonding period.
   All statements are about Model/Infraction.v's [step] / [exec] (the functions the extracted [run] executes),
   over arbitrary op sequences with any number of consumers.  Proofs are in Proofs/InfractionProofs.v. *)
From Coq Require Import ZArith List Bool.
From ICS Require Import Base.Tree Model.Infraction Proofs.InfractionProofs.
Import ListNotations.
Open Scope Z_scope.

(* "At most one change is pending per consumer": in every reachable state the queued-parameters store and the
   update schedule agree: a consumer has a queued entry iff its id occurs in the schedule, exactly once, under a
   well-defined due time; only launched/stopped consumers have one; it differs from the values in force; the
   schedule is strictly sorted by time with non-empty id lists (as the store). *)
Theorem C20_at_most_one_pending : forall ops c,
  let st := exec init ops in
  occ c (schedule st) = (if aget c (queued st) then 1%nat else 0%nat) /\
  (aget c (queued st) <> None <-> exists d, due_of c (schedule st) = Some d) /\
  (aget c (queued st) <> None -> aget c (phases st) = Some Launched \/ aget c (phases st) = Some Stopped) /\
  (forall p q, aget c (cur st) = Some p -> aget c (queued st) = Some q -> params_eqb p q = false) /\
  ssorted (schedule st).
Proof. exact c20_consistency. Qed.

(* "Changes take effect immediately before launch" (creation and pre-launch updates; nothing is ever queued) *)
Theorem C20_create_immediate : forall ops d r,
  let st := exec init ops in
  valid_req r = true ->
  snd (step_res st (OCreate d r)) = r_ok /\
  aget (next_id st) (cur (step st (OCreate d r))) = Some (match r with None => d | Some hv => merge d hv end) /\
  aget (next_id st) (queued (step st (OCreate d r))) = None /\
  aget (next_id st) (phases (step st (OCreate d r))) = Some Prelaunch.
Proof. exact c20_create_immediate. Qed.

Theorem C20_prelaunch_immediate : forall ops c cp hv u,
  let st := exec init ops in
  aget c (phases st) = Some Prelaunch -> aget c (cur st) = Some cp -> valid_req (Some hv) = true ->
  snd (step_res st (OUpdate c true (Some hv) u)) = r_ok /\
  let st' := step st (OUpdate c true (Some hv) u) in
  aget c (cur st') = Some (merge cp hv) /\ aget c (queued st') = None /\
  schedule st' = schedule st /\ occ c (schedule st') = 0%nat.
Proof. exact c20_prelaunch_immediate. Qed.

Theorem C20_prelaunch_no_pending : forall ops c,
  let st := exec init ops in
  aget c (phases st) = Some Prelaunch -> aget c (queued st) = None /\ occ c (schedule st) = 0%nat.
Proof. exact c20_prelaunch_no_pending. Qed.

(* "for a launched consumer only once a full provider unbonding period has passed since the request":
   after a request (at block time clock s1, unbonding period u) for values np different from the ones in force cp,
   and as long as there is no further request on c and c is not deleted (quiet), the consumer is in exactly one of
   two situations, decided by [applied_in]: whether some begin-block so far had c among its first 200 due entries.
   Not yet: cp still in force, np queued under due time clock s1 + u.  Yes: np in force, nothing pending. *)
Theorem C20_delay : forall ops1 c cp np u o ops2,
  let s1 := exec init ops1 in
  aget c (phases s1) = Some Launched -> aget c (cur s1) = Some cp ->
  is_request s1 c np u o -> params_eqb cp np = false -> quiet c ops2 = true ->
  let s3 := exec (step s1 o) ops2 in
  if applied_in c (step s1 o) ops2
  then aget c (cur s3) = Some np /\ aget c (queued s3) = None /\ occ c (schedule s3) = 0%nat
  else aget c (cur s3) = Some cp /\ aget c (queued s3) = Some np /\ due_of c (schedule s3) = Some (clock s1 + u).
Proof. exact c20_delay. Qed.

(* ... an applying begin-block has block time >= request time + u ... *)
Theorem C20_delay_when : forall ops1 c cp np u o ops2,
  let s1 := exec init ops1 in
  aget c (phases s1) = Some Launched -> aget c (cur s1) = Some cp ->
  is_request s1 c np u o -> params_eqb cp np = false -> quiet c ops2 = true ->
  applied_in c (step s1 o) ops2 = true -> exists now, In (OBeginBlock now) ops2 /\ clock s1 + u <= now.
Proof. exact c20_delay_when. Qed.

(* ... in particular never before request time + u ... *)
Theorem C20_not_before : forall ops1 c cp np u o ops2,
  let s1 := exec init ops1 in
  aget c (phases s1) = Some Launched -> aget c (cur s1) = Some cp ->
  is_request s1 c np u o -> params_eqb cp np = false -> quiet c ops2 = true ->
  (forall now, In (OBeginBlock now) ops2 -> now < clock s1 + u) ->
  let s3 := exec (step s1 o) ops2 in
  aget c (cur s3) = Some cp /\ aget c (queued s3) = Some np /\ due_of c (schedule s3) = Some (clock s1 + u).
Proof. exact c20_not_before. Qed.

(* ... and it is in force exactly from the first begin-block in which it is among the first 200 due entries
   (such a block has time >= request time + u); with at most 200 entries due, the first block at or after the
   due time (exactly-at-due-time included) *)
Theorem C20_in_force_from : forall ops1 c cp np u o opsA now,
  let s1 := exec init ops1 in
  aget c (phases s1) = Some Launched -> aget c (cur s1) = Some cp ->
  is_request s1 c np u o -> params_eqb cp np = false -> quiet c opsA = true ->
  applied_in c (step s1 o) opsA = false ->
  let sA := exec (step s1 o) opsA in
  applied_now c now sA = true ->
  clock s1 + u <= now /\
  let sB := step sA (OBeginBlock now) in
  aget c (cur sB) = Some np /\ aget c (queued sB) = None /\ occ c (schedule sB) = 0%nat.
Proof. exact c20_in_force_from. Qed.

Theorem C20_in_force_at_due : forall ops1 c cp np u o opsA now,
  let s1 := exec init ops1 in
  aget c (phases s1) = Some Launched -> aget c (cur s1) = Some cp ->
  is_request s1 c np u o -> params_eqb cp np = false -> quiet c opsA = true ->
  applied_in c (step s1 o) opsA = false ->
  let sA := exec (step s1 o) opsA in
  clock s1 + u <= now -> (length (due_list now (schedule sA)) <= limit)%nat ->
  aget c (cur (step sA (OBeginBlock now))) = Some np.
Proof. exact c20_in_force_at_due. Qed.

(* "a later request replaces a pending one" and restarts the delay (C20_delay applies to the new request) *)
Theorem C20_replace : forall ops c cp q0 np u o,
  let s := exec init ops in
  aget c (phases s) = Some Launched -> aget c (cur s) = Some cp -> aget c (queued s) = Some q0 ->
  is_request s c np u o -> params_eqb cp np = false ->
  snd (step_res s o) = r_ok /\
  aget c (cur (step s o)) = Some cp /\ aget c (queued (step s o)) = Some np /\
  due_of c (schedule (step s o)) = Some (clock s + u) /\ occ c (schedule (step s o)) = 1%nat.
Proof. exact c20_replace. Qed.

(* "a request equal to the current values cancels it": nothing is queued, and the values in force do not change
   afterwards without a new request *)
Theorem C20_cancel_on_equal : forall ops c cp np u o ops2,
  let s := exec init ops in
  aget c (phases s) = Some Launched -> aget c (cur s) = Some cp ->
  is_request s c np u o -> params_eqb cp np = true -> quiet c ops2 = true ->
  snd (step_res s o) = r_ok /\
  aget c (queued (step s o)) = None /\ occ c (schedule (step s o)) = 0%nat /\ due_of c (schedule (step s o)) = None /\
  let s3 := exec (step s o) ops2 in
  aget c (cur s3) = Some cp /\ aget c (queued s3) = None /\ applied_in c (step s o) ops2 = false.
Proof. exact c20_cancel_on_equal. Qed.

(* "it is applied exactly once": over any history, (number of begin-blocks that applied a change of c) +
   (1 if a change of c is still pending) <= number of requests on c that left a change queued *)
Theorem C20_applied_once : forall ops c,
  (app_count c init ops + pend_n (exec init ops) c <= req_count c init ops)%nat.
Proof. exact c20_applied_once. Qed.

(* "it is discarded when the consumer is deleted", and nothing ever happens to a deleted consumer afterwards *)
Theorem C20_discarded_on_delete : forall ops c ops2,
  let s := exec init ops in
  aget c (phases s) = Some Stopped ->
  snd (step_res s (ODelete c)) = r_ok /\
  let s' := step s (ODelete c) in
  aget c (queued s') = None /\ occ c (schedule s') = 0%nat /\
  let s'' := exec s' ops2 in
  aget c (phases s'') = Some Deleted /\ aget c (cur s'') = aget c (cur s) /\
  aget c (queued s'') = None /\ occ c (schedule s'') = 0%nat.
Proof. exact c20_discarded_on_delete. Qed.

(* "Slashing and jailing ... use that consumer's own infraction parameters as in force at handling time" *)
Theorem C20_used : forall ops c kind pre p,
  let st := exec init ops in
  aget c (cur st) = Some p ->
  slash_view st c kind = Some (view_of p kind) /\
  op_obs st (OSlash c kind true) = of_zs (1 :: view_of p kind) /\
  step st (OSlash c kind pre) = st.
Proof. exact c20_used. Qed.

Theorem C20_used_timeline : forall ops1 c cp np u o ops2 kind,
  let s1 := exec init ops1 in
  aget c (phases s1) = Some Launched -> aget c (cur s1) = Some cp ->
  is_request s1 c np u o -> params_eqb cp np = false -> quiet c ops2 = true ->
  slash_view (exec (step s1 o) ops2) c kind =
    Some (view_of (if applied_in c (step s1 o) ops2 then np else cp) kind).
Proof. exact c20_used_timeline. Qed.

(* the begin-block never fails (the schedule never names a consumer without queued parameters) *)
Theorem C20_beginblock_ok : forall ops now, snd (step_res (exec init ops) (OBeginBlock now)) = r_ok.
Proof. exact c20_beginblock_ok. Qed.

(* ---------------- non-vacuity: concrete histories satisfying the hypotheses ---------------- *)
Definition ex_d : params := ((9223372036854775807, 50000000000000000, 1), (600000000000, 0, 0)).
Definition ex_h : half := (7000000000, 30000000000000000, 0).
Definition ex_np : params := (p_ds ex_d, ex_h).
Definition ex_ops1 : list op := [OCreate ex_d None; OCreate ex_d (Some (Some ex_h, None)); OLaunch 0; OBeginBlock 5].
Definition ex_o : op := OUpdate 0 true (Some (None, Some ex_h)) 1000.
Definition ex_ops2 : list op :=
  [OBeginBlock 1004; OSlash 0 0 true; OStop 0 true; OUpdate 1 true (Some (None, Some ex_h)) 7; OBeginBlock 1005; OBeginBlock 2000].

Example ex_hyps :
  aget 0 (phases (exec init ex_ops1)) = Some Launched /\ aget 0 (cur (exec init ex_ops1)) = Some ex_d /\
  params_eqb ex_d ex_np = false /\ quiet 0 ex_ops2 = true /\ clock (exec init ex_ops1) = 5.
Proof. vm_compute. repeat split. Qed.

Example ex_request : is_request (exec init ex_ops1) 0 ex_np 1000 ex_o.
Proof. right. exists (None, Some ex_h), ex_d. repeat split. Qed.

(* not applied by the block at 1004, applied by the block at 1005 = 5 + 1000 (exactly at the due time) *)
Example ex_not_yet : applied_in 0 (step (exec init ex_ops1) ex_o) (firstn 4 ex_ops2) = false /\
                     aget 0 (cur (exec (step (exec init ex_ops1) ex_o) (firstn 4 ex_ops2))) = Some ex_d.
Proof. vm_compute. split; reflexivity. Qed.
Example ex_applied : applied_in 0 (step (exec init ex_ops1) ex_o) ex_ops2 = true /\
                     aget 0 (cur (exec (step (exec init ex_ops1) ex_o) ex_ops2)) = Some ex_np /\
                     app_count 0 init (ex_ops1 ++ ex_o :: ex_ops2) = 1%nat /\
                     req_count 0 init (ex_ops1 ++ ex_o :: ex_ops2) = 1%nat.
Proof. vm_compute. repeat split. Qed.

(* replace, cancel, delete with a pending change *)
Example ex_replace_cancel_delete :
  let s := step (exec init ex_ops1) ex_o in
  aget 0 (queued s) = Some ex_np /\
  due_of 0 (schedule (step s (OQueue 0 (ex_h, ex_h) 50))) = Some 55 /\
  aget 0 (queued (step s (OUpdate 0 true (Some (None, None)) 1000))) = None /\
  schedule (step s (OUpdate 0 true (Some (None, None)) 1000)) = [] /\
  let s2 := step (step s (OStop 0 true)) (ODelete 0) in
  aget 0 (phases (step s (OStop 0 true))) = Some Stopped /\ aget 0 (queued (step s (OStop 0 true))) = Some ex_np /\
  aget 0 (queued s2) = None /\ schedule s2 = [] /\ aget 0 (phases s2) = Some Deleted.
Proof. vm_compute. repeat split. Qed.
