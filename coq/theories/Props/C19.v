(* Property C19 (provider side): block processing never fails; a failing consumer operation is rolled back.
   Theorems about Model/Lifecycle.v -- the model run by the correspondence drivers harness/c10 and harness/c19
   (component `blocksafety` = Lifecycle.run plus the fault-comparison clauses of Model/BlockSafety.v) -- and, for the
   reward allocation, about Model/Rewards.v (the model of the C16 slice).  Proofs: Proofs/LifecycleC19.v.
   Failures of external modules are oracle inputs: the launch oracle of a begin-block says for every consumer
   whether an external call of its launch fails (at ANY step: validator-set computation, MakeConsumerGenesis,
   CreateClient, ...: [lora_good] is false), the end-block oracle how SendPacket answers for every consumer.  The
   theorems quantify over all oracles, all block times and all histories [ops]. *)
From Coq Require Import ZArith List Bool.
From ICS Require Import Base.Tree Base.Dec Model.Lifecycle Proofs.LifecycleBase Proofs.LifecycleInv Proofs.LifecycleSteps
  Proofs.LifecycleC10 Proofs.LifecycleC11 Proofs.LifecycleC19.
From ICS Require Model.Rewards.
Import ListNotations.
Open Scope Z_scope.

(* ---- "No sequence ... makes the provider's begin-block or end-block processing return an error" ----
   (launch and removal parts of BeginBlock, EndBlockVSU; result code 0 = ok, 9 = the block returned an error) *)
Theorem C19_beginblock_total : forall U ops now ora, result U (reach U ops) (OBegin now ora) = 0.
Proof. exact c10_begin_total. Qed.

Theorem C19_endblock_total : forall U ops epoch order ora, result U (reach U ops) (OEnd epoch order ora) = 0.
Proof. exact c19_endblock_total. Qed.

(* no operation of any history reports a block error *)
Theorem C19_no_block_error : forall U ops o, result U (reach U ops) o <> 9.
Proof. exact c19_no_block_error. Qed.

(* the invariants the totality rests on: every id in the spawn queue is an existing initialized consumer, scheduled
   once (C10_queue_consistent), whose stored initial height matches its chain id (C10_revision_invariant) *)
Theorem C19_queue_ids_exist : forall U ops c, In c (all_ids (s_spawnq (reach U ops))) ->
  exists r, get (reach U ops) c = Some r /\ c_phase r = 2 /\ d_rev (c_desc r) = d_hrev (c_desc r).
Proof. exact c19_queue_ids_exist. Qed.

(* ---- "a failed launch leaves the consumer registered with no client, genesis, validator set ..." ----
   the record of a consumer whose launch fails at any step is its old record with phase registered and spawn time
   0: nothing else of it changes, and it had no client / genesis / validator set / evidence height / channel /
   packets / removal time before ([prelaunch_proto]) *)
Theorem C19_launch_rollback : forall U ops now ora c,
  let s := reach U ops in let s' := step U s (OBegin now ora) in
  In c (attempted s now) -> lora_good (lookup no_lora ora c) = false ->
  exists r, get s c = Some r /\ c_phase r = 2 /\
    get s' c = Some (fallback r) /\
    c_phase (fallback r) = 1 /\ d_spawn (c_desc (fallback r)) = 0 /\
    c_proto (fallback r) = c_proto r /\ prelaunch_proto (c_proto r) /\
    c_sent (fallback r) = c_sent r /\ c_id (fallback r) = c_id r /\
    d_owner (c_desc (fallback r)) = d_owner (c_desc r) /\ d_chain (c_desc (fallback r)) = d_chain (c_desc r) /\
    d_rev (c_desc (fallback r)) = d_rev (c_desc r) /\ d_hrev (c_desc (fallback r)) = d_hrev (c_desc r) /\
    d_conn (c_desc (fallback r)) = d_conn (c_desc r).
Proof. exact c19_launch_rollback. Qed.

(* ---- "and processing continues for all other consumers in the same block" ----
   the outcome of consumer c in a begin-block depends only on c's own oracle entry: whatever fails (or not) for the
   other consumers, c is processed in exactly the same way; queues, id counter and clock do not depend on the
   oracle at all *)
Theorem C19_others_continue : forall U ops now ora ora' c,
  let s := reach U ops in
  lookup no_lora ora c = lookup no_lora ora' c ->
  get (step U s (OBegin now ora)) c = get (step U s (OBegin now ora')) c.
Proof. exact c19_others_continue. Qed.

Theorem C19_begin_frame : forall U ops now ora ora',
  let s := reach U ops in
  let a := step U s (OBegin now ora) in let b := step U s (OBegin now ora') in
  s_spawnq a = s_spawnq b /\ s_remq a = s_remq b /\ s_next a = s_next b /\ s_now a = s_now b.
Proof. exact c19_begin_frame. Qed.

(* the same for packet sending in the end-block: a send failure (or an expired client) of another consumer does not
   change what happens to c *)
Theorem C19_end_others_continue : forall U ops epoch order ora ora' c,
  let s := reach U ops in
  lookup no_eora ora c = lookup no_eora ora' c ->
  get (step U s (OEnd epoch order ora)) c = get (step U s (OEnd epoch order ora')) c.
Proof. exact c19_end_others_continue. Qed.

(* ---- deletion: the only way DeleteConsumerChain fails is the phase check (a second queue entry of a consumer that
        was stopped twice); then nothing of the consumer changes (it is already deleted).  A failing ChanCloseInit
        is logged by the Go code and the deletion proceeds (C11_deletion_step). ---- *)
Theorem C19_delete_rollback : forall U ops now ora c r,
  let s := reach U ops in
  In c (removal_due s now) -> get s c = Some r -> c_phase r <> 4 ->
  get (step U s (OBegin now ora)) c = Some r /\ c_phase r = 5.
Proof. exact c19_delete_rollback. Qed.

(* ---- a stopped consumer is always scheduled for removal under its removal time (monitor clause 16).  This is the
        invariant that the repair of finding C19-stop-without-removal (StopAndPrepareForConsumerRemoval reads the
        unbonding period BEFORE it sets the phase) restores for a stop whose UnbondingTime call fails inside
        SendVSCPacketsToChain: the fixed code leaves the consumer launched with its packets queued
        (C19_ex_stop_failure below), the old code left it stopped and unscheduled (C19_ex_prefix). ---- *)
Theorem C19_stopped_is_scheduled : forall U ops c r, get (reach U ops) c = Some r -> c_phase r = 4 ->
  In c (tq_get (s_remq (reach U ops)) (p_removal (c_proto r))).
Proof. exact c11_scheduled. Qed.

(* ---- reward allocation (Model/Rewards.v): an allocation for (consumer, denom) that fails at any step leaves the
        provider's money state unchanged, and the loop goes on with the next denom ---- *)
Theorem C19_alloc_rollback : forall env f c d m,
  Rewards.alloc_body env f c d m = None -> Rewards.alloc_one env f c m d = m.
Proof. exact c19_alloc_rollback. Qed.

Theorem C19_alloc_tax_failure : forall env f c d m,
  Rewards.b_fail_tax env = true ->
  Rewards.total_power (Rewards.epochs f * Rewards.bpe f) (Rewards.b_h env) (Rewards.lookup_list c (Rewards.valsets f)) <> 0 ->
  Rewards.alloc_one env f c m d = m.
Proof. exact c19_alloc_tax_failure. Qed.

Theorem C19_alloc_send_failure : forall env f c d m,
  Rewards.memz d (Rewards.b_fail_send env) = true ->
  Rewards.total_power (Rewards.epochs f * Rewards.bpe f) (Rewards.b_h env) (Rewards.lookup_list c (Rewards.valsets f)) <> 0 ->
  dtrunc_int (dmul_trunc (Rewards.get (c, d) (Rewards.alloc m)) (dsub (dec_of_int 1) (Rewards.b_tax env))) <> 0 ->
  Rewards.alloc_one env f c m d = m.
Proof. exact c19_alloc_send_failure. Qed.

Theorem C19_alloc_others_continue : forall env f c d ds m,
  Rewards.alloc_body env f c d m = None ->
  fold_left (Rewards.alloc_one env f c) (d :: ds) m = fold_left (Rewards.alloc_one env f c) ds m.
Proof. exact c19_alloc_others_continue. Qed.

(* ---- non-vacuity: a block with four due consumers; 1 fails in an external call, 2 has no active validator ---- *)
Definition good : lora := mkLO 2 true false.
Definition ex_ops : list op :=
  [ OCreate 1 7 1 (Some (5, 1, 0)); OCreate 2 7 1 (Some (5, 1, 0)); OCreate 1 8 1 (Some (6, 1, 0));
    OCreate 3 9 1 (Some (7, 1, 0)); OOptIn 1 3 true ].
Definition ex_ora (fail1 : bool) : list (Z * lora) :=
  [(0, good); (1, mkLO 2 true fail1); (2, mkLO 1 false false); (3, good)].

Example C19_ex_block :
  let s := reach 50 ex_ops in
  let a := step 50 s (OBegin 10 (ex_ora true)) in let b := step 50 s (OBegin 10 (ex_ora false)) in
  attempted s 10 = [0; 1; 2; 3] /\
  result 50 s (OBegin 10 (ex_ora true)) = 0 /\
  map (phase_of a) [0; 1; 2; 3] = [3; 1; 1; 3] /\ map (phase_of b) [0; 1; 2; 3] = [3; 3; 1; 3] /\
  get a 0 = get b 0 /\ get a 2 = get b 2 /\ get a 3 = get b 3 /\
  match get s 1, get a 1 with
  | Some r, Some r' => r' = fallback r /\ p_optin (c_proto r') = [3] /\ p_extra (c_proto r') = [22; 23] /\ p_client (c_proto r') = false
  | _, _ => False
  end.
Proof. vm_compute. repeat split; reflexivity. Qed.

(* the double fault of finding C19-stop-without-removal: a launched consumer with a channel and a queued packet; the
   channel answers SendPacket with an error (mode 2) and staking.UnbondingTime fails inside the stop *)
Definition stop_ops : list op :=
  [ OCreate 1 7 1 (Some (5, 1, 0)); OOptIn 0 3 false; OBegin 10 [(0, good)]; OChannel 0 ].

Example C19_ex_stop_failure :
  let s := reach 50 stop_ops in
  let a := step 50 s (OEnd true [0] [(0, mkEO true 2 2 true)]) in     (* UnbondingTime fails: not stopped *)
  let b := step 50 s (OEnd true [0] [(0, mkEO true 2 2 false)]) in    (* the stop succeeds *)
  result 50 s (OEnd true [0] [(0, mkEO true 2 2 true)]) = 0 /\
  phase_of a 0 = 3 /\ s_remq a = [] /\ phase_of b 0 = 4 /\ s_remq b = [(60, [0])] /\
  match get a 0, get b 0 with
  | Some ra, Some rb => p_pending (c_proto ra) = 1 /\ c_sent ra = 0 /\ p_removal (c_proto ra) = 0 /\
                        p_pending (c_proto rb) = 1 /\ p_removal (c_proto rb) = 60
  | _, _ => False
  end.
Proof. vm_compute. repeat split; reflexivity. Qed.

(* PRE-FIX (Lifecycle.stop_unscheduled_prefix, not used by run/step): the same failure left the consumer stopped
   with no removal time and no queue entry -- the invariant C19_stopped_is_scheduled fails in that state, and no
   later block ever deletes the consumer *)
Example C19_ex_prefix :
  let s := step 50 (reach 50 stop_ops) (OEnd true [0] [(0, mkEO true 2 2 true)]) in
  let bad := stop_unscheduled_prefix s 0 in
  phase_of bad 0 = 4 /\ s_remq bad = [] /\
  match get bad 0 with Some r => tq_get (s_remq bad) (p_removal (c_proto r)) = [] | None => False end /\
  phase_of (step 50 bad (OBegin 1000000 [])) 0 = 4.
Proof. vm_compute. repeat split; reflexivity. Qed.
