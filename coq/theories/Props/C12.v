(* Property C12: validator-set update ids and infraction heights line up across chains.
   Theorems about Model/Vsc.v (the model the correspondence driver harness/c01 runs); proofs are in
   Proofs/VscIds.v (and Proofs/VscProofs.v for the round trip).  See Props/C01.v for the reading guide.

   Ghost fields used here: g_epochs = (id, provider height) of every epoch block, in order;
   g_prodh = (id, provider height of the producing block) of every produced packet;
   g_recvlog = (consumer height of the receiving block, id) of every received packet, in order.
   [last_before h log] = id of the last entry of log whose height is < h, 0 if there is none.
   Heights: p_height s / c_height s are the heights of the provider / consumer block in progress; the provider
   EndBlock runs EndBlockCIS (current id -> p_height + 1, every block) BEFORE EndBlockVSU (stamp, increment). *)
From Coq Require Import ZArith List Bool Permutation Sorted Lia.
From ICS Require Import Base.Tree Model.Vsc Proofs.VscMaps Proofs.VscProofs Proofs.VscIds.
Import ListNotations.
Open Scope Z_scope.

(* ---- the id grows by exactly one in an epoch block and by zero in every other step; any state ---- *)
Theorem C12_id_step : forall s o,
  p_vscid (step s o) = p_vscid s + match o with PEndBlock true _ _ => 1 | _ => 0 end.
Proof. exact id_step. Qed.

(* ---- ids carried by packets are strictly increasing (as produced and as delivered) and each lies between the
   launch-time id and the current id ---- *)
Theorem C12_packet_ids_increasing : forall ph vid m0 l0 ch ops,
  1 <= vid -> pos_set l0 -> Forall wf_op ops ->
  let s := run_ops (init_state ph vid m0 l0 ch) ops in
  StronglySorted Z.lt (map pid (g_prod s)) /\
  StronglySorted Z.lt (map pid (g_deliv s)) /\
  Forall (fun p => vid <= pid p < p_vscid s) (g_prod s).
Proof. exact packet_ids_increasing. Qed.

(* ---- id -> height: every id i with vid <= i < current id was stamped in exactly one recorded epoch block hb,
   and the store maps i to hb + 1 - the height immediately after the block whose EndBlockVSU computed update i
   (the last EndBlockCIS that wrote i ran in that same block, before the increment).  The block that produced a
   packet with id i is that epoch block.  No hypothesis on the ops. ---- *)
Theorem C12_id_height : forall ph vid m0 l0 ch ops,
  let s := run_ops (init_state ph vid m0 l0 ch) ops in
  (forall i, vid <= i < p_vscid s -> exists hb, In (i, hb) (g_epochs s)) /\
  (forall i hb, In (i, hb) (g_epochs s) -> vid <= i < p_vscid s /\ mget i (p_vsc2h s) = Some (hb + 1)) /\
  (forall i hb, In (i, hb) (g_prodh s) -> In (i, hb) (g_epochs s)) /\
  map fst (g_prodh s) = map pid (g_prod s).
Proof. exact id_height. Qed.

(* ---- consumer: for every height h up to the block in progress (+1 once its BeginBlock has run) the stored id
   is the id of the last packet received in a block < h, 0 if none - any number of packets per block ---- *)
Theorem C12_consumer_map : forall ph vid m0 l0 ch ops,
  let s := run_ops (init_state ph vid m0 l0 ch) ops in
  forall h, h <= c_height s + (if c_inblock s then 1 else 0) ->
  get0 h (c_h2id s) = last_before h (g_recvlog s).
Proof. exact consumer_map. Qed.

Theorem C12_recvlog_meaning : forall ph vid m0 l0 ch ops,
  let s := run_ops (init_state ph vid m0 l0 ch) ops in
  map snd (g_recvlog s) = map pid (g_deliv s) /\
  Forall (fun e => fst e <= c_height s /\ (c_inblock s = false -> fst e < c_height s)) (g_recvlog s).
Proof. exact recvlog_meaning. Qed.

(* ---- round trip: the slash packet for infraction height h carries i = the id of the last packet received before
   h; if i = 0 the provider answers with the channel-opening height; otherwise i is the id of a produced packet
   and the provider answers with 1 + the height of the block that produced it ---- *)
Theorem C12_slash_roundtrip : forall ph vid m0 l0 ch ops,
  1 <= vid -> pos_set l0 -> Forall wf_op ops ->
  let s := run_ops (init_state ph vid m0 l0 ch) ops in
  forall h, h <= c_height s + (if c_inblock s then 1 else 0) ->
  let i := slash_id s h in
  i = last_before h (g_recvlog s) /\
  ((i = 0 /\ (p_chan s = true -> exists ho, recv_slash s i = Some ho /\ p_init s = Some ho /\ ho <= p_height s)) \/
   (1 <= i /\ exists hb, In (i, hb) (g_prodh s) /\ mget i (p_vsc2h s) = Some (hb + 1) /\
               (p_chan s = true -> recv_slash s i = Some (hb + 1)))).
Proof. exact slash_roundtrip. Qed.

(* the height answered for id 0 is the height of the block in which the channel was opened, and never changes *)
Theorem C12_init_height_set : forall s, p_chan s = false ->
  p_chan (step s ChanOpen) = true /\ p_init (step s ChanOpen) = Some (p_height s).
Proof. exact init_height_set. Qed.

Theorem C12_init_height_kept : forall s o, p_chan s = true ->
  p_chan (step s o) = true /\ p_init (step s o) = p_init s.
Proof. exact init_height_kept. Qed.

(* ---- unknown ids.  [issued m0 s i]: i = 0, or i was in the store at launch, or i was stamped in an epoch block.
   The full clause (every id never issued is answered with an error) is REFUTED by the model: the provider's
   CURRENT id has not been stamped on anything, but EndBlockCIS has already mapped it, so a slash packet carrying
   it is accepted.  What holds: every other never-issued id is an error; in particular every id above the
   current one. ---- *)
Theorem C12_unknown_id_error_refuted : ~ unknown_id_error_full.
Proof. exact unknown_id_error_refuted. Qed.

Theorem C12_unknown_id_error_partial : forall ph vid m0 l0 ch ops,
  let s := run_ops (init_state ph vid m0 l0 ch) ops in
  forall i, ~ issued m0 s i -> i <> p_vscid s -> recv_slash s i = None.
Proof. exact unknown_id_error_partial. Qed.

Theorem C12_future_id_error : forall ph vid m0 l0 ch ops,
  (forall i, vid < i -> mget i m0 = None) ->
  let s := run_ops (init_state ph vid m0 l0 ch) ops in
  forall i, p_vscid s < i -> 0 < i -> recv_slash s i = None.
Proof. exact future_id_error. Qed.

(* ---- non-vacuity: epoch length 2, a packet received two consumer blocks late, slash requests for heights
   before and after the receipt ---- *)
Example C12_example_ops : list op :=
  [PEndBlock false [] SOk; ChanOpen; PEndBlock true [(1, 10); (2, 7)] SOk;
   CBeginBlock; CEndBlock; PEndBlock false [] SOk; CBeginBlock; Deliver; CEndBlock;
   PEndBlock true [(1, 10); (2, 7)] SOk; CBeginBlock; CEndBlock; CBeginBlock].

Example C12_example_run :
  let s := run_ops (init_state 5 3 [(1, 2); (2, 4)] [(1, 10)] 1) C12_example_ops in
  p_vscid s = 5 /\ g_epochs s = [(3, 6); (4, 8)] /\ g_prodh s = [(3, 6)] /\ p_init s = Some 6 /\
  g_recvlog s = [(2, 3)] /\ c_h2id s = [(1, 0); (2, 0); (3, 3); (4, 3); (5, 3)] /\
  slash_id s 2 = 0 /\ slash_id s 3 = 3 /\ recv_slash s 0 = Some 6 /\ recv_slash s 3 = Some 7 /\
  recv_slash s 4 = Some 9 /\ recv_slash s 5 = None.
Proof. vm_compute. repeat split; reflexivity. Qed.
