(* Property C13: consumers are isolated from one another, including consumers whose ids share a
   textual prefix such as 1 and 10.  Statements about Model/StoreKeys.v (the model the C13 drivers
   run); proofs in Proofs/StoreKeysProofs.v. *)
From Coq Require Import ZArith NArith List Bool.
From ICS Require Import Base.Tree Model.StoreKeys Proofs.StoreKeysProofs.
Import ListNotations.
Open Scope Z_scope.

(* Consumer ids: the decimal rendering of naturals is injective (all naturals, no bound). *)
Theorem C13_decimal_injective : forall n m : N, decimal n = decimal m -> n = m.
Proof. exact decimal_injective. Qed.

(* sdk.Uint64ToBigEndian is injective on [0, 2^64). *)
Theorem C13_be64_injective : forall n m : Z,
  0 <= n < two64 -> 0 <= m < two64 -> be64 n = be64 m -> n = m.
Proof. exact be64_injective. Qed.

(* A prefix iteration with StringIdWithLenKey(p, id1) never sees a key of another consumer id2,
   whatever follows the id in the key (address, timestamp, denom): arbitrary byte strings. *)
Theorem C13_len_prefix_isolation : forall (p : Z) (id1 id2 rest : bytes),
  len id1 < two64 -> len id2 < two64 ->
  is_prefix (lenkey p id1) (lenkey p id2 ++ rest) = true -> id1 = id2.
Proof. exact len_prefix_isolation. Qed.

(* ... nor a key of another key space. *)
Theorem C13_len_prefix_isolation_spaces : forall (p1 p2 : Z) (id1 id2 rest : bytes),
  len id1 < two64 -> len id2 < two64 ->
  is_prefix (lenkey p1 id1) (lenkey p2 id2 ++ rest) = true -> p1 = p2 /\ id1 = id2.
Proof. exact len_prefix_isolation_bytes. Qed.

(* The prefix bytes of getKeyPrefixes() are pairwise distinct (the table is compared with the
   implementation's GetAllKeyPrefixes() on every run of the "keys" part). *)
Theorem C13_prefix_bytes_distinct : NoDup prefix_bytes.
Proof. exact prefix_bytes_distinct. Qed.

(* Legacy `prefix | consumerId` keys: equal keys imply equal spaces and equal ids (exact access
   never touches another consumer) ... *)
Theorem C13_legacy_exact : forall (p1 p2 : Z) (id1 id2 : bytes),
  legacy p1 id1 = legacy p2 id2 -> p1 = p2 /\ id1 = id2.
Proof. exact legacy_exact. Qed.

(* ... but the legacy key of "1" IS a byte prefix of the legacy key of "10": such a space must never
   be prefix-iterated per consumer (the "lint" part checks the keeper has no such iteration) ... *)
Theorem C13_legacy_prefix_1_10 : forall p : Z,
  is_prefix (legacy p (decimal 1)) (legacy p (decimal 10)) = true.
Proof. exact legacy_prefix_1_10. Qed.

(* ... because it would destroy the entry of consumer 10 while working on consumer 1. *)
Theorem C13_legacy_prefix_iteration_breaks_isolation :
  exists (s : store) (k v : bytes),
    decode_owner k = Some (5, decimal 10) /\ decimal 1 <> decimal 10 /\
    sget k s = Some v /\ sget k (raw_prefix_delete 5 (decimal 1) s) = None.
Proof. exact legacy_prefix_iteration_breaks_isolation. Qed.

(* ConsumeConsumerAddrsToPrune(c, ts): every constructor-built key inside the iterated range
   [StringIdWithLenKey(p,c), InclusiveEndBytes(StringIdAndTsKey(p,c,ts))) belongs to c. *)
Theorem C13_range_prune : forall (p : Z) (c ts c' ts' : bytes),
  len c < two64 -> len c' < two64 ->
  lex_leb (lenkey p c) (lenkey_suf p c' ts') = true ->
  lex_ltb (lenkey_suf p c' ts') (lenkey_suf p c ts ++ [0]) = true ->
  c' = c.
Proof. exact range_prune. Qed.

(* Attribution: every per-consumer key constructor is decoded back to its space and consumer. *)
Theorem C13_decode_encode : forall (p : Z) (id suf : bytes),
  is_legacy p || is_lenfam p = true -> len id < two64 ->
  decode_owner (build p id suf) = Some (p, id).
Proof. exact decode_build. Qed.

(* Every key reached by an iteration site that the lint monitor accepts (forms 1 and 4) for consumer c
   is attributed to c. *)
Theorem C13_iteration_sites_isolated : forall (p form : Z) (c k : bytes),
  iter_ok p form = true -> (form = 1 \/ form = 4) -> len c < two64 ->
  is_prefix (lenkey p c) k = true -> decode_owner k = Some (p, c).
Proof. exact iter_ok_isolated. Qed.

(* Frame: an operation of consumer c1 (set / delete of a constructor-built key, deletion by prefix
   iteration, the pruning range) leaves the value under every key attributed to another consumer
   c2 unchanged -- for every store, every key space, arbitrary ids. *)
Theorem C13_frame : forall (s : store) (o : op) (k : bytes) (p : Z) (c2 : bytes),
  len (op_consumer o) < two64 ->
  op_consumer o <> c2 ->
  decode_owner k = Some (p, c2) ->
  sget k (step s o) = sget k s.
Proof. exact frame_step. Qed.

(* ... over all histories of operations of consumers other than c2, interleaved arbitrarily. *)
Theorem C13_frame_history : forall (ops : list op) (s : store) (k : bytes) (p : Z) (c2 : bytes),
  Forall (fun o => len (op_consumer o) < two64 /\ op_consumer o <> c2) ops ->
  decode_owner k = Some (p, c2) ->
  sget k (fold_left step ops s) = sget k s.
Proof. exact frame_steps. Qed.

(* ... and for the ids the provider issues: naturals below 2^64 rendered in decimal. *)
Theorem C13_frame_history_ids : forall (ops : list op) (s : store) (k : bytes) (p : Z) (n2 : N),
  Forall (fun o => exists n1 : N, (n1 < 18446744073709551616)%N /\ n1 <> n2 /\
                                  op_consumer o = decimal n1) ops ->
  decode_owner k = Some (p, decimal n2) ->
  sget k (fold_left step ops s) = sget k s.
Proof. exact frame_steps_ids. Qed.

(* The monitor clause evaluated on the implementation (store part, clause 5) holds of the model. *)
Theorem C13_monitor_accepts_model : forall (s : store) (o : op),
  len (op_consumer o) < two64 -> frame_ok (op_consumer o) s (step s o) = true.
Proof. exact frame_ok_step. Qed.

(* ---- non-vacuity ---- *)

Definition addrA : bytes := [1; 2; 3; 4; 5; 6; 7; 8; 9; 10; 11; 12; 13; 14; 15; 16; 17; 18; 19; 20].
Definition st0 : store :=
  fold_left step
    [ OSet 32 (decimal 1) addrA [1]; OSet 32 (decimal 10) addrA [2]; OSet 32 (decimal 100) addrA [3];
      OSet 5 (decimal 1) [] [4]; OSet 5 (decimal 10) [] [5];
      OSet 41 (decimal 1) (fmt_time 2030 1 1 0 0 0 0) [6];
      OSet 41 (decimal 10) (fmt_time 2030 1 1 0 0 0 0) [7] ] [].

(* the ids 1, 10, 100 are textual prefixes of one another, their length-prefixed keys are not *)
Example ex_ids_prefix : is_prefix (decimal 1) (decimal 10) = true /\
                        is_prefix (decimal 10) (decimal 100) = true.
Proof. vm_compute. split; reflexivity. Qed.
Example ex_lenkey_1_10 :
  is_prefix (lenkey 32 (decimal 1)) (lenkey_suf 32 (decimal 10) addrA) = false.
Proof. vm_compute. reflexivity. Qed.
Example ex_lenkey_same : is_prefix (lenkey 32 (decimal 10)) (lenkey_suf 32 (decimal 10) addrA) = true.
Proof. vm_compute. reflexivity. Qed.

(* DeleteAllOptedIn("1") on a store that holds opt-ins of 1, 10 and 100 removes exactly the one of 1 *)
Example ex_delete_prefix :
  let s' := step st0 (ODelPrefix 32 (decimal 1)) in
  sget (build 32 (decimal 1) addrA) st0 = Some [1] /\
  sget (build 32 (decimal 1) addrA) s' = None /\
  sget (build 32 (decimal 10) addrA) s' = Some [2] /\
  sget (build 32 (decimal 100) addrA) s' = Some [3] /\ length s' = 6%nat.
Proof. vm_compute. repeat split; reflexivity. Qed.

(* ConsumeConsumerAddrsToPrune("1", ts) removes the entry of 1 and keeps the entry of 10 *)
Example ex_delete_range :
  let s' := step st0 (ODelRange 41 (decimal 1) (fmt_time 2030 1 1 0 0 0 0)) in
  sget (build 41 (decimal 1) (fmt_time 2030 1 1 0 0 0 0)) s' = None /\
  sget (build 41 (decimal 10) (fmt_time 2030 1 1 0 0 0 0)) s' = Some [7] /\ length s' = 6%nat.
Proof. vm_compute. repeat split; reflexivity. Qed.

(* the hypotheses of C13_frame are satisfiable with a key that exists and an op that changes the store *)
Example ex_frame_hyps :
  decode_owner (build 32 (decimal 10) addrA) = Some (32, decimal 10) /\
  decode_owner (build 5 (decimal 10) []) = Some (5, decimal 10) /\
  len (decimal 18446744073709551615) = 20 /\ is_legacy 5 = true /\ is_lenfam 32 = true /\
  iter_ok 32 1 = true /\ iter_ok 5 1 = false /\ iter_ok 5 3 = false /\ iter_ok 41 4 = true.
Proof. vm_compute. repeat split; reflexivity. Qed.
