(* Property C08: downtime reports jail exactly the right validator and are acknowledged.
   Theorems about Model/Slash.v (provider; the model run by harness/c08) and the consumer state
   machine of Model/Throttle.v (run by harness/c09 TestConsumer); proofs in Proofs/SlashProofs.v and
   Proofs/ThrottleProofs.v.

   Provider notation: [step frac period s o] is one op of the provider model; every theorem quantifies over
   an arbitrary initial state [init] and an arbitrary op sequence [ops] (slash packets from any consumers,
   epochs, begin-blocks, arbitrary external changes OExt of all validators, arbitrary changes OCons of a
   consumer's phase / stored set / parameters), i.e. over all histories and all oracle values.
   ORecv c key infr addr_ok power h res now = a slash packet on consumer c's channel reporting address [key],
   which resolves to provider validator [res]; h = infraction height of the vsc id (None: unknown id). *)
From Coq Require Import ZArith List Bool.
From ICS Require Import Base.Dec Base.Tree Model.Throttle Model.Slash Proofs.ThrottleProofs Proofs.SlashProofs.
Import ListNotations.
Open Scope Z_scope.

(* ---- the reported validator is jailed by this packet iff ... ---- *)
Theorem C08_jail_iff : forall frac period init ops c key infr addr_ok power h res now,
  let s := fold_left (step frac period) ops init in
  let s' := step frac period s (ORecv c key infr addr_ok power h res now) in
  (v_jailed (getv s' res) = true /\ v_jailed (getv s res) = false)
  <-> jail_cond s c infr addr_ok power h res = true.
Proof. exact jail_iff_run. Qed.

(* ... where jail_cond is exactly: registered channel, valid data, known vsc id, downtime, consumer launched,
   validator in the consumer's stored set, meter >= 0, validator known to staking, not unbonded, not tombstoned,
   not already jailed (and the consumer's infraction parameters exist) *)
Theorem C08_jail_cond_spec : forall s c infr addr_ok power h res,
  jail_cond s c infr addr_ok power h res = true <->
  exists x height,
    getc s c = Some x /\ h = Some height /\
    validate addr_ok power infr = true /\ infr = DOWNTIME /\
    c_phase x = LAUNCHED /\ In res (c_set x) /\
    0 <= meter (thr s) /\
    v_found (getv s res) = true /\ v_status (getv s res) <> UNBONDED /\
    v_tomb (getv s res) = false /\ v_jailed (getv s res) = false /\
    c_params x <> None.
Proof. exact jail_cond_spec. Qed.

(* ---- frame: no other validator is affected by a slash packet; double-sign packets change nothing at all;
        of the reported validator only jailed / tokens / jailed-until / slash log can change; epochs,
        begin-blocks and consumer configuration changes never touch a validator ---- *)
Theorem C08_nobody_else : forall frac period init ops o,
  let s := fold_left (step frac period) ops init in
  let s' := step frac period s o in
  match o with
  | ORecv c key infr addr_ok power h res now =>
      (forall i, i <> res -> getv s' i = getv s i) /\
      length (vals s') = length (vals s) /\
      (infr = DOUBLE_SIGN -> s' = s) /\
      v_found (getv s' res) = v_found (getv s res) /\ v_status (getv s' res) = v_status (getv s res) /\
      v_tomb (getv s' res) = v_tomb (getv s res) /\ v_lastpow (getv s' res) = v_lastpow (getv s res)
  | OExt _ => True
  | _ => vals s' = vals s
  end.
Proof. exact nobody_else_run. Qed.

(* ---- the punishment uses the consumer's downtime parameters in force ---- *)
Theorem C08_params : forall frac period init ops c key infr addr_ok power h res now,
  let s := fold_left (step frac period) ops init in
  let s' := step frac period s (ORecv c key infr addr_ok power h res now) in
  jail_cond s c infr addr_ok power h res = true ->
  exists x fr dur height,
    getc s c = Some x /\ c_params x = Some (fr, dur) /\ h = Some height /\
    getv s' res = jail_val (getv s res) fr dur power height now /\
    v_jailed (getv s' res) = true /\
    v_until (getv s' res) = now + dur /\
    v_tokens (getv s' res) = slash_tokens fr power (v_tokens (getv s res)) /\
    v_log (getv s' res) = v_log (getv s res) ++ [(height, power, fr)].
Proof. exact params_run. Qed.

(* ---- acknowledgements ---- *)
(* an ack for the reported address is appended to the reporting consumer's list exactly when ack_cond holds;
   nothing else changes any consumer's pending acks *)
Theorem C08_ack : forall frac period init ops c key infr addr_ok power h res now c',
  let s := fold_left (step frac period) ops init in
  let s' := step frac period s (ORecv c key infr addr_ok power h res now) in
  acks_of s' c' = acks_of s c' ++ (if (c =? c') && ack_cond s c infr addr_ok power h res then [key] else []).
Proof. exact ack_step_run. Qed.

(* ack_cond = the listed cases: consumer not launched, validator not in the set, jailed now, already jailed
   (plus: parameters missing) -- and none of: unbonded / tombstoned / unknown validator, bounced (meter < 0),
   double-sign, invalid data, unknown vsc id *)
Theorem C08_ack_cases : forall s c infr addr_ok power h res,
  ack_cond s c infr addr_ok power h res = true <->
  wellformed s c infr addr_ok power h = true /\
  (launched s c = false \/
   (launched s c = true /\ member s c res = false) \/
   jail_cond s c infr addr_ok power h res = true \/
   (launched s c = true /\ member s c res = true /\ admitted s = true /\ punishable (getv s res) = true /\
    (v_jailed (getv s res) = true \/ has_params s c = false))).
Proof. exact ack_cond_cases. Qed.

(* the next VSC packet PRODUCED for the consumer carries exactly the pending acks and empties the list;
   an epoch without a packet for this consumer leaves them pending *)
Theorem C08_ack_epoch : forall frac period s prod c x,
  getc s c = Some x ->
  let p := nthz c prod false in
  emitted_for frac period s (OEpoch prod) c = (if p then c_acks x else []) /\
  acks_of (step frac period s (OEpoch prod)) c = (if p then [] else c_acks x).
Proof. exact epoch_exact. Qed.

(* acks are never lost or duplicated: over any history, (pending at the start) ++ (everything appended)
   = (everything emitted in VSC packets, in order) ++ (pending at the end) *)
Theorem C08_ack_conserved : forall frac period ops s c,
  acks_of s c ++ all_appended frac period s ops c =
  all_emitted frac period s ops c ++ acks_of (fold_left (step frac period) ops s) c.
Proof. exact acks_conserved. Qed.

(* acknowledgement class returned to the consumer *)
Theorem C08_ack_class : forall frac period init ops c key infr addr_ok power h res now,
  let s := fold_left (step frac period) ops init in
  snd (fst (step_out frac period s (ORecv c key infr addr_ok power h res now))) =
  match getc s c with
  | None => 0
  | Some x =>
    if negb (validate addr_ok power infr) then 4
    else match h with
         | None => 4
         | Some _ =>
           if infr =? DOUBLE_SIGN then 1
           else if (c_phase x =? LAUNCHED) && memz res (c_set x) && (meter (thr s) <? 0) then 3 else 2
         end
  end.
Proof. exact class_run. Qed.

(* ---- consumer: outstanding downtime ---- *)
(* a flag that is set disappears exactly by a VSC packet acknowledging the address, or by the validator being
   (re-)created by ApplyCCValidatorChanges *)
Theorem C08_outstanding_cleared_iff : forall delay s op a,
  In a (outst s) -> (~ In a (outst (cstep delay s op)) <-> clearing_op s op a = true).
Proof. exact flag_clear_iff. Qed.

(* with the flag set a further downtime report is not queued at all *)
Theorem C08_outstanding_guard : forall delay s a idv,
  In a (outst s) -> cstep_out delay s (CQueueSlash a idv true) = (s, [], 0).
Proof. exact queue_guard. Qed.

(* without it the report is queued and the flag set *)
Theorem C08_outstanding_set : forall delay s a idv,
  ~ In a (outst s) ->
  cstep delay s (CQueueSlash a idv true) =
    mkC (queue s ++ [mkPkt 1 idv a]) (srec s) (chan s) (closed s) (a :: outst s) (ccvals s) (pend s).
Proof. exact queue_sets_flag. Qed.

(* at most one downtime report per validator between two acknowledgements: along any history without a clearing
   op for a, at most one report for a is queued, none if one is already outstanding *)
Theorem C08_outstanding : forall delay a ops s,
  no_clear delay a s ops = true ->
  enq_count delay a s ops <= (if memz a (outst s) then 0 else 1).
Proof. exact one_report. Qed.

(* queue-level reading ("at most one report for a validator is ever in the pending queue"): REFUTED by the
   faithful model -- the VSC packet carrying the slash ack can be received while the acknowledged slash packet is
   still at the head of the queue (its IBC acknowledgement has not been relayed yet); a new downtime of the same
   validator then queues a second report.  harness/c09 replays this history on the real consumer keeper. *)
Definition C08_outstanding_queue_full : Prop :=
  forall delay ch ops a, queued_for a (fold_left (cstep delay) ops (cinit ch)) <= 1.

Theorem C08_outstanding_queue_refuted : ~ C08_outstanding_queue_full.
Proof.
  intros H.
  specialize (H 1000000000 true
    [CQueueSlash 1 1 true; CSend 0 None; CRecvVSC [1] []; CQueueSlash 1 2 true] 1).
  vm_compute in H. apply H. reflexivity.
Qed.

(* it holds when every clearing op for a arrives after the report has left the queue *)
Theorem C08_outstanding_queue_partial : forall delay ch ops a,
  ordered_clears delay a (cinit ch) ops = true ->
  let s := fold_left (cstep delay) ops (cinit ch) in
  queued_for a s <= 1 /\ (queued_for a s = 1 -> In a (outst s)).
Proof. exact outstanding_queue_partial. Qed.

(* ---- non-vacuity ---- *)
Definition ex_val : val := mkV true 3 false false 5000000 5 0 [].
Definition ex_state : state :=
  mkS [ex_val; ex_val] [mkCo LAUNCHED [0; 1] (Some (10000000000000000, 600000000000)) []] (mkP 1 0).

Example C08_ex_jail : jail_cond ex_state 0 DOWNTIME true 5 (Some 7) 1 = true.
Proof. reflexivity. Qed.

Example C08_ex_jailed :
  let s' := step 50000000000000000 3600000000000 ex_state (ORecv 0 42 DOWNTIME true 5 (Some 7) 1 100) in
  getv s' 1 = mkV true 3 true false 4950000 5 600000000100 [(7, 5, 10000000000000000)] /\
  getv s' 0 = ex_val /\ acks_of s' 0 = [42] /\ meter (thr s') = -4.
Proof. vm_compute. repeat split. Qed.

Example C08_ex_bounced :
  let s1 := step 50000000000000000 3600000000000 ex_state (ORecv 0 42 DOWNTIME true 5 (Some 7) 1 100) in
  step_out 50000000000000000 3600000000000 s1 (ORecv 0 43 DOWNTIME true 5 (Some 7) 0 100) = (s1, 3, []).
Proof. vm_compute. reflexivity. Qed.

Example C08_ex_epoch :
  let s1 := step 50000000000000000 3600000000000 ex_state (ORecv 0 42 DOWNTIME true 5 (Some 7) 1 100) in
  emitted 50000000000000000 3600000000000 s1 (OEpoch [true]) = [[42]].
Proof. vm_compute. reflexivity. Qed.

Example C08_ex_outstanding :
  no_clear 5 1 (cinit true) [CQueueSlash 1 1 true; CSend 0 None; CQueueSlash 1 2 true] = true /\
  enq_count 5 1 (cinit true) [CQueueSlash 1 1 true; CSend 0 None; CQueueSlash 1 2 true] = 1.
Proof. vm_compute. split; reflexivity. Qed.
