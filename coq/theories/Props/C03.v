(* Property C03: Top-N consumers are validated by every validator in the top N % of power.
   Theorems about Model/TopN.v (the model run against the real keeper by harness/c03).
   Vocabulary (definitions in Model/TopN.v and Proofs/TopNProofs.v):
     compute_min_power powers N   ComputeMinPowerInTopN (LegacyDec arithmetic of Base/Dec.v)
     sum_ge m l / sum_gt m l      total power of the entries with power >= m / > m
     step s o, exec ops           one operation / a whole history from the initial state
     recomputes s o a b M         o is an Epoch (a = active, b = bonded validators, M =
                                  MaxProviderConsensusValidators) on a launched consumer, or a Launch
     oracle_ok a b M              active validators are bonded and there are at most M of them
     passes_filters s v           allowlist, denylist and minimum stake admit v
     may_opt_out s p              launched /\ (not Top-N \/ p < stored threshold)
     grants s o v / revokes s o v o (executed in s) creates / deletes v's opt-in record
     justified ops v              some operation of ops granted v's record and no later one revoked it *)
From Coq Require Import ZArith List Bool.
From ICS Require Import Base.Dec Base.SortDesc Base.Tree Model.TopN Proofs.TopNProofs.
Import ListNotations.
Open Scope Z_scope.

(* "the smallest voting power m such that validators with power at least m hold at least N %":
   the returned m is a power of the table, the validators with power >= m hold >= N % and those
   with power > m hold < N % -- for every table with total below 2*10^16 and every N in [1,100] *)
Theorem C03_threshold : forall powers N,
  Forall (fun p => 0 <= p) powers ->
  0 < sum_z powers -> sum_z powers < 20000000000000000 ->
  1 <= N <= 100 ->
  exists m, compute_min_power powers N = Some m
    /\ In m powers
    /\ N * sum_z powers <= 100 * sum_ge m powers
    /\ 100 * sum_gt m powers < N * sum_z powers.
Proof. exact threshold_correct. Qed.

(* the bound on the total is needed: with total 10^18 + 1 the function returns 5*10^17 although that
   validator alone holds less than 50 % (the exact threshold is 25*10^16 + 1) *)
Theorem C03_threshold_rounding_witness :
  let powers := [500000000000000000; 250000000000000000; 250000000000000001] in
  compute_min_power powers 50 = Some 500000000000000000
  /\ 100 * sum_ge 500000000000000000 powers < 50 * sum_z powers
  /\ spec_min_power powers 50 = Some 250000000000000001.
Proof. exact rounding_witness. Qed.

(* "every active validator with power at least m is automatically opted in and included unless
   excluded by the allowlist, denylist or minimum stake": at every epoch and at launch of a Top-N
   consumer the threshold of the ACTIVE validators is stored, and every active validator at or above
   it that passes the filters is in the computed set and holds an opt-in record *)
Theorem C03_included : forall s o active bonded maxv s',
  recomputes s o active bonded maxv -> 0 < top_n s ->
  step s o = (s', 0) ->
  oracle_ok active bonded maxv ->
  exists m,
    compute_min_power (map bpow active) (top_n s) = Some m
    /\ thr s' = Some m
    /\ forall a, In a active -> m <= bpow a -> passes_filters s a ->
         In (bid a) (valset s') /\ In (bid a) (opted s').
Proof. exact included. Qed.

(* "cannot opt out while it stays at or above m": MsgOptOut of a registered validator succeeds iff the
   consumer is launched and (it is not Top-N or the validator's power is below the stored threshold);
   a rejected opt-out changes nothing, an accepted one deletes exactly that record; on a Top-N consumer
   without stored threshold it is rejected ("not found", code 3), at or above the threshold with code 4 *)
Theorem C03_optout : forall s v known power,
  let r := step s (OptOut v known power) in
  (snd r = 0 <-> known = true /\ may_opt_out s power)
  /\ (snd r <> 0 -> fst r = s)
  /\ (snd r = 0 -> fst r = with_opted (set_del v (opted s)) s)
  /\ (known = true -> launched s = true -> 0 < top_n s -> thr s = None -> snd r = 3)
  /\ (known = true -> launched s = true -> 0 < top_n s ->
      forall m, thr s = Some m -> m <= power -> snd r = 4).
Proof. exact opt_out_spec. Qed.

(* in every reachable state Top_N is 0 or in [50,100] and a Top-N consumer has a stored threshold,
   so after any history an opt-out succeeds iff launched and (Top_N = 0 or power < stored m) *)
Theorem C03_threshold_stored : forall ops, wf (exec ops).
Proof. exact exec_wf. Qed.

Theorem C03_optout_reachable : forall ops v known power,
  let s := exec ops in
  snd (step s (OptOut v known power)) = 0 <->
  known = true /\ launched s = true /\
  (top_n s = 0 \/ exists m, thr s = Some m /\ power < m).
Proof. exact opt_out_reachable. Qed.

(* "validators below m are included only if they opted in themselves": a member of the set computed
   at an epoch/launch of a Top-N consumer has power >= m, or was (automatically) opted in at this very
   moment as an active validator with power >= m, or held an opt-in record before *)
Theorem C03_below_threshold : forall s o active bonded maxv s',
  recomputes s o active bonded maxv -> 0 < top_n s ->
  step s o = (s', 0) ->
  exists m, thr s' = Some m /\
    forall v, In v (valset s') ->
      exists b, (In b active \/ In b bonded) /\ bid b = v /\
        (m <= bpow b \/ (In v (opted s) /\ In v (opted s')) \/
         exists a, In a active /\ bid a = v /\ m <= bpow a).
Proof. exact below_threshold. Qed.

(* ... and over any history (epochs, power changes carried by the oracle lists, opt-in/out attempts,
   Top-N changes and resets) a record exists iff some earlier operation granted it -- a successful
   MsgOptIn, or an epoch/launch at which the validator was active with power >= the threshold computed
   then -- and no later operation was a successful MsgOptOut of that validator.  An automatic opt-in
   therefore persists after the validator drops below m (documented behaviour). *)
Theorem C03_history : forall ops v, In v (opted (exec ops)) <-> justified ops v.
Proof. exact history. Qed.

(* one step of the same characterisation *)
Theorem C03_history_step : forall s o v,
  In v (opted (fst (step s o))) <-> grants s o v \/ (In v (opted s) /\ ~ revokes s o v).
Proof. exact step_opted. Qed.

(* ---- non-vacuity ---- *)

Example threshold_ties : compute_min_power [5; 5; 5; 7; 100; 5] 90 = Some 5.
Proof. vm_compute. reflexivity. Qed.

Example threshold_exact_share : compute_min_power [1; 50; 49] 50 = Some 50 /\ compute_min_power [1; 50; 49] 51 = Some 49.
Proof. vm_compute. split; reflexivity. Qed.

(* validator 0 (auto opted in at launch with power 100 >= 100) drops to 20 < m = 30 and leaves;
   validator 2 (40 >= 30) is refused; validator 1 keeps the record it asked for *)
Example history_run :
  map (fun k => snd (step (exec (firstn k ex_ops)) (nth k ex_ops (OptIn 0 false)))) [0; 1; 2; 3; 4; 5]%nat
    = [0; 0; 0; 0; 0; 4]
  /\ opted (exec ex_ops) = [1; 2] /\ thr (exec ex_ops) = Some 30 /\ valset (exec ex_ops) = [2; 1; 0]
  /\ oracle_ok ex_vals' ex_vals' 3.
Proof.
  vm_compute. repeat split; try reflexivity; try (intros x H; exact H). intros H; discriminate H.
Qed.
