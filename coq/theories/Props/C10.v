From ICS Require Import Base.Tree Model.Lifecycle.
Theorem placeholder : True. Proof. exact I. Qed.
