(* Property C10: the consumer lifecycle follows the phase machine and the launch schedule.
   Theorems about Model/Lifecycle.v (the model the correspondence driver harness/c10 runs); proofs are in
   Proofs/Lifecycle{Base,Inv,Steps,C10}.v.  All statements are about [reach U ops] = the state after an ARBITRARY
   sequence [ops] of operations (create / update / remove messages, opt-ins, other sub-protocols' writes, channel
   handshakes, begin-blocks with arbitrary times and launch oracles, end-blocks with arbitrary oracles, packet
   timeouts and error acknowledgements) from the empty state, for every unbonding period U.
   Phases: 0 no such consumer, 1 registered, 2 initialized, 3 launched, 4 stopped, 5 deleted. *)
From Coq Require Import ZArith List Bool.
From ICS Require Import Base.Tree Model.Lifecycle Proofs.LifecycleBase Proofs.LifecycleInv Proofs.LifecycleSteps
  Proofs.LifecycleC10.
Import ListNotations.
Open Scope Z_scope.

(* ---- "Each consumer id is issued once, in increasing order" ---- *)

(* the consumers that exist are exactly 0, 1, ..., next-1, in this order *)
Theorem C10_ids : forall U ops, let s := reach U ops in
  0 <= s_next s /\ map c_id (s_cons s) = zseq 0 (Z.to_nat (s_next s)).
Proof. exact c10_ids. Qed.

(* the counter moves only by a successful create, by one; the id it issues was unused and belongs to the new
   consumer; every existing consumer keeps its id *)
Theorem C10_ids_step : forall U ops o, let s := reach U ops in
  s_next (step U s o) = s_next s + (if creates U s o then 1 else 0) /\
  (creates U s o = true ->
     get s (s_next s) = None /\ exists r, get (step U s o) (s_next s) = Some r /\ c_id r = s_next s) /\
  (forall c r, get s c = Some r -> exists r', get (step U s o) c = Some r' /\ c_id r' = c).
Proof. exact c10_ids_step. Qed.

(* ---- "its phase only moves registered <-> initialized -> launched -> stopped -> deleted" ---- *)

Theorem C10_phase_edges : forall U ops o c,
  edge_ok (phase_of (reach U ops) c) (phase_of (step U (reach U ops) o) c) = true.
Proof. exact c10_phase_edges. Qed.

(* "a launched consumer never returns to a pre-launch phase": from launched on the phase never decreases *)
Theorem C10_no_return : forall U ops ops' c,
  3 <= phase_of (reach U ops) c -> phase_of (reach U ops) c <= phase_of (reach U (ops ++ ops')) c.
Proof. exact c10_no_return. Qed.

(* "a deleted one never becomes active again" *)
Theorem C10_deleted_forever : forall U ops ops' c,
  phase_of (reach U ops) c = 5 -> phase_of (reach U (ops ++ ops')) c = 5.
Proof. exact c10_deleted_forever. Qed.

(* ---- "initialized exactly while it has a non-zero spawn time and is then scheduled exactly once at that time" ----
   (for launched / stopped / deleted consumers the spawn time keeps its last value as a descriptive record) *)
Theorem C10_queue_consistent : forall U ops, let s := reach U ops in let q := s_spawnq s in
  NoDup (all_ids q) /\
  (forall c, In c (all_ids q) -> exists r, get s c = Some r) /\
  (forall c r, get s c = Some r ->
     (c_phase r = 2 <-> In c (all_ids q)) /\
     occ c (all_ids q) = (if c_phase r =? 2 then 1%nat else 0%nat) /\
     (c_phase r = 2 -> d_spawn (c_desc r) <> 0 /\ In c (tq_get q (d_spawn (c_desc r)))) /\
     (forall ts, In c (tq_get q ts) -> ts = d_spawn (c_desc r)) /\
     (c_phase r = 1 -> d_spawn (c_desc r) = 0)).
Proof. exact c10_queue_consistent. Qed.

(* ---- "launched in the first provider block whose time is at or after the spawn time (at most 200 per block ...)
        provided its initial validator set is non-empty and contains an active provider validator, and otherwise it
        falls back to registered with its spawn time cleared" ----
   att = the first min(200, due) due consumers in queue order.  [attempt r o] is the launched record when the oracle
   [o] says: set non-empty, active validator present, no external call fails; else the fallback record. *)
Theorem C10_launch_when_due : forall U ops now ora,
  let s := reach U ops in let s' := step U s (OBegin now ora) in let att := attempted s now in
  all_ids (s_spawnq s') = skipn (length att) (all_ids (s_spawnq s)) /\
  (forall c, In c att -> exists r, get s c = Some r /\ c_phase r = 2 /\
     let r' := attempt r (lookup no_lora ora c) in
     get s' c = Some r' /\
     (lora_good (lookup no_lora ora c) = true ->
        c_phase r' = 3 /\ p_genesis (c_proto r') = true /\ p_client (c_proto r') = true /\
        p_evmin (c_proto r') = true /\ p_valset (c_proto r') = lo_size (lookup no_lora ora c)) /\
     (lora_good (lookup no_lora ora c) = false ->
        c_phase r' = 1 /\ d_spawn (c_desc r') = 0 /\ no_artefact (c_proto r') = true /\ c_proto r' = c_proto r)) /\
  (forall c r, ~ In c att -> get s c = Some r -> c_phase r = 2 -> get s' c = Some r /\ In c (all_ids (s_spawnq s'))).
Proof. exact c10_launch_when_due. Qed.

(* the fallback is total: the launch part of BeginBlock never returns an error (code 0 = ok) ... *)
Theorem C10_fallback_total : forall U ops now ora, result U (reach U ops) (OBegin now ora) = 0.
Proof. exact c10_begin_total. Qed.

(* ... because the stored initial height always matches the revision of the stored chain id (this is the invariant
   that the repaired UpdateConsumer maintains; without the repair it is refuted by
   create(chain rev 1, height rev 1, spawn T); update(new chain id with rev 2); begin-block at T, finding C10-F1) *)
Theorem C10_revision_invariant : forall U ops c r,
  get (reach U ops) c = Some r -> d_rev (c_desc r) = d_hrev (c_desc r).
Proof. exact c10_rev_invariant. Qed.

(* ---- "(at most 200 per block, the rest in the following blocks)": n consumers due at time T are all attempted
        within ceil(n/200) begin-blocks at times >= T ---- *)
Theorem C10_all_due_processed : forall U ops T bl, Forall (fun b => T <= fst b) bl ->
  let s := reach U ops in
  let s' := fold_left (step U) (map (fun b => OBegin (fst b) (snd b)) bl) s in
  length (due (s_spawnq s') T) = (length (due (s_spawnq s) T) - limit * length bl)%nat /\
  ((length (due (s_spawnq s) T) <= limit * length bl)%nat -> due (s_spawnq s') T = []).
Proof. exact c10_all_due_processed. Qed.

(* ---- "A successful launch records the consumer genesis ... and the consumer's light client" ---- *)
Theorem C10_artefacts : forall U ops c r, get (reach U ops) c = Some r ->
  (c_phase r = 3 -> p_genesis (c_proto r) = true /\ p_client (c_proto r) = true /\ p_evmin (c_proto r) = true) /\
  (c_phase r <= 2 -> no_artefact (c_proto r) = true /\ p_channel (c_proto r) = false /\
                     p_pending (c_proto r) = 0 /\ p_removal (c_proto r) = 0).
Proof. exact c10_artefacts. Qed.

(* ---- non-vacuity ---- *)

Definition good : lora := mkLO 2 true false.
Definition noactive : lora := mkLO 1 false false.

(* three consumers due at time 10; 0 launches, 1 has no active validator, 2 was unscheduled by its owner; 3 is due later *)
Definition ex_ops : list op :=
  [ OCreate 1 7 1 (Some (5, 1, 0)); OCreate 2 7 1 (Some (5, 1, 0)); OCreate 1 8 0 (Some (9, 0, 0));
    OCreate 3 9 1 (Some (30, 1, 0)); OCreate 3 9 2 None;
    OUpdate 2 1 None None (Some (0, 0, 0)); OUpdate 2 9 None None None;
    OBegin 10 [(0, good); (1, noactive); (3, good)] ].

Example C10_ex_launch :
  let s := reach 50 ex_ops in
  s_next s = 4 /\ map (phase_of s) [0; 1; 2; 3; 4] = [3; 1; 1; 2; 0] /\
  attempted (reach 50 (removelast ex_ops)) 10 = [0; 1] /\
  s_spawnq s = [(30, [3])] /\
  map (fun c => match get s c with Some r => d_spawn (c_desc r) | None => -1 end) [0; 1; 2; 3] = [5; 0; 0; 30] /\
  map (result 50 (reach 50 (firstn 4 ex_ops))) (skipn 4 ex_ops) = [5; 0; 3; 0].
Proof. vm_compute. repeat split; reflexivity. Qed.

(* 201 consumers due in one block: 200 are attempted, the last one in the next block *)
Definition many_ops : list op :=
  map (fun _ => OCreate 1 7 1 (Some (5, 1, 0))) (seq 0 201) ++ [OBegin 10 (map (fun c => (Z.of_nat c, good)) (seq 0 201))].

Example C10_ex_201 :
  let s := reach 50 many_ops in
  length (attempted (reach 50 (removelast many_ops)) 10) = 200%nat /\
  phase_of s 199 = 3 /\ phase_of s 200 = 2 /\ s_spawnq s = [(5, [200])] /\
  phase_of (step 50 s (OBegin 10 [(200, good)])) 200 = 3.
Proof. vm_compute. repeat split; reflexivity. Qed.
