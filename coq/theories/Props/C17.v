(* C17 -- consumers, light clients and CCV channels are bound one to one.
   Theorems about Model/Handshake.v (the model the correspondence driver runs); proofs in Proofs/HandshakeProofs.v.
   [prun ops] is the provider state after an arbitrary sequence of operations (world operations of IBC core,
   launches on a fresh client or on a named connection, every handshake callback, stops, deletions, packet
   callbacks); [crun s0 ops] the same for the consumer. *)
From Coq Require Import ZArith List Bool.
From ICS Require Import Base.Tree Model.Handshake Proofs.HandshakeProofs.
Import ListNotations.
Open Scope Z_scope.

(* OnChanOpenTry never writes state and is accepted iff: ORDERED, own port = provider port, counterparty port =
   consumer port, supported version, exactly one hop, and the hop's (existing) client is bound -- by the reverse
   AND the forward index -- to a consumer that has no CCV channel yet.  Holds in every state. *)
Theorem C17_try_accept_iff : forall s order port cpport version hops,
  exists r, pstep s (PTry order port cpport version hops) = (s, (r, -1)) /\
  (r = OK <->
   order = ORDERED /\ port = PORT_PROVIDER /\ cpport = PORT_CONSUMER /\ version = VERSION_OK /\
   exists conn x c, hops = [conn] /\ conns s conn = Some x /\ clients s x <> None /\
                    rev s x = Some c /\ fwd s c = Some x /\ c2ch s c = None).
Proof. exact thm_try_accept_iff. Qed.

(* OnChanOpenConfirm in every reachable state. *)
Theorem C17_confirm_binds_once : forall ops, let s := prun ops in
  (forall ch, snd (chan_open_confirm s ch) = OK <->
     exists conn x c, chans s ch = Some conn /\ conns s conn = Some x /\ clients s x <> None /\
                      rev s x = Some c /\ fwd s c = Some x /\ c2ch s c = None) /\
  (forall ch conn x c, chans s ch = Some conn -> conns s conn = Some x -> clients s x <> None ->
     rev s x = Some c -> c2ch s c = None ->
     c2ch (fst (chan_open_confirm s ch)) c = Some ch /\ ch2c (fst (chan_open_confirm s ch)) ch = Some c) /\
  (forall ch, snd (chan_open_confirm s ch) <> OK -> fst (chan_open_confirm s ch) = s) /\
  (forall ch conn x c ch0, chans s ch = Some conn -> conns s conn = Some x -> rev s x = Some c ->
     c2ch s c = Some ch0 -> pstep s (PConfirm ch) = (s, (E_DUP, -1))) /\
  (forall o c ch, c2ch s c = None -> c2ch (fst (pstep s o)) c = Some ch ->
     o = PConfirm ch /\ exists conn x, chans s ch = Some conn /\ conns s conn = Some x /\
                                       fwd s c = Some x /\ rev s x = Some c) /\
  (forall o c ch ch', c2ch s c = Some ch -> c2ch (fst (pstep s o)) c = Some ch' -> ch' = ch).
Proof. exact thm_confirm_binds_once. Qed.

(* consumer <-> channel: mutually inverse partial bijections in every reachable state *)
Theorem C17_channel_bijection : forall ops, let s := prun ops in
  (forall c ch, c2ch s c = Some ch <-> ch2c s ch = Some c) /\
  (forall c1 c2 ch, c2ch s c1 = Some ch -> c2ch s c2 = Some ch -> c1 = c2) /\
  (forall ch1 ch2 c, ch2c s ch1 = Some c -> ch2c s ch2 = Some c -> ch1 = ch2).
Proof. exact thm_channel_bijection. Qed.

(* consumer <-> client: mutually inverse partial bijections in every reachable state (in full, for the repaired
   MakeConsumerGenesis); no two consumers share a client *)
Theorem C17_client_bijection : forall ops, let s := prun ops in
  (forall c x, fwd s c = Some x <-> rev s x = Some c) /\
  (forall c1 c2 x, fwd s c1 = Some x -> fwd s c2 = Some x -> c1 = c2) /\
  (forall x1 x2 c, rev s x1 = Some c -> rev s x2 = Some c -> x1 = x2).
Proof. exact thm_client_bijection. Qed.

(* packets arriving on a channel are attributed to the consumer that was launched with the underlying client *)
Theorem C17_attribution : forall ops, let s := prun ops in
  (forall ch c, attribute s ch = Some c ->
     exists conn x, chans s ch = Some conn /\ conns s conn = Some x /\
                    fwd s c = Some x /\ rev s x = Some c /\ In (c, x) (launch_log s)) /\
  (forall ch, snd (snd (pstep s (PRecvSlash ch))) = oz (attribute s ch) /\
              snd (snd (pstep s (PTimeout ch))) = oz (attribute s ch) /\
              snd (snd (pstep s (PAckErr ch))) = oz (attribute s ch)) /\
  (forall o c x, In (c, x) (launch_log (fst (pstep s o))) ->
     In (c, x) (launch_log s) \/
     exists chain conn, o = PLaunch c chain conn /\ fst (snd (pstep s o)) = OK /\ fwd (fst (pstep s o)) c = Some x /\
                        match conn with Some k => conns s k = Some x | None => x = next_client s end) /\
  (forall o, (forall ch conn, chans s ch = Some conn -> chans (fst (pstep s o)) ch = Some conn) /\
             (forall conn x, conns s conn = Some x -> conns (fst (pstep s o)) conn = Some x)).
Proof. exact thm_attribution. Qed.

(* a deleted consumer is bound to nothing, for ever: DeleteConsumerChain removes the consumer->channel AND the
   channel->consumer entry whatever the state of the channel end (a timeout has usually closed it already) and
   closes the end otherwise; afterwards no channel is attributed to the consumer, no operation -- in particular no
   late packet callback on the old channel -- changes its phase again *)
Theorem C17_deleted_unbound : forall ops, let s := prun ops in
  (forall c, phase s c = PH_DELETED ->
     fwd s c = None /\ c2ch s c = None /\ (forall ch, ch2c s ch <> Some c) /\ (forall x, rev s x <> Some c) /\
     (forall ch, attribute s ch <> Some c)) /\
  (forall c ch, phase s c = PH_STOPPED -> c2ch s c = Some ch ->
     c2ch (delete_consumer s c) c = None /\ ch2c (delete_consumer s c) ch = None /\
     phase (delete_consumer s c) c = PH_DELETED /\ (chans s ch <> None -> closed (delete_consumer s c) ch = true)) /\
  (forall o c, phase s c = PH_DELETED -> phase (fst (pstep s o)) c = PH_DELETED) /\
  (forall ch c, attribute s ch = Some c -> closed (fst (pstep s (PTimeout ch))) ch = true) /\
  (forall o ch, closed s ch = true -> closed (fst (pstep s o)) ch = true).
Proof. exact thm_deleted_unbound. Qed.

(* the provider never completes a handshake it initiated (and users cannot close CCV channels) *)
Theorem C17_init_ack_rejected : forall s,
  pstep s POpenInit = (s, (E_FLOW, -1)) /\ pstep s POpenAck = (s, (E_FLOW, -1)) /\ E_FLOW <> OK /\
  pstep s PCloseInit = (s, (E_CLOSE, -1)) /\ E_CLOSE <> OK.
Proof. exact thm_init_ack_rejected. Qed.

(* documentation of the repaired defect: without the "client already bound to another consumer" check the very
   same launch binds two consumers to one client and the reverse index forgets the first *)
Theorem C17_client_bijection_needs_check :
  exists s c1 c2 chain conn s1,
    reachable s /\ c1 <> c2 /\
    launch_on_connection_unchecked s c2 chain conn = Some s1 /\
    fwd s1 c1 = fwd s1 c2 /\ fwd s1 c1 <> None /\ rev s1 0 = Some c2 /\
    launch_on_connection s c2 chain conn = None /\
    (let s2 := fst (pstep s (PLaunch c2 chain (Some conn))) in
     fwd s2 c1 = Some 0 /\ rev s2 0 = Some c1 /\ fwd s2 c2 = None /\ phase s2 c2 = PH_REGISTERED).
Proof. exact thm_client_bijection_needs_check. Qed.

(* consumer: channels are opened only over the recorded provider client, only from the consumer side *)
Theorem C17_consumer_open_only_over_provider_client :
  (forall s order port version cpport hops,
     exists r, cstep s (COpenInit order port version cpport hops) = (s, r) /\
     (r = OK <->
      pchan s = None /\ order = ORDERED /\ port = PORT_CONSUMER /\ (version = VERSION_OK \/ version = VERSION_EMPTY) /\
      cpport = PORT_PROVIDER /\ exists conn x, hops = [conn] /\ cconns s conn = Some x /\ pclient s = Some x)) /\
  (forall s, cstep s COpenTry = (s, E_FLOW) /\ cstep s COpenConfirm = (s, E_FLOW) /\ E_FLOW <> OK) /\
  (forall s0 ops, pclient (crun s0 ops) = pclient s0).
Proof. exact thm_consumer_open_only_over_provider_client. Qed.

(* consumer: the adopted provider channel is set once, by the first VSC packet, and never changes *)
Theorem C17_consumer_channel_unique :
  (forall s0 ops ops' ch, pchan (crun s0 ops) = Some ch -> pchan (crun s0 (ops ++ ops')) = Some ch) /\
  (forall s o ch, pchan s = None -> pchan (fst (cstep s o)) = Some ch -> o = CRecvVSC ch) /\
  (forall s ch, pchan s = None ->
     snd (cstep s (CRecvVSC ch)) = OK /\ pchan (fst (cstep s (CRecvVSC ch))) = Some ch) /\
  (forall s ch, pchan s = Some ch -> cstep s (CRecvVSC ch) = (s, OK)) /\
  (forall s ch ch', pchan s = Some ch -> ch' <> ch -> cstep s (CRecvVSC ch') = (s, E_PANIC)) /\
  (forall s ch, exists r, cstep s (CCloseInit ch) = (s, r) /\ (r = OK <-> exists p, pchan s = Some p /\ p <> ch)).
Proof. exact thm_consumer_channel_unique. Qed.

(* ---- non-vacuity: a history with a pre-existing client 0 (chain 7) under connection 0, consumer 0 launched on
   it, consumer 1 launched on a fresh client 1 with connection 1, both handshakes completed, a refused second
   launch on connection 0, a deletion and the re-use of client 0 by consumer 3 ---- *)
Definition ex_ops : list pop :=
  [PAddClient 7; PAddConn 0 0; PLaunch 0 7 (Some 0); PLaunch 1 8 None; PAddConn 1 1;
   PTry 2 0 1 0 [0]; PAddChan 0 0; PConfirm 0; PAddChan 1 1; PConfirm 1; PLaunch 2 7 (Some 0)].

Example ex_bound :
  let s := prun ex_ops in
  fwd s 0 = Some 0 /\ rev s 0 = Some 0 /\ fwd s 1 = Some 1 /\ rev s 1 = Some 1 /\
  c2ch s 0 = Some 0 /\ ch2c s 1 = Some 1 /\ attribute s 1 = Some 1 /\
  fwd s 2 = None /\ phase s 2 = PH_REGISTERED /\ launch_log s = [(1, 1); (0, 0)].
Proof. vm_compute. repeat split; reflexivity. Qed.

Example ex_try_accepted_then_duplicate :
  chan_open_try (prun (firstn 5 ex_ops)) 2 0 1 0 [0] = OK /\
  chan_open_try (prun ex_ops) 2 0 1 0 [0] = E_DUP /\
  chan_open_try (prun (firstn 5 ex_ops)) 1 0 1 0 [0] = E_ORDER /\
  chan_open_try (prun (firstn 5 ex_ops)) 2 0 1 0 [0; 1] = E_HOPS /\
  snd (chan_open_confirm (prun (ex_ops ++ [PAddChan 2 0])) 2) = E_DUP.
Proof. vm_compute. repeat split; reflexivity. Qed.

Example ex_delete_and_reuse :
  let s := prun (ex_ops ++ [PTimeout 0; PPurge; PLaunch 3 7 (Some 0)]) in
  phase s 0 = PH_DELETED /\ fwd s 0 = None /\ c2ch s 0 = None /\ ch2c s 0 = None /\
  fwd s 3 = Some 0 /\ rev s 0 = Some 3 /\ phase s 3 = PH_LAUNCHED.
Proof. vm_compute. repeat split; reflexivity. Qed.

(* a timeout closes channel 0 and stops consumer 0; after the removal block consumer 3 is launched on the same
   connection, a new channel 2 is established; late packets on the old channel 0 find no consumer *)
Example ex_closed_channel_relaunch :
  let ops := ex_ops ++ [PTimeout 0; PPurge; PLaunch 3 7 (Some 0); PAddChan 2 0; PConfirm 2] in
  let s := prun ops in
  closed (prun (ex_ops ++ [PTimeout 0])) 0 = true /\
  ch2c s 0 = None /\ ch2c s 2 = Some 3 /\ c2ch s 3 = Some 2 /\ phase s 0 = PH_DELETED /\
  snd (pstep s (PTimeout 0)) = (E_UNKNOWN_CHAN, -1) /\ snd (pstep s (PRecvSlash 0)) = (E_PANIC, -1) /\
  phase (fst (pstep s (PTimeout 0))) 0 = PH_DELETED /\ snd (pstep s (PRecvSlash 2)) = (OK, 3).
Proof. vm_compute. repeat split; reflexivity. Qed.

Example ex_consumer :
  let s0 := cinit 0 (world_of [(0, 0); (1, 5)]) in
  c_open_init s0 2 1 0 0 [0] = OK /\ c_open_init s0 2 1 0 0 [1] = E_BADCLIENT /\
  pchan (crun s0 [CRecvVSC 4; CRecvVSC 5]) = Some 4 /\
  snd (cstep (crun s0 [CRecvVSC 4]) (CRecvVSC 5)) = E_PANIC /\
  c_open_init (crun s0 [CRecvVSC 4]) 2 1 0 0 [0] = E_DUP.
Proof. vm_compute. repeat split; reflexivity. Qed.
