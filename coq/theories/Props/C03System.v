(* Property C03 on the system level: the Top-N threshold is no longer an oracle of the validator-set computation.
   Theorems about Model/EligibilityTopN.v, the composition of Model/Eligibility.v (C02: ComputeConsumerNextValSet on
   the staking module's bonded list, threshold = oracle) and Model/TopN.v (C03: ComputeMinPowerInTopN) for one consumer
   (the model the correspondence driver harness/c03sys runs); proofs in Proofs/EligibilityTopNProofs.v combine
   C02_sound / C02_complete / C02_active, C03_threshold and C04_compose / C04_cap_prefix.

   Vocabulary:
     oracle, maxv, M, height   the staking list (GetBondedValidatorsByPower: id, tokens, last power, provider key) of the
                               block, staking MaxValidators, MaxProviderConsensusValidators, the block height
     active oracle M           the provider's active validators = the first M entries of oracle
     s, s'                     the provider's record of the consumer (cons: parameters, opt-in records, key assignments,
                               stored set, phase) and its stored threshold (thr) before / after the operation
     recomputes s o ...        o is SEpoch on a launched consumer or SLaunch, on that snapshot;  step s o = (s', 0): it succeeded
     EP.next_set ... c m       the set ComputeConsumerNextValSet computes for record c and threshold m (Props/C02.v)
     EP.lists_ok / stake_ok    allowlist/denylist, minimum stake admit the validator;  EP.expected_key: assigned key, else provider key
   Hypotheses that REMAIN (all about the staking oracle, none about the threshold):
     NoDup (map s_id oracle)          distinct validators            (monitor clause 12)
     Forall (1 <= s_pow) oracle       last powers >= 1, and total active power < 2*10^16 for the exactness of m (C03_threshold)
     active_bonded oracle maxv M      M <= MaxValidators or the list holds at most MaxValidators entries (clause 20) *)
From Coq Require Import ZArith List Bool.
From ICS Require Import Base.Tree Model.PowerCap.
From ICS Require Model.Eligibility Model.TopN Proofs.EligibilityProofs.
From ICS Require Import Model.EligibilityTopN Proofs.EligibilityTopNProofs.
Import ListNotations.
Open Scope Z_scope.

(* the set stored for a Top-N consumer at an epoch / launch is C02's next_set for exactly m = compute_min_power of the
   ACTIVE validators' last powers and N = Top_N; m is stored; and (last powers >= 1, total < 2*10^16) m is a power of
   the active table such that the validators with power >= m hold >= N % and those with power > m hold < N % *)
Theorem C03_system_threshold_is_computed : forall s o height oracle maxv M s',
  recomputes s o height oracle maxv M -> 0 < E.top_n (E.cfg (cons s)) ->
  step s o = (s', 0) ->
  let N := E.top_n (E.cfg (cons s)) in
  let powers := map E.s_pow (active oracle M) in
  exists m,
    T.compute_min_power powers N = Some m
    /\ thr s' = Some m
    /\ E.valset (cons s') = EP.next_set oracle maxv M height (cons s) m
    /\ (Forall (fun v => 1 <= E.s_pow v) oracle -> T.sum_z powers < 20000000000000000 ->
        In m powers
        /\ N * T.sum_z powers <= 100 * T.sum_ge m powers
        /\ 100 * T.sum_gt m powers < N * T.sum_z powers).
Proof. exact threshold_is_computed. Qed.

(* every ACTIVE validator with power >= m that passes allowlist, denylist and minimum stake holds an opt-in record and
   is in the computed set, under its assigned-or-provider key and (no power cap) with its provider power *)
Theorem C03_system_top_included : forall s o height oracle maxv M s',
  recomputes s o height oracle maxv M -> 0 < E.top_n (E.cfg (cons s)) ->
  step s o = (s', 0) ->
  NoDup (map E.s_id oracle) -> active_bonded oracle maxv M ->
  exists m,
    T.compute_min_power (map E.s_pow (active oracle M)) (E.top_n (E.cfg (cons s))) = Some m /\
    forall v, In v (active oracle M) -> m <= E.s_pow v ->
      EP.lists_ok (cons s) v -> EP.stake_ok (cons s) v ->
      In (E.s_id v) (E.opted (cons s')) /\
      exists x, In x (E.valset (cons s')) /\ E.c_id x = E.s_id v
        /\ (E.power_cap (E.cfg (cons s)) = 0 -> E.c_pow x = E.s_pow v)
        /\ E.c_key x = EP.expected_key (cons s) v.
Proof. exact top_included. Qed.

(* every member is a validator of the staking list admitted by the lists and the minimum stake (active, unless
   inactive validators are allowed); a member with power below m held an opt-in record BEFORE the computation *)
Theorem C03_system_below_needs_optin : forall s o height oracle maxv M s',
  recomputes s o height oracle maxv M -> 0 < E.top_n (E.cfg (cons s)) ->
  step s o = (s', 0) ->
  NoDup (map E.s_id oracle) ->
  exists m, thr s' = Some m /\
    forall x, In x (E.valset (cons s')) ->
      exists v, In v oracle /\ E.s_id v = E.c_id x
        /\ (E.s_pow v < m -> In (E.s_id v) (E.opted (cons s)))
        /\ EP.lists_ok (cons s) v /\ EP.stake_ok (cons s) v
        /\ (E.allow_inactive (E.cfg (cons s)) = false -> exists a, In a (active oracle M) /\ E.s_id a = E.c_id x).
Proof. exact below_needs_optin. Qed.

(* the validator-set cap is ignored for a Top-N consumer: any cap gives the set computed without cap ... *)
Theorem C03_system_set_cap_noop : forall oracle maxv M height c m,
  0 < E.top_n (E.cfg c) ->
  EP.next_set oracle maxv M height c m = EP.next_set oracle maxv M height (with_set_cap 0 c) m.
Proof. exact set_cap_noop. Qed.

(* ... while the power cap still applies: the members' (id, power) are CapValidatorsPower of the eligible candidates
   at provider power (ranked_members), so C04_pc_bound / C04_pc_sum / C04_pc_positive speak about them *)
Theorem C03_system_power_cap_applies : forall oracle maxv M height c m,
  0 < E.top_n (E.cfg c) -> NoDup (map E.s_id oracle) ->
  let R := ranked_members oracle maxv M height c m in
  (forall x, In x (EP.next_set oracle maxv M height c m) ->
     In (E.c_id x, E.c_pow x) (cap_validators_power (E.power_cap (E.cfg c)) R)) /\
  (forall p, In p R -> exists v, In v oracle /\ p = (E.s_id v, E.s_pow v)).
Proof. exact power_cap_applies. Qed.

(* error path: without active validators ComputeMinPowerInTopN fails; the epoch of a launched Top-N consumer fails the
   block (code 3) and a launch fails (code 2); neither changes the records *)
Theorem C03_system_no_active_fails : forall s height oracle maxv M,
  0 < E.top_n (E.cfg (cons s)) -> active oracle M = [] ->
  (E.launched (cons s) = true -> step s (SEpoch height oracle maxv M) = (s, 3)) /\
  (E.launched (cons s) = false -> step s (SLaunch height oracle maxv M) = (s, 2)).
Proof. exact no_active_fails. Qed.

(* ---- non-vacuity: 5 validators with powers 40,30,15,10,5 (all active), N = 60, so m = 30; validator 1 (power 30) is
   denylisted: it gets a record but is not in the set; validator 4 (power 5 < m) opted in itself and is in the set;
   validators 2 and 3 (below m, not opted in) are not ---- *)
Example C03_system_ex :
  let s := exec ex_ops in
  thr s = Some 30
  /\ E.valset (cons s) = [E.mkC 0 1000 40 2; E.mkC 4 1004 5 2]
  /\ E.opted (cons s) = [4; 0; 1]
  /\ E.launched (cons s) = true
  /\ map (fun k => snd (step (exec (firstn k ex_ops)) (nth k ex_ops (SOptIn 0)))) [0; 1; 2; 3]%nat = [0; 0; 0; 0]
  /\ T.spec_min_power (map E.s_pow (active ex_oracle 5)) 60 = Some 30.
Proof. vm_compute. repeat split; reflexivity. Qed.

(* the same consumer with a validator-set cap of 1 and a 60 % power cap: the set cap changes nothing, the power cap does *)
Example C03_system_ex_caps :
  let c := E.mkCons (E.mkCfg 60 1 60 0 false [] [1] []) [4] [] [] true in
  EP.next_set ex_oracle 100 5 2 c 30 = [E.mkC 0 1000 27 2; E.mkC 4 1004 18 2]
  /\ EP.next_set ex_oracle 100 5 2 (with_set_cap 0 c) 30 = [E.mkC 0 1000 27 2; E.mkC 4 1004 18 2].
Proof. vm_compute. split; reflexivity. Qed.
