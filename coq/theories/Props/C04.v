From ICS Require Import Base.Tree.
Theorem placeholder : True. Proof. exact I. Qed.
