(* Property C04: validator-set cap, priority list and power cap shape the set as documented.
   Theorems about Model/PowerCap.v (the model the correspondence driver runs); proofs are in
   Proofs/PowerCapProofs.v.  All lists have arbitrary length; powers and caps are unbounded integers.

   Notation used in the comments: vals = input validators (id, power), s = sum_pow vals,
   n = length vals, M = raw_max_power s percent (= floor(s*percent/100), C04_max_power_floor),
   achievable := 1 <= M /\ s <= n * M,  out = no_more_than_percent vals percent.
   out is listed in the order of sort_desc vpow vals (C04_pc_members), so position i of out is the
   new power of position i of the sorted input. *)
From Coq Require Import ZArith List Bool Permutation Sorted.
From ICS Require Import Base.Dec Base.SortDesc Base.Tree Model.PowerCap Proofs.PowerCapProofs.
Import ListNotations.
Open Scope Z_scope.

(* ---- maxPower: the LegacyDec expression is the mathematical floor ---- *)
Theorem C04_max_power_floor : forall s percent,
  0 <= s -> 0 <= percent -> raw_max_power s percent = (s * percent) / 100.
Proof. exact raw_max_power_floor. Qed.

(* the monitor's boolean [achievable] is the proposition used below *)
Theorem C04_achievable_spec : forall vals percent,
  achievable vals percent = true <->
  (1 <= raw_max_power (sum_pow vals) percent /\
   sum_pow vals <= Z.of_nat (length vals) * raw_max_power (sum_pow vals) percent).
Proof. exact achievable_spec. Qed.

(* ---- power cap: same validators, only powers change ---- *)
Theorem C04_pc_members : forall vals percent,
  map vid (no_more_than_percent vals percent) = map vid (sort_desc vpow vals).
Proof. exact pc_members. Qed.

Theorem C04_pc_members_perm : forall vals percent,
  Permutation (map vid (no_more_than_percent vals percent)) (map vid vals).
Proof. exact pc_members_perm. Qed.

Theorem C04_pc_length : forall vals percent,
  length (no_more_than_percent vals percent) = length vals.
Proof. exact pc_length. Qed.

(* ---- achievable: nobody exceeds floor(s*percent/100) ---- *)
Theorem C04_pc_bound : forall vals percent,
  1 <= raw_max_power (sum_pow vals) percent /\
  sum_pow vals <= Z.of_nat (length vals) * raw_max_power (sum_pow vals) percent ->
  Forall (fun o => vpow o <= raw_max_power (sum_pow vals) percent) (no_more_than_percent vals percent).
Proof. exact pc_bound. Qed.

(* ---- achievable: the total is exactly the uncapped total ---- *)
Theorem C04_pc_sum : forall vals percent,
  1 <= raw_max_power (sum_pow vals) percent /\
  sum_pow vals <= Z.of_nat (length vals) * raw_max_power (sum_pow vals) percent ->
  sum_pow (no_more_than_percent vals percent) = sum_pow vals.
Proof. exact pc_sum. Qed.

(* ---- nobody is reduced to zero (achievable or not) ---- *)
Theorem C04_pc_positive : forall vals percent,
  Forall (fun v => 1 <= vpow v) vals -> 1 <= percent ->
  Forall (fun o => 1 <= vpow o) (no_more_than_percent vals percent).
Proof. exact pc_positive. Qed.

(* ---- relative order by power is kept (achievable or not): pairs (input validator, output
   validator) in sorted order; a strictly smaller input never gets a strictly larger output ---- *)
Theorem C04_pc_order : forall vals percent,
  ForallOrdPairs
    (fun x y : val * val => vpow (fst y) < vpow (fst x) -> vpow (snd y) <= vpow (snd x))
    (combine (sort_desc vpow vals) (no_more_than_percent vals percent)).
Proof. exact pc_order. Qed.

(* the same by position, for any two positions *)
Theorem C04_pc_order_nth : forall vals percent (i j : nat) (d : val),
  (i < length vals)%nat -> (j < length vals)%nat ->
  vpow (nth j (sort_desc vpow vals) d) < vpow (nth i (sort_desc vpow vals) d) ->
  vpow (nth j (no_more_than_percent vals percent) d) <= vpow (nth i (no_more_than_percent vals percent) d).
Proof. exact pc_order_nth. Qed.

(* ---- not achievable: everybody receives the same power max(M,1) ---- *)
Theorem C04_pc_infeasible : forall vals percent,
  Forall (fun v => 1 <= vpow v) vals -> 1 <= percent ->
  ~ (1 <= raw_max_power (sum_pow vals) percent /\
     sum_pow vals <= Z.of_nat (length vals) * raw_max_power (sum_pow vals) percent) ->
  Forall (fun o => vpow o = Z.max (raw_max_power (sum_pow vals) percent) 1)
         (no_more_than_percent vals percent).
Proof. exact pc_infeasible. Qed.

(* ---- validator-set cap ---- *)
Theorem C04_cap_len : forall top_n set_cap l,
  top_n = 0 -> set_cap <> 0 -> 0 <= set_cap ->
  Z.of_nat (length (cap_validator_set top_n set_cap l)) <= set_cap.
Proof. exact cap_len. Qed.

Theorem C04_cap_prefix : forall top_n set_cap l,
  (exists k, cap_validator_set top_n set_cap l = firstn k l) /\
  (0 < top_n \/ set_cap = 0 -> cap_validator_set top_n set_cap l = l).
Proof. exact cap_prefix. Qed.

(* ---- ranking: priority-listed first, then by descending power ---- *)
Theorem C04_rank_sorted : forall prio eligible,
  StronglySorted (fun a b => outranks prio b a = false)
    (fst (partition_priority prio eligible) ++ snd (partition_priority prio eligible)).
Proof. exact ranked_sorted. Qed.

(* no excluded eligible validator strictly outranks an included one *)
Theorem C04_cap_rank : forall prio k eligible,
  let ranked := fst (partition_priority prio eligible) ++ snd (partition_priority prio eligible) in
  let capped := cap_validator_set 0 k ranked in
  Permutation ranked eligible /\
  ranked = capped ++ skipn (length capped) ranked /\
  forall x y, In x capped -> In y (skipn (length capped) ranked) -> outranks prio y x = false.
Proof. exact cap_rank. Qed.

(* ---- stage order inside ComputeNextValidators: partition, then set cap, then power cap ---- *)
Theorem C04_compose : forall prio top_n set_cap power_cap eligible,
  shape prio top_n set_cap power_cap eligible =
  cap_validators_power power_cap
    (cap_validator_set top_n set_cap
       (fst (partition_priority prio eligible) ++ snd (partition_priority prio eligible))).
Proof. exact shape_compose. Qed.

(* ---- non-vacuity: the example from the Go source, powers 60, 138, 559 ---- *)
Example C04_ex_achievable :
  let vals := [(1, 60); (2, 138); (3, 559)] in
  forallb (fun v => 1 <=? vpow v) vals = true /\
  raw_max_power (sum_pow vals) 35 = 264 /\
  achievable vals 35 = true /\
  no_more_than_percent vals 35 = [(3, 264); (2, 264); (1, 229)].
Proof. vm_compute. repeat split; reflexivity. Qed.

Example C04_ex_infeasible :
  let vals := [(1, 60); (2, 138); (3, 559)] in
  forallb (fun v => 1 <=? vpow v) vals = true /\
  raw_max_power (sum_pow vals) 20 = 151 /\
  achievable vals 20 = false /\
  no_more_than_percent vals 20 = [(3, 151); (2, 151); (1, 151)].
Proof. vm_compute. repeat split; reflexivity. Qed.

(* a case where the floor is 0 and the cap is lifted to 1 *)
Example C04_ex_floor_zero :
  let vals := [(1, 1); (2, 1); (3, 1)] in
  raw_max_power (sum_pow vals) 30 = 0 /\
  achievable vals 30 = false /\
  no_more_than_percent vals 30 = [(1, 1); (2, 1); (3, 1)].
Proof. vm_compute. repeat split; reflexivity. Qed.

(* set cap 2 with a priority list: validator 4 (priority-listed, lowest power) is kept,
   validator 2 (second highest power) is excluded *)
Example C04_ex_rank :
  let eligible := [(1, 50); (2, 40); (3, 30); (4, 10)] in
  shape [4] 0 2 0 eligible = [(4, 10); (1, 50)] /\
  shape [4] 0 2 60 eligible = [(1, 36); (4, 24)].
Proof. vm_compute. repeat split; reflexivity. Qed.
