(* Property C18 (partial: the Go runtime is outside the model): provider and consumer state machines are
   deterministic.  A Gallina function is deterministic by construction; what a theorem can carry is
   independence from the choices the Go runtime makes: the iteration order of the map in AccumulateChanges
   and the algorithm behind sort.Slice.  Actual divergence between nodes cannot be exhibited by the model;
   it is searched for by the replica runs of the C18 check (tools/props/c18.py). *)
From Coq Require Import ZArith List Bool Permutation Sorted.
From ICS Require Import Base.Tree Model.Determinism Proofs.DeterminismProofs.
Import ListNotations.
Open Scope Z_scope.

(* A list has at most one sorted permutation under a total antisymmetric order: the reason every
   sort.Slice call whose elements are pairwise distinguishable by the comparator is algorithm-independent. *)
Theorem C18_sorted_unique : forall (A : Type) (le : A -> A -> Prop),
  (forall a b, le a b -> le b a -> a = b) ->
  forall l1 l2, StronglySorted le l1 -> StronglySorted le l2 -> Permutation l1 l2 -> l1 = l2.
Proof. exact @sorted_perm_unique. Qed.

(* The comparator of AccumulateChanges (power desc, key desc) is antisymmetric and total on updates. *)
Theorem C18_comparator_antisym : forall a b, ule a b -> ule b a -> a = b.
Proof. exact ule_antisym. Qed.
Theorem C18_comparator_total : forall a b, ule a b \/ ule b a.
Proof. exact ule_total. Qed.

(* Whatever order the runtime iterates the map in ([perm], any permutation) and whatever (correct) sorting
   algorithm runs (any sorted permutation [s]), the result is the model's [accumulate cur new]. *)
Theorem C18_accumulate_order_free : forall cur new (perm : list upd -> list upd) s,
  (forall l, Permutation (perm l) l) ->
  Permutation s (perm (accumulate_map cur new)) -> StronglySorted ule s ->
  s = accumulate cur new.
Proof. exact accumulate_order_free. Qed.

Theorem C18_accumulate_perm_indep : forall cur new p1 p2,
  (forall l, Permutation (p1 l) l) -> (forall l, Permutation (p2 l) l) ->
  accumulate_with p1 cur new = accumulate_with p2 cur new.
Proof. exact accumulate_with_indep. Qed.

(* The map step is a function of the two input lists only: unique keys, last writer wins. *)
Theorem C18_accumulate_unique_keys : forall cur new, NoDup (map ukey (accumulate_map cur new)).
Proof. exact accumulate_map_nodup. Qed.

Theorem C18_accumulate_last_writer_wins : forall cur new k,
  lookup k (accumulate_map cur new) =
  match lookup_last k new with Some p => Some p | None => lookup_last k cur end.
Proof. exact accumulate_map_lookup. Qed.

Theorem C18_accumulate_sorted : forall cur new,
  StronglySorted ule (accumulate cur new) /\ Permutation (accumulate cur new) (accumulate_map cur new).
Proof. intros; split; [apply accumulate_sorted | apply accumulate_perm]. Qed.

(* non-vacuity: a merge with an overriding key, a removal (power 0) and a power tie *)
Example C18_ex_accumulate :
  accumulate [(1, 5); (2, 7); (3, 7)] [(2, 0); (4, 7); (1, 9)] = [(1, 9); (4, 7); (3, 7); (2, 0)].
Proof. vm_compute. reflexivity. Qed.
Example C18_ex_reversed_iteration :
  accumulate_with (@rev upd) [(1, 5); (2, 7); (3, 7)] [(2, 0); (4, 7); (1, 9)] = [(1, 9); (4, 7); (3, 7); (2, 0)].
Proof. vm_compute. reflexivity. Qed.
Example C18_ex_diff :
  diff_validators [(1, 5); (2, 7); (3, 7)] [(2, 7); (3, 8); (4, 1)] = [(1, 0); (3, 8); (4, 1)].
Proof. vm_compute. reflexivity. Qed.

(* ---- standalone -> consumer changeover (x/ccv/consumer/keeper/changeover.go; the map initialUpdatesFlag is used for
   lookup only).  Whatever the standalone validator set was, once CometBFT has applied the updates returned by the
   changeover EndBlock (power 0 removes, any other power sets, last writer wins), the consensus set is exactly the
   provider's initial validator set: every provider validator at its power, every other standalone validator gone. *)
Theorem C18_changeover_hands_over : forall init standalone k,
  (forall x, In x init -> 0 < upow x) ->
  lookup k (tm_apply (changeover_updates init standalone) standalone) = lookup_last k init.
Proof. intros; now apply changeover_hands_over_pos. Qed.

(* without the positivity guard (the genesis validation rejects zero powers): a zero-power entry means "absent" *)
Theorem C18_changeover_hands_over_general : forall init standalone k,
  lookup k (tm_apply (changeover_updates init standalone) standalone) =
  match lookup_last k init with Some p => if p =? 0 then None else Some p | None => None end.
Proof. exact changeover_hands_over. Qed.

(* the consumer's own cross-chain validator store agrees with what it handed to the consensus engine: after the
   changeover both hold exactly the provider's initial set *)
Theorem C18_changeover_store_agrees : forall init standalone k,
  (forall x, In x init -> 0 < upow x) ->
  lookup k (cc_apply init []) = lookup k (tm_apply (changeover_updates init standalone) standalone).
Proof. intros init sa k H. rewrite changeover_cc_store, changeover_hands_over_pos; auto. Qed.

(* the returned slice is the stored initial set, unchanged and in stored order, followed only by removals of standalone
   validators that are not provider validators, in staking order: nothing in it depends on a map iteration *)
Theorem C18_changeover_shape : forall init standalone,
  firstn (length init) (changeover_updates init standalone) = init /\
  forall x, In x (skipn (length init) (changeover_updates init standalone)) ->
            upow x = 0 /\ has_key (ukey x) init = false /\ has_key (ukey x) standalone = true.
Proof. intros; split; [apply changeover_prefix | apply changeover_tail]. Qed.

(* the changeover is complete exactly from init genesis height + ValidatorUpdateDelay + 1 on, and stays complete *)
Theorem C18_changeover_complete : forall init_h h,
  (changeover_complete init_h h = true <-> init_h + 2 <= h) /\
  (changeover_complete init_h h = true -> changeover_complete init_h (h + 1) = true).
Proof.
  intros; split; [apply changeover_complete_spec|].
  rewrite !changeover_complete_spec. intros H. apply Z.le_trans with h; [exact H | apply Z.le_succ_diag_r].
Qed.

(* non-vacuity: provider set {1:5, 4:7}; standalone set {1, 2, 3} -> 2 and 3 are removed, 1 is re-powered, 4 joins *)
Example C18_ex_changeover :
  changeover_updates [(1, 5); (4, 7)] [(3, 9); (1, 8); (2, 1)] = [(1, 5); (4, 7); (3, 0); (2, 0)] /\
  tm_apply (changeover_updates [(1, 5); (4, 7)] [(3, 9); (1, 8); (2, 1)]) [(3, 9); (1, 8); (2, 1)] = [(1, 5); (4, 7)] /\
  handed_over [(1, 5); (4, 7)] [(3, 9); (1, 8); (2, 1)] [(1, 5); (4, 7); (3, 0); (2, 0)] = true /\
  handed_over [(1, 5); (4, 7)] [(3, 9); (1, 8); (2, 1)] [(1, 5); (4, 7); (3, 0)] = false.
Proof. vm_compute. repeat split. Qed.
