(* Property C01, end to end: the set a consumer chain adopts is tied back to the provider's STAKING state.
   Theorems about Model/System.v, the composition of Model/Eligibility.v (C02) and Model/Vsc.v (C01) for one consumer
   (the model the correspondence driver harness/c01sys runs); proofs are in Proofs/SystemProofs.v and combine
   C01_replication / the hist invariants of Proofs/VscProofs.v with C02_sound / C02_active of Proofs/EligibilityProofs.v.

   A run is [run_sys (sys_launch ph vid m0 ch oracle maxv M mp c0) ops]: the consumer, configured as c0 (any
   parameters, opt-ins, key assignments), is launched in provider block ph on the staking oracle list [oracle];
   ops is ANY sequence of
     SEpoch oracle maxv M mp r   provider EndBlock of an epoch block: the set is COMPUTED by
                                 Eligibility.compute_consumer_next_valset from that block's staking list and the
                                 consumer as stored at that moment (there is no oracle for the computed set any more)
     SVsc o                      the other ops of Model/Vsc.v (non-epoch provider blocks, ChanOpen, Deliver, consumer
                                 BeginBlock/EndBlock, Stop, slash ops)
     SElig o                     accepted opt-in / opt-out / key assignment / power-shaping update.
   [srcs s] (ghost) lists the launch and every epoch whose set produced a packet, as sources
   (staking list, MaxValidators, M, provider height, consumer record before the computation, Top-N threshold);
   [src_next q] is the set computed from source q; [g_recv] counts the packets the consumer received.

   Hypotheses that REMAIN (all about oracles, none about computed sets):
     wf_oracle of every staking list (distinct validator ids, last powers >= 1), [wf_res] of every send result
     (ErrClientNotActive only at the first SendPacket of a loop), 1 <= vid. *)
From Coq Require Import ZArith List Bool Lia.
From ICS Require Import Base.Tree Model.PowerCap.
From ICS Require Model.Eligibility Model.Vsc.
From ICS Require Import Proofs.EligibilityProofs Proofs.VscMaps Proofs.VscProofs Model.System Proofs.SystemProofs.
Import ListNotations.
Open Scope Z_scope.

(* Vsc's hypothesis [pos_set next] is discharged: a set computed from a staking list with last powers >= 1 has
   powers >= 1 (also under a power cap: C04_pc_positive) *)
Theorem C01_system_positive : forall q,
  Forall (fun v => 1 <= E.s_pow v) (src_oracle q) -> pos_set (proj_set (src_next q)).
Proof. exact src_pos. Qed.

(* the replication component of a composed run IS a run of Model/Vsc.v whose oracle values are well-formed, so
   every theorem of Props/C01.v applies to it *)
Theorem C01_system_refines : forall ops s, vsc (run_sys s ops) = V.run_ops (vsc s) (vtrace s ops).
Proof. exact vsc_run. Qed.

Theorem C01_system_trace_wf : forall ops s, Forall wf_sop ops -> Forall wf_op (vtrace s ops).
Proof. exact vtrace_wf. Qed.

(* in every reachable state the engine's set equals the consumer's stored set; whenever no changes are pending - in
   particular after every consumer EndBlock - that set is the (consumer key -> power) projection of the set
   computed from the staking list and consumer record of the epoch whose packet was the last one received (the
   launch if none); the provider's own (key, power) record is the projection of its stored validator set *)
Theorem C01_system_end_to_end : forall ph vid m0 ch oracle maxv M mp c0 ops,
  1 <= vid -> wf_oracle oracle -> Forall wf_sop ops ->
  let s := run_sys (sys_launch ph vid m0 ch oracle maxv M mp c0) ops in
  let v := vsc s in
  V.c_engine v = V.c_ccvals v /\
  (V.c_pending v = None ->
   V.c_ccvals v = V.as_map (proj_set (src_next (nth (V.g_recv v) (srcs s) dsrc)))) /\
  (V.c_inblock v = false -> V.c_pending v = None) /\
  V.c_pending (vsc (sys_step s (SVsc V.CEndBlock))) = None /\
  V.p_stored v = proj_set (E.valset (elig s)).
Proof. exact end_to_end. Qed.

(* the sources are not invented: each is the launch or an SEpoch op of the history, taken with the provider height
   and the consumer record of the moment that op was executed *)
Theorem C01_system_sources : forall ph vid m0 ch oracle maxv M mp c0 ops,
  let s0 := sys_launch ph vid m0 ch oracle maxv M mp c0 in
  Forall (from_history s0 (mkSrc oracle maxv M ph c0 mp) ops) (srcs (run_sys s0 ops)).
Proof. exact sources. Qed.

(* hence every validator in force on the consumer (key k with power p) was, in that epoch q: a validator sv of the
   bonded list, opted in or required by Top-N, allowed by the lists and the minimum stake, in the provider's active
   set unless inactive validators are allowed; p is its provider power when no power cap is set and k is its
   assigned key if any, else its provider key *)
Theorem C01_system_members_eligible : forall ph vid m0 ch oracle maxv M mp c0 ops,
  1 <= vid -> wf_oracle oracle -> Forall wf_sop ops ->
  let s := run_sys (sys_launch ph vid m0 ch oracle maxv M mp c0) ops in
  let v := vsc s in
  let q := nth (V.g_recv v) (srcs s) dsrc in
  V.c_pending v = None ->
  forall k p, V.mget k (V.c_ccvals v) = Some p ->
  exists x sv,
    In x (src_next q) /\ E.c_key x = k /\ E.c_pow x = p /\
    In sv (src_oracle q) /\ E.s_id sv = E.c_id x /\
    opted_or_topn (src_cons q) (src_mp q) sv /\ lists_ok (src_cons q) sv /\ stake_ok (src_cons q) sv /\
    (E.allow_inactive (E.cfg (src_cons q)) = false -> In sv (firstn (Z.to_nat (src_M q)) (src_oracle q))) /\
    (E.power_cap (E.cfg (src_cons q)) = 0 -> p = E.s_pow sv) /\
    k = expected_key (src_cons q) sv.
Proof. exact members_eligible. Qed.

(* ---- non-vacuity: three validators (M = 2), opt-in consumer without inactive validators; launch, a key assignment
   by validator 1 and a 60 % power cap, two epochs (the second after validator 2 overtakes validator 1), packets
   relayed one consumer block late ---- *)
Example C01_system_ex_c0 : E.consumer :=
  E.mkCons (E.mkCfg 0 0 0 0 false [] [] []) [0; 1; 2] [] [] false.
Example C01_system_ex_o1 : list E.sval :=
  [E.mkS 0 9000000 9 1000; E.mkS 1 3000000 3 1001; E.mkS 2 1000000 1 1002].
Example C01_system_ex_o2 : list E.sval :=
  [E.mkS 0 9000000 9 1000; E.mkS 2 5000000 5 1002; E.mkS 1 3000000 3 1001].
Example C01_system_ex_ops : list sop :=
  [SVsc V.ChanOpen; SElig (E.AssignKey 0 1 7); SElig (E.SetConfig 0 (E.mkCfg 0 0 60 0 false [] [] []));
   SEpoch C01_system_ex_o1 100 2 0 V.SOk; SVsc V.CBeginBlock; SVsc V.Deliver; SVsc V.CEndBlock;
   SEpoch C01_system_ex_o2 100 2 0 V.SOk; SVsc V.CBeginBlock; SVsc V.CEndBlock;
   SVsc V.CBeginBlock; SVsc V.Deliver; SVsc V.CEndBlock].

Example C01_system_ex_wf : wf_oracle C01_system_ex_o1 /\ Forall wf_sop C01_system_ex_ops.
Proof.
  assert (H1 : wf_oracle C01_system_ex_o1)
    by (split; [repeat constructor; simpl; intuition discriminate|repeat constructor; simpl; lia]).
  assert (H2 : wf_oracle C01_system_ex_o2)
    by (split; [repeat constructor; simpl; intuition discriminate|repeat constructor; simpl; lia]).
  split; [exact H1|]. unfold C01_system_ex_ops.
  repeat (apply Forall_cons; [first [exact I | split; [assumption|exact I]]|]). apply Forall_nil.
Qed.

Example C01_system_ex_run :
  let s := run_sys (sys_launch 5 1 [] 1 C01_system_ex_o1 100 2 0 C01_system_ex_c0) C01_system_ex_ops in
  V.g_hist (vsc s) = [[(1000, 9); (1001, 3)]; [(7, 5); (1000, 7)]; [(1000, 8); (1002, 6)]] /\
  V.c_ccvals (vsc s) = [(1000, 8); (1002, 6)] /\ V.c_engine (vsc s) = [(1000, 8); (1002, 6)] /\
  V.g_recv (vsc s) = 2%nat /\ length (srcs s) = 3%nat /\
  map E.c_id (E.valset (elig s)) = [0; 2] /\
  map src_height (srcs s) = [5; 5; 6].
Proof. vm_compute. repeat split; reflexivity. Qed.
