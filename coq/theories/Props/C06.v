(* C06 - replaced consumer keys stay attributable for the unbonding period.
   Same model as C05 (Model/KeyAssign.v).  [resolve s c k] is GetProviderAddrFromConsumerAddr; validators are named
   by their provider consensus key P.  [quiet c dl ops s] says: running [ops] from [s] never deletes consumer c
   and every EndBlock among them happens at a block time < dl. *)
From Coq Require Import ZArith List Bool.
From ICS Require Import Base.Tree Model.KeyAssign Proofs.KeyAssignProofs.
Import ListNotations.
Open Scope Z_scope.

(* If, at block time t, validator P replaces key k on a LAUNCHED consumer c (by MsgAssignConsumerKey or MsgOptIn with
   key), then after any further actions - assignments by anybody, validator removals (of P too) and re-creations,
   stop of c, blocks - k still resolves to P, as long as c is not deleted and no EndBlock ran at time >= t + U. *)
Theorem C06_attributable : forall U ops0 c a P k s1 ops,
  let s0 := exec ops0 (init U) in
  c_phase (getc s0 c) = 3 -> lookup P (c_assigned (getc s0 c)) = Some k -> replaces s0 c P a ->
  step s0 a = (s1, 0) -> quiet c (s_now s0 + U) ops s1 ->
  lookup k (c_byaddr (getc (exec ops s1) c)) = Some P /\ resolve (exec ops s1) c k = P.
Proof. exact attributable. Qed.

(* ... and the first EndBlock at time >= t + U forgets k: unknown by address, no longer awaiting pruning, resolves to
   itself, and any validator may assign it again on c (if c is still active and k is nobody's provider key) *)
Theorem C06_forgotten_after : forall U ops0 c a P k s1 ops,
  let s0 := exec ops0 (init U) in
  c_phase (getc s0 c) = 3 -> lookup P (c_assigned (getc s0 c)) = Some k -> replaces s0 c P a ->
  step s0 a = (s1, 0) -> quiet c (s_now s0 + U) ops s1 ->
  s_now s0 + U <= s_now (exec ops s1) ->
  let s3 := fst (step (exec ops s1) OEndBlock) in
  lookup k (c_byaddr (getc s3 c)) = None /\ ~ In k (map snd (c_toprune (getc s3 c))) /\ resolve s3 c k = k /\
  (forall o2 P2, is_active (c_phase (getc s3 c)) = true -> reg_by_oper o2 (s_reg s3) = Some P2 ->
                 reg_by_key k (s_reg s3) = None -> snd (step s3 (OAssign c o2 k true)) = 0).
Proof. exact forgotten_after. Qed.

(* a key never named in an assignment on c resolves to itself, i.e. to the validator owning it as provider key *)
Theorem C06_identity : forall U c k ops,
  (forall a, In a ops -> names a c k = false) -> resolve (exec ops (init U)) c k = k.
Proof. exact identity_never_assigned. Qed.

(* on a not-yet-launched consumer the replaced key is dropped at once *)
Theorem C06_prelaunch : forall U ops c o P k k' sok s',
  let s := exec ops (init U) in
  c_phase (getc s c) = 1 \/ c_phase (getc s c) = 2 ->
  reg_by_oper o (s_reg s) = Some P -> lookup P (c_assigned (getc s c)) = Some k ->
  step s (OAssign c o k' sok) = (s', 0) ->
  lookup k (c_byaddr (getc s' c)) = None /\ resolve s' c k = k.
Proof. intros U ops c o P k k' sok s'. exact (prelaunch_dropped _ c o P k k' sok s' (reach_sinv U ops)). Qed.

(* link to punishment: a slash request for consumer address k on a launched consumer jails exactly the operator
   owning [resolve c k] (nobody else becomes jailed) *)
Theorem C06_slash_punishes_resolved : forall s c k o,
  c_phase (getc s c) = 3 -> reg_by_key (resolve s c k) (s_reg s) = Some o ->
  let s' := fst (step s (OSlash c k)) in
  In o (s_jailed s') /\ (forall j, In j (s_jailed s') -> j = o \/ In j (s_jailed s)) /\ s_cons s' = s_cons s.
Proof. exact slash_resolves. Qed.

(* ---- non-vacuity ---- *)
Definition pre : list op := [OCreateVal 0 0; OCreateVal 1 1; ORegister; OInitialize 0; OLaunch 0; OAssign 0 0 5 true].
Definition mid : list op :=
  [OAdvance 999; OEndBlock; OAssign 0 1 7 true; ORemoveVal 0; OCreateVal 0 0; OStop 0 true; OBeginBlock; OSlash 0 5].

(* the hypotheses of C06_attributable hold for a non-trivial continuation (incl. removal and re-creation of the
   validator and stopping the consumer); one nanosecond later the EndBlock forgets the key *)
Example C06_window_nonvacuous :
  let s0 := exec pre (init 1000) in
  let s1 := fst (step s0 (OAssign 0 0 6 true)) in
  c_phase (getc s0 0) = 3 /\ lookup 0 (c_assigned (getc s0 0)) = Some 5 /\
  step s0 (OAssign 0 0 6 true) = (s1, 0) /\
  quiet 0 (s_now s0 + 1000) mid s1 /\
  resolve (exec mid s1) 0 5 = 0 /\
  resolve (exec (mid ++ [OAdvance 1; OEndBlock]) s1) 0 5 = 5 /\
  resolve (exec (mid ++ [OEndBlock; OAdvance 1]) s1) 0 5 = 0.
Proof.
  vm_compute. repeat split; try reflexivity; try discriminate; try (intros _; reflexivity); try (intros H; discriminate H).
Qed.

Example C06_replaces_nonvacuous : replaces (exec pre (init 1000)) 0 0 (OAssign 0 0 6 true).
Proof. exists 0, 6. split; [left; reflexivity|reflexivity]. Qed.

Example C06_prelaunch_nonvacuous :
  let s := exec [OCreateVal 0 0; ORegister; OAssign 0 0 5 true] (init 1000) in
  c_phase (getc s 0) = 1 /\ lookup 0 (c_assigned (getc s 0)) = Some 5 /\ resolve s 0 5 = 0 /\
  snd (step s (OAssign 0 0 6 true)) = 0 /\ resolve (fst (step s (OAssign 0 0 6 true))) 0 5 = 5.
Proof. vm_compute. repeat split; reflexivity. Qed.

Example C06_slash_nonvacuous :
  let s := exec (pre ++ [OAssign 0 0 6 true; OSlash 0 5]) (init 1000) in s_jailed s = [0].
Proof. reflexivity. Qed.
