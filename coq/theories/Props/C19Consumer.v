(* Property C19, consumer half: the consumer's begin-block and end-block never fail; send errors keep packets queued;
   the reward transfer runs in a cached context.  Theorems about Model/ConsumerBlock.v (run by harness/c19c on the real
   consumer keeper / module); proofs in Proofs/ConsumerBlockProofs.v.  The packet machinery is Model/Throttle.v's.

   [bstep g s o] / [bres g s o] / [bsent g s o]: new state, result (0 ok, 1 error or panic = chain halt) and packets handed
   to IBC of one op; BEnd now sfail bfail tfail topen = EndBlock at block time [now] where the (k+1)-th channel.SendPacket
   fails if sfail = Some k (an expired client = Some 0), likewise bank.SendCoinsFromModuleToModule (bfail) and
   transfer.Transfer (tfail); topen = the transfer channel is OPEN.  All oracles are universally quantified.
   NOT modelled: the PreCCV changeover branch of EndBlock. *)
From Coq Require Import ZArith List Bool.
From ICS Require Import Base.Dec Base.Tree Model.Throttle Model.ConsumerBlock Proofs.ThrottleProofs Proofs.ConsumerBlockProofs.
Import ListNotations.
Open Scope Z_scope.

(* ---- BeginBlock never fails (closed channel and historical-info errors are only logged); it carries the vsc id of the
        current height to the next one and changes nothing else ---- *)
Theorem C19c_beginblock_total : forall g s hf,
  bres g s (BBegin hf) = 0 /\
  let s' := bstep g s (BBegin hf) in
  b_height s' = b_height s + 1 /\
  h2v_get (b_h2v s') (b_height s' + 1) = h2v_get (b_h2v s) (b_height s') /\
  b_cs s' = b_cs s /\ b_r s' = b_r s.
Proof. exact begin_total. Qed.

(* ---- EndBlock: the full clause ("ok in every reachable state for EVERY failure oracle") is REFUTED by the faithful
        model, in two ways, both replayed on the real consumer keeper by harness/c19c (cases witness-bank / witness-badkey):
        (a) DistributeRewardsInternally panics when bank.SendCoinsFromModuleToModule returns an error;
        (b) ValidatorSetChangePacketData.Validate / OnRecvVSCPacket do not look at the public keys, and
            ApplyCCValidatorChanges panics on a key it cannot decode (no sum type / wrong length). ---- *)
Definition C19c_endblock_total_full : Prop :=
  forall g n ch h0 ops now sfail bfail tfail topen,
    bres g (fold_left (bstep g) ops (binit n ch h0)) (BEnd now sfail bfail tfail topen) = 0.

Theorem C19c_endblock_total_refuted_bank : ~ C19c_endblock_total_full.
Proof.
  intros H.
  specialize (H (mkCfg 0 750000000000000000 1 [true] true) 1%nat true 1 [BFund [100]] 0 None (Some 0%nat) None true).
  vm_compute in H. discriminate.
Qed.

Theorem C19c_endblock_total_refuted_key : ~ C19c_endblock_total_full.
Proof.
  intros H.
  specialize (H (mkCfg 0 750000000000000000 1 [true] true) 1%nat true 1 [BRecv 1 [] [(1, 5); (-1, 3)]] 0 None None None true).
  vm_compute in H. discriminate.
Qed.

(* exactly these two causes: in ANY state and for every send / transfer / channel oracle *)
Theorem C19c_endblock_result : forall g s now sfail bfail tfail topen,
  bres g s (BEnd now sfail bfail tfail topen) =
  if bank_panics bfail || negb (keys_wf (pend (b_cs s))) then 1 else 0.
Proof. exact end_result. Qed.

(* the keys pending on the consumer are decodable as long as every received VSC packet carried decodable keys
   (an assumption on the provider: the packet validation does not establish it) *)
Theorem C19c_pending_keys_wf : forall g ops s,
  forallb op_keys_wf ops = true -> keys_wf (pend (b_cs s)) = true ->
  keys_wf (pend (b_cs (fold_left (bstep g) ops s))) = true.
Proof. exact keys_run. Qed.

(* hence: for every history whose VSC packets carry decodable keys, every block time and every send / expired-client /
   transfer / transfer-channel oracle, EndBlock is ok provided the bank does not refuse the two internal sends *)
Theorem C19c_endblock_total : forall g n ch h0 ops now sfail bfail tfail topen,
  forallb op_keys_wf ops = true -> bank_panics bfail = false ->
  bres g (fold_left (bstep g) ops (binit n ch h0)) (BEnd now sfail bfail tfail topen) = 0.
Proof. exact endblock_total_run. Qed.

(* a block that fails commits nothing and sends nothing *)
Theorem C19c_failed_block_commits_nothing : forall g s now sfail bfail tfail topen,
  bres g s (BEnd now sfail bfail tfail topen) <> 0 ->
  bstep g s (BEnd now sfail bfail tfail topen) = s /\ bsent g s (BEnd now sfail bfail tfail topen) = [].
Proof. exact end_failed_commits_nothing. Qed.

(* ---- a send that fails at the first call (or an expired client) leaves the pending queue and the slash record exactly
        as they were and hands nothing to IBC, whatever else fails ---- *)
Theorem C19c_send_failure_keeps_queue : forall g s now bfail tfail topen,
  bres g s (BEnd now (Some O) bfail tfail topen) = 0 ->
  queue (b_cs (bstep g s (BEnd now (Some O) bfail tfail topen))) = queue (b_cs s) /\
  srec (b_cs (bstep g s (BEnd now (Some O) bfail tfail topen))) = srec (b_cs s) /\
  bsent g s (BEnd now (Some O) bfail tfail topen) = [].
Proof. exact end_send_fail0. Qed.

(* a failure at any later call: the queue loses exactly a prefix [pre] of VSCMatured packets, all of which were handed to
   IBC in order (plus possibly the slash packet now at the head, which stays queued): nothing dropped, duplicated, reordered *)
Theorem C19c_send_failure_general : forall g s now sfail bfail tfail topen,
  bres g s (BEnd now sfail bfail tfail topen) = 0 ->
  let s' := bstep g s (BEnd now sfail bfail tfail topen) in
  let sent := bsent g s (BEnd now sfail bfail tfail topen) in
  exists pre, queue (b_cs s) = pre ++ queue (b_cs s') /\ nonslash pre /\
    (sent = pre \/ exists p t, queue (b_cs s') = p :: t /\ is_slash p = true /\ sent = pre ++ [p]).
Proof. exact end_send_general. Qed.

(* EndBlock's sending IS the consumer state machine's CSend step, so all C09 consumer theorems apply to it *)
Theorem C19c_send_is_fsm_send : forall g s now sfail bfail tfail topen,
  bres g s (BEnd now sfail bfail tfail topen) = 0 ->
  queue (b_cs (bstep g s (BEnd now sfail bfail tfail topen))) = queue (cstep (g_delay g) (b_cs s) (CSend now sfail)) /\
  srec (b_cs (bstep g s (BEnd now sfail bfail tfail topen))) = srec (cstep (g_delay g) (b_cs s) (CSend now sfail)).
Proof. exact end_queue. Qed.

(* ---- reward transfer: r0 = balances after the internal split.  If no transmission is due nothing else happens.  If one
        is due, LastTransmissionBlockHeight becomes the current height IN EVERY CASE (also when the channel is closed or
        the transfer fails -- the code sets it after discarding the cached context); the to-provider and escrow balances
        are those of the complete loop if it succeeds and are untouched if any step of it fails (or the channel is closed):
        never a partial transfer ---- *)
Theorem C19c_reward_transfer_rollback : forall g s now sfail bfail tfail topen,
  bres g s (BEnd now sfail bfail tfail topen) = 0 ->
  let r0 := distribute (g_frac g) (b_r s) in
  let r' := b_r (bstep g s (BEnd now sfail bfail tfail topen)) in
  r' = send_rewards g (b_height s) topen tfail r0 /\
  r_fee r' = r_fee r0 /\ r_redist r' = r_redist r0 /\
  (if g_bpdt g <=? b_height s - r_ltbh r0 then
     r_ltbh r' = b_height s /\
     match (if topen then transfer_loop (g_addr_ok g) tfail (g_white g) (r_tosend r0) (r_escrow r0) else None) with
     | Some (ts, es) => r_tosend r' = ts /\ r_escrow r' = es
     | None => r_tosend r' = r_tosend r0 /\ r_escrow r' = r_escrow r0
     end
   else r' = r0).
Proof.
  intros g s now sfail bfail tfail topen H r0 r'. unfold r'.
  rewrite (end_rewards g s now sfail bfail tfail topen H). split; [reflexivity|]. apply send_rewards_spec.
Qed.

(* a successful loop empties exactly the allowed denoms and conserves every denom *)
Theorem C19c_transfer_complete : forall addr_ok white tfail tosend escrow ts es,
  transfer_loop addr_ok tfail white tosend escrow = Some (ts, es) ->
  length escrow = length tosend -> (length tosend <= length white)%nat ->
  ts = keep white tosend /\ vadd ts es = vadd tosend escrow.
Proof. exact transfer_loop_some. Qed.

(* a transfer failing at the first call moves nothing *)
Theorem C19c_transfer_fail_first : forall addr_ok white tosend escrow,
  transfer_loop addr_ok (Some O) white tosend escrow = None \/
  transfer_loop addr_ok (Some O) white tosend escrow = Some (tosend, escrow).
Proof. exact transfer_loop_fail_first. Qed.

(* ---- validator-set changes are applied by every successful EndBlock, whatever failed in sending or transferring ---- *)
Theorem C19c_valset_applied_despite_failures : forall g s now sfail bfail tfail topen,
  bres g s (BEnd now sfail bfail tfail topen) = 0 ->
  (ccvals (b_cs (bstep g s (BEnd now sfail bfail tfail topen))), outst (b_cs (bstep g s (BEnd now sfail bfail tfail topen)))) =
    apply_changes (pend (b_cs s)) (ccvals (b_cs s)) (outst (b_cs s)) /\
  pend (b_cs (bstep g s (BEnd now sfail bfail tfail topen))) = [].
Proof. exact end_valset. Qed.

(* ---- non-vacuity ---- *)
Definition ex_cfg : cfg := mkCfg 5 750000000000000000 1 [true; false] true.
Definition ex_ops : list bop :=
  [BFund [100; 41]; BSub (CQueueVsc 1); BSub (CQueueSlash 7 2 true); BRecv 3 [] [(4, 9); (5, 0)]].

Example C19c_ex_ok :
  let s := fold_left (bstep ex_cfg) ex_ops (binit 2 true 1) in
  bstep_out ex_cfg s (BEnd 10 None None None true) =
  (0, mkB (mkC [mkPkt 1 2 7] (Some (true, 10)) true false [7] [4] [])
          (mkR [0; 0] [75; 30] [0; 11] [25; 0] 1) 1 [(2, 3)],
   [mkPkt 2 1 0; mkPkt 1 2 7]).
Proof. vm_compute. reflexivity. Qed.

Example C19c_ex_all_fail :
  let s := fold_left (bstep ex_cfg) ex_ops (binit 2 true 1) in
  bstep_out ex_cfg s (BEnd 10 (Some 0%nat) None (Some 0%nat) true) =
  (0, mkB (mkC [mkPkt 2 1 0; mkPkt 1 2 7] None true false [7] [4] [])
          (mkR [0; 0] [75; 30] [25; 11] [0; 0] 1) 1 [(2, 3)], []).
Proof. vm_compute. reflexivity. Qed.
