(* Property C20, end to end: WHICH parameters a downtime jail is executed with.
   Theorems about Model/SlashParams.v, the composition of Model/Infraction.v (C20) with Model/Slash.v (C08) - the
   model run by harness/c20sys; proofs in Proofs/SlashParamsProofs.v combine the timeline lemmas of
   Proofs/InfractionProofs.v (C20_delay and friends) with the decision chain of Proofs/SlashProofs.v (C08_jail_iff,
   C08_params).

   A run is [srun g ops (init_sys rows m0 c0)] for ANY sequence of
     SInf o          any Infraction op: create / update (partial) / direct queue / launch / stop / delete
     SBegin now tot  a new block: BeginBlockUpdateInfractionParameters (200 limit) + slash-meter replenishment
     SSetMembers, SExt   the consumer's stored validator set; external staking changes of validators
     SRecvSlash c res infr power h   a slash packet on consumer c's channel whose address resolves to validator res.
   There is no parameter and no phase oracle: the row [consumer_row s c] that Slash.recv_slash sees is computed from
   the Infraction component (phase class, downtime fraction and jail duration IN FORCE); block time = its clock.
   [report_uses g s c res infr power h p] says about the report handled in state s:
   (1) the downtime parameters in force of c are those of p, (2) the Infraction component is untouched,
   (3) res becomes jailed by it iff [sys_jail_cond] (spelled out by C20_system_conditions), (4) if it does, the new row
   is Slash.jail_val with fraction [frac_of p], jail-until = block time + [jail_of p], tokens burnt by that fraction,
   and the fraction logged to staking is that fraction, (5) no other validator changes.
   Hypotheses that REMAIN: Slash's own conditions inside sys_jail_cond (P in the stored set, meter >= 0, validator
   known / not unbonded / not tombstoned / not yet jailed, vsc id known, downtime, power <> 0) - oracles of C08;
   for the timeline theorems: no further request on c and c not deleted in between ([quiet] on the Infraction trace);
   "at most 200 entries due" for the exact switch block (otherwise C20_in_force_from's position condition). *)
From Coq Require Import ZArith List Bool.
From ICS Require Import Base.Tree Model.Throttle.
From ICS Require Model.Infraction Model.Slash Proofs.InfractionProofs.
From ICS Require Import Model.SlashParams Proofs.SlashParamsProofs.
Import ListNotations.
Open Scope Z_scope.

(* the composed run performs an Infraction run: every theorem of Props/C20.v applies to its parameter component *)
Theorem C20_system_refines : forall g rows m0 c0 ops,
  inf (srun g ops (init_sys rows m0 c0)) = I.exec I.init (itrace ops).
Proof. exact reach_inf. Qed.

(* the conditions, spelled out: phase and parameters are the Infraction component's, everything else Slash's *)
Theorem C20_system_conditions : forall s c res infr power h,
  sys_jail_cond s c res infr power h = true <->
  I.aget c (I.phases (inf s)) = Some I.Launched /\
  exists p height,
    I.aget c (I.cur (inf s)) = Some p /\ h = Some height /\
    S.validate true power infr = true /\ infr = S.DOWNTIME /\
    In res (members_of s c) /\ 0 <= meter (thr s) /\
    S.v_found (getv s res) = true /\ S.v_status (getv s res) <> S.UNBONDED /\
    S.v_tomb (getv s res) = false /\ S.v_jailed (getv s res) = false.
Proof. exact sys_jail_cond_spec. Qed.

(* in ANY state: a report is punished with the downtime parameters in force of that consumer at that moment *)
Theorem C20_system_report : forall g s c res infr power h p,
  I.aget c (I.cur (inf s)) = Some p -> report_uses g s c res infr power h p.
Proof. exact report_any. Qed.

(* after a request (block time t = clock, unbonding period u) for np <> cp on a launched consumer, and while there is
   no further request on c and c is not deleted: every report is punished with the OLD values cp until some
   begin-block has c among its first 200 due entries ([applied_in], exactly as in C20_delay), with the NEW values np
   afterwards *)
Theorem C20_system_jail_uses_in_force : forall g rows m0 c0 ops1 c cp np u o ops2 res infr power h,
  let s1 := srun g ops1 (init_sys rows m0 c0) in
  I.aget c (I.phases (inf s1)) = Some I.Launched -> I.aget c (I.cur (inf s1)) = Some cp ->
  IP.is_request (inf s1) c np u o -> I.params_eqb cp np = false -> IP.quiet c (itrace ops2) = true ->
  let s3 := srun g ops2 (fst (sstep g s1 (SInf o))) in
  report_uses g s3 c res infr power h (if IP.applied_in c (I.step (inf s1) o) (itrace ops2) then np else cp).
Proof. exact sys_jail_uses_in_force. Qed.

(* ... a begin-block that switches has time >= t + u ... *)
Theorem C20_system_applied_when : forall g rows m0 c0 ops1 c cp np u o ops2,
  let s1 := srun g ops1 (init_sys rows m0 c0) in
  I.aget c (I.phases (inf s1)) = Some I.Launched -> I.aget c (I.cur (inf s1)) = Some cp ->
  IP.is_request (inf s1) c np u o -> I.params_eqb cp np = false -> IP.quiet c (itrace ops2) = true ->
  IP.applied_in c (I.step (inf s1) o) (itrace ops2) = true ->
  exists now total, In (SBegin now total) ops2 /\ I.clock (inf s1) + u <= now.
Proof. exact sys_applied_when. Qed.

(* ... so every report handled before the first begin-block with time >= t + u uses the OLD values ... *)
Theorem C20_system_old_before_due : forall g rows m0 c0 ops1 c cp np u o ops2 res infr power h,
  let s1 := srun g ops1 (init_sys rows m0 c0) in
  I.aget c (I.phases (inf s1)) = Some I.Launched -> I.aget c (I.cur (inf s1)) = Some cp ->
  IP.is_request (inf s1) c np u o -> I.params_eqb cp np = false -> IP.quiet c (itrace ops2) = true ->
  (forall now total, In (SBegin now total) ops2 -> now < I.clock (inf s1) + u) ->
  report_uses g (srun g ops2 (fst (sstep g s1 (SInf o)))) c res infr power h cp.
Proof. exact sys_old_before_due. Qed.

(* ... and every report handled after the first begin-block with time >= t + u (exactly-at-due included; at most 200
   entries due in that block) uses the NEW values *)
Theorem C20_system_new_from_due : forall g rows m0 c0 ops1 c cp np u o opsA now total opsB res infr power h,
  let s1 := srun g ops1 (init_sys rows m0 c0) in
  I.aget c (I.phases (inf s1)) = Some I.Launched -> I.aget c (I.cur (inf s1)) = Some cp ->
  IP.is_request (inf s1) c np u o -> I.params_eqb cp np = false ->
  IP.quiet c (itrace (opsA ++ SBegin now total :: opsB)) = true ->
  IP.applied_in c (I.step (inf s1) o) (itrace opsA) = false ->
  I.clock (inf s1) + u <= now ->
  (length (IP.due_list now (I.schedule (inf (srun g opsA (fst (sstep g s1 (SInf o))))))) <= I.limit)%nat ->
  report_uses g (srun g (opsA ++ SBegin now total :: opsB) (fst (sstep g s1 (SInf o)))) c res infr power h np.
Proof. exact sys_new_from_due. Qed.

(* parameters set before launch (pre-launch update, creation) are used from the first report on *)
Theorem C20_system_prelaunch : forall g rows m0 c0 ops1 c cp hv u ops2 res infr power h,
  let s1 := srun g ops1 (init_sys rows m0 c0) in
  I.aget c (I.phases (inf s1)) = Some I.Prelaunch -> I.aget c (I.cur (inf s1)) = Some cp ->
  I.valid_req (Some hv) = true -> IP.quiet c (itrace ops2) = true ->
  let s3 := srun g ops2 (fst (sstep g s1 (SInf (I.OUpdate c true (Some hv) u)))) in
  report_uses g s3 c res infr power h (I.merge cp hv).
Proof. exact uses_prelaunch. Qed.

Theorem C20_system_created : forall g rows m0 c0 ops1 d r ops2 res infr power h,
  let s1 := srun g ops1 (init_sys rows m0 c0) in
  I.valid_req r = true -> IP.quiet (I.next_id (inf s1)) (itrace ops2) = true ->
  let s3 := srun g ops2 (fst (sstep g s1 (SInf (I.OCreate d r)))) in
  report_uses g s3 (I.next_id (inf s1)) res infr power h (match r with None => d | Some hv => I.merge d hv end).
Proof. exact uses_created. Qed.

(* a cancelled request never influences a jail: not before the cancellation (C20_system_jail_uses_in_force with
   applied_in = false gives cp) and not after it *)
Theorem C20_system_cancel : forall g rows m0 c0 ops1 c cp np u o ops2 np2 u2 o2 ops3 res infr power h,
  let s1 := srun g ops1 (init_sys rows m0 c0) in
  I.aget c (I.phases (inf s1)) = Some I.Launched -> I.aget c (I.cur (inf s1)) = Some cp ->
  IP.is_request (inf s1) c np u o -> I.params_eqb cp np = false -> IP.quiet c (itrace ops2) = true ->
  IP.applied_in c (I.step (inf s1) o) (itrace ops2) = false ->
  let s3 := srun g ops2 (fst (sstep g s1 (SInf o))) in
  I.aget c (I.phases (inf s3)) = Some I.Launched ->
  IP.is_request (inf s3) c np2 u2 o2 -> I.params_eqb cp np2 = true -> IP.quiet c (itrace ops3) = true ->
  let s5 := srun g ops3 (fst (sstep g s3 (SInf o2))) in
  report_uses g s5 c res infr power h cp /\
  IP.applied_in c (I.step (inf s3) o2) (itrace ops3) = false.
Proof. exact sys_cancel. Qed.

(* a replaced request never takes effect: after the second request a jail uses cp or the second request's values *)
Theorem C20_system_replace : forall g rows m0 c0 ops1 c cp np u o ops2 np2 u2 o2 ops3 res infr power h,
  let s1 := srun g ops1 (init_sys rows m0 c0) in
  I.aget c (I.phases (inf s1)) = Some I.Launched -> I.aget c (I.cur (inf s1)) = Some cp ->
  IP.is_request (inf s1) c np u o -> I.params_eqb cp np = false -> IP.quiet c (itrace ops2) = true ->
  IP.applied_in c (I.step (inf s1) o) (itrace ops2) = false ->
  let s3 := srun g ops2 (fst (sstep g s1 (SInf o))) in
  I.aget c (I.phases (inf s3)) = Some I.Launched ->
  IP.is_request (inf s3) c np2 u2 o2 -> I.params_eqb cp np2 = false -> IP.quiet c (itrace ops3) = true ->
  let s5 := srun g ops3 (fst (sstep g s3 (SInf o2))) in
  report_uses g s5 c res infr power h (if IP.applied_in c (I.step (inf s3) o2) (itrace ops3) then np2 else cp).
Proof. exact sys_replace. Qed.

(* a report on c never uses another consumer's parameters: replace the parameters in force of every other consumer
   by anything - validators, meter and acknowledgement class after the report are the same *)
Theorem C20_system_other_consumers : forall g s c res infr power h cu,
  I.aget c cu = I.aget c (I.cur (inf s)) ->
  let a := SRecvSlash c res infr power h in
  vals (fst (sstep g (with_cur s cu) a)) = vals (fst (sstep g s a)) /\
  thr (fst (sstep g (with_cur s cu) a)) = thr (fst (sstep g s a)) /\
  snd (sstep g (with_cur s cu) a) = snd (sstep g s a).
Proof. exact report_local. Qed.

(* nor any QUEUED parameters (its own included) or the schedule *)
Theorem C20_system_not_queued : forall g s c res infr power h q sc,
  let a := SRecvSlash c res infr power h in
  vals (fst (sstep g (with_queued s q sc) a)) = vals (fst (sstep g s a)) /\
  thr (fst (sstep g (with_queued s q sc) a)) = thr (fst (sstep g s a)) /\
  snd (sstep g (with_queued s q sc) a) = snd (sstep g s a).
Proof. exact report_ignores_queued. Qed.

(* ---------------- non-vacuity: request at t = 5 with U = 1000; report at 1004 = t+U-1 is punished with the old
   parameters, the begin-block at 1005 = t+U switches, the report after it is punished with the new ones -------- *)
Definition ex_g : cfg := mkCfg 1000000000000000000 1.
Definition ex_row (tok pow : Z) : S.val := S.mkV true 3 false false tok pow 0 [].
Definition ex_rows : list S.val := [ex_row 1000000 1; ex_row 2000000 2; ex_row 3000000 3].
Definition ex_d : I.params := ((9223372036854775807, 50000000000000000, 1), (600000000000, 0, 0)).
Definition ex_old : I.half := (7000000000, 30000000000000000, 0).
Definition ex_new : I.half := (5, 100000000000000000, 0).
Definition ex_cp : I.params := (I.p_ds ex_d, ex_old).
Definition ex_np : I.params := (I.p_ds ex_d, ex_new).
Definition ex_ops1 : list sop :=
  [SInf (I.OCreate ex_d (Some (None, Some ex_old))); SInf (I.OCreate ex_d None); SInf (I.OLaunch 0); SInf (I.OLaunch 1);
   SSetMembers 0 [0; 1; 2]; SSetMembers 1 [0; 1; 2]; SBegin 5 6].
Definition ex_o : I.op := I.OUpdate 0 true (Some (None, Some ex_new)) 1000.
Definition ex_before : list sop := [SBegin 1004 6].
Definition ex_after : list sop := [SBegin 1004 6; SRecvSlash 0 1 2 2 (Some 3); SBegin 1005 6].
Definition ex_s1 : sys := srun ex_g ex_ops1 (init_sys ex_rows 6 0).
Definition ex_s2 : sys := fst (sstep ex_g ex_s1 (SInf ex_o)).

Example ex_hyps :
  I.aget 0 (I.phases (inf ex_s1)) = Some I.Launched /\ I.aget 0 (I.cur (inf ex_s1)) = Some ex_cp /\
  I.params_eqb ex_cp ex_np = false /\ I.clock (inf ex_s1) = 5 /\
  IP.quiet 0 (itrace ex_before) = true /\ IP.quiet 0 (itrace ex_after) = true /\
  IP.applied_in 0 (I.step (inf ex_s1) ex_o) (itrace ex_before) = false /\
  IP.applied_in 0 (I.step (inf ex_s1) ex_o) (itrace ex_after) = true.
Proof. vm_compute. repeat split. Qed.

Example ex_request : IP.is_request (inf ex_s1) 0 ex_np 1000 ex_o.
Proof. right. exists (None, Some ex_new), ex_cp. repeat split. Qed.

(* validator 1 (2 000 000 tokens) reported at block time 1004 with power 2: jailed until 1004 + 7e9, 3% of 2e6 burnt;
   validator 2 reported after the block at 1005: jailed until 1005 + 5, 10% of 2e6 burnt *)
Example ex_old_params :
  let s := srun ex_g ex_before ex_s2 in
  let s' := fst (sstep ex_g s (SRecvSlash 0 1 2 2 (Some 3))) in
  sys_jail_cond s 0 1 2 2 (Some 3) = true /\
  S.v_jailed (getv s' 1) = true /\ S.v_until (getv s' 1) = 1004 + 7000000000 /\
  S.v_tokens (getv s' 1) = 2000000 - 60000 /\ S.v_log (getv s' 1) = [(3, 2, 30000000000000000)].
Proof. vm_compute. repeat split. Qed.

Example ex_new_params :
  let s := srun ex_g ex_after ex_s2 in
  let s' := fst (sstep ex_g s (SRecvSlash 0 2 2 2 (Some 3))) in
  sys_jail_cond s 0 2 2 2 (Some 3) = true /\
  S.v_jailed (getv s' 2) = true /\ S.v_until (getv s' 2) = 1005 + 5 /\
  S.v_tokens (getv s' 2) = 3000000 - 200000 /\ S.v_log (getv s' 2) = [(3, 2, 100000000000000000)].
Proof. vm_compute. repeat split. Qed.

(* the other consumer (1) keeps the provider defaults throughout *)
Example ex_other :
  let s := srun ex_g ex_after ex_s2 in
  let s' := fst (sstep ex_g s (SRecvSlash 1 2 2 2 (Some 3))) in
  S.v_jailed (getv s' 2) = true /\ S.v_until (getv s' 2) = 1005 + 600000000000 /\ S.v_tokens (getv s' 2) = 3000000.
Proof. vm_compute. repeat split. Qed.
