(* Property C11, system level: stopped consumers get no updates - with the validator-set replication inside.
   Theorems about Model/VscLifecycle.v, the composition of Model/Lifecycle.v (C10/C11/C19: phases, launch and removal
   queues, stop causes, for MANY consumers) and Model/Vsc.v (C01/C12: packets, channel, consumer chain, ONE instance per
   consumer that has a client); this is the model the correspondence driver harness/c11sys runs.  Proofs are in
   Proofs/VscLifecycleProofs.v and combine C11_no_packets_after_stop / C11_deleted_state / C19_end_others_continue of
   the lifecycle with C01_replication / C01_order / C01_no_loss and C12_id_step of the replication.

   A run is [reached U h vid m0 ops] = run_sys U (sys_init h vid m0) ops: provider at height h with update id vid and
   id -> height store m0, no consumer yet; U = unbonding period; ops is ANY sequence of
     SMsg o            a lifecycle message / IBC callback: create, update, remove, opt-in, decorate, channel handshake,
                       packet timeout, error acknowledgement
     SBegin now ora    provider BeginBlock: launches (each with its computed launch SET as oracle) and removals
     SEnd e order ora  provider EndBlock (e: epoch block) with, per consumer, the computed set and the SendPacket answer
     SCons c o         Deliver / BeginBlock / EndBlock / slash op of consumer chain c.
   In the composed model a replication instance is never stopped or given a channel by a free op: [inst s c] follows
   the lifecycle record of c ([lc s]); the lifecycle's view of an EndBlock (set changed? new size, send answer) is
   derived from the instance.  [L.phase_of (lc s) c]: 3 launched, 4 stopped, 5 deleted.

   Hypotheses that REMAIN: [wf_sop]: computed sets have powers >= 1; 1 <= vid; for the two theorems that relate the
   lifecycle's packet COUNTERS to the instances ([wf_run]): the iteration order of every EndBlock is duplicate-free
   and contains every consumer that has a client (GetAllConsumersWithIBCClients); staking.UnbondingTime does not fail
   inside the stop that follows a send failure (built into the model: eo_stopfail = false; that case is C19's). *)
From Coq Require Import ZArith List Bool Sorted Lia.
From ICS Require Import Base.Tree.
From ICS Require Model.Lifecycle Model.Vsc.
From ICS Require Import Model.VscLifecycle Proofs.VscLifecycleProofs.
Import ListNotations.
Open Scope Z_scope.

(* ---- the composition is faithful to both components: the lifecycle part is a run of Model/Lifecycle.v, every
   instance is a run of Model/Vsc.v on well-formed oracle values (so every theorem of Props/C10, C11, C19 resp.
   Props/C01, C12 applies to it) ---- *)
Theorem C11_system_refines_lifecycle : forall U h vid m0 ops,
  lc (reached U h vid m0 ops) = L.reach U (ltrace U (sys_init h vid m0) ops).
Proof. exact lc_reached. Qed.

Theorem C11_system_refines_vsc : forall U h vid m0 ops c v, 1 <= vid -> Forall wf_sop ops ->
  inst (reached U h vid m0 ops) c = Some v -> traced v.
Proof. exact instance_traced. Qed.

(* instances exist only for launched / stopped consumers, and a launched instance belongs to a launched consumer *)
Theorem C11_system_instance_alive : forall U h vid m0 ops c v,
  inst (reached U h vid m0 ops) c = Some v ->
  (L.phase_of (lc (reached U h vid m0 ops)) c = 3 \/ L.phase_of (lc (reached U h vid m0 ops)) c = 4) /\
  (V.p_launched v = true -> L.phase_of (lc (reached U h vid m0 ops)) c = 3).
Proof. exact instance_alive. Qed.

(* ---- once a consumer is stopped (any cause: MsgRemoveConsumer, timeout, error ack, send failure) then, for every
   continuation: it stays stopped or deleted; if its instance still exists it is the old one with nothing produced
   (g_prod, and the (id, height) stamps g_prodh), nothing queued (p_pending) and nothing handed to IBC
   (handed = delivered ++ in flight) since ---- *)
Theorem C11_system_no_packets_after_stop : forall U h vid m0 ops ops' c, 1 <= vid -> Forall wf_sop (ops ++ ops') ->
  let s := reached U h vid m0 ops in let s' := reached U h vid m0 (ops ++ ops') in
  4 <= L.phase_of (lc s) c ->
  4 <= L.phase_of (lc s') c /\
  match inst s' c with
  | None => True
  | Some v' => exists v, inst s c = Some v /\ frozen v v'
  end.
Proof. exact no_packets_after_stop. Qed.

(* ... while the provider's update id keeps growing by one per epoch block, and every instance (launched or not)
   carries exactly that id *)
Theorem C11_system_vscid_step : forall U s o,
  g_vscid (sys_step U s o) = g_vscid s + match o with SEnd true _ _ => 1 | _ => 0 end.
Proof. exact vscid_step. Qed.

Theorem C11_system_instance_vscid : forall U h vid m0 ops c v,
  inst (reached U h vid m0 ops) c = Some v -> V.p_vscid v = g_vscid (reached U h vid m0 ops).
Proof. exact instance_vscid. Qed.

(* ---- replication, for every consumer, in every reachable state - whatever happened to the other consumers (stops,
   deletions, failed launches, the 200-per-block limits of the queues): engine set = stored set; with no changes
   pending (after every consumer EndBlock) it is the set of the last packet received; delivery in production order;
   every produced packet is delivered, in flight, or (while launched) pending ---- *)
Theorem C11_system_replication_until_stop : forall U h vid m0 ops c v, 1 <= vid -> Forall wf_sop ops ->
  inst (reached U h vid m0 ops) c = Some v ->
  V.c_engine v = V.c_ccvals v /\
  (V.c_pending v = None -> V.c_ccvals v = nth (V.g_recv v) (V.g_hist v) []) /\
  (V.c_inblock v = false -> V.c_pending v = None) /\
  V.g_deliv v = firstn (V.g_recv v) (V.g_prod v) /\
  StronglySorted Z.lt (map V.pid (V.g_prod v)) /\
  incl (V.g_deliv v) (V.g_prod v) /\
  exists rest, V.g_prod v = V.g_deliv v ++ V.inflight v ++ rest /\ (V.p_launched v = true -> rest = V.p_pending v).
Proof. exact replication_until_stop. Qed.

(* ---- the two components agree: for every instance the lifecycle record has a client, is launched or stopped,
   is launched iff the instance is, has the channel iff the instance has, and its pending counter is the length of
   the instance's pending list ---- *)
Theorem C11_system_agreement : forall U h vid m0 ops,
  wf_run U (sys_init h vid m0) ops -> AG (reached U h vid m0 ops).
Proof. exact agreement. Qed.

(* ---- a non-expiry send failure: SendPacket of launched consumer c (channel established) fails at packet number j
   of its pending list [pend_q next v] (old pending packets plus this epoch's) - then exactly this happens to c: the
   lifecycle stops it and schedules its removal one unbonding period later, the instance is stopped, the first j
   packets are in flight and the pending list is intact ---- *)
Theorem C11_system_stop_on_send_failure : forall U h vid m0 ops order ora c v r j,
  wf_run U (sys_init h vid m0) (ops ++ [SEnd true order ora]) ->
  let s := reached U h vid m0 ops in
  let next := vo_next (L.lookup no_vora ora c) in
  inst s c = Some v -> L.get (lc s) c = Some r -> L.c_phase r = 3 -> V.p_chan v = true ->
  vo_mode (L.lookup no_vora ora c) = 2 + Z.of_nat j -> (j < length (pend_q next v))%nat ->
  let s' := sys_step U s (SEnd true order ora) in
  exists r' v', L.get (lc s') c = Some r' /\ inst s' c = Some v' /\
    L.c_phase r' = 4 /\ L.p_removal (L.c_proto r') = L.s_now (lc s) + U /\
    V.p_launched v' = false /\ V.p_pending v' = pend_q next v /\
    V.inflight v' = V.inflight v ++ firstn j (pend_q next v).
Proof. exact stop_on_send_failure. Qed.

(* ... and nothing of any OTHER consumer depends on it: changing the oracle values of the failing consumer only
   (send answer, computed set) leaves the lifecycle record and the instance of every other consumer as they are
   (the Go loop continues with the next consumer; uses C19_end_others_continue) *)
Theorem C11_system_end_others_continue : forall U h vid m0 ops e order ora ora' c,
  L.lookup no_vora ora c = L.lookup no_vora ora' c ->
  let s := reached U h vid m0 ops in
  inst (sys_step U s (SEnd e order ora)) c = inst (sys_step U s (SEnd e order ora')) c /\
  L.get (lc (sys_step U s (SEnd e order ora))) c = L.get (lc (sys_step U s (SEnd e order ora'))) c.
Proof. exact end_others_continue. Qed.

(* ---- after the deletion: no instance (hence no pending packet, nothing to send), the lifecycle's pending counter
   is 0 and its sent counter never moves again, for every continuation ---- *)
Theorem C11_system_deleted_drops_pending : forall U h vid m0 ops ops' c,
  let s := reached U h vid m0 ops in let s' := reached U h vid m0 (ops ++ ops') in
  L.phase_of (lc s) c = 5 ->
  L.phase_of (lc s') c = 5 /\ inst s' c = None /\
  exists r r', L.get (lc s) c = Some r /\ L.get (lc s') c = Some r' /\
    L.p_pending (L.c_proto r') = 0 /\ L.c_sent r' = L.c_sent r.
Proof. exact deleted_drops_pending. Qed.

(* ---- non-vacuity: two consumers launched in the same block; consumer 0 receives one packet, then a packet timeout
   stops it in the middle of the history (U = 50); consumer 1 keeps receiving packets; consumer 0 is deleted by the
   BeginBlock at time 1060 and its instance is dropped, the update id keeps counting ---- *)
Example C11_system_ex_ops1 : list sop :=
  [SMsg (L.OCreate 1 1 1 (Some (1001, 1, 0))); SMsg (L.OOptIn 0 3 false);
   SMsg (L.OCreate 1 2 1 (Some (1001, 1, 0))); SMsg (L.OOptIn 1 2 false);
   SEnd true [] [];
   SBegin 1001 [(0, mkLa [(1003, 4)] true false 1); (1, mkLa [(1002, 3)] true false 3)];
   SMsg (L.OChannel 0); SMsg (L.OChannel 1);
   SEnd true [0; 1] [(0, mkVO [(1003, 7)] 0); (1, mkVO [(1002, 3)] 0)];
   SCons 0 V.CBeginBlock; SCons 0 V.Deliver; SCons 0 V.CEndBlock;
   SBegin 1002 []; SMsg (L.OTimeout 0)].
Example C11_system_ex_ops2 : list sop :=
  [SEnd true [0; 1] [(0, mkVO [(1003, 9)] 0); (1, mkVO [(1002, 5)] 0)];
   SCons 1 V.CBeginBlock; SCons 1 V.Deliver; SCons 1 V.CEndBlock;
   SBegin 1060 []; SEnd true [1] [(1, mkVO [(1002, 5)] 0)]].

Example C11_system_ex_wf : wf_run 50 (sys_init 1 1 []) (C11_system_ex_ops1 ++ C11_system_ex_ops2).
Proof. apply wf_run_b_sound. vm_compute. reflexivity. Qed.

Example C11_system_ex_run :
  let s1 := reached 50 1 1 [] C11_system_ex_ops1 in
  let s2 := reached 50 1 1 [] (C11_system_ex_ops1 ++ C11_system_ex_ops2) in
  map (L.phase_of (lc s1)) [0; 1] = [4; 3] /\ g_vscid s1 = 3 /\
  match inst s1 0 with
  | Some v => V.p_launched v = false /\ map V.pid (V.g_prod v) = [2] /\ V.c_ccvals v = [(1003, 7)]
  | None => False
  end /\
  map (L.phase_of (lc s2)) [0; 1] = [5; 3] /\ g_vscid s2 = 5 /\ inst s2 0 = None /\
  match inst s2 1 with
  | Some v => V.p_launched v = true /\ map V.pid (V.g_prod v) = [3] /\ V.c_ccvals v = [(1002, 5)] /\ V.p_vscid v = 5
  | None => False
  end.
Proof. vm_compute. repeat split; reflexivity. Qed.
