(* Property C01: consumer validator sets replicate the provider's decisions, in order.
   Theorems about Model/Vsc.v (the model the correspondence driver harness/c01 runs); proofs are in
   Proofs/VscMaps.v and Proofs/VscProofs.v.  Op sequences, sets, packets have arbitrary length.

   Reading guide.  A run is [run_ops (init_state ph vid m0 l0 ch) ops]: the consumer was launched with the
   computed set l0 while the provider was in block ph with update id vid (m0 = id -> height store at that
   moment) and the consumer chain starts at height ch; ops is ANY interleaving of provider blocks
   (PEndBlock is_epoch next send_result), ChanOpen, Deliver, consumer BeginBlock/EndBlock, Stop and slash ops.
   Hypotheses: [pos_set next] for every computed set (powers >= 1; discharged by C05/CreateConsumerValidator),
   [wf_res]: ErrClientNotActive only at the first SendPacket of a loop; 1 <= vid.
   Ghost fields: g_hist (launch set, then every computed set that produced a packet), g_prod / g_deliv
   (packets produced / delivered, in order), g_recv = length g_deliv.
   [as_map l] is the list l as a key -> power store; stores are compared as maps (sorted, distinct keys). *)
From Coq Require Import ZArith List Bool Permutation Sorted Lia.
From ICS Require Import Base.Tree Model.Vsc Proofs.VscMaps Proofs.VscProofs.
Import ListNotations.
Open Scope Z_scope.

(* ---- DiffValidators: applying the diff to the current set yields the next set.  No distinctness hypothesis is
   needed (the Go maps and the stores both let the last entry win); positivity of the next powers IS needed. ---- *)
Theorem C01_diff_apply : forall cur next,
  pos_set next -> apply_updates (diff cur next) (as_map cur) = as_map next.
Proof. exact diff_apply. Qed.

Theorem C01_diff_apply_needs_positive :
  exists cur next, apply_updates (diff cur next) (as_map cur) <> as_map next.
Proof. exists [], [(1, 0)]. vm_compute. discriminate. Qed.

(* ---- AccumulateChanges: accumulate-then-apply = apply one after the other; the result list does not depend
   on the order in which the Go map is iterated ---- *)
Theorem C01_accumulate_apply : forall u1 u2 m,
  msorted m -> apply_updates (accumulate u1 u2) m = apply_updates u2 (apply_updates u1 m).
Proof. exact accumulate_apply. Qed.

Theorem C01_accumulate_order_independent : forall (iter : list upd -> list upd) cur new,
  (forall l, Permutation (iter l) l) -> accumulate_with iter cur new = accumulate cur new.
Proof. exact accumulate_iter_independent. Qed.

(* ---- ApplyCCValidatorChanges: the stored set is the update list applied as a map, and the list handed to the
   consensus engine has exactly the same effect (the skipped zero-power entries were not in the set) ---- *)
Theorem C01_apply_cc_store : forall us m, msorted m -> fst (apply_cc us m) = apply_updates us m.
Proof. exact apply_cc_fst. Qed.

Theorem C01_apply_cc_engine : forall us m,
  msorted m -> apply_updates (snd (apply_cc us m)) m = fst (apply_cc us m).
Proof. exact apply_cc_engine. Qed.

(* ---- replication: in every reachable state the engine's set equals the stored set; whenever no changes are
   pending - in particular after every consumer EndBlock, and whenever the consumer is between blocks - the
   stored set is entry number (packets received) of hist: the set carried by the most recent packet received,
   or the launch set if none ---- *)
Theorem C01_replication : forall ph vid m0 l0 ch ops,
  1 <= vid -> pos_set l0 -> Forall wf_op ops ->
  let s := run_ops (init_state ph vid m0 l0 ch) ops in
  c_engine s = c_ccvals s /\
  (c_pending s = None -> c_ccvals s = nth (g_recv s) (g_hist s) []) /\
  (c_inblock s = false -> c_pending s = None) /\
  c_pending (step s CEndBlock) = None.
Proof. exact replication. Qed.

(* what hist is: one entry per produced packet after the launch entry; the updates of the j-th packet lead
   from entry j to entry j+1; the last entry is the provider's stored record *)
Theorem C01_hist_meaning : forall ph vid m0 l0 ch ops,
  1 <= vid -> pos_set l0 -> Forall wf_op ops ->
  let s := run_ops (init_state ph vid m0 l0 ch) ops in
  length (g_hist s) = S (length (g_prod s)) /\
  nth (length (g_prod s)) (g_hist s) [] = as_map (p_stored s) /\
  forall j, (j < length (g_prod s))%nat ->
    apply_updates (pupd (nth j (g_prod s) dpk)) (nth j (g_hist s) []) = nth (S j) (g_hist s) [].
Proof. exact hist_meaning. Qed.

Theorem C01_hist_launch : forall ph vid m0 l0 ch ops,
  1 <= vid -> pos_set l0 -> Forall wf_op ops ->
  nth 0 (g_hist (run_ops (init_state ph vid m0 l0 ch) ops)) [] = as_map l0.
Proof. exact hist_launch. Qed.

(* none is invented: every entry is the launch set or a set computed by the provider in an epoch block *)
Theorem C01_hist_sources : forall ph vid m0 l0 ch ops,
  Forall (fun m => m = as_map l0 \/ exists next r, In (PEndBlock true next r) ops /\ m = as_map next)
         (g_hist (run_ops (init_state ph vid m0 l0 ch) ops)).
Proof. exact hist_sources. Qed.

(* ---- order: the number of packets received never decreases; the k-th packet delivered is the k-th produced;
   ids of produced packets strictly increase; nothing is delivered that was not produced ---- *)
Theorem C01_order : forall ph vid m0 l0 ch ops,
  1 <= vid -> pos_set l0 -> Forall wf_op ops ->
  let s := run_ops (init_state ph vid m0 l0 ch) ops in
  (forall o, (g_recv s <= g_recv (step s o))%nat) /\
  g_deliv s = firstn (g_recv s) (g_prod s) /\
  StronglySorted Z.lt (map pid (g_prod s)) /\
  incl (g_deliv s) (g_prod s).
Proof. exact order. Qed.

(* ---- no loss: every produced packet is in exactly one place - delivered, in flight, or (for a launched
   consumer) pending; for a stopped consumer the remainder is never sent ---- *)
Theorem C01_no_loss_on_partial_send : forall ph vid m0 l0 ch ops,
  1 <= vid -> pos_set l0 -> Forall wf_op ops ->
  let s := run_ops (init_state ph vid m0 l0 ch) ops in
  exists rest, g_prod s = g_deliv s ++ inflight s ++ rest /\ (p_launched s = true -> rest = p_pending s).
Proof. exact no_loss. Qed.

(* what SendVSCPacketsToChain does on a failure, in ANY state: the packets before the failing call are in
   flight, and nothing is deleted from the pending list *)
Theorem C01_failed_send_keeps_pending : forall s r sent e,
  p_launched s = true -> p_chan s = true -> send_loop r 0 (p_pending s) = (sent, Some e) ->
  p_pending (send r s) = p_pending s /\ inflight (send r s) = inflight s ++ sent /\
  exists tail, p_pending s = sent ++ tail.
Proof. exact failed_send_keeps_pending. Qed.

(* REFUTED without the hypothesis that ErrClientNotActive can only hit the first SendPacket of a loop:
   the Go loop returns nil on ErrClientNotActive at ANY position and keeps all pending packets, including
   those already handed to IBC, which are then sent a second time (witness: ids delivered 1,1,2). *)
Theorem C01_midloop_expiry_refuted : ~ order_any_send_failure.
Proof. exact order_any_send_failure_refuted. Qed.

(* ---- non-vacuity: a run with two epochs before the channel exists, a burst of two packets into one consumer
   block and a third packet later; the consumer adopts the sets in order ---- *)
Example C01_example_ops : list op :=
  [PEndBlock true [(1, 10); (2, 7)] SOk; PEndBlock true [(2, 9); (3, 4)] SOk; ChanOpen;
   PEndBlock true [(2, 9); (3, 4)] SOk; CBeginBlock; Deliver; Deliver; CEndBlock;
   PEndBlock true [(3, 5)] (SExpired 0); PEndBlock true [(3, 5)] SOk; CBeginBlock; Deliver; CEndBlock].

Example C01_example_wf : Forall wf_op C01_example_ops.
Proof. unfold C01_example_ops. repeat constructor; simpl; lia. Qed.

Example C01_example_run :
  let s := run_ops (init_state 5 1 [] [(1, 10)] 1) C01_example_ops in
  c_ccvals s = [(3, 5)] /\ c_engine s = [(3, 5)] /\ g_recv s = 3%nat /\
  g_hist s = [[(1, 10)]; [(1, 10); (2, 7)]; [(2, 9); (3, 4)]; [(3, 5)]] /\
  map pid (g_deliv s) = [1; 2; 4].
Proof. vm_compute. repeat split; reflexivity. Qed.
