(* Extraction of the executable models. Only ExtrOcamlBasic is used (bool, option, unit,
   list, prod, sumbool mapped to OCaml's); Z/N/positive/nat stay Coq datatypes; no Extract Constant. *)
From Coq Require Import Extraction ExtrOcamlBasic.
From ICS Require Import Base.Tree Model.PowerCap.
Extraction Language OCaml.
Separate Extraction Tree.tree PowerCap.run PowerCap.mon.
