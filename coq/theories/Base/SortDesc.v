(* Stable insertion sort in descending key order.
   Go's sort.Slice runs a (stable) insertion sort for n <= 12 and an unstable pdqsort
   above that; this is the stable sort.  Theorems never depend on how ties are broken;
   the correspondence compares identities for n <= 12 and tie-insensitive projections above. *)
From Coq Require Import ZArith List Lia Permutation Sorted.
Import ListNotations.
Open Scope Z_scope.

Section SortDesc.
  Context {A : Type} (key : A -> Z).

  (* x is placed before the first element whose key is <= key x (so before equal keys:
     with fold_right an earlier element is inserted later, hence stability). *)
  Fixpoint insert_desc (x : A) (l : list A) : list A :=
    match l with
    | [] => [x]
    | y :: t => if key x <? key y then y :: insert_desc x t else x :: y :: t
    end.

  Definition sort_desc (l : list A) : list A := fold_right insert_desc [] l.

  Definition desc (l : list A) : Prop := StronglySorted (fun a b => key b <= key a) l.

  Lemma insert_desc_perm x l : Permutation (insert_desc x l) (x :: l).
  Proof.
    induction l as [|y t IH]; simpl; [reflexivity|].
    destruct (key x <? key y); [|reflexivity].
    rewrite IH. apply perm_swap.
  Qed.

  Lemma sort_desc_perm l : Permutation (sort_desc l) l.
  Proof.
    induction l as [|x t IH]; simpl; [reflexivity|].
    rewrite insert_desc_perm. now constructor.
  Qed.

  Lemma insert_desc_sorted x l : desc l -> desc (insert_desc x l).
  Proof.
    unfold desc. induction l as [|y t IH]; simpl; intros Hs.
    - constructor; constructor.
    - destruct (Z.ltb_spec (key x) (key y)) as [Hlt|Hge].
      + inversion Hs as [|? ? Hst Hall]; subst.
        constructor; [apply IH; assumption|].
        rewrite Forall_forall in *. intros z Hz.
        apply (Permutation_in _ (insert_desc_perm x t)) in Hz.
        destruct Hz as [<-|Hz]; [lia|auto].
      + constructor; [assumption|].
        inversion Hs as [|? ? Hst Hall]; subst.
        constructor; [lia|].
        rewrite Forall_forall in *. intros z Hz. specialize (Hall z Hz). lia.
  Qed.

  Lemma sort_desc_sorted l : desc (sort_desc l).
  Proof.
    induction l as [|x t IH]; simpl; [constructor|]. now apply insert_desc_sorted.
  Qed.

  Lemma sort_desc_length l : length (sort_desc l) = length l.
  Proof. apply Permutation_length, sort_desc_perm. Qed.

  Lemma insert_desc_sorted_id x l : desc (x :: l) -> insert_desc x l = x :: l.
  Proof.
    unfold desc. destruct l as [|y t]; simpl; [reflexivity|].
    intros Hs. inversion Hs as [|? ? _ Hall]; subst. inversion Hall; subst.
    destruct (Z.ltb_spec (key x) (key y)); [lia|reflexivity].
  Qed.

  Lemma sort_desc_sorted_id l : desc l -> sort_desc l = l.
  Proof.
    induction l as [|x t IH]; simpl; [reflexivity|].
    intros Hs. rewrite IH by (inversion Hs; assumption). now apply insert_desc_sorted_id.
  Qed.
End SortDesc.
