(* cosmossdk.io/math.LegacyDec (v1.5.2) modelled exactly: a decimal is an integer
   scaled by 10^18; the operations below reproduce legacy_dec.go's algorithms
   (big.Int Quo truncates toward zero = Z.quot; chopPrecisionAndRound is banker's
   rounding on the absolute value).  The harness driver `dec` differentially tests
   every definition here against the real library. *)
From Coq Require Import ZArith Bool.
Open Scope Z_scope.

Definition P : Z := 1000000000000000000.
Definition halfP : Z := 500000000000000000.

Definition chop_round_nonneg (a : Z) : Z :=
  let q := Z.quot a P in
  let r := Z.rem a P in
  if r =? 0 then q
  else if r <? halfP then q
  else if halfP <? r then q + 1
  else if Z.even q then q else q + 1.

(* chopPrecisionAndRound *)
Definition chop_round (d : Z) : Z :=
  if d <? 0 then - chop_round_nonneg (- d) else chop_round_nonneg d.

(* chopPrecisionAndTruncate *)
Definition chop_trunc (d : Z) : Z := Z.quot d P.

Definition dec_of_int (i : Z) : Z := i * P.          (* LegacyNewDec / NewDecFromInt *)
Definition dadd (a b : Z) : Z := a + b.
Definition dsub (a b : Z) : Z := a - b.
Definition dmul (a b : Z) : Z := chop_round (a * b).           (* Mul *)
Definition dmul_trunc (a b : Z) : Z := chop_trunc (a * b).     (* MulTruncate *)
Definition dmul_int (a i : Z) : Z := a * i.                    (* MulInt / MulInt64 *)
Definition dquo (a b : Z) : Z := chop_round (Z.quot (a * (P * P)) b).   (* Quo *)
Definition dquo_trunc (a b : Z) : Z := Z.quot (a * P) b.       (* QuoTruncate *)
Definition dquo_int (a i : Z) : Z := Z.quot a i.               (* QuoInt / QuoInt64 *)
Definition dtrunc_int (a : Z) : Z := chop_trunc a.             (* TruncateInt / TruncateInt64 *)
Definition dround_int (a : Z) : Z := chop_round a.             (* RoundInt / RoundInt64 *)
Definition dgte (a b : Z) : bool := b <=? a.
