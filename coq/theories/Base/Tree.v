(* Wire format between the harness and the extracted model: trees of integers.
   A tree is printed/parsed as JSON restricted to integers and arrays. *)
From Coq Require Import ZArith List Bool.
Import ListNotations.
Open Scope Z_scope.

Inductive tree := TI (z : Z) | TL (l : list tree).

Definition tz (t : tree) : Z := match t with TI z => z | TL _ => 0 end.
Definition tlist (t : tree) : list tree := match t with TL l => l | TI _ => [] end.
Definition tnth (n : nat) (t : tree) : tree := nth n (tlist t) (TL []).
Definition tzs (t : tree) : list Z := map tz (tlist t).
Definition tbool (t : tree) : bool := negb (tz t =? 0).
Definition tnat (t : tree) : nat := Z.to_nat (tz t).

Definition of_bool (b : bool) : tree := TI (if b then 1 else 0).
Definition of_zs (l : list Z) : tree := TL (map TI l).
Definition of_nat (n : nat) : tree := TI (Z.of_nat n).
Definition of_pair (p : Z * Z) : tree := TL [TI (fst p); TI (snd p)].
Definition of_pairs (l : list (Z * Z)) : tree := TL (map of_pair l).
Definition to_pair (t : tree) : Z * Z := (tz (tnth 0 t), tz (tnth 1 t)).
Definition to_pairs (t : tree) : list (Z * Z) := map to_pair (tlist t).
Definition of_optz (o : option Z) : tree := match o with Some z => TL [TI z] | None => TL [] end.
Definition to_optz (t : tree) : option Z := match tlist t with x :: _ => Some (tz x) | [] => None end.
