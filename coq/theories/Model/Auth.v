(* Model of the authorisation logic of the provider (and consumer) message servers:
     x/ccv/provider/types/msg.go          ValidateBasic of every message, validateProviderAddress,
                                          ValidatePowerShapingParameters (Top_N range)
     x/ccv/provider/keeper/msg_server.go  CreateConsumer, UpdateConsumer, RemoveConsumer, UpdateParams,
                                          ChangeRewardDenoms, OptIn, OptOut, AssignConsumerKey,
                                          SetConsumerCommissionRate
     x/ccv/provider/keeper/{partial_set_security,key_assignment,distribution,consumer_lifecycle}.go
                                          HandleOptIn, HandleOptOut, AssignConsumerKey,
                                          HandleSetConsumerCommissionRate, ChangeRewardDenoms,
                                          InitializeConsumer, StopAndPrepareForConsumerRemoval,
                                          LaunchConsumer / DeleteConsumerChain (as environment ops)
     x/ccv/consumer/keeper/msg_server.go  UpdateParams
   and of the message router: ValidateBasic first, then the handler on a cached context that is
   written only on success ([step]: Err -> the OLD state).

   Accounts are integers (an account = an address STRING of the Go code; the code compares strings):
     0 = gov (keeper authority), 10+v = the account whose bytes are validator v's operator address,
     everything else = some other account (users, case variants of addresses, ...).
   Validators are 0..nvals-1 (registered in staking); v >= nvals is a well-formed operator address of
   an unknown validator, v < 0 an unparsable one.  Consumer ids are list positions; c < 0 is an
   unparsable consumer id.  Consumer keys are integers; key 1000+j is the provider consensus key of
   validator j.  Oracle inputs (decided outside this code): whether a launch succeeds and whom it
   opts in automatically, whether a validator's power is below the Top-N minimum power. *)
From Coq Require Import ZArith List Bool.
From ICS Require Import Base.Tree.
Import ListNotations.
Open Scope Z_scope.

(* ---------------------------------------------------------------- basics *)
Definition gov : Z := 0.
Definition oper_acct (v : Z) : Z := 10 + v.

(* result classes observed by the driver *)
Definition E_VB : Z := 1.      (* rejected by ValidateBasic *)
Definition E_UNAUTH : Z := 2.  (* ErrUnauthorized / govtypes.ErrInvalidSigner *)
Definition E_PHASE : Z := 3.   (* ErrInvalidPhase *)
Definition E_TOPN : Z := 4.    (* ErrInvalidTransformToTopN / ErrInvalidTransformToOptIn / ErrCannotCreateTopNChain *)
Definition E_OTHER : Z := 5.   (* anything else *)

Inductive res (A : Type) : Type := Ok (a : A) | Err (e : Z).
Arguments Ok {A} a.
Arguments Err {A} e.
Definition bind {A B : Type} (r : res A) (f : A -> res B) : res B :=
  match r with Ok a => f a | Err e => Err e end.

(* association lists / sets kept sorted by key (KV-store iteration order) *)
Fixpoint aget (k : Z) (l : list (Z * Z)) : option Z :=
  match l with
  | [] => None
  | (k', v') :: t => if k =? k' then Some v' else aget k t
  end.
Fixpoint aset (k v : Z) (l : list (Z * Z)) : list (Z * Z) :=
  match l with
  | [] => [(k, v)]
  | (k', v') :: t =>
    if k <? k' then (k, v) :: l
    else if k =? k' then (k, v) :: t
    else (k', v') :: aset k v t
  end.
Fixpoint adel (k : Z) (l : list (Z * Z)) : list (Z * Z) :=
  match l with
  | [] => []
  | (k', v') :: t => if k =? k' then adel k t else (k', v') :: adel k t
  end.
Definition smem (k : Z) (l : list Z) : bool := existsb (Z.eqb k) l.
Fixpoint sins (k : Z) (l : list Z) : list Z :=
  match l with
  | [] => [k]
  | k' :: t => if k <? k' then k :: l else if k =? k' then l else k' :: sins k t
  end.
Definition sdel (k : Z) (l : list Z) : list Z := filter (fun x => negb (x =? k)) l.

(* ---------------------------------------------------------------- state *)
(* phases = types.ConsumerPhase: 0 UNSPECIFIED, 1 REGISTERED, 2 INITIALIZED, 3 LAUNCHED, 4 STOPPED, 5 DELETED *)
Record cons : Type := mkC {
  c_phase : Z;
  c_owner : Z;                (* ConsumerIdToOwnerAddress *)
  c_topn : Z;                 (* PowerShapingParameters.Top_N *)
  c_spawn : bool;             (* stored initialization parameters have a non-zero SpawnTime *)
  c_opted : list Z;           (* OptedIn: validators, sorted *)
  c_keys : list (Z * Z);      (* ConsumerValidators pub key: validator -> consumer key *)
  c_used : list (Z * Z);      (* ValidatorsByConsumerAddr: consumer key -> validator (incl. keys to be pruned) *)
  c_comm : list (Z * Z)       (* ConsumerCommissionRate: validator -> rate (percent) *)
}.
Record state : Type := mkS {
  s_nvals : Z;                (* validators 0..nvals-1 are registered in staking *)
  s_minrate : Z;              (* staking MinCommissionRate (percent) *)
  s_cons : list cons;         (* position = consumer id *)
  s_params : Z;               (* provider Params (fingerprint: BlocksPerEpoch) *)
  s_denoms : list Z;          (* ConsumerRewardDenoms, sorted *)
  s_cparams : Z               (* consumer-chain Params (fingerprint: BlocksPerDistributionTransmission) *)
}.

Definition set_phase (c : cons) (p : Z) : cons :=
  mkC p (c_owner c) (c_topn c) (c_spawn c) (c_opted c) (c_keys c) (c_used c) (c_comm c).
Definition set_owner (c : cons) (a : Z) : cons :=
  mkC (c_phase c) a (c_topn c) (c_spawn c) (c_opted c) (c_keys c) (c_used c) (c_comm c).
Definition set_topn (c : cons) (n : Z) : cons :=
  mkC (c_phase c) (c_owner c) n (c_spawn c) (c_opted c) (c_keys c) (c_used c) (c_comm c).
Definition set_spawn (c : cons) (b : bool) : cons :=
  mkC (c_phase c) (c_owner c) (c_topn c) b (c_opted c) (c_keys c) (c_used c) (c_comm c).
Definition set_opted (c : cons) (l : list Z) : cons :=
  mkC (c_phase c) (c_owner c) (c_topn c) (c_spawn c) l (c_keys c) (c_used c) (c_comm c).
Definition set_keys (c : cons) (k u : list (Z * Z)) : cons :=
  mkC (c_phase c) (c_owner c) (c_topn c) (c_spawn c) (c_opted c) k u (c_comm c).
Definition set_comm (c : cons) (l : list (Z * Z)) : cons :=
  mkC (c_phase c) (c_owner c) (c_topn c) (c_spawn c) (c_opted c) (c_keys c) (c_used c) l.

Definition set_cons (s : state) (l : list cons) : state :=
  mkS (s_nvals s) (s_minrate s) l (s_params s) (s_denoms s) (s_cparams s).
Definition set_params (s : state) (p : Z) : state :=
  mkS (s_nvals s) (s_minrate s) (s_cons s) p (s_denoms s) (s_cparams s).
Definition set_denoms (s : state) (l : list Z) : state :=
  mkS (s_nvals s) (s_minrate s) (s_cons s) (s_params s) l (s_cparams s).
Definition set_cparams (s : state) (p : Z) : state :=
  mkS (s_nvals s) (s_minrate s) (s_cons s) (s_params s) (s_denoms s) p.

Definition get_cons (s : state) (c : Z) : option cons :=
  if c <? 0 then None else nth_error (s_cons s) (Z.to_nat c).
Fixpoint upd_nth (n : nat) (x : cons) (l : list cons) : list cons :=
  match l, n with
  | [], _ => []
  | _ :: t, O => x :: t
  | h :: t, S n' => h :: upd_nth n' x t
  end.
Definition put_cons (s : state) (c : Z) (x : cons) : state :=
  set_cons s (upd_nth (Z.to_nat c) x (s_cons s)).

Definition init_state (nvals minrate params cparams : Z) : state :=
  mkS nvals minrate [] params [] cparams.

(* IsConsumerActive / IsConsumerPrelaunched (permissionless.go) *)
Definition active (ph : Z) : bool := (ph =? 1) || (ph =? 2) || (ph =? 3).
Definition prelaunched (ph : Z) : bool := (ph =? 1) || (ph =? 2).

(* ---------------------------------------------------------------- messages *)
Inductive nown : Type :=
| NoOwner              (* NewOwnerAddress == "" *)
| BlankOwner           (* only white space: strings.TrimSpace(..) == "" -> ignored *)
| BadOwner             (* not a valid account address *)
| NewOwner (a : Z).
Inductive inip : Type :=
| NoInit               (* InitializationParameters == nil *)
| InitSpawn            (* valid parameters with a non-zero SpawnTime *)
| InitZero.            (* valid parameters with the zero SpawnTime *)

Inductive envop : Type :=
| ELaunch (c : Z) (ok : bool) (auto : list Z)   (* BeginBlockLaunchConsumers reached c; oracle: success, validators opted in by it *)
| EDelete (c : Z).                              (* BeginBlockRemoveConsumers reached c *)

Inductive op : Type :=
| Create (sender : Z) (topn : option Z) (ini : inip)          (* topn = None: PowerShapingParameters == nil *)
| Update (c sender : Z) (no : nown) (topn : option Z) (ini : inip)
| Remove (c sender : Z)
| UpdateParams (authority p : Z)
| ChangeDenoms (authority : Z) (add rem : list Z)
| OptIn (c v signer key : Z)                                  (* key = 0: ConsumerKey == "" *)
| OptOut (c v signer : Z) (below : bool)                      (* oracle: last power < minimum power in Top N *)
| AssignKey (c v signer key : Z)
| SetCommission (c v signer rate : Z)
| Env (l : list envop)
| CUpdateParams (authority p : Z).                            (* consumer chain MsgUpdateParams *)

(* ---------------------------------------------------------------- ValidateBasic (types/msg.go) *)
(* ccvtypes.ValidateConsumerId *)
Definition vb_cid (c : Z) : bool := 0 <=? c.
(* ValidatePowerShapingParameters: Top_N is 0 or in [50,100] *)
Definition vb_topn (n : Z) : bool := negb (negb (n =? 0) && ((n <? 50) || (100 <? n))).
(* validateProviderAddress(addr, signer): addr parses as a ValAddress and AccAddress(valAddr).String() == signer *)
Definition vb_provider_addr (v signer : Z) : bool := (0 <=? v) && (oper_acct v =? signer).

Definition validate_basic (o : op) : bool :=
  match o with
  | Create _ topn _ =>
    (* MsgCreateConsumer.ValidateBasic: Top_N != 0 -> error; then ValidatePowerShapingParameters *)
    match topn with None => true | Some n => (n =? 0) && vb_topn n end
  | Update c _ _ topn _ =>
    (* MsgUpdateConsumer.ValidateBasic; NewOwnerAddress is validated by the handler *)
    vb_cid c && match topn with None => true | Some n => vb_topn n end
  | Remove c _ => vb_cid c
  | UpdateParams _ _ => true                       (* no ValidateBasic *)
  | ChangeDenoms _ add rem =>
    (* both empty -> error; a denom in both sets -> error *)
    negb (match add, rem with [], [] => true | _, _ => false end) &&
    forallb (fun d => negb (smem d add)) rem
  | OptIn c v signer _ => vb_cid c && vb_provider_addr v signer
  | OptOut c v signer _ => vb_cid c && vb_provider_addr v signer
  | AssignKey c v signer key => vb_cid c && vb_provider_addr v signer && negb (key =? 0)
  | SetCommission c v signer rate => vb_cid c && vb_provider_addr v signer && (0 <=? rate) && (rate <=? 100)
  | Env _ => true
  | CUpdateParams _ _ => true
  end.

(* ---------------------------------------------------------------- handlers *)
(* InitializeConsumer (consumer_lifecycle.go) *)
Definition initialize (c : cons) : cons :=
  if prelaunched (c_phase c) && c_spawn c then set_phase c 2 else c.

(* msgServer.CreateConsumer *)
Definition create_consumer (sender : Z) (topn : option Z) (ini : inip) : res cons :=
  (* SetConsumerOwnerAddress(consumerId, msg.Submitter); phase REGISTERED; initialization parameters *)
  let c0 := mkC 1 sender 0 (match ini with InitSpawn => true | _ => false end) [] [] [] [] in
  bind (match topn with
        | None => Ok c0
        | Some n => if negb (n =? 0) then Err E_TOPN (* ErrCannotCreateTopNChain *) else Ok (set_topn c0 n)
        end) (fun c1 =>
  Ok (initialize c1)).

(* msgServer.UpdateConsumer, on the record of an existing consumer *)
Definition update_consumer (c : cons) (sender : Z) (no : nown) (topn : option Z) (ini : inip) : res cons :=
  (* if !IsConsumerActive *)
  if negb (active (c_phase c)) then Err E_PHASE else
  (* ownerAddress := GetConsumerOwnerAddress; if msg.Owner != ownerAddress *)
  let owner_address := c_owner c in
  if negb (sender =? owner_address) then Err E_UNAUTH else
  (* if strings.TrimSpace(msg.NewOwnerAddress) != "" { validate; SetConsumerOwnerAddress } *)
  bind (match no with
        | NoOwner | BlankOwner => Ok c
        | BadOwner => Err E_OTHER
        | NewOwner a => Ok (set_owner c a)
        end) (fun c1 =>
  (* if msg.InitializationParameters != nil *)
  bind (match ini with
        | NoInit => Ok c1
        | InitSpawn =>
          if negb (prelaunched (c_phase c1)) then Err E_OTHER else Ok (set_spawn c1 true)
        | InitZero =>
          if negb (prelaunched (c_phase c1)) then Err E_OTHER else
          (* SpawnTime.IsZero() && phase == INITIALIZED: back to REGISTERED *)
          Ok (set_spawn (if c_phase c1 =? 2 then set_phase c1 1 else c1) false)
        end) (fun c2 =>
  (* if msg.PowerShapingParameters != nil *)
  bind (match topn with
        | None => Ok c2
        | Some n =>
          (* Top_N > 0 && ownerAddress != GetAuthority(): the owner read BEFORE the update *)
          if negb (n =? 0) && negb (owner_address =? gov) then Err E_TOPN
          else Ok (set_topn c2 n)
        end) (fun c3 =>
  (* currentOwnerAddress / currentPowerShapingParameters: Top_N != 0 && currentOwner != authority *)
  if negb (c_topn c3 =? 0) && negb (c_owner c3 =? gov) then Err E_TOPN else
  (* InitializeConsumer *)
  Ok (initialize c3)))).

(* msgServer.RemoveConsumer *)
Definition remove_consumer (c : cons) (sender : Z) : res cons :=
  if negb (sender =? c_owner c) then Err E_UNAUTH else
  if negb (c_phase c =? 3) then Err E_PHASE else
  (* StopAndPrepareForConsumerRemoval *)
  Ok (set_phase c 4).

(* Keeper.AssignConsumerKey (key_assignment.go) *)
Definition assign_key (nvals : Z) (c : cons) (v key : Z) : res cons :=
  if negb (active (c_phase c)) then Err E_PHASE else
  (* the key is the provider consensus key of validator key-1000 *)
  bind (if (1000 <=? key) && (key - 1000 <? nvals) then
          if negb (key - 1000 =? v) then Err E_OTHER                 (* ErrConsumerKeyInUse *)
          else match aget v (c_keys c) with
               | None => Err E_OTHER                                 (* ErrCannotAssignDefaultKeyAssignment *)
               | Some _ => Ok tt
               end
        else Ok tt) (fun _ =>
  (* GetValidatorByConsumerAddr found *)
  match aget key (c_used c) with
  | Some _ => Err E_OTHER                                            (* ErrConsumerKeyInUse *)
  | None =>
    let used1 := match aget v (c_keys c) with
                 | Some old => if c_phase c =? 3 then c_used c       (* AppendConsumerAddrsToPrune *)
                               else adel old (c_used c)              (* DeleteValidatorByConsumerAddr *)
                 | None => c_used c
                 end in
    Ok (set_keys c (aset v key (c_keys c)) (aset key v used1))
  end).

(* Keeper.HandleOptIn *)
Definition handle_opt_in (nvals : Z) (c : cons) (v key : Z) : res cons :=
  if negb (active (c_phase c)) then Err E_PHASE else
  let c1 := set_opted c (sins v (c_opted c)) in
  if key =? 0 then Ok c1 else assign_key nvals c1 v key.

(* Keeper.HandleOptOut *)
Definition handle_opt_out (c : cons) (v : Z) (below : bool) : res cons :=
  if negb (c_phase c =? 3) then Err E_PHASE else
  if negb (c_topn c =? 0) && negb below then Err E_OTHER               (* ErrCannotOptOutFromTopN *)
  else Ok (set_opted c (sdel v (c_opted c))).

(* Keeper.HandleSetConsumerCommissionRate *)
Definition handle_commission (minrate : Z) (c : cons) (v rate : Z) : res cons :=
  if negb (active (c_phase c)) then Err E_PHASE else
  if rate <? minrate then Err E_OTHER else
  Ok (set_comm c (aset v rate (c_comm c))).

(* the four validator messages: stakingKeeper.GetValidator(ProviderAddr) first, then the keeper handler
   on the consumer's record; [none] is the class returned for an unknown consumer id *)
Definition val_msg (s : state) (c v : Z) (none : Z) (f : cons -> res cons) : res state :=
  if negb (v <? s_nvals s) then Err E_OTHER else                      (* ErrNoValidatorFound *)
  match get_cons s c with
  | None => Err none
  | Some cr => bind (f cr) (fun cr' => Ok (put_cons s c cr'))
  end.

(* Keeper.ChangeRewardDenoms *)
Definition change_denoms (l add rem : list Z) : list Z :=
  fold_left (fun acc d => sdel d acc) rem (fold_left (fun acc d => sins d acc) add l).

(* environment: BeginBlockLaunchConsumers / BeginBlockRemoveConsumers *)
(* LaunchConsumer succeeded: phase LAUNCHED; [auto] = validators opted in by the launch (Top N) *)
Definition launched_rec (cr : cons) (auto : list Z) : cons :=
  set_opted (set_phase cr 3) (fold_left (fun acc v => sins v acc) auto (c_opted cr)).
(* LaunchConsumer failed: spawn time reset to zero, phase back to REGISTERED *)
Definition unlaunched_rec (cr : cons) : cons := set_spawn (set_phase cr 1) false.
(* DeleteConsumerChain: key assignments, commission rates, opted-in are deleted; owner, phase and
   power-shaping parameters are kept *)
Definition deleted_rec (cr : cons) : cons := mkC 5 (c_owner cr) (c_topn cr) (c_spawn cr) [] [] [] [].

Definition env_step (s : state) (e : envop) : state :=
  match e with
  | ELaunch c ok auto =>
    match get_cons s c with
    | Some cr =>
      if c_phase cr =? 2 then put_cons s c (if ok then launched_rec cr auto else unlaunched_rec cr) else s
    | None => s
    end
  | EDelete c =>
    match get_cons s c with
    | Some cr => if c_phase cr =? 4 then put_cons s c (deleted_rec cr) else s
    | None => s
    end
  end.

Definition handler (s : state) (o : op) : res state :=
  match o with
  | Create sender topn ini =>
    bind (create_consumer sender topn ini) (fun cr => Ok (set_cons s (s_cons s ++ [cr])))
  | Update c sender no topn ini =>
    match get_cons s c with
    | None => Err E_PHASE                                  (* phase UNSPECIFIED is not active *)
    | Some cr => bind (update_consumer cr sender no topn ini) (fun cr' => Ok (put_cons s c cr'))
    end
  | Remove c sender =>
    match get_cons s c with
    | None => Err E_OTHER                                  (* ErrNoOwnerAddress *)
    | Some cr => bind (remove_consumer cr sender) (fun cr' => Ok (put_cons s c cr'))
    end
  | UpdateParams authority p =>
    if negb (authority =? gov) then Err E_UNAUTH else
    if p <=? 0 then Err E_OTHER else                       (* Params.Validate *)
    Ok (set_params s p)
  | ChangeDenoms authority add rem =>
    if negb (authority =? gov) then Err E_UNAUTH else
    Ok (set_denoms s (change_denoms (s_denoms s) add rem))
  | OptIn c v _ key => val_msg s c v E_PHASE (fun cr => handle_opt_in (s_nvals s) cr v key)
  | OptOut c v _ below => val_msg s c v E_OTHER (fun cr => handle_opt_out cr v below)
  | AssignKey c v _ key => val_msg s c v E_PHASE (fun cr => assign_key (s_nvals s) cr v key)
  | SetCommission c v _ rate => val_msg s c v E_PHASE (fun cr => handle_commission (s_minrate s) cr v rate)
  | Env l => Ok (fold_left env_step l s)
  | CUpdateParams authority p =>
    if negb (authority =? gov) then Err E_UNAUTH else
    if p <=? 0 then Err E_OTHER else
    Ok (set_cparams s p)
  end.

(* the router: ValidateBasic, handler on a cached context, written only on success *)
Definition step (s : state) (o : op) : Z * state :=
  if negb (validate_basic o) then (E_VB, s) else
  match handler s o with
  | Ok s' => (0, s')
  | Err e => (e, s)
  end.

Definition run_ops (s : state) (l : list op) : state := fold_left (fun s o => snd (step s o)) l s.

Definition owner_of (s : state) (c : Z) : option Z := option_map c_owner (get_cons s c).
Definition topn_of (s : state) (c : Z) : option Z := option_map c_topn (get_cons s c).

(* ---------------------------------------------------------------- wire format
   input  = [ [nvals, minrate, params0, cparams0], [action...] ]
   action = [1, sender, topn, ini] | [2, c, sender, newowner, topn, ini] | [3, c, sender] | [4, auth, p]
          | [5, auth, [add], [rem]] | [6, c, v, signer, key] | [7, c, v, signer, below] | [8, c, v, signer, key]
          | [9, c, v, signer, rate] | [10, [[1, c, ok, [auto]] | [2, c] ...]] | [11, auth, p]
     topn: -1 = no power-shaping parameters;  ini: 0/1/2 = NoInit/InitSpawn/InitZero;
     newowner: -1 none, -2 blank, -3 invalid, a >= 0 account
   output = one observation per action:
     [class, [[phase, owner, topn, [opted], [[v,key]], [[key,v]], [[v,rate]]] per consumer], params, [denoms], cparams, storebit] *)
Definition dec_topn (z : Z) : option Z := if z =? -1 then None else Some z.
Definition dec_ini (z : Z) : inip := if z =? 1 then InitSpawn else if z =? 2 then InitZero else NoInit.
Definition dec_nown (z : Z) : nown :=
  if z =? -1 then NoOwner else if z =? -2 then BlankOwner else if z <? 0 then BadOwner else NewOwner z.
Definition dec_env (t : tree) : envop :=
  if tz (tnth 0 t) =? 1 then ELaunch (tz (tnth 1 t)) (tbool (tnth 2 t)) (tzs (tnth 3 t))
  else EDelete (tz (tnth 1 t)).
Definition dec_op (t : tree) : op :=
  let a n := tz (tnth n t) in
  let tag := a 0%nat in
  if tag =? 1 then Create (a 1%nat) (dec_topn (a 2%nat)) (dec_ini (a 3%nat))
  else if tag =? 2 then Update (a 1%nat) (a 2%nat) (dec_nown (a 3%nat)) (dec_topn (a 4%nat)) (dec_ini (a 5%nat))
  else if tag =? 3 then Remove (a 1%nat) (a 2%nat)
  else if tag =? 4 then UpdateParams (a 1%nat) (a 2%nat)
  else if tag =? 5 then ChangeDenoms (a 1%nat) (tzs (tnth 2 t)) (tzs (tnth 3 t))
  else if tag =? 6 then OptIn (a 1%nat) (a 2%nat) (a 3%nat) (a 4%nat)
  else if tag =? 7 then OptOut (a 1%nat) (a 2%nat) (a 3%nat) (tbool (tnth 4 t))
  else if tag =? 8 then AssignKey (a 1%nat) (a 2%nat) (a 3%nat) (a 4%nat)
  else if tag =? 9 then SetCommission (a 1%nat) (a 2%nat) (a 3%nat) (a 4%nat)
  else if tag =? 11 then CUpdateParams (a 1%nat) (a 2%nat)
  else Env (map dec_env (tlist (tnth 1 t))).

Definition enc_cons (c : cons) : tree :=
  TL [TI (c_phase c); TI (c_owner c); TI (c_topn c); of_zs (c_opted c);
      of_pairs (c_keys c); of_pairs (c_used c); of_pairs (c_comm c)].
Definition enc_obs (cls : Z) (s : state) (bit : Z) : tree :=
  TL [TI cls; TL (map enc_cons (s_cons s)); TI (s_params s); of_zs (s_denoms s); TI (s_cparams s); TI bit].

Definition dec_config (t : tree) : state :=
  init_state (tz (tnth 0 t)) (tz (tnth 1 t)) (tz (tnth 2 t)) (tz (tnth 3 t)).

Fixpoint run_obs (s : state) (l : list op) : list tree :=
  match l with
  | [] => []
  | o :: t => let r := step s o in enc_obs (fst r) (snd r) 0 :: run_obs (snd r) t
  end.

Definition run (t : tree) : tree :=
  TL (run_obs (dec_config (tnth 0 t)) (map dec_op (tlist (tnth 1 t)))).

(* ---------------------------------------------------------------- monitor
   The clauses of C14 evaluated on the IMPLEMENTATION's observations: every observation is decoded
   into a [state] (c_spawn is not observed) and each transition (before, message, class, after, store bit)
   is checked. *)
Definition dec_cons (t : tree) : cons :=
  mkC (tz (tnth 0 t)) (tz (tnth 1 t)) (tz (tnth 2 t)) false (tzs (tnth 3 t))
      (to_pairs (tnth 4 t)) (to_pairs (tnth 5 t)) (to_pairs (tnth 6 t)).
Definition dec_obs (cfg : state) (t : tree) : state :=
  mkS (s_nvals cfg) (s_minrate cfg) (map dec_cons (tlist (tnth 1 t))) (tz (tnth 2 t)) (tzs (tnth 3 t)) (tz (tnth 4 t)).

Fixpoint zs_eqb (a b : list Z) : bool :=
  match a, b with
  | [], [] => true
  | x :: a', y :: b' => (x =? y) && zs_eqb a' b'
  | _, _ => false
  end.
Fixpoint ps_eqb (a b : list (Z * Z)) : bool :=
  match a, b with
  | [], [] => true
  | (x1, x2) :: a', (y1, y2) :: b' => (x1 =? y1) && (x2 =? y2) && ps_eqb a' b'
  | _, _ => false
  end.
(* the observed part of a consumer record *)
Definition cons_eqb (a b : cons) : bool :=
  (c_phase a =? c_phase b) && (c_owner a =? c_owner b) && (c_topn a =? c_topn b) &&
  zs_eqb (c_opted a) (c_opted b) && ps_eqb (c_keys a) (c_keys b) && ps_eqb (c_used a) (c_used b) &&
  ps_eqb (c_comm a) (c_comm b).
Fixpoint conss_eqb (a b : list cons) : bool :=
  match a, b with
  | [], [] => true
  | x :: a', y :: b' => cons_eqb x y && conss_eqb a' b'
  | _, _ => false
  end.
Definition state_eqb (a b : state) : bool :=
  conss_eqb (s_cons a) (s_cons b) && (s_params a =? s_params b) && zs_eqb (s_denoms a) (s_denoms b) &&
  (s_cparams a =? s_cparams b).

(* records of consumer [a]/[b] that are NOT keyed by validator v agree *)
Definition others_eqb (v : Z) (a b : cons) : bool :=
  (c_phase a =? c_phase b) && (c_owner a =? c_owner b) && (c_topn a =? c_topn b) &&
  zs_eqb (sdel v (c_opted a)) (sdel v (c_opted b)) &&
  ps_eqb (adel v (c_keys a)) (adel v (c_keys b)) &&
  ps_eqb (filter (fun e => negb (snd e =? v)) (c_used a)) (filter (fun e => negb (snd e =? v)) (c_used b)) &&
  ps_eqb (adel v (c_comm a)) (adel v (c_comm b)).
(* consumer lists agree except for the records of (consumer c, validator v) *)
Fixpoint frame_eqb (i c v : Z) (a b : list cons) : bool :=
  match a, b with
  | [], [] => true
  | x :: a', y :: b' => (if i =? c then others_eqb v x y else cons_eqb x y) && frame_eqb (i + 1) c v a' b'
  | _, _ => false
  end.

(* clause 3: Top_N <> 0 -> owner = gov /\ 50 <= Top_N <= 100 *)
Definition topn_ok (c : cons) : bool :=
  (c_topn c =? 0) || ((c_owner c =? gov) && (50 <=? c_topn c) && (c_topn c <=? 100)).

(* owner / Top_N of consumer number i changed legitimately? *)
Definition is_transfer (o : op) (i prev_owner new_owner : Z) : bool :=
  match o with
  | Update c sender (NewOwner a) _ _ => (c =? i) && (sender =? prev_owner) && (a =? new_owner)
  | _ => false
  end.
Definition is_topn_update (o : op) (i prev_owner new_topn : Z) : bool :=
  match o with
  | Update c sender _ (Some n) _ => (c =? i) && (sender =? prev_owner) && (n =? new_topn)
  | _ => false
  end.
Fixpoint owners_ok (o : op) (cls i : Z) (a b : list cons) : bool :=
  match a, b with
  | x :: a', y :: b' =>
    ((c_owner x =? c_owner y) || ((cls =? 0) && is_transfer o i (c_owner x) (c_owner y))) &&
    ((c_topn x =? c_topn y) || ((cls =? 0) && is_topn_update o i (c_owner x) (c_topn y))) &&
    owners_ok o cls (i + 1) a' b'
  | _, _ => true
  end.

Definition mon_step (pre : state) (o : op) (cls : Z) (post : state) (bit : Z) : list Z :=
  let same := state_eqb pre post in
  (* 1: a rejected message changes nothing (observables and raw store) *)
  (if (cls =? 0) || (same && (bit =? 0)) then [] else [1]) ++
  (* 2: owner / Top_N of an existing consumer change only by a successful update sent by its owner
        (owner: naming the new owner); consumers never disappear *)
  (if owners_ok o cls 0 (s_cons pre) (s_cons post) &&
      (Z.of_nat (length (s_cons pre)) <=? Z.of_nat (length (s_cons post))) then [] else [2]) ++
  (* 3: Top_N <> 0 -> gov-owned and in 50..100, after every message *)
  (if forallb topn_ok (s_cons post) then [] else [3]) ++
  (* 4: a consumer appears only by a successful Create; the creator owns it; Top_N = 0 *)
  (match o with
   | Create sender _ _ =>
     if cls =? 0 then
       match skipn (length (s_cons pre)) (s_cons post) with
       | [c] => if (c_owner c =? sender) && (c_topn c =? 0) then [] else [4]
       | _ => [4]
       end
     else []
   | _ => if Nat.eqb (length (s_cons pre)) (length (s_cons post)) then [] else [4]
   end) ++
  (* 5: provider params / reward denoms / consumer params change only by gov-authority messages *)
  (let unchanged := (s_params pre =? s_params post) && zs_eqb (s_denoms pre) (s_denoms post) &&
                    (s_cparams pre =? s_cparams post) in
   match o with
   | UpdateParams a _ =>
     if unchanged || ((cls =? 0) && (a =? gov) && zs_eqb (s_denoms pre) (s_denoms post) && (s_cparams pre =? s_cparams post))
     then [] else [5]
   | ChangeDenoms a _ _ =>
     if unchanged || ((cls =? 0) && (a =? gov) && (s_params pre =? s_params post) && (s_cparams pre =? s_cparams post))
     then [] else [5]
   | CUpdateParams a _ =>
     if unchanged || ((cls =? 0) && (a =? gov) && (s_params pre =? s_params post) && zs_eqb (s_denoms pre) (s_denoms post))
     then [] else [5]
   | _ => if unchanged then [] else [5]
   end) ++
  (* 6: a validator message succeeds only if signer = operator account, and changes only records
        keyed by that validator (on that consumer) *)
  (match o with
   | OptIn c v signer _ | OptOut c v signer _ | AssignKey c v signer _ | SetCommission c v signer _ =>
     if ((cls =? 0) && negb (signer =? oper_acct v)) then [6]
     else if frame_eqb 0 c v (s_cons pre) (s_cons post) then [] else [6]
   | _ => []
   end) ++
  (* 7: update / remove succeed only for the current owner *)
  (match o with
   | Update c sender _ _ _ | Remove c sender =>
     if cls =? 0 then
       match get_cons pre c with
       | Some cr => if c_owner cr =? sender then [] else [7]
       | None => [7]
       end
     else []
   | _ => []
   end).

Fixpoint mon_loop (cfg pre : state) (ops : list op) (obs : list tree) : list Z :=
  match ops, obs with
  | o :: ops', t :: obs' =>
    let post := dec_obs cfg t in
    mon_step pre o (tz (tnth 0 t)) post (tz (tnth 5 t)) ++ mon_loop cfg post ops' obs'
  | [], [] => []
  | _, _ => [99]
  end.

Definition mon (input implobs : tree) : tree :=
  let cfg := dec_config (tnth 0 input) in
  of_zs (mon_loop cfg cfg (map dec_op (tlist (tnth 1 input))) (tlist implobs)).
