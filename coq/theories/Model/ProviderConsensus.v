(* Model of the provider's own consensus validator set (property C15):
     x/ccv/provider/keeper/relay.go                    ProviderValidatorUpdates (called from EndBlockVSU)
     x/ccv/provider/keeper/provider_consensus.go       CreateProviderConsensusValidator, Set/GetLastProviderConsensusValSet
     x/ccv/provider/keeper/validator_set_storage.go    setValSet / getValSet (store keyed by provider consensus address)
     x/ccv/provider/keeper/validator_set_update.go     DiffValidators
     x/ccv/provider/keeper/genesis.go                  InitGenesisValUpdates
     x/ccv/provider/keeper/staking_keeper_interface.go IterateBondedValidatorsByPower, TotalBondedTokens, BondedRatio
     x/ccv/no_valupdates_staking, no_valupdates_genutil  return no validator updates: the only updates the consensus
                                                       engine receives are the ones returned here
   Oracle: the staking module's GetBondedValidatorsByPower list (consensus address, provider key, last power,
   bonded tokens), MaxProviderConsensusValidators (M), the staking token supply.  Addresses and keys are integers;
   the integer order of addresses is the byte order of the consensus addresses (store iteration order). *)
From Coq Require Import ZArith List Bool.
From ICS Require Import Base.Dec Base.SortDesc Base.Tree.
Import ListNotations.
Open Scope Z_scope.

Record sval := mkS { s_addr : Z; s_key : Z; s_pow : Z; s_tok : Z }.
(* types.ConsensusValidator (JoinHeight is not set for the provider's own set) *)
Record pval := mkP { p_addr : Z; p_key : Z; p_pow : Z }.
(* abci.ValidatorUpdate *)
Definition update : Type := (Z * Z)%type.

(* CreateProviderConsensusValidator: consensus address, provider key, GetLastValidatorPower *)
Definition create_pcv (v : sval) : pval := mkP (s_addr v) (s_key v) (s_pow v).

(* setValidator into the store: ascending by address, an equal address is overwritten *)
Fixpoint store_put (v : pval) (l : list pval) : list pval :=
  match l with
  | [] => [v]
  | x :: t => if p_addr v <? p_addr x then v :: x :: t
              else if p_addr v =? p_addr x then v :: t
              else x :: store_put v t
  end.
(* setValSet: deleteValSet, then setValidator for each *)
Definition store_set (next : list pval) : list pval := fold_left (fun st v => store_put v st) next [].

(* Go: m := map[key]val; for _, val := range l { m[val.PublicKey.String()] = val }  (the last one wins) *)
Definition by_key (l : list pval) (k : Z) : option pval := find (fun v => p_key v =? k) (rev l).

(* DiffValidators *)
Definition diff_validators (current next : list pval) : list update :=
  flat_map (fun cur => match by_key next (p_key cur) with
                       | None => [(p_key cur, 0)]
                       | Some nv => if negb (p_pow cur =? p_pow nv) then [(p_key nv, p_pow nv)] else []
                       end) current
  ++ flat_map (fun nv => match by_key current (p_key nv) with
                         | None => [(p_key nv, p_pow nv)]
                         | Some _ => []
                         end) next.

(* ProviderValidatorUpdates: maxValidators := min(M, len(bonded)); bonded[:maxValidators] *)
Definition top_m (oracle : list sval) (M : Z) : list pval :=
  let maxv := if Z.of_nat (length oracle) <? M then Z.of_nat (length oracle) else M in
  map create_pcv (firstn (Z.to_nat maxv) oracle).

(* the recorded set: the store under LastProviderConsensusValsPrefix, in iteration order *)
Definition state : Type := list pval.

Inductive op :=
| Genesis (oracle : list sval) (M : Z)                 (* InitGenesisValUpdates *)
| Block (oracle : list sval) (M : Z)                   (* ProviderValidatorUpdates in EndBlock *)
| Views (oracle : list sval) (M supply : Z).           (* the staking views; no state change *)

(* InitGenesisValUpdates: if len > M then valSet[:M]; every validator is returned as an update *)
Definition genesis_set (oracle : list sval) (M : Z) : list pval :=
  map create_pcv (if M <? Z.of_nat (length oracle) then firstn (Z.to_nat M) oracle else oracle).

Definition step (s : state) (o : op) : state * list update :=
  match o with
  | Genesis oracle M =>
      let vs := genesis_set oracle M in
      (store_set vs, map (fun v => (p_key v, p_pow v)) vs)
  | Block oracle M =>
      let current := s in
      let next := top_m oracle M in
      (store_set next, diff_validators current next)
  | Views _ _ _ => (s, [])
  end.

(* ---- the consensus engine's side: its validator set after applying the returned updates
   (power 0 removes the key, anything else sets its power) ---- *)
Definition engine : Type := list (Z * Z).
Definition apply_update (e : engine) (u : update) : engine :=
  let rest := filter (fun x => negb (fst x =? fst u)) e in
  if snd u =? 0 then rest else u :: rest.
Definition apply_updates (e : engine) (us : list update) : engine := fold_left apply_update us e.
Definition eng_lookup (e : engine) (k : Z) : option Z :=
  match find (fun x => fst x =? k) e with Some x => Some (snd x) | None => None end.
Definition rec_lookup (s : state) (k : Z) : option Z :=
  match find (fun v => p_key v =? k) s with Some v => Some (p_pow v) | None => None end.

(* provider state + engine, driven by the same ops *)
Definition sys : Type := (state * engine)%type.
Definition sys_step (x : sys) (o : op) : sys :=
  let '(s', us) := step (fst x) o in (s', apply_updates (snd x) us).

(* ---- the staking views ----
   IterateBondedValidatorsByPower: counter := 0; staking iteration; if counter >= M stop; counter++; fn(...) *)
Fixpoint iterate_bonded (M counter : Z) (l : list sval) : list sval :=
  match l with
  | [] => []
  | v :: t => if M <=? counter then [] else v :: iterate_bonded M (counter + 1) t
  end.
(* TotalBondedTokens: sum of GetBondedTokens over that iteration *)
Definition total_bonded (oracle : list sval) (M : Z) : Z :=
  fold_left (fun a v => a + s_tok v) (iterate_bonded M 0 oracle) 0.
(* BondedRatio: 0 if supply is not positive, else LegacyNewDecFromInt(bonded).QuoInt(supply) *)
Definition bonded_ratio (oracle : list sval) (M supply : Z) : Z :=
  if 0 <? supply then dquo_int (dec_of_int (total_bonded oracle M)) supply else 0.

(* ---- wire interface ----
   input  = [ op... ],  op = [0, oracle, M] | [1, oracle, M] | [2, oracle, M, supply]
            oracle = [[addr, key, last_power, tokens]...]  (GetBondedValidatorsByPower order)
   output = per op 0/1: [ [[key,power]...] returned updates in order, [[addr,key,power]...] recorded set in store
                          order, [[key,power]...] engine set ascending by key ]
            per op 2:   [ [addr...] validators visited by IterateBondedValidatorsByPower, TotalBondedTokens, BondedRatio (10^18 scaled) ] *)
Definition to_sval (t : tree) : sval := mkS (tz (tnth 0 t)) (tz (tnth 1 t)) (tz (tnth 2 t)) (tz (tnth 3 t)).
Definition to_oracle (t : tree) : list sval := map to_sval (tlist t).
Definition to_op (t : tree) : op :=
  let k := tz (tnth 0 t) in
  if k =? 0 then Genesis (to_oracle (tnth 1 t)) (tz (tnth 2 t))
  else if k =? 1 then Block (to_oracle (tnth 1 t)) (tz (tnth 2 t))
  else Views (to_oracle (tnth 1 t)) (tz (tnth 2 t)) (tz (tnth 3 t)).

Definition of_pval (v : pval) : tree := of_zs [p_addr v; p_key v; p_pow v].
Definition sort_pairs (l : list (Z * Z)) : list (Z * Z) := rev (sort_desc (fun x : Z * Z => fst x) l).
Definition obs_op (o : op) (x : sys) (us : list update) : tree :=
  match o with
  | Views oracle M supply =>
      TL [of_zs (map s_addr (iterate_bonded M 0 oracle)); TI (total_bonded oracle M); TI (bonded_ratio oracle M supply)]
  | _ => TL [of_pairs us; TL (map of_pval (fst x)); of_pairs (sort_pairs (snd x))]
  end.
Fixpoint run_ops (x : sys) (ops : list op) : list tree :=
  match ops with
  | [] => []
  | o :: t => let x' := sys_step x o in obs_op o x' (snd (step (fst x) o)) :: run_ops x' t
  end.
Definition init : sys := ([], []).
Definition run (t : tree) : tree := TL (run_ops init (map to_op (tlist t))).

(* ---- monitor: the clauses of C15 evaluated on the implementation's observations ---- *)
Definition mem (x : Z) (l : list Z) : bool := existsb (Z.eqb x) l.
Definition nodupb (l : list Z) : bool :=
  (fix go (l : list Z) : bool := match l with [] => true | x :: t => negb (mem x t) && go t end) l.
Definition to_pval (t : tree) : pval := mkP (tz (tnth 0 t)) (tz (tnth 1 t)) (tz (tnth 2 t)).
Definition pval_triple (v : pval) : list Z := [p_addr v; p_key v; p_pow v].
Definition by_addr (l : list pval) : list pval := rev (sort_desc p_addr l).
Definition same_pairs (a b : list (Z * Z)) : bool :=
  if list_eq_dec (list_eq_dec Z.eq_dec) (map (fun x => [fst x; snd x]) (sort_pairs a))
                                        (map (fun x => [fst x; snd x]) (sort_pairs b)) then true else false.
Definition oracle_ok (oracle : list sval) : bool :=
  nodupb (map s_addr oracle) && nodupb (map s_key oracle) && forallb (fun v => 0 <? s_pow v) oracle.

(* prev: the recorded set the implementation reported after the previous op *)
Fixpoint mon_ops (prev : list pval) (ops : list op) (obs : list tree) : list Z :=
  match ops with
  | [] => []
  | o :: t =>
    let ob := hd (TL []) obs in
    match o with
    | Views oracle M supply =>
      let expect := firstn (Z.to_nat (Z.min M (Z.of_nat (length oracle)))) oracle in
      let tot := fold_right (fun v a => s_tok v + a) 0 expect in
      (if list_eq_dec Z.eq_dec (tzs (tnth 0 ob)) (map s_addr expect) then [] else [4]) ++
      (if tz (tnth 1 ob) =? tot then [] else [5]) ++
      (if tz (tnth 2 ob) =? (if 0 <? supply then Z.quot (tot * P) supply else 0) then [] else [6]) ++
      mon_ops prev t (tl obs)
    | Genesis oracle M | Block oracle M =>
      let us := to_pairs (tnth 0 ob) in
      let recd := map to_pval (tlist (tnth 1 ob)) in
      let eng := to_pairs (tnth 2 ob) in
      let expect := map create_pcv (firstn (Z.to_nat (Z.min M (Z.of_nat (length oracle)))) oracle) in
      (if oracle_ok oracle then [] else [7]) ++
      (if list_eq_dec (list_eq_dec Z.eq_dec) (map pval_triple recd) (map pval_triple (by_addr expect)) then [] else [1]) ++
      (if same_pairs eng (map (fun v => (p_key v, p_pow v)) recd) && nodupb (map fst eng) then [] else [2]) ++
      (if Z.of_nat (length recd) <=? M then [] else [3]) ++
      (if Z.of_nat (length eng) <=? M then [] else [3]) ++
      (match o with
       | Block _ _ => if same_pairs us (diff_validators prev recd) then [] else [8]
       | _ => if same_pairs us (map (fun v => (p_key v, p_pow v)) recd) then [] else [8]
       end) ++
      mon_ops recd t (tl obs)
    end
  end.

Definition mon (t o : tree) : tree := of_zs (mon_ops [] (map to_op (tlist t)) (tlist o)).
