(* Model of the ICS reward pipeline (property C16).  Definitions only.

   consumer  x/ccv/consumer/keeper/distribution.go : EndBlockRD, DistributeRewardsInternally,
             shouldSendRewardsToProvider, SendRewardsToProvider, AllowedRewardDenoms
   provider  x/ccv/provider/ibc_middleware.go      : OnRecvPacket (crediting)
             x/ccv/provider/keeper/distribution.go : BeginBlockRD, AllocateTokens, AllocateConsumerRewards,
             AllocateTokensToConsumerValidators, IsEligibleForConsumerRewards, ComputeConsumerTotalVotingPower,
             ChangeRewardDenoms, HandleSetConsumerCommissionRate
             x/ccv/provider/keeper/validator_set_update.go : CreateConsumerValidator (JoinHeight rule)

   Coins are integers (Z); DecCoins are Z scaled by 10^18 (Base/Dec.v).  Denoms, accounts, validators,
   consumers and transfer channels are small integers.  External modules are explicit sub-models
   (bank = balance map with sufficient-funds check; x/distribution = community pool + outstanding rewards +
   accumulated commission, AllocateTokensToValidator as in the SDK; ICS-20 transfer = escrow + in-flight
   queue) or oracle inputs carried by the ops (staking registry, failing external calls, channel state).
   Fields named g_* and log are history (ghost) variables: written, never read by the step functions. *)
From Coq Require Import ZArith List Bool.
From ICS Require Import Base.Tree Base.Dec.
Import ListNotations.
Open Scope Z_scope.

(* ------------------------------------------------------------------ finite maps, default 0 *)
Definition key : Type := (Z * Z)%type.
Definition keqb (a b : key) : bool := (fst a =? fst b) && (snd a =? snd b).
Definition kmap : Type := list (key * Z).

Fixpoint get (k : key) (m : kmap) : Z :=
  match m with
  | [] => 0
  | (k', v) :: r => if keqb k k' then v else get k r
  end.

Fixpoint add (k : key) (x : Z) (m : kmap) : kmap :=
  match m with
  | [] => [(k, x)]
  | (k', v) :: r => if keqb k k' then (k', v + x) :: r else (k', v) :: add k x r
  end.

(* sum of all entries whose second key component is d *)
Fixpoint total (d : Z) (m : kmap) : Z :=
  match m with
  | [] => 0
  | (k, v) :: r => (if snd k =? d then v else 0) + total d r
  end.

Definition memz (x : Z) (l : list Z) : bool := existsb (Z.eqb x) l.
Definition list_eqb (a b : list Z) : bool := if list_eq_dec Z.eq_dec a b then true else false.

Fixpoint lookup {A} (k : Z) (l : list (Z * A)) : option A :=
  match l with
  | [] => None
  | (k', a) :: r => if k =? k' then Some a else lookup k r
  end.

Fixpoint put {A} (k : Z) (a : A) (l : list (Z * A)) : list (Z * A) :=
  match l with
  | [] => [(k, a)]
  | (k', a') :: r => if k =? k' then (k, a) :: r else (k', a') :: put k a r
  end.

Definition lookup_list {A} (k : Z) (l : list (Z * list A)) : list A :=
  match lookup k l with Some x => x | None => [] end.

(* bank transfer of x coins of denom d from account a1 to account a2 (no check here) *)
Definition move (a1 a2 d x : Z) (b : kmap) : kmap := add (a2, d) x (add (a1, d) (- x) b).

(* ================================================================== consumer chain *)
(* accounts of a consumer chain *)
Definition FC : Z := 0.   (* fee collector *)
Definition CR : Z := 1.   (* cons_redistribute: the consumer's share *)
Definition TS : Z := 2.   (* cons_to_send_to_provider *)
Definition ES : Z := 3.   (* ICS-20 escrow of the distribution transmission channel *)

Record cstate := mkC {
  c_bank : kmap;               (* (account, denom) -> coins *)
  c_ltbh : Z;                  (* LastTransmissionBlockHeight *)
  c_frac : Z;                  (* ConsumerRedistributionFraction (Dec) *)
  c_bpdt : Z;                  (* BlocksPerDistributionTransmission *)
  c_allowed : list Z;          (* AllowedRewardDenoms(): RewardDenoms ++ prefixed ProviderRewardDenoms *)
  c_denoms : list Z;           (* denoms that can appear in the fee collector *)
  c_inflight : list (Z * Z);   (* transfers sent and not yet received/timed out, oldest first: (denom, amount) *)
  c_memo : Z;                  (* the ConsumerId param put in the transfer memo *)
  c_chan : Z;                  (* provider-side transfer channel of this chain *)
  c_to_pool : bool;            (* ProviderFeePoolAddrStr is the provider's consumer_rewards_pool address *)
  c_dmap : list (Z * list Z);  (* consumer denom -> ICS-20 packet denom (segments) under which it is sent *)
  g_fees : kmap;               (* ghost: fees ever collected, (0, denom) *)
  g_deliv : kmap               (* ghost: amounts successfully received by the provider, (0, denom) *)
}.

Definition c_with_bank (c : cstate) (b : kmap) : cstate :=
  mkC b (c_ltbh c) (c_frac c) (c_bpdt c) (c_allowed c) (c_denoms c) (c_inflight c) (c_memo c) (c_chan c)
      (c_to_pool c) (c_dmap c) (g_fees c) (g_deliv c).

(* DistributeRewardsInternally, one denom: consRedistrTokens = decFPTokens.MulDec(frac).TruncateDecimal();
   remainingTokens = fpTokens.Sub(consRedistrTokens); both sent from the fee collector *)
Definition cons_share (fp frac : Z) : Z := dtrunc_int (dmul (dec_of_int fp) frac).

Definition split_denom (frac : Z) (b : kmap) (d : Z) : kmap :=
  let fp := get (FC, d) b in
  let cons := cons_share fp frac in
  move FC TS d (fp - cons) (move FC CR d cons b).

Definition distribute_internally (frac : Z) (denoms : list Z) (b : kmap) : kmap :=
  fold_left (split_denom frac) denoms b.

(* shouldSendRewardsToProvider *)
Definition should_send (h ltbh bpdt : Z) : bool := bpdt <=? (h - ltbh).

(* SendRewardsToProvider, the loop over the allowed denoms; None = an error was returned (the cached
   context is dropped).  fail = denoms for which ibcTransferKeeper.Transfer returns an error. *)
Fixpoint send_loop (fail : list Z) (allowed : list Z) (b : kmap) (q : list (Z * Z)) : option (kmap * list (Z * Z)) :=
  match allowed with
  | [] => Some (b, q)
  | d :: r =>
    let bal := get (TS, d) b in
    if bal =? 0 then send_loop fail r b q
    else if memz d fail then None
    else send_loop fail r (move TS ES d bal b) (q ++ [(d, bal)])
  end.

Definition fund_fees (fees : list (Z * Z)) (c : cstate) : cstate :=
  fold_left (fun c f =>
    mkC (add (FC, fst f) (snd f) (c_bank c)) (c_ltbh c) (c_frac c) (c_bpdt c) (c_allowed c) (c_denoms c)
        (c_inflight c) (c_memo c) (c_chan c) (c_to_pool c) (c_dmap c)
        (add (0, fst f) (snd f) (g_fees c)) (g_deliv c)) fees c.

(* EndBlockRD at height h.  chan_open: the transfer channel exists and is OPEN. *)
Definition end_block_rd (h : Z) (chan_open : bool) (fail : list Z) (c : cstate) : cstate :=
  let b1 := distribute_internally (c_frac c) (c_denoms c) (c_bank c) in
  if negb (should_send h (c_ltbh c) (c_bpdt c)) then c_with_bank c b1
  else
    let '(b2, q2) :=
      if chan_open then
        match send_loop fail (c_allowed c) b1 (c_inflight c) with
        | Some r => r
        | None => (b1, c_inflight c)
        end
      else (b1, c_inflight c) in
    mkC b2 h (c_frac c) (c_bpdt c) (c_allowed c) (c_denoms c) q2 (c_memo c) (c_chan c) (c_to_pool c)
        (c_dmap c) (g_fees c) (g_deliv c).

(* one consumer block: the block's fees arrive in the fee collector, then EndBlockRD *)
Definition cblock (h : Z) (fees : list (Z * Z)) (chan_open : bool) (fail : list Z) (c : cstate) : cstate :=
  end_block_rd h chan_open fail (fund_fees fees c).

Definition cset_params (frac bpdt : Z) (allowed : list Z) (c : cstate) : cstate :=
  mkC (c_bank c) (c_ltbh c) frac bpdt allowed (c_denoms c) (c_inflight c) (c_memo c) (c_chan c) (c_to_pool c)
      (c_dmap c) (g_fees c) (g_deliv c).

(* ICS-20 refund of the oldest in-flight transfer (timeout or error acknowledgement) *)
Definition crefund (c : cstate) : cstate :=
  match c_inflight c with
  | [] => c
  | (d, a) :: q =>
    mkC (move ES TS d a (c_bank c)) (c_ltbh c) (c_frac c) (c_bpdt c) (c_allowed c) (c_denoms c) q (c_memo c)
        (c_chan c) (c_to_pool c) (c_dmap c) (g_fees c) (g_deliv c)
  end.

(* the oldest in-flight transfer was received successfully: it stays escrowed *)
Definition cdelivered (c : cstate) : cstate :=
  match c_inflight c with
  | [] => c
  | (d, a) :: q =>
    mkC (c_bank c) (c_ltbh c) (c_frac c) (c_bpdt c) (c_allowed c) (c_denoms c) q (c_memo c)
        (c_chan c) (c_to_pool c) (c_dmap c) (g_fees c) (add (0, d) a (g_deliv c))
  end.

(* ================================================================== provider *)
(* provider accounts *)
Definition POOL : Z := 0.   (* consumer_rewards_pool *)
Definition DISTR : Z := 1.  (* x/distribution module account *)
Definition OTHER : Z := 2.  (* any other receiver of an ICS-20 transfer *)

Record cval := mkV { cv_id : Z; cv_pow : Z; cv_join : Z }.   (* stored ConsensusValidator *)

(* one call of distributionKeeper.AllocateTokensToValidator made for consumer ev_c *)
Record event := mkE {
  ev_h : Z; ev_c : Z; ev_d : Z; ev_v : Z; ev_pow : Z; ev_join : Z; ev_thr : Z; ev_total : Z; ev_T : Z;
  ev_amt : Z; ev_rate : Z; ev_comm : Z }.

Record cinfo := mkI { ci_id : Z; ci_chain : bool; ci_client : bool; ci_ccv : bool; ci_active : bool }.

Record conf := mkF {
  valsets : list (Z * list cval);    (* consumer -> stored validator set, store order *)
  crates : list (key * Z);           (* (consumer, validator) -> per-consumer commission rate *)
  registered : list Z;               (* ConsumerRewardDenoms, ascending *)
  allowl : list (Z * list Z);        (* consumer -> allowlisted reward denoms *)
  epochs : Z; bpe : Z;               (* NumberOfEpochsToStartReceivingRewards, BlocksPerEpoch *)
  cons : list cinfo;                 (* consumers, ascending id *)
  chans : list (Z * Z);              (* transfer channel -> consumer bound to the channel's client *)
  minrate : Z;                       (* staking MinCommissionRate *)
  dtab : list (list Z * Z)           (* denom key (see below) -> denom id; the sha256 of ibc/HASH denoms is
                                        abstracted by this injective table, computed per case by the driver *)
}.

Record money := mkM {
  bank : kmap;      (* (account, denom) -> coins *)
  cpool : kmap;     (* (0, denom) -> FeePool.CommunityPool (Dec) *)
  outst : kmap;     (* (validator, denom) -> outstanding rewards (Dec) *)
  comm : kmap;      (* (validator, denom) -> accumulated commission (Dec) *)
  alloc : kmap;     (* (consumer, denom) -> ConsumerRewardsAllocationByDenom (Dec) *)
  g_cred : kmap;    (* ghost (consumer, denom): ever credited (Dec) *)
  g_pv : kmap;      (* ghost: paid to validators out of the consumer's credits (Dec) *)
  g_pc : kmap;      (* ghost: paid to the community pool (Dec) *)
  g_dust : kmap;    (* ghost: moved to the distribution account but recorded nowhere (Dec) *)
  g_forf : kmap;    (* ghost: credit dropped although nothing was paid (Dec); always 0 since fix 2504227 *)
  g_mint : kmap;    (* ghost (0, denom): coins that entered the provider accounts *)
  log : list event  (* ghost: every AllocateTokensToValidator call that was committed *)
}.

Record pstate := mkP { pm : money; pf : conf }.

(* oracle inputs of one provider BeginBlock *)
Record benv := mkB {
  b_h : Z;                      (* block height *)
  b_tax : Z;                    (* x/distribution community tax (Dec) *)
  b_staking : list (Z * Z);     (* validators known to staking -> their own commission rate *)
  b_fail_tax : bool;            (* GetCommunityTax fails *)
  b_fail_send : list Z;         (* denoms for which SendCoinsFromModuleToModule fails *)
  b_fail_fund : list Z;         (* denoms for which FundCommunityPool fails *)
  b_fail_alloc : list Z         (* validators for which AllocateTokensToValidator fails *)
}.

Definition find_cons (c : Z) (f : conf) : option cinfo := find (fun i => ci_id i =? c) (cons f).
Definition has_chain (c : Z) (f : conf) : bool :=
  match find_cons c f with Some i => ci_chain i | None => false end.

Fixpoint crate (k : key) (l : list (key * Z)) : option Z :=
  match l with
  | [] => None
  | (k', r) :: t => if keqb k k' then Some r else crate k t
  end.
Fixpoint set_crate (k : key) (r : Z) (l : list (key * Z)) : list (key * Z) :=
  match l with
  | [] => [(k, r)]
  | (k', r') :: t => if keqb k k' then (k, r) :: t else (k', r') :: set_crate k r t
  end.

(* IsEligibleForConsumerRewards: (height - joinHeight) >= epochs * blocksPerEpoch *)
Definition eligible (thr h : Z) (e : cval) : bool := thr <=? (h - cv_join e).

(* ComputeConsumerTotalVotingPower *)
Fixpoint total_power (thr h : Z) (vs : list cval) : Z :=
  match vs with
  | [] => 0
  | e :: r => (if eligible thr h e then cv_pow e else 0) + total_power thr h r
  end.

(* powerFraction = NewDec(power).QuoTruncate(totalPower); tokensFraction = tokens.MulDecTruncate(powerFraction) *)
Definition val_share (T total pow : Z) : Z :=
  dmul_trunc (dec_of_int T) (dquo_trunc (dec_of_int pow) (dec_of_int total)).

(* the body of the loop of AllocateTokensToConsumerValidators for one eligible validator;
   None = GetValidatorByConsAddr or AllocateTokensToValidator returned an error.
   commission = tokens.MulDec(val.GetCommission()) is x/distribution's AllocateTokensToValidator. *)
Definition mk_event (env : benv) (f : conf) (c d thr total T : Z) (e : cval) : option event :=
  match lookup (cv_id e) (b_staking env) with
  | None => None
  | Some own =>
    if memz (cv_id e) (b_fail_alloc env) then None
    else
      let amt := val_share T total (cv_pow e) in
      let rate := match crate (c, cv_id e) (crates f) with Some r => r | None => own end in
      Some (mkE (b_h env) c d (cv_id e) (cv_pow e) (cv_join e) thr total T amt rate (dmul amt rate))
  end.

Fixpoint events (env : benv) (f : conf) (c d thr total T : Z) (vs : list cval) : option (list event) :=
  match vs with
  | [] => Some []
  | e :: r =>
    if eligible thr (b_h env) e then
      match mk_event env f c d thr total T e, events env f c d thr total T r with
      | Some x, Some l => Some (x :: l)
      | _, _ => None
      end
    else events env f c d thr total T r
  end.

Fixpoint sum_amt (l : list event) : Z :=
  match l with [] => 0 | e :: r => ev_amt e + sum_amt r end.

Fixpoint pay_outst (l : list event) (m : kmap) : kmap :=
  match l with [] => m | e :: r => pay_outst r (add (ev_v e, ev_d e) (ev_amt e) m) end.
Fixpoint pay_comm (l : list event) (m : kmap) : kmap :=
  match l with [] => m | e :: r => pay_comm r (add (ev_v e, ev_d e) (ev_comm e) m) end.

(* The body of the loop of AllocateTokens for (consumer c, denom d): GetConsumerRewardsAllocationByDenom,
   AllocateConsumerRewards, Set/DeleteConsumerRewardsAllocationByDenom, all on a cached context.
   None = `continue` without writeCache(). *)
Definition alloc_body (env : benv) (f : conf) (c d : Z) (m : money) : option money :=
  let A := get (c, d) (alloc m) in
  if A =? 0 then None
  else if negb (has_chain c f) then None
  else
    let vs := lookup_list c (valsets f) in
    let thr := epochs f * bpe f in
    let total := total_power thr (b_h env) vs in
    if total =? 0 then
      (* zero-power branch: the truncated credit goes to the community pool; since 2504227 an error of
         FundCommunityPool is returned (the cached context is dropped, the credit stays) *)
      let toSend := dtrunc_int A in
      let change := A - dec_of_int toSend in
      if negb (negb (toSend =? 0) && memz d (b_fail_fund env)) && (toSend <=? get (POOL, d) (bank m)) then
        Some (mkM (move POOL DISTR d toSend (bank m)) (add (0, d) (dec_of_int toSend) (cpool m))
                  (outst m) (comm m) (add (c, d) (change - A) (alloc m))
                  (g_cred m) (g_pv m) (add (c, d) (dec_of_int toSend) (g_pc m)) (g_dust m) (g_forf m)
                  (g_mint m) (log m))
      else None
    else if b_fail_tax env then None
    else
      let vr := dmul_trunc A (dsub (dec_of_int 1) (b_tax env)) in        (* validatorsRewards *)
      let remaining := dsub A vr in
      let vrT := dtrunc_int vr in                                        (* validatorsRewardsTrunc *)
      let vrChange := vr - dec_of_int vrT in
      if (negb (vrT =? 0) && memz d (b_fail_send env)) || (get (POOL, d) (bank m) <? vrT) then None
      else
        match (if vrT =? 0 then Some [] else events env f c d thr total vrT vs) with
        | None => None
        | Some evs =>
          let remR := dtrunc_int remaining in
          let remChange := remaining - dec_of_int remR in
          if (negb (remR =? 0) && memz d (b_fail_fund env)) || (get (POOL, d) (bank m) - vrT <? remR) then None
          else
            Some (mkM (move POOL DISTR d remR (move POOL DISTR d vrT (bank m)))
                      (add (0, d) (dec_of_int remR) (cpool m))
                      (pay_outst evs (outst m)) (pay_comm evs (comm m))
                      (add (c, d) (vrChange + remChange - A) (alloc m))
                      (g_cred m) (add (c, d) (sum_amt evs) (g_pv m)) (add (c, d) (dec_of_int remR) (g_pc m))
                      (add (c, d) (dec_of_int vrT - sum_amt evs) (g_dust m)) (g_forf m)
                      (g_mint m) (log m ++ evs))
        end.

(* PRE-FIX behaviour (before /repo commit 2504227), kept for the record only; NOT used by [run]/[step]:
   in the zero-power branch a failing FundCommunityPool was only logged and the credit was reduced to its
   decimal remainder although nothing was paid (g_forf records the forfeited amount). *)
Definition alloc_body_prefix (env : benv) (f : conf) (c d : Z) (m : money) : option money :=
  let A := get (c, d) (alloc m) in
  let total := total_power (epochs f * bpe f) (b_h env) (lookup_list c (valsets f)) in
  let toSend := dtrunc_int A in
  if negb (A =? 0) && has_chain c f && (total =? 0) &&
     negb (negb (negb (toSend =? 0) && memz d (b_fail_fund env)) && (toSend <=? get (POOL, d) (bank m)))
  then Some (mkM (bank m) (cpool m) (outst m) (comm m) (add (c, d) (A - dec_of_int toSend - A) (alloc m))
                 (g_cred m) (g_pv m) (g_pc m) (g_dust m) (add (c, d) (dec_of_int toSend) (g_forf m))
                 (g_mint m) (log m))
  else alloc_body env f c d m.

Definition alloc_one (env : benv) (f : conf) (c : Z) (m : money) (d : Z) : money :=
  match alloc_body env f c d m with Some m' => m' | None => m end.

(* AllocateTokens: consumers with an IBC client, ascending; registered denoms then the consumer's allowlist *)
Definition alloc_consumer (env : benv) (f : conf) (m : money) (i : cinfo) : money :=
  if ci_client i
  then fold_left (alloc_one env f (ci_id i)) (registered f ++ lookup_list (ci_id i) (allowl f)) m
  else m.

(* BeginBlockRD *)
Definition begin_block (env : benv) (f : conf) (m : money) : money :=
  if 1 <? b_h env then fold_left (alloc_consumer env f) (cons f) m else m.

(* ---- denominations of ICS-20 packets.  A denom string is its list of "/"-separated segments, as integers:
   1 = "transfer", 1000+N = "channel-N", 2000+N = "07-tendermint-N", anything else = a base-denom segment.
   A denom key is 0 :: segs for a denom used verbatim (native / raw string) and 1 :: segs for
   "ibc/" + sha256(segs joined by "/"); [denom_id (dtab f)] maps keys to the denom ids of the balance maps. *)
Definition PORT : Z := 1.
Definition SRC_CHAN : Z := 1001.                       (* the transfer channel id on every consumer chain *)
Definition dst_chan (ch : Z) : Z := 1010 + ch.         (* provider-side transfer channel number ch *)
Definition is_chan (z : Z) : bool := (1000 <=? z) && (z <? 2000).            (* channeltypes.IsValidChannelID *)
Definition is_chan_or_client (z : Z) : bool := (1000 <=? z) && (z <? 3000).  (* ibc-go v10: || IsValidClientID *)

(* the loop of extractPathAndBaseFromFullDenom (x/ccv/types/denom_helpers.go) and of ibc-go's
   ExtractDenomFromPath: (port, channel) pairs while the second segment is a channel id and the whole
   denom has more than 2 segments; the rest is the base denom *)
Fixpoint parse_hops (isc : Z -> bool) (gt2 : bool) (l : list Z) : list Z * list Z :=
  match l with
  | p :: c :: r => if gt2 && isc c then let '(pa, b) := parse_hops isc gt2 r in (p :: c :: pa, b) else ([], l)
  | _ => ([], l)
  end.
Definition denom_trace (isc : Z -> bool) (l : list Z) : list Z * list Z :=
  parse_hops isc (2 <? Z.of_nat (length l)) l.

(* ReceiverChainIsSource: strings.HasPrefix(denom, port + "/" + channel + "/") *)
Definition has_prefix (sp sc : Z) (l : list Z) : bool :=
  match l with p :: c :: _ :: _ => (p =? sp) && (c =? sc) | _ => false end.

(* GetProviderDenom (x/ccv/provider/ibc_middleware.go): the denom under which the reward is credited *)
Definition provider_denom_key (sp sc dp dc : Z) (l : list Z) : list Z :=
  if has_prefix sp sc l then
    let un := skipn 2 l in                                   (* unprefixedDenom *)
    let '(path, _) := denom_trace is_chan un in              (* ParseDenomTrace(unprefixedDenom) *)
    match path with [] => 0 :: un | _ => 1 :: un end         (* Path == "" ? the string itself : IBCDenom() *)
  else
    let pre := dp :: dc :: l in                              (* GetPrefixedDenom(destPort, destChannel, denom) *)
    let '(path, base) := denom_trace is_chan pre in          (* ParseDenomTrace(prefixedDenom).IBCDenom() *)
    match path with [] => 0 :: base | _ => 1 :: (path ++ base) end.

(* ibc-go v10 transfer keeper OnRecvPacket: the denom under which the coins are unescrowed / minted *)
Definition ics20_key (sp sc dp dc : Z) (l : list Z) : list Z :=
  let '(trace, base) := denom_trace is_chan_or_client l in   (* ExtractDenomFromPath *)
  if (match trace with p :: c :: _ => (p =? sp) && (c =? sc) | _ => false end)   (* Denom.HasPrefix(source) *)
  then match skipn 2 trace with [] => 0 :: base | tr => 1 :: (tr ++ base) end    (* Trace[1:], IBCDenom() *)
  else 1 :: (dp :: dc :: trace ++ base).                     (* prepend the destination hop, IBCDenom() *)

Definition denom_id (tab : list (list Z * Z)) (k : list Z) : Z :=
  match find (fun e => list_eqb (fst e) k) tab with Some e => snd e | None => -1 end.
Definition cred_denom (f : conf) (ch : Z) (l : list Z) : Z :=
  denom_id (dtab f) (provider_denom_key PORT SRC_CHAN PORT (dst_chan ch) l).
Definition bank_denom (f : conf) (ch : Z) (l : list Z) : Z :=
  denom_id (dtab f) (ics20_key PORT SRC_CHAN PORT (dst_chan ch) l).

(* ---- transfer middleware (OnRecvPacket) ---- *)
(* IdentifyConsumerIdFromIBCPacket *)
Definition identify (ch : Z) (f : conf) : option Z :=
  match lookup ch (chans f) with
  | None => None
  | Some c =>
    match find_cons c f with
    | Some i => if ci_client i && ci_ccv i then Some c else None
    | None => None
    end
  end.

(* memo: -1 = not JSON (falls back to the channel), -2 = JSON without "provider" (consumer id ""),
   k >= 0 = reward memo naming consumer k.
   ack_ok: the wrapped transfer app returned a successful acknowledgement (and credited the receiver). *)
Definition receive (ch memo db d amt : Z) (ack_ok to_pool : bool) (f : conf) (m : money) : money :=
  if negb ack_ok then m
  else
    let m1 := mkM (add ((if to_pool then POOL else OTHER), db) amt (bank m)) (cpool m) (outst m) (comm m) (alloc m)
                  (g_cred m) (g_pv m) (g_pc m) (g_dust m) (g_forf m) (add (0, db) amt (g_mint m)) (log m) in
    if negb to_pool then m1
    else
      let oc := if 0 <=? memo then Some memo else if memo =? (-2) then None else identify ch f in
      match oc with
      | None => m1
      | Some c =>
        if has_chain c f then
          mkM (bank m1) (cpool m1) (outst m1) (comm m1) (add (c, d) (dec_of_int amt) (alloc m1))
              (add (c, d) (dec_of_int amt) (g_cred m1)) (g_pv m1) (g_pc m1) (g_dust m1) (g_forf m1)
              (g_mint m1) (log m1)
        else m1
      end.

(* test-only operations of the harness: World funding and a direct SetConsumerRewardsAllocationByDenom *)
Definition fund (d amt : Z) (m : money) : money :=
  mkM (add (POOL, d) amt (bank m)) (cpool m) (outst m) (comm m) (alloc m)
      (g_cred m) (g_pv m) (g_pc m) (g_dust m) (g_forf m) (add (0, d) amt (g_mint m)) (log m).
Definition credit (c d raw : Z) (m : money) : money :=
  mkM (bank m) (cpool m) (outst m) (comm m) (add (c, d) raw (alloc m))
      (add (c, d) raw (g_cred m)) (g_pv m) (g_pc m) (g_dust m) (g_forf m) (g_mint m) (log m).

(* ---- configuration operations ---- *)
Fixpoint insert_sorted (d : Z) (l : list Z) : list Z :=
  match l with
  | [] => [d]
  | x :: r => if d <? x then d :: l else if d =? x then l else x :: insert_sorted d r
  end.
Definition remove_z (d : Z) (l : list Z) : list Z := filter (fun x => negb (x =? d)) l.

(* MsgChangeRewardDenoms: ValidateBasic (not both empty, no denom in both lists), authority, ChangeRewardDenoms *)
Definition change_denoms_ok (auth_ok : bool) (adds rems : list Z) : bool :=
  auth_ok && negb (match adds, rems with [], [] => true | _, _ => false end)
          && negb (existsb (fun d => memz d adds) rems).
Definition change_denoms (adds rems : list Z) (reg : list Z) : list Z :=
  fold_left (fun r d => remove_z d r) rems (fold_left (fun r d => insert_sorted d r) adds reg).

(* MsgSetConsumerCommissionRate: ValidateBasic (rate in [0,1]), validator known to staking, consumer active,
   rate >= MinCommissionRate; the handler then needs the consumer's chain id (else the tx fails and rolls back) *)
Definition set_commission_ok (c rate : Z) (known : bool) (f : conf) : bool :=
  (0 <=? rate) && (rate <=? dec_of_int 1) && known
  && (match find_cons c f with Some i => ci_active i && ci_chain i | None => false end)
  && (minrate f <=? rate).

(* CreateConsumerValidator + SetConsumerValSet: a validator already in the stored set keeps its JoinHeight *)
Definition epoch_val (h : Z) (old : list cval) (vp : Z * Z) : cval :=
  match find (fun e => cv_id e =? fst vp) old with
  | Some e => mkV (fst vp) (snd vp) (cv_join e)
  | None => mkV (fst vp) (snd vp) h
  end.

Definition f_with_valsets (f : conf) (v : list (Z * list cval)) : conf :=
  mkF v (crates f) (registered f) (allowl f) (epochs f) (bpe f) (cons f) (chans f) (minrate f) (dtab f).

(* ================================================================== the whole system *)
Record state := mkS { prov : pstate; chains : list cstate }.

Inductive op :=
| PFund (d amt : Z)
| PCredit (c d raw : Z)
| PReceive (ch memo : Z) (segs : list Z) (amt : Z) (ack_ok to_pool : bool)
| PBegin (env : benv)
| PChangeDenoms (auth_ok : bool) (adds rems : list Z)
| PSetAllow (c : Z) (ds : list Z)
| PSetCommission (c v rate : Z) (known : bool)
| PSetValset (c : Z) (vs : list cval)
| PEpoch (c h : Z) (vps : list (Z * Z))
| PSetParams (ep bp : Z)
| CBlock (k h : Z) (fees : list (Z * Z)) (chan_open : bool) (fail : list Z)
| CSetParams (k frac bpdt : Z) (allowed : list Z)
| Relay (k : Z) (ack_ok : bool)
| Timeout (k : Z).

Fixpoint upd_nth {A} (n : nat) (g : A -> A) (l : list A) : list A :=
  match l, n with
  | [], _ => []
  | x :: r, O => g x :: r
  | x :: r, S n' => x :: upd_nth n' g r
  end.

Definition pstep (p : pstate) (o : op) : pstate :=
  let f := pf p in let m := pm p in
  match o with
  | PFund d amt => mkP (fund d amt m) f
  | PCredit c d raw => mkP (credit c d raw m) f
  | PReceive ch memo segs amt ack_ok to_pool =>
    mkP (receive ch memo (bank_denom f ch segs) (cred_denom f ch segs) amt ack_ok to_pool f m) f
  | PBegin env => mkP (begin_block env f m) f
  | PChangeDenoms auth_ok adds rems =>
    if change_denoms_ok auth_ok adds rems
    then mkP m (mkF (valsets f) (crates f) (change_denoms adds rems (registered f)) (allowl f) (epochs f) (bpe f)
                    (cons f) (chans f) (minrate f) (dtab f))
    else p
  | PSetAllow c ds =>
    mkP m (mkF (valsets f) (crates f) (registered f) (put c ds (allowl f)) (epochs f) (bpe f) (cons f) (chans f) (minrate f) (dtab f))
  | PSetCommission c v rate known =>
    if set_commission_ok c rate known f
    then mkP m (mkF (valsets f) (set_crate (c, v) rate (crates f)) (registered f) (allowl f) (epochs f) (bpe f)
                    (cons f) (chans f) (minrate f) (dtab f))
    else p
  | PSetValset c vs => mkP m (f_with_valsets f (put c vs (valsets f)))
  | PEpoch c h vps =>
    mkP m (f_with_valsets f (put c (map (epoch_val h (lookup_list c (valsets f))) vps) (valsets f)))
  | PSetParams ep bp =>
    mkP m (mkF (valsets f) (crates f) (registered f) (allowl f) ep bp (cons f) (chans f) (minrate f) (dtab f))
  | _ => p
  end.

Definition wire (c : cstate) (d : Z) : list Z := lookup_list d (c_dmap c).

Definition step (s : state) (o : op) : state :=
  match o with
  | CBlock k h fees chan_open fail =>
    mkS (prov s) (upd_nth (Z.to_nat k) (cblock h fees chan_open fail) (chains s))
  | CSetParams k frac bpdt allowed =>
    mkS (prov s) (upd_nth (Z.to_nat k) (cset_params frac bpdt allowed) (chains s))
  | Timeout k => mkS (prov s) (upd_nth (Z.to_nat k) crefund (chains s))
  | Relay k ack_ok =>
    match nth_error (chains s) (Z.to_nat k) with
    | None => s
    | Some c =>
      match c_inflight c with
      | [] => s
      | (d, a) :: _ =>
        if ack_ok
        then mkS (mkP (receive (c_chan c) (c_memo c) (bank_denom (pf (prov s)) (c_chan c) (wire c d))
                               (cred_denom (pf (prov s)) (c_chan c) (wire c d)) a true (c_to_pool c) (pf (prov s)) (pm (prov s)))
                      (pf (prov s)))
                 (upd_nth (Z.to_nat k) cdelivered (chains s))
        else mkS (prov s) (upd_nth (Z.to_nat k) crefund (chains s))
      end
    end
  | _ => mkS (pstep (prov s) o) (chains s)
  end.

Definition run_ops (s : state) (ops : list op) : state := fold_left step ops s.

(* ================================================================== wire interface *)
(* input = [header, ops]
   header = [D, NV, cons [[id,chain,client,ccv,active]..], chans [[ch,c]..], [epochs,bpe,registered[],minrate],
             chains [[frac,bpdt,allowed[],denoms[],memo,chan,to_pool,dmap[[cd,segs[]]..]]..], dtab [[key[],id]..]]
   op     = [tag, args..]   (tags below)
   output = list of entries [rc, provider snapshot | [], k | -1, snapshot of chain k | []],
            the first entry being the initial state [0, psnap, -1, [csnap..]] *)
Definition range (n : Z) : list Z := map Z.of_nat (seq 0 (Z.to_nat n)).

Definition dec_cval (t : tree) : cval := mkV (tz (tnth 0 t)) (tz (tnth 1 t)) (tz (tnth 2 t)).
Definition dec_cinfo (t : tree) : cinfo :=
  mkI (tz (tnth 0 t)) (tbool (tnth 1 t)) (tbool (tnth 2 t)) (tbool (tnth 3 t)) (tbool (tnth 4 t)).
Definition dec_chain (t : tree) : cstate :=
  mkC [] 0 (tz (tnth 0 t)) (tz (tnth 1 t)) (tzs (tnth 2 t)) (tzs (tnth 3 t)) [] (tz (tnth 4 t)) (tz (tnth 5 t))
      (tbool (tnth 6 t)) (map (fun e => (tz (tnth 0 e), tzs (tnth 1 e))) (tlist (tnth 7 t))) [] [].
Definition empty_money : money := mkM [] [] [] [] [] [] [] [] [] [] [] [].
Definition dec_state (hd : tree) : state :=
  let pp := tnth 4 hd in
  mkS (mkP empty_money
           (mkF [] [] (tzs (tnth 2 pp)) [] (tz (tnth 0 pp)) (tz (tnth 1 pp)) (map dec_cinfo (tlist (tnth 2 hd)))
                (to_pairs (tnth 3 hd)) (tz (tnth 3 pp))
                (map (fun e => (tzs (tnth 0 e), tz (tnth 1 e))) (tlist (tnth 6 hd)))))
      (map dec_chain (tlist (tnth 5 hd))).

Definition dec_env (t : tree) : benv :=
  mkB (tz (tnth 1 t)) (tz (tnth 2 t)) (to_pairs (tnth 3 t)) (tbool (tnth 4 t)) (tzs (tnth 5 t)) (tzs (tnth 6 t))
      (tzs (tnth 7 t)).

Definition dec_op (t : tree) : op :=
  let a n := tz (tnth n t) in
  match a 0%nat with
  | 1 => PFund (a 1%nat) (a 2%nat)
  | 2 => PCredit (a 1%nat) (a 2%nat) (a 3%nat)
  | 3 => PReceive (a 1%nat) (a 2%nat) (tzs (tnth 3 t)) (a 4%nat) (tbool (tnth 5 t)) (tbool (tnth 6 t))
  | 4 => PBegin (dec_env t)
  | 5 => PChangeDenoms (tbool (tnth 1 t)) (tzs (tnth 2 t)) (tzs (tnth 3 t))
  | 6 => PSetAllow (a 1%nat) (tzs (tnth 2 t))
  | 7 => PSetCommission (a 1%nat) (a 2%nat) (a 3%nat) (tbool (tnth 4 t))
  | 8 => PSetValset (a 1%nat) (map dec_cval (tlist (tnth 2 t)))
  | 9 => PEpoch (a 1%nat) (a 2%nat) (to_pairs (tnth 3 t))
  | 10 => PSetParams (a 1%nat) (a 2%nat)
  | 11 => CBlock (a 1%nat) (a 2%nat) (to_pairs (tnth 3 t)) (tbool (tnth 4 t)) (tzs (tnth 5 t))
  | 12 => CSetParams (a 1%nat) (a 2%nat) (a 3%nat) (tzs (tnth 4 t))
  | 13 => Relay (a 1%nat) (tbool (tnth 2 t))
  | _ => Timeout (a 1%nat)
  end.

Definition psnap (D NV : Z) (p : pstate) : tree :=
  let m := pm p in
  let row (mp : kmap) (a : Z) := of_zs (map (fun d => get (a, d) mp) (range D)) in
  TL [ TL [row (bank m) POOL; row (bank m) DISTR; row (bank m) OTHER];
       row (cpool m) 0;
       TL (map (row (outst m)) (range NV));
       TL (map (row (comm m)) (range NV));
       TL (map (fun i => row (alloc m) (ci_id i)) (cons (pf p)));
       of_zs (registered (pf p));
       (* number of credits stored under a denom outside the case's universe, per consumer: none *)
       of_zs (map (fun _ => 0) (cons (pf p))) ].

Definition csnap (c : cstate) : tree :=
  let row (a : Z) := of_zs (map (fun d => get (a, d) (c_bank c)) (c_denoms c)) in
  TL [ row FC; row CR; row TS; row ES; TI (c_ltbh c); of_pairs (c_inflight c) ].

(* result code of an op: 0 = accepted, 1 = rejected (state unchanged) *)
Definition rc_of (s : state) (o : op) : Z :=
  match o with
  | PChangeDenoms auth_ok adds rems => if change_denoms_ok auth_ok adds rems then 0 else 1
  | PSetCommission c v rate known => if set_commission_ok c rate known (pf (prov s)) then 0 else 1
  | Relay k _ | Timeout k =>
    match nth_error (chains s) (Z.to_nat k) with
    | Some c => match c_inflight c with [] => 1 | _ => 0 end
    | None => 1
    end
  | _ => 0
  end.

Definition chain_of (o : op) : Z :=
  match o with
  | CBlock k _ _ _ _ | CSetParams k _ _ _ | Relay k _ | Timeout k => k
  | _ => -1
  end.
Definition touches_prov (o : op) : bool :=
  match o with
  | CBlock _ _ _ _ _ | CSetParams _ _ _ _ | Timeout _ => false
  | _ => true
  end.

Definition entry (D NV : Z) (s s' : state) (o : op) : tree :=
  let k := chain_of o in
  TL [ TI (rc_of s o);
       (if touches_prov o then psnap D NV (prov s') else TL []);
       TI k;
       (if 0 <=? k then match nth_error (chains s') (Z.to_nat k) with Some c => csnap c | None => TL [] end
        else TL []) ].

Fixpoint run_entries (D NV : Z) (s : state) (ops : list op) : list tree :=
  match ops with
  | [] => []
  | o :: r => let s' := step s o in entry D NV s s' o :: run_entries D NV s' r
  end.

Definition run (input : tree) : tree :=
  let hd := tnth 0 input in
  let D := tz (tnth 0 hd) in
  let NV := tz (tnth 1 hd) in
  let s0 := dec_state hd in
  TL (TL [TI 0; psnap D NV (prov s0); TI (-1); TL (map csnap (chains s0))]
      :: run_entries D NV s0 (map dec_op (tlist (tnth 1 input)))).

(* ================================================================== monitor
   The clauses of C16 evaluated on the implementation's observations (same shape as [run]'s output);
   the configuration (valsets, rates, denoms, params) is tracked from the ops, the balances are the
   implementation's.  Returns the numbers of failed clauses. *)
Definition trow (n : nat) (t : tree) : list Z := tzs (tnth n t).
Definition nthz (l : list Z) (i : Z) : Z := nth (Z.to_nat i) l 0.
Definition sumz (l : list Z) : Z := fold_right Z.add 0 l.
Definition grid (t : tree) : list (list Z) := map tzs (tlist t).
Definition col (g : list (list Z)) (d : Z) : list Z := map (fun r => nthz r d) g.
Definition chk (b : bool) (n : Z) : list Z := if b then [] else [n].

(* provider snapshot accessors *)
Definition sp_bank (p : tree) (a d : Z) : Z := nthz (trow (Z.to_nat a) (tnth 0 p)) d.
Definition sp_cpool (p : tree) (d : Z) : Z := nthz (trow 1 p) d.
Definition sp_outst (p : tree) : list (list Z) := grid (tnth 2 p).
Definition sp_comm (p : tree) : list (list Z) := grid (tnth 3 p).
Definition sp_alloc (p : tree) : list (list Z) := grid (tnth 4 p).

Definition index_of (c : Z) (f : conf) : Z :=
  (fix go (l : list cinfo) (n : Z) := match l with [] => -1 | i :: r => if ci_id i =? c then n else go r (n + 1) end)
    (cons f) 0.

(* clauses on one provider step: before p, after q *)
(* coins entering the provider accounts by the op: (denom, amount) *)
Definition inflow_of (s : state) (o : op) : Z * Z :=
  match o with
  | PFund d amt => (d, amt)
  | PReceive ch _ segs amt ack _ => (bank_denom (pf (prov s)) ch segs, if ack then amt else 0)
  | Relay k ack =>
    match nth_error (chains s) (Z.to_nat k) with
    | Some c => match c_inflight c with
                | (d, a) :: _ => (bank_denom (pf (prov s)) (c_chan c) (wire c d), if ack then a else 0)
                | [] => (0, 0) end
    | None => (0, 0)
    end
  | _ => (0, 0)
  end.

Definition mon_bank (D : Z) (p q : tree) (inflw : Z * Z) : list Z :=
  flat_map (fun d =>
    let tot t := sp_bank t POOL d + sp_bank t DISTR d + sp_bank t OTHER d in
    let inflow := if fst inflw =? d then snd inflw else 0 in
    chk (tot q =? tot p + inflow) 1 ++
    (* nothing recorded by x/distribution exceeds what its account holds *)
    chk (sumz (col (sp_outst q) d) + sp_cpool q d <=? dec_of_int (sp_bank q DISTR d)) 2 ++
    chk ((0 <=? sp_bank q POOL d) && (0 <=? sp_bank q DISTR d)) 3) (range D) ++
  (* no credit sits under a denom that no account holds (outside the denoms the ICS-20 app delivered) *)
  chk (forallb (fun x => x =? 0) (trow 6 q)) 20.

(* expected payout of one BeginBlock, from the implementation's own pre-state: for every (c, d) whose
   credit was consumed, the coded shares of the eligible validators *)
Definition expected_events (env : benv) (f : conf) (p q : tree) (D : Z) : list event :=
  flat_map (fun i =>
    let ci := index_of (ci_id i) f in
    flat_map (fun d =>
      let A := nthz (nth (Z.to_nat ci) (sp_alloc p) []) d in
      let A' := nthz (nth (Z.to_nat ci) (sp_alloc q) []) d in
      if A' <? A then
        let vs := lookup_list (ci_id i) (valsets f) in
        let thr := epochs f * bpe f in
        let total := total_power thr (b_h env) vs in
        if total =? 0 then []
        else
          let vrT := dtrunc_int (dmul_trunc A (dsub (dec_of_int 1) (b_tax env))) in
          map (fun e =>
                 let amt := val_share vrT total (cv_pow e) in
                 let rate := match crate (ci_id i, cv_id e) (crates f) with
                             | Some r => r
                             | None => match lookup (cv_id e) (b_staking env) with Some r => r | None => 0 end
                             end in
                 mkE (b_h env) (ci_id i) d (cv_id e) (cv_pow e) (cv_join e) thr total vrT amt rate (dmul amt rate))
              (filter (eligible thr (b_h env)) vs)
      else []) (range D)) (cons f).

Definition mon_begin (D NV : Z) (env : benv) (f : conf) (p q : tree) : list Z :=
  let evs := expected_events env f p q D in
  flat_map (fun d =>
    let consumed := sumz (map (fun i =>
                      let ci := Z.to_nat (index_of (ci_id i) f) in
                      nthz (nth ci (sp_alloc p) []) d - nthz (nth ci (sp_alloc q) []) d) (cons f)) in
    let paid_v := sumz (col (sp_outst q) d) - sumz (col (sp_outst p) d) in
    let paid_c := sp_cpool q d - sp_cpool p d in
    (* never more paid out than credit consumed; the pool pays exactly what enters the distribution account *)
    chk ((0 <=? paid_v) && (0 <=? paid_c) && (paid_v + paid_c <=? consumed)) 4 ++
    chk (dec_of_int (sp_bank q DISTR d - sp_bank p DISTR d) <=? consumed) 5 ++
    chk (sp_bank p POOL d - sp_bank q POOL d =? sp_bank q DISTR d - sp_bank p DISTR d) 6 ++
    (* what the credits lost and nobody received: must stay within the proved dust bound T*(n-1) per allocation
       (clause 18); being positive at all is the known finding C16-allocation-dust (clause 19) *)
    let unrec := consumed - (paid_v + paid_c) in
    let consuming := filter (fun i =>
                      let ci := Z.to_nat (index_of (ci_id i) f) in
                      nthz (nth ci (sp_alloc q) []) d <? nthz (nth ci (sp_alloc p) []) d) (cons f) in
    let n_of i := Z.of_nat (length (filter (eligible (epochs f * bpe f) (b_h env)) (lookup_list (ci_id i) (valsets f)))) in
    let once := forallb (fun i =>
                  Z.of_nat (count_occ Z.eq_dec (registered f ++ lookup_list (ci_id i) (allowl f)) d) =? 1) consuming in
    let bound :=
      if once then
        sumz (map (fun i =>
                let A := nthz (nth (Z.to_nat (index_of (ci_id i) f)) (sp_alloc p) []) d in
                let vrT := dtrunc_int (dmul_trunc A (dsub (dec_of_int 1) (b_tax env))) in
                vrT * Z.max 0 (n_of i - 1)) consuming)
      else (sp_bank q DISTR d - sp_bank p DISTR d) * Z.max 0 (fold_right Z.max 0 (map n_of consuming) - 1) in
    chk (unrec <=? bound) 18 ++
    chk (unrec <=? 0) 19 ++
    (* credits only shrink in BeginBlock, and only for consumers with a client and a registered/allowlisted denom *)
    chk (forallb (fun i =>
           let ci := Z.to_nat (index_of (ci_id i) f) in
           let A := nthz (nth ci (sp_alloc p) []) d in
           let A' := nthz (nth ci (sp_alloc q) []) d in
           (A' <=? A) && (0 <=? A') &&
           ((A' =? A) || (ci_client i && (memz d (registered f) || memz d (lookup_list (ci_id i) (allowl f)))
                          && (1 <? b_h env)))) (cons f)) 7 ++
    (* only eligible validators: a reward appears only for a validator that is eligible in the stored set of
       a consumer whose credit in this denom was consumed in this block *)
    chk (forallb (fun v =>
           let dv := nthz (nth (Z.to_nat v) (sp_outst q) []) d - nthz (nth (Z.to_nat v) (sp_outst p) []) d in
           let dc := nthz (nth (Z.to_nat v) (sp_comm q) []) d - nthz (nth (Z.to_nat v) (sp_comm p) []) d in
           (0 <=? dv) && (0 <=? dc) && (dc <=? dv) &&
           ((dv =? 0) || existsb (fun e => (ev_v e =? v) && (ev_d e =? d)) evs)) (range NV)) 17 ++
    (* exactly the coded share under the per-consumer commission (when every consuming consumer lists the
       denom once, i.e. allocates it once in this block) *)
    chk (negb (forallb (fun i =>
                 let ci := Z.to_nat (index_of (ci_id i) f) in
                 (nthz (nth ci (sp_alloc p) []) d <=? nthz (nth ci (sp_alloc q) []) d) ||
                 (Z.of_nat (count_occ Z.eq_dec (registered f ++ lookup_list (ci_id i) (allowl f)) d) =? 1)) (cons f)) ||
         forallb (fun v =>
           let exp_amt := sumz (map (fun e => if (ev_v e =? v) && (ev_d e =? d) then ev_amt e else 0) evs) in
           let exp_com := sumz (map (fun e => if (ev_v e =? v) && (ev_d e =? d) then ev_comm e else 0) evs) in
           (nthz (nth (Z.to_nat v) (sp_outst q) []) d - nthz (nth (Z.to_nat v) (sp_outst p) []) d =? exp_amt) &&
           (nthz (nth (Z.to_nat v) (sp_comm q) []) d - nthz (nth (Z.to_nat v) (sp_comm p) []) d =? exp_com))
         (range NV)) 8) (range D).

(* crediting: before p, after q *)
Definition mon_receive (D : Z) (f : conf) (p q : tree) (ch memo amt : Z) (ack_ok to_pool : bool) : list Z :=
  let oc := if ack_ok && to_pool
            then (if 0 <=? memo then Some memo else if memo =? (-2) then None else identify ch f) else None in
  let target := match oc with Some c => if has_chain c f then index_of c f else -1 | None => -1 end in
  (* the denom under which the ICS-20 application delivered the coins: read off the implementation's balances *)
  let acct := if to_pool then POOL else OTHER in
  let dobs := match find (fun d => negb (sp_bank q acct d =? sp_bank p acct d)) (range D) with Some d => d | None => -1 end in
  (* the credit appears for the right consumer, under exactly that denom (so that it is payable from the
     pool), by exactly the delivered amount *)
  chk (forallb (fun i =>
         let ci := index_of (ci_id i) f in
         forallb (fun d' =>
           let delta := nthz (nth (Z.to_nat ci) (sp_alloc q) []) d' - nthz (nth (Z.to_nat ci) (sp_alloc p) []) d' in
           delta =? (if (ci =? target) && (d' =? dobs) then dec_of_int (sp_bank q acct d' - sp_bank p acct d') else 0))
           (range D)) (cons f)) 9 ++
  chk ((dobs =? -1) || (sp_bank q acct dobs - sp_bank p acct dobs =? (if ack_ok then amt else 0))) 21 ++
  chk (list_eqb (concat (sp_outst p)) (concat (sp_outst q)) && list_eqb (trow 1 p) (trow 1 q)) 10.

(* consumer block: before c, after c' (snapshots), model-side configuration cs (before the block) *)
Definition sc_bal (t : tree) (a : nat) (i : nat) : Z := nth i (trow a t) 0.
Definition mon_cblock (cs : cstate) (c c' : tree) (h : Z) (fees : list (Z * Z)) (chan_open : bool) : list Z :=
  let due := should_send h (tz (tnth 4 c)) (c_bpdt cs) in
  let idx := seq 0 (length (c_denoms cs)) in
  let fee_of d := sumz (map (fun f => if fst f =? d then snd f else 0) fees) in
  let sent i := 0 <? sc_bal c' 3 i - sc_bal c 3 i in
  flat_map (fun i =>
    let d := nth i (c_denoms cs) 0 in
    let fp := sc_bal c 0 i + fee_of d in
    let share := Z.quot (fp * c_frac cs) P in
    (* exact split: consumer share = floor(fees * fraction), the rest is the provider's; nothing created or lost *)
    chk ((sc_bal c' 0 i =? 0) && (sc_bal c' 1 i =? sc_bal c 1 i + share) &&
         (sc_bal c' 2 i + sc_bal c' 3 i =? sc_bal c 2 i + sc_bal c 3 i + (fp - share))) 11 ++
    (* send discipline: only allowed denoms, only when due and the channel is open, whole balance *)
    chk (negb (sent i) || (due && chan_open && memz d (c_allowed cs) && (sc_bal c' 2 i =? 0))) 12 ++
    chk (0 <=? sc_bal c' 3 i - sc_bal c 3 i) 13) idx ++
  (* all or nothing within one transmission *)
  chk (negb (existsb sent idx) ||
       forallb (fun i => negb (memz (nth i (c_denoms cs) 0) (c_allowed cs)) || (sc_bal c' 2 i =? 0)) idx) 14 ++
  chk (tz (tnth 4 c') =? (if due then h else tz (tnth 4 c))) 15.

(* fold over the steps, tracking the implementation's last snapshots and the model-side configuration *)
Fixpoint mon_steps (D NV : Z) (s : state) (lastp : tree) (lastc : list tree) (ops : list op) (obs : list tree) : list Z :=
  match ops, obs with
  | o :: ops', e :: obs' =>
    let s' := step s o in
    let k := chain_of o in
    let q := if touches_prov o then tnth 1 e else lastp in
    let cq := tnth 3 e in
    let lastc' := if 0 <=? k then upd_nth (Z.to_nat k) (fun _ => cq) lastc else lastc in
    let here :=
      (if touches_prov o then
         mon_bank D lastp q (inflow_of s o) ++
         match o with
         | PBegin env => mon_begin D NV env (pf (prov s)) lastp q
         | PReceive ch memo _ amt ack_ok to_pool =>
           mon_receive D (pf (prov s)) lastp q ch memo amt ack_ok to_pool
         | Relay k' ack_ok =>
           match nth_error (chains s) (Z.to_nat k') with
           | Some c =>
             match c_inflight c with
             | (d, a) :: _ =>
               mon_receive D (pf (prov s)) lastp q (c_chan c) (c_memo c) a ack_ok (c_to_pool c)
             | [] => []
             end
           | None => []
           end
         | PFund _ _ | PCredit _ _ _ => []
         | _ => chk (list_eqb (concat (sp_alloc lastp)) (concat (sp_alloc q)) &&
                     list_eqb (concat (sp_outst lastp)) (concat (sp_outst q))) 16
         end
       else []) ++
      match o with
      | CBlock k' h fees chan_open _ =>
        match nth_error (chains s) (Z.to_nat k') with
        | Some c => mon_cblock c (nth (Z.to_nat k') lastc (TL [])) cq h fees chan_open
        | None => []
        end
      | _ => []
      end in
    here ++ mon_steps D NV s' q lastc' ops' obs'
  | _, _ => []
  end.

Fixpoint dedup (l : list Z) : list Z :=
  match l with [] => [] | x :: r => if memz x r then dedup r else x :: dedup r end.

Definition mon (input implobs : tree) : tree :=
  let hd := tnth 0 input in
  let D := tz (tnth 0 hd) in
  let NV := tz (tnth 1 hd) in
  match tlist implobs with
  | e0 :: obs =>
    of_zs (dedup (mon_steps D NV (dec_state hd) (tnth 1 e0) (tlist (tnth 3 e0))
                            (map dec_op (tlist (tnth 1 input))) obs))
  | [] => of_zs [99]
  end.
