(* Model of the consumer module's block processing (C19, consumer half):
     x/ccv/consumer/module.go            BeginBlock, EndBlock (the PreCCV changeover branch is NOT modelled)
     x/ccv/consumer/keeper/distribution.go EndBlockRD, DistributeRewardsInternally, shouldSendRewardsToProvider,
                                          SendRewardsToProvider (runs on a cached context)
     x/ccv/consumer/keeper/relay.go       SendPackets, OnRecvVSCPacket (through Model/Throttle.v)
     x/ccv/consumer/keeper/validators.go  ApplyCCValidatorChanges (panics on an undecodable public key)
   The packet queue / slash record / outstanding flags / cross-chain validators are the consumer state machine
   of Model/Throttle.v (cstate, cstep_out), reused unchanged.

   Coins are vectors indexed by a fixed list of denoms.  A validator change is (address, power); an address < 0
   stands for a public key that cryptocodec.FromCmtProtoPublicKey / PubKey.Address cannot handle (no sum type, or a
   key of the wrong length): ValidatorSetChangePacketData.Validate does NOT look at the keys.
   Oracle inputs: block time, failure of the n-th channel.SendPacket (or expired client), of the n-th
   bank.SendCoinsFromModuleToModule, of the n-th transfer.Transfer, state of the transfer channel, failure inside
   TrackHistoricalInfo, fees arriving in the fee collector.  A block operation that panics returns result 1 and the
   OLD state (a halted chain commits nothing). *)
From Coq Require Import ZArith List Bool.
From ICS Require Import Base.Dec Base.SortDesc Base.Tree Model.Throttle.
Import ListNotations.
Open Scope Z_scope.

Record rstate := mkR {
  r_fee : list Z;       (* fee collector *)
  r_redist : list Z;    (* ConsumerRedistributeName *)
  r_tosend : list Z;    (* ConsumerToSendToProviderName *)
  r_escrow : list Z;    (* tokens handed to ibc transfer *)
  r_ltbh : Z            (* LastTransmissionBlockHeight *)
}.

Record bstate := mkB {
  b_cs : cstate;
  b_r : rstate;
  b_height : Z;
  b_h2v : list (Z * Z)   (* HeightValsetUpdateID entries, most recent write first *)
}.

Record cfg := mkCfg {
  g_delay : Z;           (* retry delay period *)
  g_frac : Z;            (* ConsumerRedistributionFraction (LegacyDec) *)
  g_bpdt : Z;            (* BlocksPerDistributionTransmission *)
  g_white : list bool;   (* denom is an allowed reward denom *)
  g_addr_ok : bool       (* MsgTransfer.ValidateBasic passes (provider fee pool address set) *)
}.

Fixpoint map2 (f : Z -> Z -> Z) (a b : list Z) : list Z :=
  match a, b with
  | x :: s, y :: t => f x y :: map2 f s t
  | _, _ => []
  end.
Definition vadd := map2 Z.add.
Definition vsub := map2 Z.sub.

Definition h2v_get (m : list (Z * Z)) (h : Z) : Z :=
  match find (fun e => fst e =? h) m with Some e => snd e | None => 0 end.

(* DistributeRewardsInternally: consumer part = TruncateDecimal(fee * frac), remainder to the to-provider account *)
Definition cons_part (frac : Z) (fee : list Z) : list Z :=
  map (fun x => dtrunc_int (dmul (dec_of_int x) frac)) fee.
Definition distribute (frac : Z) (r : rstate) : rstate :=
  let c := cons_part frac (r_fee r) in
  let rem := vsub (r_fee r) c in
  mkR (vsub (vsub (r_fee r) c) rem) (vadd (r_redist r) c) (vadd (r_tosend r) rem) (r_escrow r) (r_ltbh r).

(* SendRewardsToProvider's loop over the allowed reward denoms: Some (tosend', escrow') or None on the first error *)
Fixpoint transfer_loop (addr_ok : bool) (tfail : option nat) (white : list bool) (tosend escrow : list Z)
  : option (list Z * list Z) :=
  match white, tosend, escrow with
  | w :: wt, x :: xt, e :: et =>
    if w && negb (x =? 0) then
      if negb addr_ok then None                                   (* packetTransfer.ValidateBasic *)
      else match tfail with
           | Some O => None                                        (* ibcTransferKeeper.Transfer fails *)
           | _ => match transfer_loop addr_ok (option_map Nat.pred tfail) wt xt et with
                  | Some (xs, es) => Some (0 :: xs, (e + x) :: es)
                  | None => None
                  end
           end
    else match transfer_loop addr_ok tfail wt xt et with
         | Some (xs, es) => Some (x :: xs, e :: es)
         | None => None
         end
  | _, _, _ => Some (tosend, escrow)
  end.

(* EndBlockRD after the internal distribution: cached context, write only on success; ltbh is set in every case *)
Definition send_rewards (g : cfg) (height : Z) (topen : bool) (tfail : option nat) (r : rstate) : rstate :=
  if g_bpdt g <=? height - r_ltbh r then
    let '(ts, es) :=
      if topen then
        match transfer_loop (g_addr_ok g) tfail (g_white g) (r_tosend r) (r_escrow r) with
        | Some p => p
        | None => (r_tosend r, r_escrow r)          (* error: cache discarded *)
        end
      else (r_tosend r, r_escrow r)                 (* channel not open: nothing sent, no error *)
    in mkR (r_fee r) (r_redist r) ts es height
  else r.

Definition bank_panics (bfail : option nat) : bool :=
  match bfail with Some O => true | Some (S O) => true | _ => false end.

Definition keys_wf (ch : list (Z * Z)) : bool := forallb (fun c => 0 <=? fst c) ch.

Inductive bop :=
| BSub (op : cop)                                   (* QueueSlashPacket / AppendPendingPacket / OnAcknowledgementPacket *)
| BRecv (vscid : Z) (acks : list Z) (changes : list (Z * Z))   (* OnRecvVSCPacket *)
| BFund (coins : list Z)                            (* fees collected *)
| BBegin (hist_fail : bool)                         (* next height, BeginBlock *)
| BEnd (now : Z) (sfail bfail tfail : option nat) (topen : bool).   (* EndBlock *)

(* EndBlock: (result, state, packets handed to IBC) *)
Definition end_block (g : cfg) (s : bstate) (now : Z) (sfail bfail tfail : option nat) (topen : bool)
  : Z * bstate * list pkt :=
  if bank_panics bfail then (1, s, [])              (* DistributeRewardsInternally panics on a bank error *)
  else
    let r1 := send_rewards g (b_height s) topen tfail (distribute (g_frac g) (b_r s)) in
    let '(cs1, sent, _) := cstep_out (g_delay g) (b_cs s) (CSend now sfail) in
    if negb (keys_wf (pend cs1)) then (1, s, [])    (* ApplyCCValidatorChanges panics *)
    else (0, mkB (cstep (g_delay g) cs1 CApply) r1 (b_height s) (b_h2v s), sent).

Definition bstep_out (g : cfg) (s : bstate) (o : bop) : Z * bstate * list pkt :=
  match o with
  | BSub op =>
      let '(cs, sent, rc) := cstep_out (g_delay g) (b_cs s) op in
      (rc, mkB cs (b_r s) (b_height s) (b_h2v s), sent)
  | BRecv vscid acks changes =>
      (0, mkB (cstep (g_delay g) (b_cs s) (CRecvVSC acks changes)) (b_r s) (b_height s)
              ((b_height s + 1, vscid) :: b_h2v s), [])
  | BFund coins =>
      (0, mkB (b_cs s) (mkR (vadd (r_fee (b_r s)) coins) (r_redist (b_r s)) (r_tosend (b_r s)) (r_escrow (b_r s))
                            (r_ltbh (b_r s))) (b_height s) (b_h2v s), [])
  | BBegin _ =>
      (* channel-closed check and TrackHistoricalInfo errors are only logged; vsc id carried to the next height *)
      let h := b_height s + 1 in
      (0, mkB (b_cs s) (b_r s) h ((h + 1, h2v_get (b_h2v s) h) :: b_h2v s), [])
  | BEnd now sfail bfail tfail topen => end_block g s now sfail bfail tfail topen
  end.

Definition bstep (g : cfg) (s : bstate) (o : bop) : bstate := snd (fst (bstep_out g s o)).
Definition bres (g : cfg) (s : bstate) (o : bop) : Z := fst (fst (bstep_out g s o)).
Definition bsent (g : cfg) (s : bstate) (o : bop) : list pkt := snd (bstep_out g s o).

(* every validator change received in the history carries a usable key *)
Definition op_keys_wf (o : bop) : bool :=
  match o with
  | BRecv _ _ changes => keys_wf changes
  | BSub (CRecvVSC _ changes) => keys_wf changes
  | _ => true
  end.
(* the bank never refuses a module-to-module send of coins the sender owns *)
Definition op_bank_ok (o : bop) : bool :=
  match o with BEnd _ _ bfail _ _ => negb (bank_panics bfail) | _ => true end.

Definition binit (n : nat) (ch : bool) (height : Z) : bstate :=
  let z := repeat 0 n in mkB (cinit ch) (mkR z z z z 0) height [].

(* ---------------------------------------------------------------- wire interface
   input : [[delay, frac, bpdt, [white...], addr_ok], [ndenoms, chan0, height0], [ops]]
   ops   : [1, [cop as in Throttle]] [2, vscid, [acks], [[a,p]..]] [3, [coins]] [4, hist_fail]
           [5, now, sfail, bfail, tfail, topen]    (fail oracles: [] or [k])
   obs per op: [rc, [sent ids], queue, record, flags desc, ccvals desc, chan, [fee, redist, tosend, escrow], ltbh,
                height, vscid(height), vscid(height+1)] *)
Definition dec_bop (t : tree) : bop :=
  let k := tz (tnth 0 t) in
  if k =? 1 then BSub (hd CApply (dec_cop (tnth 1 t)))
  else if k =? 2 then BRecv (tz (tnth 1 t)) (tzs (tnth 2 t)) (to_pairs (tnth 3 t))
  else if k =? 3 then BFund (tzs (tnth 1 t))
  else if k =? 4 then BBegin (tbool (tnth 1 t))
  else BEnd (tz (tnth 1 t)) (to_optnat (tnth 2 t)) (to_optnat (tnth 3 t)) (to_optnat (tnth 4 t)) (tbool (tnth 5 t)).

Definition bobs (s : bstate) (sent : list pkt) (rc : Z) : tree :=
  let c := b_cs s in let r := b_r s in
  TL [TI rc; of_zs (map p_id sent); TL (map of_pkt (queue c)); of_rec (srec c);
      of_zs (sort_desc zid (outst c)); of_zs (sort_desc zid (ccvals c)); of_bool (chan c);
      TL [of_zs (r_fee r); of_zs (r_redist r); of_zs (r_tosend r); of_zs (r_escrow r)]; TI (r_ltbh r);
      TI (b_height s); TI (h2v_get (b_h2v s) (b_height s)); TI (h2v_get (b_h2v s) (b_height s + 1))].

Fixpoint brun (g : cfg) (s : bstate) (ops : list bop) : list tree :=
  match ops with
  | [] => []
  | o :: t =>
    let '(rc, s', sent) := bstep_out g s o in
    bobs s' sent rc :: brun g s' t
  end.

Definition dec_cfg (t : tree) : cfg :=
  mkCfg (tz (tnth 0 t)) (tz (tnth 1 t)) (tz (tnth 2 t)) (map tbool (tlist (tnth 3 t))) (tbool (tnth 4 t)).

Definition run (t : tree) : tree :=
  let st := tnth 1 t in
  TL (brun (dec_cfg (tnth 0 t)) (binit (tnat (tnth 0 st)) (tbool (tnth 1 st)) (tz (tnth 2 st)))
           (map dec_bop (tlist (tnth 2 t)))).

(* ---------------------------------------------------------------- monitor on implementation observations *)
Record bmon := mkBM {
  bm_q : list pkt; bm_out : list Z; bm_cc : list Z; bm_pend : list (Z * Z);
  bm_bal : list (list Z); bm_ltbh : Z; bm_height : Z; bm_bad : list Z }.

Definition tzss (t : tree) : list (list Z) := map tzs (tlist t).
Definition zs_eqb := list_eqb Z.eqb.
Definition sum (l : list Z) : Z := fold_right Z.add 0 l.

Definition bmon_step (g : cfg) (st : bmon) (o : bop) (ob : tree) : bmon :=
  let rc := tz (tnth 0 ob) in
  let sent := tzs (tnth 1 ob) in
  let q' := map to_pkt (tlist (tnth 2 ob)) in
  let out' := tzs (tnth 4 ob) in
  let cc' := tzs (tnth 5 ob) in
  let bal' := tzss (tnth 7 ob) in
  let ltbh' := tz (tnth 8 ob) in
  let height' := tz (tnth 9 ob) in
  let pend' := match o with
               | BRecv _ _ ch => acc_changes (bm_pend st) ch
               | BSub (CRecvVSC _ ch) => acc_changes (bm_pend st) ch
               | BEnd _ _ _ _ _ => if rc =? 0 then [] else bm_pend st
               | _ => bm_pend st end in
  let bad :=
    match o with
    | BBegin _ => flag (rc =? 0) 1
    | BEnd now sfail bfail tfail topen =>
      let hyp := negb (bank_panics bfail) && keys_wf (bm_pend st) in
      let tosend0 := nth 2 (bm_bal st) [] in let esc0 := nth 3 (bm_bal st) [] in
      let tosend1 := nth 2 bal' [] in let esc1 := nth 3 bal' [] in
      let fee0 := nth 0 (bm_bal st) [] in
      let rem := vsub fee0 (cons_part (g_frac g) fee0) in
      let due := g_bpdt g <=? bm_height st - bm_ltbh st in
      let pending := vadd tosend0 rem in                       (* to-provider balance after the internal split *)
      let moved := vsub esc1 esc0 in
      let all_moved := zs_eqb moved (map2 (fun w x => w * x) (map (fun b : bool => if b then 1 else 0) (g_white g)) pending)
                       && zs_eqb tosend1 (vsub pending moved) in
      let none_moved := zs_eqb esc1 esc0 && zs_eqb tosend1 pending in
      let k := length (filter (fun p => negb (is_slash p)) (firstn (length sent) (bm_q st))) in
      (* 1: the block operation must not fail (under the stated hypotheses) *)
      flag (negb hyp || (rc =? 0)) 1 ++
      (if rc =? 0 then
         (* 2: a failing / expired send keeps the queue: it loses exactly the vsc-matured packets that were sent *)
         flag (list_eqb pkt_eqb q' (skipn k (bm_q st)) && is_prefix sent (map p_id (bm_q st))
               && sent_shape (length sent) (bm_q st)) 2 ++
         flag (match sfail with Some O => is_nil sent && list_eqb pkt_eqb q' (bm_q st) | _ => true end) 2 ++
         (* 3: the pending validator changes are applied whatever failed *)
         flag (let '(cc, o') := apply_changes (bm_pend st) (bm_cc st) (bm_out st) in
               zs_eqb (sort_desc zid cc) cc' && zs_eqb (sort_desc zid o') out') 3 ++
         (* 4: transfer atomicity: everything allowed is transferred or nothing is; nothing when not due, when the
               channel is closed or when a transfer fails; ltbh moves exactly when a transmission was due *)
         flag (if due then (all_moved || none_moved) && (ltbh' =? bm_height st)
               else none_moved && (ltbh' =? bm_ltbh st)) 4 ++
         flag (negb due || negb (negb topen || match tfail with Some O => true | _ => false end
                                 || negb (g_addr_ok g) && negb (is_nil (filter (fun x => negb (x =? 0))
                                        (map2 (fun w x => w * x) (map (fun b : bool => if b then 1 else 0) (g_white g)) pending))))
               || none_moved) 4 ++
         flag (sum (concat bal') =? sum (concat (bm_bal st))) 5
       else
         (* a failed block commits nothing *)
         flag (list_eqb pkt_eqb q' (bm_q st) && list_eqb zs_eqb bal' (bm_bal st) && (ltbh' =? bm_ltbh st)) 6)
    | _ => []
    end in
  mkBM q' out' cc' pend' bal' ltbh' height' (bm_bad st ++ bad).

Fixpoint bmon_run (g : cfg) (st : bmon) (ops : list bop) (obs : list tree) : bmon :=
  match ops, obs with
  | o :: t, ob :: ot => bmon_run g (bmon_step g st o ob) t ot
  | _, _ => st
  end.

Definition mon (t o : tree) : tree :=
  let st := tnth 1 t in
  let n := tnat (tnth 0 st) in
  let ops := map dec_bop (tlist (tnth 2 t)) in
  let z := repeat 0 n in
  of_zs (nodup Z.eq_dec
    (flag (Nat.eqb (length ops) (length (tlist o))) 99 ++
     bm_bad (bmon_run (dec_cfg (tnth 0 t)) (mkBM [] [] [] [] [z; z; z; z] 0 (tz (tnth 2 st)) []) ops (tlist o)))).
