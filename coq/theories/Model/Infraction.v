(* Model of the per-consumer infraction parameters of the provider (property C20):
     x/ccv/provider/keeper/infraction_parameters.go  (all of it)
     x/ccv/provider/keeper/consumer_lifecycle.go     ConsumeIdsFromTimeQueue, appendConsumerIdOnTime,
                                                     removeConsumerIdFromTime, DeleteConsumerChain (infraction part)
     x/ccv/provider/keeper/msg_server.go             CreateConsumer / UpdateConsumer (infraction branch), RemoveConsumer (phase)
     x/ccv/provider/types/msg.go                     ValidateInfractionParameters
     reads: relay.go HandleSlashPacket, consumer_equivocation.go HandleConsumerDoubleVoting / HandleConsumerMisbehaviour
   Definitions only.  Everything outside this component (phase changes done by the launch / removal
   machinery, the sender being the owner, the provider unbonding period, the provider slashing defaults,
   validity of evidence) is an oracle input carried by the ops. *)
From Coq Require Import ZArith List Bool.
From ICS Require Import Base.Tree.
Import ListNotations.
Open Scope Z_scope.

(* ---------- parameter sets ---------- *)
(* SlashJailParameters: (JailDuration in ns, SlashFraction as raw LegacyDec integer (10^18 scale), Tombstone 0/1) *)
Definition half : Type := (Z * Z * Z)%type.
Definition h_jail (h : half) : Z := fst (fst h).
Definition h_frac (h : half) : Z := snd (fst h).
Definition h_tomb (h : half) : Z := snd h.
(* InfractionParameters: (DoubleSign, Downtime); both halves are always present in the store
   (DefaultConsumerInfractionParameters sets both, partial updates retain the current half). *)
Definition params : Type := (half * half)%type.
Definition p_ds (p : params) : half := fst p.
Definition p_dt (p : params) : half := snd p.
(* the optional infraction parameters of a message: None = field absent; halves optional *)
Definition req : Type := option (option half * option half).

(* compareSlashJailParameters / compareInfractionParameters *)
Definition half_eqb (a b : half) : bool :=
  (h_tomb a =? h_tomb b) && (h_frac a =? h_frac b) && (h_jail a =? h_jail b).
Definition params_eqb (a b : params) : bool := half_eqb (p_ds a) (p_ds b) && half_eqb (p_dt a) (p_dt b).

(* ValidateInfractionParameters (+ ValidateFraction): jail >= 0, 0 <= fraction <= 1 *)
Definition one_dec : Z := 1000000000000000000.
Definition valid_half (h : half) : bool := (0 <=? h_jail h) && (0 <=? h_frac h) && (h_frac h <=? one_dec).
Definition valid_ohalf (o : option half) : bool := match o with None => true | Some h => valid_half h end.
Definition valid_req (r : req) : bool :=
  match r with None => true | Some (ods, odt) => valid_ohalf ods && valid_ohalf odt end.

(* msg_server.go CreateConsumer l.414-421 / UpdateConsumer l.622-628: an absent half keeps the base value *)
Definition merge (base : params) (r : option half * option half) : params :=
  (match fst r with Some h => h | None => p_ds base end,
   match snd r with Some h => h | None => p_dt base end).

(* ---------- stores ---------- *)
(* point-lookup stores keyed by consumer id *)
Definition amap (A : Type) : Type := list (Z * A).
Fixpoint aget {A} (k : Z) (m : amap A) : option A :=
  match m with [] => None | (k', v) :: r => if k' =? k then Some v else aget k r end.
Fixpoint adel {A} (k : Z) (m : amap A) : amap A :=
  match m with [] => [] | (k', v) :: r => if k' =? k then adel k r else (k', v) :: adel k r end.
Definition aput {A} (k : Z) (v : A) (m : amap A) : amap A := (k, v) :: adel k m.

(* phase classes: registered/initialized = Prelaunch *)
Inductive phase := Prelaunch | Launched | Stopped | Deleted.

(* InfractionScheduledTimeToConsumerIds: timestamp -> ConsumerIds, iterated in ascending key order.
   Kept sorted (strictly ascending) by timestamp; the id lists are in append order. *)
Definition sched : Type := list (Z * list Z).

Record state := mkState {
  clock : Z;                 (* ctx.BlockTime() of the current block, ns *)
  next_id : Z;               (* FetchAndIncrementConsumerId *)
  phases : amap phase;       (* ConsumerIdToPhase (class) *)
  cur : amap params;         (* ConsumerIdToInfractionParameters (key 57) *)
  queued : amap params;      (* ConsumerIdToQueuedInfractionParameters (key 58) *)
  schedule : sched           (* InfractionScheduledTimeToConsumerIds (key 59) *)
}.

Definition init : state := mkState 0 0 [] [] [] [].

Definition mem (c : Z) (l : list Z) : bool := existsb (Z.eqb c) l.

(* getConsumerIdsBasedOnTime *)
Fixpoint sched_get (ts : Z) (s : sched) : list Z :=
  match s with [] => [] | (t, ids) :: r => if t =? ts then ids else sched_get ts r end.

(* appendConsumerIdOnTime: store.Set(key(ts), ids ++ [c]) *)
Fixpoint sched_append (c ts : Z) (s : sched) : sched :=
  match s with
  | [] => [(ts, [c])]
  | (t, ids) :: r =>
      if t =? ts then (t, ids ++ [c]) :: r
      else if ts <? t then (ts, [c]) :: s
      else (t, ids) :: sched_append c ts r
  end.

(* removal of the first occurrence: append(ids[:index], ids[index+1:]...) *)
Fixpoint remove1 (c : Z) (l : list Z) : list Z :=
  match l with [] => [] | x :: r => if x =? c then r else x :: remove1 c r end.

(* removeConsumerIdFromTime on one stored list: error if absent; delete the key if it was the only id *)
Definition entry_remove (c t : Z) (ids : list Z) (r : sched) : option sched :=
  if mem c ids then Some (if (length ids =? 1)%nat then r else (t, remove1 c ids) :: r) else None.

(* removeConsumerIdFromTime(c, key(ts)); None = error (no ids under ts / id not found) *)
Fixpoint sched_remove (c ts : Z) (s : sched) : option sched :=
  match s with
  | [] => None
  | (t, ids) :: r =>
      if t =? ts then entry_remove c t ids r
      else match sched_remove c ts r with Some r' => Some ((t, ids) :: r') | None => None end
  end.

(* GetConsumerInfractionUpdateTime: ascending iteration; at the first timestamp whose list contains c,
   RemoveFromInfractionUpdateSchedule(c, ts) on that very entry and return ts; None = not found *)
Fixpoint sched_take (c : Z) (s : sched) : option (Z * sched) :=
  match s with
  | [] => None
  | (t, ids) :: r =>
      if mem c ids then
        match entry_remove c t ids r with Some s' => Some (t, s') | None => None end
      else match sched_take c r with Some (ts, r') => Some (ts, (t, ids) :: r') | None => None end
  end.

(* the timestamp under which c is scheduled (first in key order); the read-only part of the above *)
Fixpoint due_of (c : Z) (s : sched) : option Z :=
  match s with [] => None | (t, ids) :: r => if mem c ids then Some t else due_of c r end.

(* RemoveConsumerInfractionQueuedData *)
Definition remove_queued_data (c : Z) (q : amap params) (s : sched) : amap params * sched :=
  match aget c q with
  | None => (q, s)
  | Some _ =>
      let q' := adel c q in                               (* DeleteQueuedInfractionParameters *)
      match sched_take c s with                           (* GetConsumerInfractionUpdateTime (removes) *)
      | None => (q', s)
      | Some (ts, s') =>
          match sched_remove c ts s' with                 (* second RemoveFromInfractionUpdateSchedule *)
          | None => (q', s')                              (*   normally fails: already removed *)
          | Some s'' => (q', s'')
          end
      end
  end.

(* UpdateQueuedInfractionParams(ctx, c, newp) with ctx.BlockTime() = clock and UnbondingTime() = u;
   None = error (no current parameters) *)
Definition update_queued (c : Z) (newp : params) (u : Z) (st : state) : option state :=
  let '(q1, s1) := remove_queued_data c (queued st) (schedule st) in
  match aget c (cur st) with
  | None => None
  | Some curp =>
      if params_eqb curp newp then
        Some (mkState (clock st) (next_id st) (phases st) (cur st) q1 s1)
      else
        Some (mkState (clock st) (next_id st) (phases st) (cur st)
                      (aput c newp q1) (sched_append c (clock st + u) s1))
  end.

(* ConsumeIdsFromTimeQueue(limit): [avail] = limit - len(result) *)
Fixpoint consume (now : Z) (avail : nat) (s : sched) : list Z * sched :=
  match s with
  | [] => ([], [])
  | (ts, ids) :: r =>
      if (avail =? 0)%nat then ([], s)                    (* len(result) >= limit: break *)
      else if now <? ts then ([], s)                      (* ts.After(ctx.BlockTime()): break *)
      else if (length ids <=? avail)%nat then
        let '(res, r') := consume now (avail - length ids) r in (ids ++ res, r')
      else (firstn avail ids, (ts, skipn avail ids) :: r) (* the rest is stored back under ts *)
  end.

Definition limit : nat := 200.

(* the loop of BeginBlockUpdateInfractionParameters; false = GetQueuedInfractionParameters failed *)
Fixpoint apply_ids (ids : list Z) (cu q : amap params) : bool * amap params * amap params :=
  match ids with
  | [] => (true, cu, q)
  | c :: t =>
      match aget c q with
      | None => (false, cu, q)
      | Some p => apply_ids t (aput c p cu) (adel c q)
      end
  end.

(* ---------- operations ---------- *)
Inductive op :=
| OCreate (dflt : params) (r : req)                 (* MsgCreateConsumer; dflt = DefaultConsumerInfractionParameters *)
| OUpdate (c : Z) (owner : bool) (r : req) (u : Z)  (* MsgUpdateConsumer; u = staking UnbondingTime now *)
| OQueue (c : Z) (p : params) (u : Z)               (* UpdateQueuedInfractionParams called directly on a launched consumer *)
| OLaunch (c : Z)                                   (* oracle: BeginBlockLaunchConsumers launched c *)
| OStop (c : Z) (owner : bool)                      (* MsgRemoveConsumer *)
| ODelete (c : Z)                                   (* DeleteConsumerChain (BeginBlockRemoveConsumers) *)
| OBeginBlock (now : Z)                             (* new block time, then BeginBlockUpdateInfractionParameters *)
| OSlash (c : Z) (kind : Z) (pre : bool).           (* infraction handled; pre = checks outside this component pass *)

(* result classes *)
Definition r_ok := 0.
Definition r_invalid := 1.        (* ValidateBasic *)
Definition r_phase := 2.          (* ErrInvalidPhase *)
Definition r_unauthorized := 3.   (* ErrUnauthorized *)
Definition r_noowner := 4.        (* ErrNoOwnerAddress *)
Definition r_beginblock := 5.     (* BeginBlock returned an error *)
Definition r_other := 6.

Definition set_phase (c : Z) (ph : phase) (st : state) : state :=
  mkState (clock st) (next_id st) (aput c ph (phases st)) (cur st) (queued st) (schedule st).

Definition is_prelaunch (st : state) (c : Z) : bool :=
  match aget c (phases st) with Some Prelaunch => true | _ => false end.
Definition is_launched (st : state) (c : Z) : bool :=
  match aget c (phases st) with Some Launched => true | _ => false end.
(* IsConsumerActive *)
Definition is_active (st : state) (c : Z) : bool := is_prelaunch st c || is_launched st c.

(* msg_server.go CreateConsumer *)
Definition create (dflt : params) (r : req) (st : state) : state * Z :=
  if negb (valid_req r) then (st, r_invalid)
  else
    let c := next_id st in
    let p := match r with None => dflt | Some hv => merge dflt hv end in
    (mkState (clock st) (c + 1) (aput c Prelaunch (phases st)) (aput c p (cur st)) (queued st) (schedule st), r_ok).

(* msg_server.go UpdateConsumer, checks in the order of the code *)
Definition update (c : Z) (owner : bool) (r : req) (u : Z) (st : state) : state * Z :=
  if negb (valid_req r) then (st, r_invalid)
  else if negb (is_active st c) then (st, r_phase)
  else if negb owner then (st, r_unauthorized)
  else match r with
       | None => (st, r_ok)
       | Some hv =>
           match aget c (cur st) with
           | None => (st, r_other)
           | Some curp =>
               let newp := merge curp hv in
               if is_prelaunch st c then
                 (mkState (clock st) (next_id st) (phases st) (aput c newp (cur st)) (queued st) (schedule st), r_ok)
               else match update_queued c newp u st with
                    | Some st' => (st', r_ok)
                    | None => (st, r_other)
                    end
           end
       end.

(* the harness calls the keeper function only for launched consumers *)
Definition queue_direct (c : Z) (p : params) (u : Z) (st : state) : state * Z :=
  if negb (is_launched st c) then (st, r_other)
  else match update_queued c p u st with Some st' => (st', r_ok) | None => (st, r_other) end.

(* msg_server.go RemoveConsumer: owner lookup, owner check, phase check; StopAndPrepareForConsumerRemoval *)
Definition stop (c : Z) (owner : bool) (st : state) : state * Z :=
  match aget c (phases st) with
  | None => (st, r_noowner)
  | Some ph =>
      if negb owner then (st, r_unauthorized)
      else match ph with Launched => (set_phase c Stopped st, r_ok) | _ => (st, r_phase) end
  end.

(* DeleteConsumerChain: only a stopped chain; RemoveConsumerInfractionQueuedData; phase := DELETED.
   ConsumerIdToInfractionParameters is NOT deleted (DeleteInfractionParameters has no caller). *)
Definition delete (c : Z) (st : state) : state * Z :=
  match aget c (phases st) with
  | Some Stopped =>
      let '(q, s) := remove_queued_data c (queued st) (schedule st) in
      (mkState (clock st) (next_id st) (aput c Deleted (phases st)) (cur st) q s, r_ok)
  | _ => (st, r_phase)
  end.

Definition launch (c : Z) (st : state) : state * Z :=
  if is_prelaunch st c then (set_phase c Launched st, r_ok) else (st, r_phase).

(* BeginBlockUpdateInfractionParameters at block time now *)
Definition begin_block (now : Z) (st : state) : state * Z :=
  let '(ids, s') := consume now limit (schedule st) in
  let '(ok, cu, q) := apply_ids ids (cur st) (queued st) in
  (mkState now (next_id st) (phases st) cu q s', if ok then r_ok else r_beginblock).

(* the parameters a handler reads: GetInfractionParameters(consumerId) at handling time.
   kind 0 = downtime (HandleSlashPacket: Downtime.SlashFraction, Downtime.JailDuration; tombstone ignored)
   kind 1 = double sign (HandleConsumerDoubleVoting / HandleConsumerMisbehaviour: the DoubleSign half) *)
Definition slash_view (st : state) (c kind : Z) : option (list Z) :=
  match aget c (cur st) with
  | None => None
  | Some p =>
      if kind =? 0 then Some [h_frac (p_dt p); h_jail (p_dt p)]
      else Some [h_frac (p_ds p); h_jail (p_ds p); h_tomb (p_ds p)]
  end.

Definition step_res (st : state) (o : op) : state * Z :=
  match o with
  | OCreate d r => create d r st
  | OUpdate c ow r u => update c ow r u st
  | OQueue c p u => queue_direct c p u st
  | OLaunch c => launch c st
  | OStop c ow => stop c ow st
  | ODelete c => delete c st
  | OBeginBlock now => begin_block now st
  | OSlash _ _ _ => (st, r_ok)
  end.
Definition step (st : state) (o : op) : state := fst (step_res st o).
Definition exec (st : state) (ops : list op) : state := fold_left step ops st.

(* ---------- wire interface ----------
   input  = [ group ... ]; group = [ op ... ] (one driver action = oracle phase ops followed by the action's own op)
     op: [0,dflt,req] [1,c,owner,req,u] [2,c,params,u] [3,c] [4,c,owner] [5,c] [6,now] [7,c,kind,pre]
     half = [jail,frac,tomb]; params = [half,half]; req = [] | [[ohalf,ohalf]]; ohalf = [] | [half]
   output = [ [result-of-last-op, snapshot] ... ] one per group
     result: [code] or for a slash [1,frac,jail(,tomb)] / [0]
     snapshot = [ [ [phase, cur, queued] per consumer id 0..next_id-1 ], [[ts,[ids]]...] ]
       cur = [] | [params];  queued likewise; phase 0 none 1 prelaunch 2 launched 3 stopped 4 deleted *)
Definition to_half (t : tree) : half := (tz (tnth 0 t), tz (tnth 1 t), tz (tnth 2 t)).
Definition to_params (t : tree) : params := (to_half (tnth 0 t), to_half (tnth 1 t)).
Definition to_ohalf (t : tree) : option half := match tlist t with x :: _ => Some (to_half x) | [] => None end.
Definition to_req (t : tree) : req :=
  match tlist t with x :: _ => Some (to_ohalf (tnth 0 x), to_ohalf (tnth 1 x)) | [] => None end.
Definition to_op (t : tree) : op :=
  let a n := tnth n t in
  let tag := tz (a 0%nat) in
  if tag =? 0 then OCreate (to_params (a 1%nat)) (to_req (a 2%nat))
  else if tag =? 1 then OUpdate (tz (a 1%nat)) (tbool (a 2%nat)) (to_req (a 3%nat)) (tz (a 4%nat))
  else if tag =? 2 then OQueue (tz (a 1%nat)) (to_params (a 2%nat)) (tz (a 3%nat))
  else if tag =? 3 then OLaunch (tz (a 1%nat))
  else if tag =? 4 then OStop (tz (a 1%nat)) (tbool (a 2%nat))
  else if tag =? 5 then ODelete (tz (a 1%nat))
  else if tag =? 6 then OBeginBlock (tz (a 1%nat))
  else OSlash (tz (a 1%nat)) (tz (a 2%nat)) (tbool (a 3%nat)).

Definition of_half (h : half) : tree := of_zs [h_jail h; h_frac h; h_tomb h].
Definition of_params (p : params) : tree := TL [of_half (p_ds p); of_half (p_dt p)].
Definition of_oparams (o : option params) : tree := match o with Some p => TL [of_params p] | None => TL [] end.
Definition phase_code (o : option phase) : Z :=
  match o with None => 0 | Some Prelaunch => 1 | Some Launched => 2 | Some Stopped => 3 | Some Deleted => 4 end.
Definition ids_upto (n : Z) : list Z := map Z.of_nat (seq 0 (Z.to_nat n)).
Definition snapshot (st : state) : tree :=
  TL [ TL (map (fun c => TL [TI (phase_code (aget c (phases st))); of_oparams (aget c (cur st));
                             of_oparams (aget c (queued st))]) (ids_upto (next_id st)));
       TL (map (fun e => TL [TI (fst e); of_zs (snd e)]) (schedule st)) ].

(* the observable result of one op *)
Definition op_obs (st : state) (o : op) : tree :=
  match o with
  | OSlash c kind pre =>
      if pre then match slash_view st c kind with Some l => of_zs (1 :: l) | None => of_zs [0] end
      else of_zs [0]
  | _ => of_zs [snd (step_res st o)]
  end.

Fixpoint run_group (st : state) (g : list op) (last : tree) : state * tree :=
  match g with
  | [] => (st, last)
  | o :: t => run_group (step st o) t (op_obs st o)
  end.
Fixpoint run_groups (st : state) (gs : list (list op)) : list tree :=
  match gs with
  | [] => []
  | g :: t => let '(st', res) := run_group st g (TL []) in TL [res; snapshot st'] :: run_groups st' t
  end.
Definition to_groups (t : tree) : list (list op) := map (fun g => map to_op (tlist g)) (tlist t).
Definition run (input : tree) : tree := TL (run_groups init (to_groups input)).

(* ---------- monitor: clauses of C20 evaluated on the implementation's observations ----------
   Works only from the ops (requests, oracle values) and the implementation's own snapshots. *)
Definition snap_cons (snap : tree) : list tree := tlist (tnth 0 snap).
Definition snap_sched (snap : tree) : sched := map (fun e => (tz (tnth 0 e), tzs (tnth 1 e))) (tlist (tnth 1 snap)).
Definition to_oparams (t : tree) : option params := match tlist t with x :: _ => Some (to_params x) | [] => None end.
Definition s_phase (snap : tree) (c : Z) : Z := tz (tnth 0 (nth (Z.to_nat c) (snap_cons snap) (TL []))).
Definition s_cur (snap : tree) (c : Z) : option params := to_oparams (tnth 1 (nth (Z.to_nat c) (snap_cons snap) (TL []))).
Definition s_queued (snap : tree) (c : Z) : option params := to_oparams (tnth 2 (nth (Z.to_nat c) (snap_cons snap) (TL []))).
Definition s_count (snap : tree) : Z := Z.of_nat (length (snap_cons snap)).
Definition occ (c : Z) (s : sched) : nat := count_occ Z.eq_dec (flat_map snd s) c.
Definition oparams_eqb (a b : option params) : bool :=
  match a, b with Some x, Some y => params_eqb x y | None, None => true | _, _ => false end.

(* pending bookkeeping of the monitor: per consumer, the requested value and its earliest legal time *)
Definition pend : Type := amap (params * Z).

Definition last_op (g : list op) : option op := last (map Some g) None.

(* clause numbers
   1 parameters of a non-prelaunch consumer changed outside a begin-block / before request time + U / to a value not requested
   2 pending bookkeeping: queued entry without exactly one schedule occurrence (or the reverse), or under a wrong time
   3 an applied change left its queue/schedule entry behind (would be applied again)
   4 a slash/jail did not use the parameters in force
   5 pre-launch update not immediate
   6 deleted consumer still has a pending change
   7 request equal to current values did not cancel / queued something
   8 request did not replace the pending change with due = now + U
   9 begin-block failed *)
(* clauses 1 and 3 for consumer c; pd is the bookkeeping BEFORE the step *)
Definition check_change (prev snap : tree) (o : option op) (pd : pend) (c : Z) : list Z :=
  if (2 <=? s_phase prev c) && negb (oparams_eqb (s_cur prev c) (s_cur snap c)) then
    match o with
    | Some (OBeginBlock now) =>
        match aget c pd with
        | Some (p, due) =>
            (if (due <=? now) && oparams_eqb (s_cur snap c) (Some p) then [] else [1]) ++
            (match s_queued snap c with
             | None => if (occ c (snap_sched snap) =? 0)%nat then [] else [3]
             | Some _ => [3]
             end)
        | None => [1]
        end
    | _ => [1]
    end
  else [].

(* clauses 2 and 6 for consumer c; pd is the bookkeeping AFTER the step *)
Definition check_consist (snap : tree) (pd : pend) (c : Z) : list Z :=
  let sc := snap_sched snap in
  let n := occ c sc in
  (match s_queued snap c with
   | Some q =>
       if (n =? 1)%nat then
         match aget c pd, due_of c sc with
         | Some (p, due), Some t => if params_eqb p q && (t =? due) then [] else [2]
         | _, _ => [2]
         end
       else [2]
   | None => if (n =? 0)%nat then [] else [2]
   end) ++
  (if s_phase snap c =? 4
   then match s_queued snap c with None => if (n =? 0)%nat then [] else [6] | Some _ => [6] end
   else []).

(* the bookkeeping update done by the monitor from the request and the implementation's answer *)
Definition pend_after (prev snap : tree) (o : option op) (res : tree) (clk : Z) (pd : pend) : pend * list Z :=
  let okres := match tzs res with [0] => true | _ => false end in
  match o with
  | Some (OUpdate c _ (Some hv) u) =>
      if okres then
        match s_cur prev c with
        | None => (pd, [])
        | Some cp =>
            let np := merge cp hv in
            if s_phase prev c =? 1 then
              (pd, if oparams_eqb (s_cur snap c) (Some np) && oparams_eqb (s_queued snap c) None then [] else [5])
            else if params_eqb cp np then
              (adel c pd, if oparams_eqb (s_queued snap c) None && (occ c (snap_sched snap) =? 0)%nat
                             && oparams_eqb (s_cur snap c) (Some cp) then [] else [7])
            else
              (aput c (np, clk + u) pd,
               if oparams_eqb (s_queued snap c) (Some np) && oparams_eqb (s_cur snap c) (Some cp)
                  && (occ c (snap_sched snap) =? 1)%nat
                  && mem c (sched_get (clk + u) (snap_sched snap)) then [] else [8])
        end
      else (pd, [])
  | Some (OQueue c np u) =>
      if okres then
        match s_cur prev c with
        | None => (pd, [])
        | Some cp =>
            if params_eqb cp np then
              (adel c pd, if oparams_eqb (s_queued snap c) None && (occ c (snap_sched snap) =? 0)%nat then [] else [7])
            else
              (aput c (np, clk + u) pd,
               if oparams_eqb (s_queued snap c) (Some np) && (occ c (snap_sched snap) =? 1)%nat
                  && mem c (sched_get (clk + u) (snap_sched snap)) then [] else [8])
        end
      else (pd, [])
  | Some (ODelete c) => (adel c pd, [])
  | Some (OBeginBlock now) =>
      (* entries whose change was observed as applied (queued gone) are dropped *)
      (filter (fun e => match s_queued snap (fst e) with Some _ => true | None => false end) pd,
       match tzs res with [0] => [] | _ => [9] end)
  | Some (OSlash c kind pre) =>
      (pd,
       match tzs res with
       | 1 :: l =>
           match s_cur prev c with
           | Some p => if list_eq_dec Z.eq_dec l
                            (if kind =? 0 then [h_frac (p_dt p); h_jail (p_dt p)]
                             else [h_frac (p_ds p); h_jail (p_ds p); h_tomb (p_ds p)]) then [] else [4]
           | None => [4]
           end
       | _ => []
       end)
  | _ => (pd, [])
  end.

(* bookkeeping for the ops of a group in front of its last op (oracle deletions in front of a begin-block;
   batches of direct queue calls, for which only the end of the batch is observed) *)
Definition pend_blind (prev : tree) (clk : Z) (g : list op) (pd : pend) : pend :=
  fold_left (fun acc o =>
    match o with
    | ODelete c => adel c acc
    | OQueue c np u =>
        if s_phase prev c =? 2 then
          match s_cur prev c with
          | Some cp => if params_eqb cp np then adel c acc else aput c (np, clk + u) acc
          | None => acc
          end
        else acc
    | _ => acc
    end) g pd.

Fixpoint mon_groups (gs : list (list op)) (obs : list tree) (prev : tree) (clk : Z) (pd : pend) : list Z :=
  match gs, obs with
  | g :: gt, ob :: ot =>
      let res := tnth 0 ob in
      let snap := tnth 1 ob in
      let o := last_op g in
      let pd0 := pend_blind prev clk (removelast g) pd in
      let cs := ids_upto (Z.max (s_count prev) (s_count snap)) in
      let '(pd1, reqc) := pend_after prev snap o res clk pd0 in
      let clk' := match o with Some (OBeginBlock now) => now | _ => clk end in
      flat_map (check_change prev snap o pd0) cs ++ flat_map (check_consist snap pd1) cs ++ reqc ++
      mon_groups gt ot snap clk' pd1
  | _, _ => []
  end.

Definition empty_snap : tree := TL [TL []; TL []].
Fixpoint dedup (l : list Z) : list Z :=
  match l with [] => [] | x :: r => if mem x r then dedup r else x :: dedup r end.
Definition mon (input implobs : tree) : tree :=
  of_zs (dedup (mon_groups (to_groups input) (tlist implobs) empty_snap 0 [])).
