(* Model of the consumer <-> light client <-> CCV channel binding (property C17).

   Provider half mirrors
     x/ccv/provider/ibc_module.go        OnChanOpenInit/Try/Ack/Confirm, OnChanCloseInit/Confirm, validateCCVChannelParams
     x/ccv/provider/keeper/keeper.go     VerifyConsumerChain, SetConsumerChain, getUnderlyingClient,
                                         Set/Get/DeleteConsumerClientId (+ reverse index ClientIdToConsumerId),
                                         Set/Get/Delete ConsumerIdToChannelId / ChannelToConsumerId
     x/ccv/provider/keeper/consumer_lifecycle.go
                                         LaunchConsumer -> MakeConsumerGenesis (named-connection branch, with the
                                         "client already bound to another consumer" check) / CreateConsumerClient,
                                         BeginBlockLaunchConsumers (failed launch -> REGISTERED),
                                         StopAndPrepareForConsumerRemoval, BeginBlockRemoveConsumers, DeleteConsumerChain
     x/ccv/provider/keeper/relay.go      OnRecvSlashPacket / OnTimeoutPacket / OnAcknowledgementPacket (attribution by channel)
   Consumer half mirrors
     x/ccv/consumer/ibc_module.go        OnChanOpenInit/Try/Ack/Confirm, OnChanCloseInit, validateCCVChannelParams
     x/ccv/consumer/keeper/keeper.go     VerifyProviderChain, Get/SetProviderClientID, Get/SetProviderChannel
     x/ccv/consumer/keeper/relay.go      OnRecvVSCPacket (first packet fixes the provider channel)
     x/ccv/consumer/keeper/genesis.go    InitGenesis (provider client: created, or the client of the named connection)

   Consumers, clients, connections, channels, chain ids are small integers.  The IBC core state (which clients exist
   and for which chain id, which connection is over which client, which channel is over which connection) is the
   "world" part of the state; it only grows (IBC never re-targets a connection or channel) and is changed by explicit
   world operations plus client creation at launch.  Definitions only; proofs are in Proofs/HandshakeProofs.v. *)
From Coq Require Import ZArith List Bool.
From ICS Require Import Base.Tree.
Import ListNotations.
Open Scope Z_scope.

(* ---- stores as finite maps Z -> option Z (none of the mirrored code iterates over these indices) ---- *)
Definition zmap := Z -> option Z.
Definition mempty : zmap := fun _ => None.
Definition upd (m : zmap) (k v : Z) : zmap := fun x => if x =? k then Some v else m x.
Definition del (m : zmap) (k : Z) : zmap := fun x => if x =? k then None else m x.
Definition has (m : zmap) (k : Z) : bool := match m k with Some _ => true | None => false end.

(* ConsumerPhase enum (provider.pb.go) *)
Definition PH_NONE := 0.
Definition PH_REGISTERED := 1.
Definition PH_INITIALIZED := 2.
Definition PH_LAUNCHED := 3.
Definition PH_STOPPED := 4.
Definition PH_DELETED := 5.

(* channeltypes.Order: NONE 0, UNORDERED 1, ORDERED 2 *)
Definition ORDERED := 2.
(* ports: 0 = "provider", 1 = "consumer", anything else = some other port *)
Definition PORT_PROVIDER := 0.
Definition PORT_CONSUMER := 1.
(* versions: 0 = ccv.Version ("1"), 2 = "" (empty / blank), anything else = some other version *)
Definition VERSION_OK := 0.
Definition VERSION_EMPTY := 2.

(* result classes *)
Definition OK := 0.
Definition E_ORDER := 1.        (* channeltypes.ErrInvalidChannelOrdering *)
Definition E_PORT := 2.         (* porttypes.ErrInvalidPort (own port) *)
Definition E_CPPORT := 3.       (* porttypes.ErrInvalidPort (counterparty port) *)
Definition E_VERSION := 4.      (* ccv.ErrInvalidVersion *)
Definition E_HOPS := 5.         (* channeltypes.ErrTooManyConnectionHops *)
Definition E_CONN := 6.         (* conntypes.ErrConnectionNotFound *)
Definition E_CLIENT := 7.       (* clienttypes.ErrClientNotFound (client of the connection does not exist) *)
Definition E_NO_CONSUMER := 8.  (* ccv.ErrConsumerChainNotFound / types.ErrNoConsumerId: reverse index empty *)
Definition E_NO_FWD := 9.       (* ccv.ErrClientNotFound: forward index empty *)
Definition E_MISMATCH := 10.    (* types.ErrInvalidConsumerClient: forward index names another client *)
Definition E_DUP := 11.         (* ccv.ErrDuplicateChannel *)
Definition E_CHAN := 12.        (* channeltypes.ErrChannelNotFound *)
Definition E_FLOW := 14.        (* ccv.ErrInvalidChannelFlow *)
Definition E_UNKNOWN_CHAN := 15. (* timeout / error ack on a channel without consumer *)
Definition E_CLOSE := 16.       (* sdkerrors.ErrInvalidRequest: user cannot close channel *)
Definition E_LAUNCH := 20.      (* launch attempted and failed: consumer falls back to REGISTERED *)
Definition E_PHASE := 21.       (* message rejected: wrong phase / unknown consumer *)
Definition E_BADCLIENT := 22.   (* consumer: clienttypes.ErrInvalidClient *)
Definition E_METADATA := 23.    (* consumer: ccv.ErrInvalidHandshakeMetadata *)
Definition E_PANIC := 100.

(* =====================================================================  provider  *)

Record pstate := mkP {
  fwd : zmap;                 (* ConsumerIdToClientId   (key prefix 7)  *)
  rev : zmap;                 (* ClientIdToConsumerId   (key prefix 53) *)
  c2ch : zmap;                (* ConsumerIdToChannelId  (key prefix 5)  *)
  ch2c : zmap;                (* ChannelIdToConsumerId  (key prefix 6)  *)
  phase : Z -> Z;             (* ConsumerIdToPhase *)
  to_remove : list Z;         (* RemovalTimeToConsumerIds queue (all entries due at the next purge) *)
  (* world (IBC core): *)
  clients : zmap;             (* client -> chain id of its client state *)
  conns : zmap;               (* connection -> client *)
  chans : zmap;               (* provider-port channel -> its single connection hop *)
  closed : Z -> bool;         (* provider-port channel end is in state CLOSED *)
  next_client : Z;            (* 02-client's identifier counter *)
  (* ghost: (consumer, client) of every successful launch, newest first *)
  launch_log : list (Z * Z)
}.

Definition pinit : pstate :=
  mkP mempty mempty mempty mempty (fun _ => PH_NONE) [] mempty mempty mempty (fun _ => false) 0 [].

Definition set_phase (s : pstate) (c p : Z) : pstate :=
  mkP (fwd s) (rev s) (c2ch s) (ch2c s) (fun x => if x =? c then p else phase s x) (to_remove s)
      (clients s) (conns s) (chans s) (closed s) (next_client s) (launch_log s).

(* keeper.go SetConsumerClientId: delete the reverse entry of a previous client, set forward, set reverse *)
Definition set_consumer_client (s : pstate) (c x : Z) : pstate :=
  let rev1 := match fwd s c with Some prev => del (rev s) prev | None => rev s end in
  mkP (upd (fwd s) c x) (upd rev1 x c) (c2ch s) (ch2c s) (phase s) (to_remove s)
      (clients s) (conns s) (chans s) (closed s) (next_client s) (launch_log s).

(* keeper.go DeleteConsumerClientId: delete the reverse entry of the current client, delete forward *)
Definition delete_consumer_client (s : pstate) (c : Z) : pstate :=
  let rev1 := match fwd s c with Some x => del (rev s) x | None => rev s end in
  mkP (del (fwd s) c) rev1 (c2ch s) (ch2c s) (phase s) (to_remove s)
      (clients s) (conns s) (chans s) (closed s) (next_client s) (launch_log s).

(* keeper.go getUnderlyingClient: connection -> client id, the client state must exist.  inl = error class *)
Definition underlying (s : pstate) (conn : Z) : Z + Z :=
  match conns s conn with
  | None => inl E_CONN
  | Some x => match clients s x with None => inl E_CLIENT | Some _ => inr x end
  end.

(* keeper.go VerifyConsumerChain *)
Definition verify_consumer_chain (s : pstate) (hops : list Z) : Z :=
  match hops with
  | [conn] =>
    match underlying s conn with
    | inl e => e
    | inr x =>
      match rev s x with
      | None => E_NO_CONSUMER
      | Some c =>
        match fwd s c with
        | None => E_NO_FWD
        | Some x' =>
          if negb (x' =? x) then E_MISMATCH
          else match c2ch s c with Some _ => E_DUP | None => OK end
        end
      end
    end
  | _ => E_HOPS
  end.

(* ibc_module.go OnChanOpenTry: validateCCVChannelParams (ORDERED, bound port), counterparty port, version,
   VerifyConsumerChain.  No state is written. *)
Definition chan_open_try (s : pstate) (order port cpport version : Z) (hops : list Z) : Z :=
  if negb (order =? ORDERED) then E_ORDER
  else if negb (port =? PORT_PROVIDER) then E_PORT
  else if negb (cpport =? PORT_CONSUMER) then E_CPPORT
  else if negb (version =? VERSION_OK) then E_VERSION
  else verify_consumer_chain s hops.

(* ibc_module.go OnChanOpenConfirm -> keeper.go SetConsumerChain.  The channel end is read from the channel keeper
   (always on the provider port); it has exactly one hop in the world model. *)
Definition chan_open_confirm (s : pstate) (ch : Z) : pstate * Z :=
  match chans s ch with
  | None => (s, E_CHAN)
  | Some conn =>
    match underlying s conn with
    | inl e => (s, e)
    | inr x =>
      match rev s x with
      | None => (s, E_NO_CONSUMER)
      | Some c =>
        match c2ch s c with
        | Some _ => (s, E_DUP)
        | None =>
          (mkP (fwd s) (rev s) (upd (c2ch s) c ch) (upd (ch2c s) ch c) (phase s) (to_remove s)
               (clients s) (conns s) (chans s) (closed s) (next_client s) (launch_log s), OK)
        end
      end
    end
  end.

(* consumer_lifecycle.go MakeConsumerGenesis, branch ConnectionId != "": connection, client state, chain id,
   client not yet the CCV client of a different consumer, SetConsumerClientId.  None = the launch fails. *)
Definition launch_on_connection (s : pstate) (c chain conn : Z) : option pstate :=
  match conns s conn with
  | None => None
  | Some x =>
    match clients s x with
    | None => None
    | Some xchain =>
      if negb (xchain =? chain) then None
      else
        let bound_elsewhere := match rev s x with Some other => negb (other =? c) | None => false end in
        if bound_elsewhere then None
        else let s1 := set_consumer_client s c x in
             Some (mkP (fwd s1) (rev s1) (c2ch s1) (ch2c s1) (phase s1) (to_remove s1)
                       (clients s1) (conns s1) (chans s1) (closed s1) (next_client s1) ((c, x) :: launch_log s1))
    end
  end.

(* PRE-FIX BEHAVIOUR, kept only as documentation of the repaired defect (DESIGN.md 9.2): the same branch without
   the "bound elsewhere" check.  NOT used by [pstep]/[run]; see C17_client_bijection_needs_check. *)
Definition launch_on_connection_unchecked (s : pstate) (c chain conn : Z) : option pstate :=
  match conns s conn with
  | None => None
  | Some x =>
    match clients s x with
    | None => None
    | Some xchain =>
      if negb (xchain =? chain) then None
      else let s1 := set_consumer_client s c x in
           Some (mkP (fwd s1) (rev s1) (c2ch s1) (ch2c s1) (phase s1) (to_remove s1)
                     (clients s1) (conns s1) (chans s1) (closed s1) (next_client s1) ((c, x) :: launch_log s1))
    end
  end.

(* consumer_lifecycle.go CreateConsumerClient, branch ConnectionId == "": clientKeeper.CreateClient returns the next
   unused identifier; the client state carries the consumer's chain id; SetConsumerClientId. *)
Definition launch_fresh (s : pstate) (c chain : Z) : pstate :=
  let x := next_client s in
  let s1 := set_consumer_client s c x in
  mkP (fwd s1) (rev s1) (c2ch s1) (ch2c s1) (phase s1) (to_remove s1)
      (upd (clients s1) x chain) (conns s1) (chans s1) (closed s1) (x + 1) ((c, x) :: launch_log s1).

(* MsgCreateConsumer (unknown consumer) or MsgUpdateConsumer (REGISTERED consumer) with a due spawn time, then
   BeginBlockLaunchConsumers: LaunchConsumer on a cached context; on failure the consumer is REGISTERED. *)
Definition launch (s : pstate) (c chain : Z) (conn : option Z) : pstate * Z :=
  if negb ((phase s c =? PH_NONE) || (phase s c =? PH_REGISTERED)) then (s, E_PHASE)
  else
    match conn with
    | None => (set_phase (launch_fresh s c chain) c PH_LAUNCHED, OK)
    | Some k =>
      match launch_on_connection s c chain k with
      | Some s1 => (set_phase s1 c PH_LAUNCHED, OK)
      | None => (set_phase s c PH_REGISTERED, E_LAUNCH)
      end
    end.

(* StopAndPrepareForConsumerRemoval: phase STOPPED (whatever it was), queued for removal *)
Definition stop_consumer (s : pstate) (c : Z) : pstate :=
  let s1 := set_phase s c PH_STOPPED in
  mkP (fwd s1) (rev s1) (c2ch s1) (ch2c s1) (phase s1) (to_remove s1 ++ [c])
      (clients s1) (conns s1) (chans s1) (closed s1) (next_client s1) (launch_log s1).

(* keeper.go chanCloseInit -> channelKeeper.ChanCloseInit: the channel end becomes CLOSED *)
Definition close_chan (s : pstate) (ch : Z) : pstate :=
  mkP (fwd s) (rev s) (c2ch s) (ch2c s) (phase s) (to_remove s)
      (clients s) (conns s) (chans s) (fun x => if x =? ch then true else closed s x) (next_client s) (launch_log s).

(* DeleteConsumerChain (the parts that touch the bindings): only a STOPPED consumer; DeleteConsumerClientId;
   then, if the consumer has a channel: the channel is closed if its end exists and is not CLOSED yet, and BOTH
   channel mappings are deleted whatever the state of the channel end; phase DELETED.
   A failing deletion is skipped. *)
Definition delete_consumer (s : pstate) (c : Z) : pstate :=
  if negb (phase s c =? PH_STOPPED) then s
  else
    let s1 := delete_consumer_client s c in
    let s2 := match c2ch s1 c with
              | Some ch =>
                let s1' := if has (chans s1) ch && negb (closed s1 ch) then close_chan s1 ch else s1 in
                mkP (fwd s1') (rev s1') (del (c2ch s1') c) (del (ch2c s1') ch) (phase s1') (to_remove s1')
                    (clients s1') (conns s1') (chans s1') (closed s1') (next_client s1') (launch_log s1')
              | None => s1
              end in
    set_phase s2 c PH_DELETED.

(* BeginBlockRemoveConsumers once every queued removal time has passed *)
Definition purge (s : pstate) : pstate :=
  let s1 := fold_left delete_consumer (to_remove s) s in
  mkP (fwd s1) (rev s1) (c2ch s1) (ch2c s1) (phase s1) []
      (clients s1) (conns s1) (chans s1) (closed s1) (next_client s1) (launch_log s1).

(* relay.go: the consumer a packet on channel ch is attributed to (GetChannelIdToConsumerId) *)
Definition attribute (s : pstate) (ch : Z) : option Z := ch2c s ch.

Inductive pop :=
| PAddClient (chain : Z)                       (* world: a client created by somebody else *)
| PAddConn (conn x : Z)                        (* world: connection conn over client x *)
| PAddChan (ch conn : Z)                       (* world: provider-port channel ch over connection conn *)
| PLaunch (c chain : Z) (conn : option Z)
| PTry (order port cpport version : Z) (hops : list Z)
| PConfirm (ch : Z)
| POpenInit
| POpenAck
| PStop (c : Z)                                (* MsgRemoveConsumer by the owner *)
| PPurge
| PTimeout (ch : Z)                            (* OnTimeoutPacket *)
| PAckErr (ch : Z)                             (* OnAcknowledgementPacket with an error acknowledgement *)
| PRecvSlash (ch : Z)                          (* OnRecvSlashPacket *)
| PCloseInit
| PCloseConfirm
| PWorldClose (ch : Z).                        (* world: the channel end is closed by IBC core (e.g. counterparty close) *)

(* result of a step: (error class, attributed consumer or -1) *)
Definition pstep (s : pstate) (o : pop) : pstate * (Z * Z) :=
  match o with
  | PAddClient chain =>
    (mkP (fwd s) (rev s) (c2ch s) (ch2c s) (phase s) (to_remove s)
         (upd (clients s) (next_client s) chain) (conns s) (chans s) (closed s) (next_client s + 1) (launch_log s), (OK, -1))
  | PAddConn conn x =>
    if has (conns s) conn then (s, (OK, -1))
    else (mkP (fwd s) (rev s) (c2ch s) (ch2c s) (phase s) (to_remove s)
              (clients s) (upd (conns s) conn x) (chans s) (closed s) (next_client s) (launch_log s), (OK, -1))
  | PAddChan ch conn =>
    if has (chans s) ch then (s, (OK, -1))
    else (mkP (fwd s) (rev s) (c2ch s) (ch2c s) (phase s) (to_remove s)
              (clients s) (conns s) (upd (chans s) ch conn) (closed s) (next_client s) (launch_log s), (OK, -1))
  | PLaunch c chain conn => let '(s1, r) := launch s c chain conn in (s1, (r, -1))
  | PTry order port cpport version hops => (s, (chan_open_try s order port cpport version hops, -1))
  | PConfirm ch => let '(s1, r) := chan_open_confirm s ch in (s1, (r, -1))
  | POpenInit => (s, (E_FLOW, -1))          (* OnChanOpenInit: handshake must be initiated by the consumer *)
  | POpenAck => (s, (E_FLOW, -1))           (* OnChanOpenAck *)
  | PStop c =>
    if phase s c =? PH_LAUNCHED then (stop_consumer s c, (OK, -1)) else (s, (E_PHASE, -1))
  | PPurge => (purge s, (OK, -1))
  | PTimeout ch =>
    (* OnTimeoutPacket; when the callback succeeds IBC core closes the ORDERED channel (TimeoutExecuted);
       when it fails the whole transaction is reverted *)
    match attribute s ch with
    | Some c => (close_chan (stop_consumer s c) ch, (OK, c))
    | None => (s, (E_UNKNOWN_CHAN, -1))
    end
  | PAckErr ch =>
    match attribute s ch with
    | Some c => (stop_consumer s c, (OK, c))
    | None => (s, (E_UNKNOWN_CHAN, -1))
    end
  | PRecvSlash ch =>
    match attribute s ch with
    | Some c => (s, (OK, c))
    | None => (s, (E_PANIC, -1))
    end
  | PCloseInit => (s, (E_CLOSE, -1))
  | PCloseConfirm => (s, (OK, -1))
  | PWorldClose ch => if has (chans s) ch then (close_chan s ch, (OK, -1)) else (s, (OK, -1))
  end.

Definition prun (ops : list pop) : pstate := fold_left (fun s o => fst (pstep s o)) ops pinit.

(* =====================================================================  consumer  *)

Record cstate := mkC {
  pclient : option Z;         (* ProviderClientID *)
  pchan : option Z;           (* ProviderChannel *)
  transfer : bool;            (* DistributionTransmissionChannel was set by OnChanOpenAck *)
  cconns : zmap               (* world: connection -> client on the consumer chain *)
}.

(* genesis.go InitGenesis (new chain): provider client = the created client, or the client of the named connection *)
Definition cinit (x : Z) (world : zmap) : cstate := mkC (Some x) None false world.

(* keeper.go VerifyProviderChain *)
Definition verify_provider_chain (s : cstate) (hops : list Z) : Z :=
  match hops with
  | [conn] =>
    match cconns s conn with
    | None => E_CONN
    | Some x =>
      match pclient s with
      | None => E_BADCLIENT
      | Some expected => if negb (expected =? x) then E_BADCLIENT else OK
      end
    end
  | _ => E_HOPS
  end.

(* ibc_module.go OnChanOpenInit: blank version -> default; no provider channel yet; ORDERED, bound port, version;
   counterparty port; VerifyProviderChain *)
Definition c_open_init (s : cstate) (order port version cpport : Z) (hops : list Z) : Z :=
  let version := if version =? VERSION_EMPTY then VERSION_OK else version in
  match pchan s with
  | Some _ => E_DUP
  | None =>
    if negb (order =? ORDERED) then E_ORDER
    else if negb (port =? PORT_CONSUMER) then E_PORT
    else if negb (version =? VERSION_OK) then E_VERSION
    else if negb (cpport =? PORT_PROVIDER) then E_CPPORT
    else verify_provider_chain s hops
  end.

(* ibc_module.go OnChanOpenAck.  md: 0 = well-formed metadata of the supported version, 1 = not decodable,
   anything else = decodable with another version.  Oracles: the transfer channel already exists; the channel
   being acknowledged exists in the channel keeper (needed for its connection hops). *)
Definition c_open_ack (s : cstate) (md : Z) (transfer_exists chan_exists : bool) : cstate * Z :=
  match pchan s with
  | Some _ => (s, E_DUP)
  | None =>
    if md =? 1 then (s, E_METADATA)
    else if negb (md =? 0) then (s, E_VERSION)
    else if transfer_exists then (s, OK)
    else if negb chan_exists then (s, E_CHAN)
    else (mkC (pclient s) (pchan s) true (cconns s), OK)
  end.

(* relay.go OnRecvVSCPacket: a packet on another channel than the provider channel panics; the first packet
   fixes the provider channel *)
Definition c_recv_vsc (s : cstate) (ch : Z) : cstate * Z :=
  match pchan s with
  | Some p => if negb (p =? ch) then (s, E_PANIC) else (s, OK)
  | None => (mkC (pclient s) (Some ch) (transfer s) (cconns s), OK)
  end.

(* ibc_module.go OnChanCloseInit: only duplicate channels may be closed, once the provider channel is known *)
Definition c_close_init (s : cstate) (ch : Z) : Z :=
  match pchan s with
  | Some p => if negb (p =? ch) then OK else E_CLOSE
  | None => E_CLOSE
  end.

Inductive cop :=
| CAddConn (conn x : Z)
| COpenInit (order port version cpport : Z) (hops : list Z)
| COpenTry
| COpenAck (md : Z) (transfer_exists chan_exists : bool)
| COpenConfirm
| CRecvVSC (ch : Z)
| CCloseInit (ch : Z)
| CWorld.                                      (* a world-only action without model state *)

Definition cstep (s : cstate) (o : cop) : cstate * Z :=
  match o with
  | CAddConn conn x =>
    if has (cconns s) conn then (s, OK)
    else (mkC (pclient s) (pchan s) (transfer s) (upd (cconns s) conn x), OK)
  | COpenInit order port version cpport hops => (s, c_open_init s order port version cpport hops)
  | COpenTry => (s, E_FLOW)
  | COpenAck md te ce => c_open_ack s md te ce
  | COpenConfirm => (s, E_FLOW)
  | CRecvVSC ch => c_recv_vsc s ch
  | CCloseInit ch => (s, c_close_init s ch)
  | CWorld => (s, OK)
  end.

Definition crun (s0 : cstate) (ops : list cop) : cstate := fold_left (fun s o => fst (cstep s o)) ops s0.

(* =====================================================================  wire interface

   provider input : [0, [nc, nx, nch], [op...]]      op = [tag, args..., oracle...] (oracles are used by [mon] only)
     [1, chain] [2, conn, x] [3, ch, conn] [4, c, chain, [conn]?, [x, chain_ok]] [5, order, port, cpport, version, [hops], x]
     [6, ch, x] [7] [8] [9, c] [10] [11, ch, x] [12, ch, x] [13, ch, x] [14] [15] [16, ch]
   provider output: per step [result, attributed, [[client, channel, phase] per consumer < nc],
                              [consumer per client < nx], [consumer per channel < nch],
                              [channel end CLOSED per channel < nch]]                          (-1 = none)
   consumer input : [1, [provider client, [[conn, client]...]], [op...]]
     [1, conn, x] [2, order, port, version, cpport, [hops]] [3] [4, md, transfer_exists, chan_exists] [5] [6, ch] [7, ch] [8]
   consumer output: per step [result, provider client, provider channel, transfer]                              *)

Definition oz (o : option Z) : Z := match o with Some z => z | None => -1 end.

Definition decode_pop (t : tree) : pop :=
  let a n := tz (tnth n t) in
  match a 0%nat with
  | 1 => PAddClient (a 1%nat)
  | 2 => PAddConn (a 1%nat) (a 2%nat)
  | 3 => PAddChan (a 1%nat) (a 2%nat)
  | 4 => PLaunch (a 1%nat) (a 2%nat) (to_optz (tnth 3 t))
  | 5 => PTry (a 1%nat) (a 2%nat) (a 3%nat) (a 4%nat) (tzs (tnth 5 t))
  | 6 => PConfirm (a 1%nat)
  | 7 => POpenInit
  | 8 => POpenAck
  | 9 => PStop (a 1%nat)
  | 10 => PPurge
  | 11 => PTimeout (a 1%nat)
  | 12 => PAckErr (a 1%nat)
  | 13 => PRecvSlash (a 1%nat)
  | 14 => PCloseInit
  | 16 => PWorldClose (a 1%nat)
  | _ => PCloseConfirm
  end.

Fixpoint range_from (start : Z) (n : nat) : list Z :=
  match n with O => [] | S k => start :: range_from (start + 1) k end.
Definition range (n : Z) : list Z := range_from 0 (Z.to_nat n).

Definition pobserve (nc nx nch : Z) (s : pstate) (r : Z * Z) : tree :=
  TL [ TI (fst r); TI (snd r);
       TL (map (fun c => of_zs [oz (fwd s c); oz (c2ch s c); phase s c]) (range nc));
       of_zs (map (fun x => oz (rev s x)) (range nx));
       of_zs (map (fun ch => oz (ch2c s ch)) (range nch));
       of_zs (map (fun ch => if closed s ch then 1 else 0) (range nch)) ].

Fixpoint prun_obs (nc nx nch : Z) (s : pstate) (ops : list pop) : list tree :=
  match ops with
  | [] => []
  | o :: rest => let '(s1, r) := pstep s o in pobserve nc nx nch s1 r :: prun_obs nc nx nch s1 rest
  end.

Definition decode_cop (t : tree) : cop :=
  let a n := tz (tnth n t) in
  match a 0%nat with
  | 1 => CAddConn (a 1%nat) (a 2%nat)
  | 2 => COpenInit (a 1%nat) (a 2%nat) (a 3%nat) (a 4%nat) (tzs (tnth 5 t))
  | 3 => COpenTry
  | 4 => COpenAck (a 1%nat) (tbool (tnth 2 t)) (tbool (tnth 3 t))
  | 5 => COpenConfirm
  | 6 => CRecvVSC (a 1%nat)
  | 7 => CCloseInit (a 1%nat)
  | _ => CWorld
  end.

Definition cobserve (s : cstate) (r : Z) : tree :=
  of_zs [r; oz (pclient s); oz (pchan s); if transfer s then 1 else 0].

Fixpoint crun_obs (s : cstate) (ops : list cop) : list tree :=
  match ops with
  | [] => []
  | o :: rest => let '(s1, r) := cstep s o in cobserve s1 r :: crun_obs s1 rest
  end.

Definition world_of (l : list (Z * Z)) : zmap :=
  fold_left (fun m p => if has m (fst p) then m else upd m (fst p) (snd p)) l mempty.

Definition run (t : tree) : tree :=
  if tz (tnth 0 t) =? 0 then
    let b := tnth 1 t in
    TL (prun_obs (tz (tnth 0 b)) (tz (tnth 1 b)) (tz (tnth 2 b)) pinit (map decode_pop (tlist (tnth 2 t))))
  else
    let g := tnth 1 t in
    TL (crun_obs (cinit (tz (tnth 0 g)) (world_of (to_pairs (tnth 1 g)))) (map decode_cop (tlist (tnth 2 t)))).

(* =====================================================================  monitors

   The clauses of C17 evaluated directly on the implementation's observations (the four index getters and the
   phases after every step, the result classes) and the world oracles recorded in the ops. *)

Record pobs := mkO { o_res : Z; o_attr : Z; o_cons : list (list Z); o_rev : list Z; o_ch2c : list Z }.

Definition decode_pobs (t : tree) : pobs :=
  mkO (tz (tnth 0 t)) (tz (tnth 1 t)) (map tzs (tlist (tnth 2 t))) (tzs (tnth 3 t)) (tzs (tnth 4 t)).

Definition nthz (l : list Z) (i : Z) : Z := if i <? 0 then -1 else nth (Z.to_nat i) l (-1).
Definition ofwd (o : pobs) (c : Z) : Z := if c <? 0 then -1 else nthz (nth (Z.to_nat c) (o_cons o) []) 0.
Definition oc2ch (o : pobs) (c : Z) : Z := if c <? 0 then -1 else nthz (nth (Z.to_nat c) (o_cons o) []) 1.
Definition ophase (o : pobs) (c : Z) : Z := if c <? 0 then 0 else nth 2 (nth (Z.to_nat c) (o_cons o) []) 0.
Definition orev (o : pobs) (x : Z) : Z := nthz (o_rev o) x.
Definition och2c (o : pobs) (ch : Z) : Z := nthz (o_ch2c o) ch.
Definition zlen {A} (l : list A) : Z := Z.of_nat (length l).

Definition flag (b : bool) (n : Z) : list Z := if b then [] else [n].

(* bijection clauses on one observation *)
Definition mon_bij (o : pobs) : list Z :=
  let cs := range (zlen (o_cons o)) in
  let xs := range (zlen (o_rev o)) in
  let chs := range (zlen (o_ch2c o)) in
  flag (forallb (fun c => let x := ofwd o c in (x <? 0) || (zlen (o_rev o) <=? x) || (orev o x =? c)) cs) 1 ++
  flag (forallb (fun x => let c := orev o x in (c <? 0) || (ofwd o c =? x)) xs) 2 ++
  flag (forallb (fun c => let ch := oc2ch o c in (ch <? 0) || (zlen (o_ch2c o) <=? ch) || (och2c o ch =? c)) cs) 3 ++
  flag (forallb (fun ch => let c := och2c o ch in (c <? 0) || (oc2ch o c =? ch)) chs) 4.

Definition same_index (a b : pobs) : bool :=
  forallb (fun c => (ofwd a c =? ofwd b c) && (oc2ch a c =? oc2ch b c)) (range (zlen (o_cons a))) &&
  forallb (fun x => orev a x =? orev b x) (range (zlen (o_rev a))) &&
  forallb (fun ch => och2c a ch =? och2c b ch) (range (zlen (o_ch2c a))).

(* a consumer that stays bound keeps its client and its channel *)
Definition stable (a b : pobs) : bool :=
  forallb (fun c => ((ofwd a c <? 0) || (ofwd b c <? 0) || (ofwd a c =? ofwd b c)) &&
                    ((oc2ch a c <? 0) || (oc2ch b c <? 0) || (oc2ch a c =? oc2ch b c)))
          (range (zlen (o_cons a))).

(* a deleted consumer is bound to nothing and nothing is attributed to it (12); it stays deleted (13) *)
Definition mon_deleted (prev o : pobs) : list Z :=
  let cs := range (zlen (o_cons o)) in
  let dead c := (0 <=? c) && (ophase o c =? PH_DELETED) in
  flag (forallb (fun c => negb (dead c) || ((ofwd o c <? 0) && (oc2ch o c <? 0))) cs &&
        forallb (fun ch => negb (dead (och2c o ch))) (range (zlen (o_ch2c o))) &&
        forallb (fun x => negb (dead (orev o x))) (range (zlen (o_rev o))) &&
        negb (dead (o_attr o))) 12 ++
  flag (forallb (fun c => negb (ophase prev c =? PH_DELETED) || (ophase o c =? PH_DELETED)) cs) 13.

(* is client x (>= 0) bound, by both indices, to a consumer without channel in observation o? *)
Definition bound_free (o : pobs) (x : Z) : bool :=
  let c := orev o x in (0 <=? x) && (0 <=? c) && (ofwd o c =? x) && (oc2ch o c <? 0).

Definition mon_step (prev : pobs) (op : tree) (o : pobs) : list Z :=
  let a n := tz (tnth n op) in
  let ok := o_res o =? 0 in
  mon_bij o ++ flag (stable prev o) 11 ++ mon_deleted prev o ++
  match a 0%nat with
  | 4 => (* launch: [4, c, chain, [conn]?, [x, chain_ok]] *)
    let c := a 1%nat in
    match to_optz (tnth 3 op) with
    | Some _ =>
      let x := tz (tnth 0 (tnth 4 op)) in
      flag (negb ok || ((0 <=? x) && (ofwd o c =? x) && (orev o x =? c) &&
                        ((orev prev x <? 0) || (orev prev x =? c)))) 9 ++
      flag (ok || same_index prev o) 7
    | None => flag (negb ok || ((0 <=? ofwd o c) && (orev o (ofwd o c) =? c) && (orev prev (ofwd o c) <? 0))) 9
    end
  | 5 => (* try: [5, order, port, cpport, version, [hops], x] *)
    let expected := (a 1%nat =? ORDERED) && (a 2%nat =? PORT_PROVIDER) && (a 3%nat =? PORT_CONSUMER) &&
                    (a 4%nat =? VERSION_OK) && (zlen (tlist (tnth 5 op)) =? 1) && bound_free prev (a 6%nat) in
    flag (Bool.eqb ok expected) 5 ++ flag (same_index prev o) 7
  | 6 => (* confirm: [6, ch, x] *)
    let ch := a 1%nat in let x := a 2%nat in let c := orev prev x in
    let expected := (0 <=? x) && (0 <=? c) && (oc2ch prev c <? 0) in
    flag (Bool.eqb ok expected) 6 ++
    flag (negb ok || ((oc2ch o c =? ch) && (och2c o ch =? c) && (ofwd prev c =? x))) 6 ++
    flag (ok || same_index prev o) 7
  | 7 | 8 => flag (negb ok) 8 ++ flag (same_index prev o) 7
  | 11 | 12 | 13 => (* attribution: [tag, ch, x] *)
    let ch := a 1%nat in let x := a 2%nat in let c := o_attr o in
    flag (Bool.eqb ok (0 <=? och2c prev ch)) 10 ++
    flag (negb ok || ((c =? och2c prev ch) && (0 <=? x) && (ofwd prev c =? x))) 10 ++
    flag (same_index prev o) 7
  | 10 => []
  | _ => flag (same_index prev o) 7
  end.

Fixpoint mon_steps (prev : pobs) (ops : list tree) (obs : list tree) : list Z :=
  match ops, obs with
  | op :: ops', t :: obs' => let o := decode_pobs t in mon_step prev op o ++ mon_steps o ops' obs'
  | _, _ => []
  end.

Definition pobs0 (nc nx nch : Z) : pobs :=
  mkO 0 (-1) (map (fun _ => [-1; -1; 0]) (range nc)) (map (fun _ => -1) (range nx)) (map (fun _ => -1) (range nch)).

(* consumer monitor: per step [result, provider client, provider channel, transfer] *)
Fixpoint cmon_steps (pc pch : Z) (ops obs : list tree) : list Z :=
  match ops, obs with
  | op :: ops', t :: obs' =>
    let a n := tz (tnth n op) in
    let r := tz (tnth 0 t) in let pc' := tz (tnth 1 t) in let pch' := tz (tnth 2 t) in
    flag (pc' =? pc) 21 ++                                             (* the recorded provider client never changes *)
    flag ((pch <? 0) || (pch' =? pch)) 22 ++                          (* the provider channel, once set, never changes *)
    match a 0%nat with
    | 2 => (* open init accepted only over the provider client: [2, order, port, version, cpport, [hops], x] *)
      let expected := (pch <? 0) && (a 1%nat =? ORDERED) && (a 2%nat =? PORT_CONSUMER) &&
                      ((a 3%nat =? VERSION_OK) || (a 3%nat =? VERSION_EMPTY)) && (a 4%nat =? PORT_PROVIDER) &&
                      (zlen (tlist (tnth 5 op)) =? 1) && (0 <=? a 6%nat) && (a 6%nat =? pc) in
      flag (Bool.eqb (r =? 0) expected) 23 ++ flag (pch' =? pch) 24
    | 3 | 5 => flag (negb (r =? 0)) 25 ++ flag (pch' =? pch) 24
    | 6 => (* recv vsc *)
      let ch := a 1%nat in
      flag (Bool.eqb (r =? 0) ((pch <? 0) || (pch =? ch))) 26 ++
      flag (if r =? 0 then pch' =? ch else pch' =? pch) 26
    | 7 => flag (Bool.eqb (r =? 0) ((0 <=? pch) && negb (pch =? a 1%nat))) 27 ++ flag (pch' =? pch) 24
    | _ => flag (pch' =? pch) 24
    end ++ cmon_steps pc' pch' ops' obs'
  | _, _ => []
  end.

Fixpoint dedup (l : list Z) : list Z :=
  match l with
  | [] => []
  | x :: t => if existsb (Z.eqb x) t then dedup t else x :: dedup t
  end.

Definition mon (t o : tree) : tree :=
  if tz (tnth 0 t) =? 0 then
    let b := tnth 1 t in
    of_zs (dedup (mon_steps (pobs0 (tz (tnth 0 b)) (tz (tnth 1 b)) (tz (tnth 2 b))) (tlist (tnth 2 t)) (tlist o)))
  else
    of_zs (dedup (cmon_steps (tz (tnth 0 (tnth 1 t))) (-1) (tlist (tnth 2 t)) (tlist o))).
