(* Model of jail throttling (C09) and of the consumer's pending-packet / slash-record /
   outstanding-downtime state machine (C09 consumer half, C08 "outstanding" clause).

   Provider:  x/ccv/provider/keeper/throttle.go  GetSlashMeterAllowance, ReplenishSlashMeter,
              CheckForSlashMeterReplenishment (BeginBlockCIS), and the meter part of
              x/ccv/provider/keeper/relay.go OnRecvSlashPacket (negative-meter bounce, deduction
              BEFORE handling).
   Consumer:  x/ccv/consumer/keeper/relay.go QueueSlashPacket, SendPackets, OnAcknowledgementPacket,
              OnRecvVSCPacket (slash acks, pending changes); throttle_retry.go PacketSendingPermitted,
              UpdateSlashRecordOnSend/OnBounce, ClearSlashRecord; keeper.go AppendPendingPacket,
              DeleteHeadOfPendingPackets, outstanding-downtime flags; validators.go
              ApplyCCValidatorChanges; module.go EndBlock (SendPackets, then pending changes).

   Oracle inputs (carried by the ops): block time, staking's last total power, the effective power
   of the reported validator, whether a packet reaches the meter check at all (decided by the C08
   chain), IBC send failures, acknowledgement results, contents of received VSC packets. *)
From Coq Require Import ZArith List Bool.
From ICS Require Import Base.Dec Base.SortDesc Base.Tree.
Import ListNotations.
Open Scope Z_scope.

(* ================================================================ provider slash meter *)

Record pstate := mkP { meter : Z; cand : Z }.

(* GetSlashMeterAllowance: decFrac.MulInt(totalPower).RoundInt64(), zero -> 1 *)
Definition allowance (frac total : Z) : Z :=
  let r := dround_int (dmul_int frac total) in
  if r =? 0 then 1 else r.

(* ReplenishSlashMeter: meter += allowance; if meter > allowance then meter = allowance *)
Definition replenish (a : Z) (s : pstate) : pstate :=
  let m := meter s + a in
  mkP (if a <? m then a else m) (cand s).

(* is a replenishment due?  !ctx.BlockTime().Before(candidate) *)
Definition due (now : Z) (s : pstate) : bool := negb (now <? cand s).

(* CheckForSlashMeterReplenishment *)
Definition begin_block (frac period now total : Z) (s : pstate) : pstate :=
  let a := allowance frac total in
  let s1 := if due now s then mkP (meter (replenish a s)) (now + period) else s in
  if a <=? meter s1 then mkP a (now + period) else s1.

(* OnRecvSlashPacket, meter part: meter.IsNegative() -> bounce; else meter -= effective power *)
Definition recv_meter (pow : Z) (s : pstate) : bool * pstate :=
  if meter s <? 0 then (false, s) else (true, mkP (meter s - pow) (cand s)).

Inductive pop :=
| PBegin (now total : Z)
| PRecv (reach : bool) (pow : Z).   (* reach: the packet passed validation, phase and membership checks *)

Definition pstep (frac period : Z) (s : pstate) (op : pop) : pstate :=
  match op with
  | PBegin now total => begin_block frac period now total s
  | PRecv reach pow => if reach then snd (recv_meter pow s) else s
  end.

(* result class of a packet w.r.t. the meter: 0 not reached, 2 handled (deducted), 3 bounced *)
Definition presult (s : pstate) (op : pop) : Z :=
  match op with
  | PBegin _ _ => 0
  | PRecv reach pow => if reach then (if fst (recv_meter pow s) then 2 else 3) else 0
  end.

(* accounting of a window of a run: D = power deducted, R = allowances of the replenishments
   that happened, L = power of the last validator whose packet was handled *)
Record pacc := mkA { a_st : pstate; a_D : Z; a_R : Z; a_L : Z }.

Definition pstep_acc (frac period : Z) (a : pacc) (op : pop) : pacc :=
  let s := a_st a in
  let s' := pstep frac period s op in
  match op with
  | PBegin now total =>
      mkA s' (a_D a) (a_R a + (if due now s then allowance frac total else 0)) (a_L a)
  | PRecv reach pow =>
      if reach && fst (recv_meter pow s) then mkA s' (a_D a + pow) (a_R a) pow
      else mkA s' (a_D a) (a_R a) (a_L a)
  end.

Definition pwindow (frac period : Z) (s : pstate) (ops : list pop) : pacc :=
  fold_left (pstep_acc frac period) ops (mkA s 0 0 0).

(* times of the replenishments of a run *)
Fixpoint replenish_times (frac period : Z) (s : pstate) (ops : list pop) : list Z :=
  match ops with
  | [] => []
  | op :: t =>
    let r := replenish_times frac period (pstep frac period s op) t in
    match op with
    | PBegin now _ => if due now s then now :: r else r
    | PRecv _ _ => r
    end
  end.

(* block times of a history, for the monotonicity hypothesis *)
Fixpoint ptimes (ops : list pop) : list Z :=
  match ops with
  | [] => []
  | PBegin now _ :: t => now :: ptimes t
  | PRecv _ _ :: t => ptimes t
  end.

(* ================================================================ consumer state machine *)

(* kind: 1 downtime slash, 2 vsc matured, 3 double-sign slash *)
Record pkt := mkPkt { p_kind : Z; p_id : Z; p_addr : Z }.
Definition is_slash (p : pkt) : bool := negb (p_kind p =? 2).
Definition is_downtime_for (a : Z) (p : pkt) : bool := (p_kind p =? 1) && (p_addr p =? a).

Definition memz (x : Z) (l : list Z) : bool := existsb (Z.eqb x) l.
Definition remz (x : Z) (l : list Z) : list Z := filter (fun y => negb (y =? x)) l.
Definition addz (x : Z) (l : list Z) : list Z := if memz x l then l else x :: l.

Record cstate := mkC {
  queue : list pkt;              (* pending packets, FIFO (store index order) *)
  srec : option (bool * Z);      (* slash record: (WaitingOnReply, SendTime) *)
  chan : bool;                   (* provider channel established *)
  closed : bool;                 (* CCV channel closed by an error acknowledgement *)
  outst : list Z;                (* outstanding-downtime flags (consensus addresses) *)
  ccvals : list Z;               (* cross-chain validators *)
  pend : list (Z * Z)            (* pending validator changes (address, power) *)
}.

Definition cinit (ch : bool) : cstate := mkC [] None ch false [] [] [].

Inductive cop :=
| CQueueSlash (addr id : Z) (downtime : bool)
| CQueueVsc (id : Z)
| CSend (now : Z) (fail : option nat)          (* fail = Some k: the (k+1)-th SendPacket call of this block fails *)
| CAck (kind res : Z)                          (* res: 1 v1, 2 handled, 3 bounced, 4 error ack, 5 unknown result byte, 6 result of wrong length *)
| CRecvVSC (acks : list Z) (changes : list (Z * Z))
| CApply.

(* PacketSendingPermitted: no record -> true; waiting -> false; else BlockTime.After(SendTime + delay) *)
Definition permitted (delay now : Z) (r : option (bool * Z)) : bool :=
  match r with
  | None => true
  | Some (true, _) => false
  | Some (false, t) => t + delay <? now
  end.

(* SendPackets loop over the pending queue. Returns (packets handed to IBC, remaining queue, record). *)
Fixpoint send_loop (delay now : Z) (sendfails : bool) (fail : option nat) (r : option (bool * Z)) (q : list pkt)
  : list pkt * list pkt * option (bool * Z) :=
  match q with
  | [] => ([], [], r)
  | p :: t =>
    if negb (permitted delay now r) then ([], q, r)
    else
      let fails_now := sendfails || match fail with Some O => true | _ => false end in
      if fails_now then ([], q, r)                       (* both error branches break and keep the data *)
      else if is_slash p then ([p], q, Some (true, now)) (* UpdateSlashRecordOnSend; break; slash stays at head *)
      else
        let '(s, q', r') := send_loop delay now sendfails (option_map Nat.pred fail) r t in
        (p :: s, q', r')                                 (* vsc matured: sent and deleted *)
  end.

(* DeleteHeadOfPendingPackets *)
Definition delete_head (q : list pkt) : list pkt := tl q.

(* AccumulateChanges (map semantics: later entry for the same key overrides) *)
Fixpoint acc_one (c : Z * Z) (l : list (Z * Z)) : list (Z * Z) :=
  match l with
  | [] => [c]
  | x :: t => if fst x =? fst c then c :: t else x :: acc_one c t
  end.
Definition acc_changes (cur new : list (Z * Z)) : list (Z * Z) := fold_left (fun l c => acc_one c l) new cur.

(* ApplyCCValidatorChanges on (ccvals, outstanding flags) *)
Fixpoint apply_changes (ch : list (Z * Z)) (cc o : list Z) : list Z * list Z :=
  match ch with
  | [] => (cc, o)
  | (a, p) :: t =>
    if memz a cc then (if p <? 1 then apply_changes t (remz a cc) o else apply_changes t cc o)
    else if 0 <? p then apply_changes t (a :: cc) (remz a o)     (* new validator: DeleteOutstandingDowntime *)
    else apply_changes t cc o
  end.

(* addresses for which ApplyCCValidatorChanges creates a new validator *)
Fixpoint created (ch : list (Z * Z)) (cc : list Z) : list Z :=
  match ch with
  | [] => []
  | (a, p) :: t =>
    if memz a cc then (if p <? 1 then created t (remz a cc) else created t cc)
    else if 0 <? p then a :: created t (a :: cc)
    else created t cc
  end.

(* one step; returns (new state, packets handed to IBC, result code 0 ok / 1 failed-and-rolled-back) *)
Definition cstep_out (delay : Z) (s : cstate) (op : cop) : cstate * list pkt * Z :=
  match op with
  | CQueueSlash a id dt =>
      (* QueueSlashPacket: outstanding-downtime guard, set flag, AppendPendingPacket *)
      if dt && memz a (outst s) then (s, [], 0)
      else
        let o := if dt then addz a (outst s) else outst s in
        (mkC (queue s ++ [mkPkt (if dt then 1 else 3) id a]) (srec s) (chan s) (closed s) o (ccvals s) (pend s), [], 0)
  | CQueueVsc id =>
      (mkC (queue s ++ [mkPkt 2 id 0]) (srec s) (chan s) (closed s) (outst s) (ccvals s) (pend s), [], 0)
  | CSend now fail =>
      if negb (chan s) then (s, [], 0)
      else
        let '(sent, q', r') := send_loop delay now (closed s) fail (srec s) (queue s) in
        (mkC q' r' (chan s) (closed s) (outst s) (ccvals s) (pend s), sent, 0)
  | CAck kind res =>
      if (res =? 4) then
        (* error acknowledgement: ChanCloseInit; without provider channel the callback fails *)
        if chan s && negb (closed s) then (mkC (queue s) (srec s) (chan s) true (outst s) (ccvals s) (pend s), [], 0)
        else (s, [], 1)                                            (* ChanCloseInit fails on a closed channel *)
      else if res =? 6 then (s, [], 1)
      else if kind =? 2 then (s, [], 0)
      else if (res =? 1) || (res =? 2) then
        (mkC (delete_head (queue s)) None (chan s) (closed s) (outst s) (ccvals s) (pend s), [], 0)
      else if res =? 3 then
        match srec s with
        | None => (s, [], 1)                                      (* panic: no slash record *)
        | Some (_, t) => (mkC (queue s) (Some (false, t)) (chan s) (closed s) (outst s) (ccvals s) (pend s), [], 0)
        end
      else (s, [], 1)
  | CRecvVSC acks changes =>
      (* OnRecvVSCPacket: establish channel, accumulate changes, DeleteOutstandingDowntime for each ack *)
      let o := fold_left (fun o a => remz a o) acks (outst s) in
      (mkC (queue s) (srec s) true (closed s) o (ccvals s) (acc_changes (pend s) changes), [], 0)
  | CApply =>
      let '(cc, o) := apply_changes (pend s) (ccvals s) (outst s) in
      (mkC (queue s) (srec s) (chan s) (closed s) o cc [], [], 0)
  end.

Definition cstep (delay : Z) (s : cstate) (op : cop) : cstate := fst (fst (cstep_out delay s op)).
Definition csent (delay : Z) (s : cstate) (op : cop) : list pkt := snd (fst (cstep_out delay s op)).

(* packets appended to the queue by an op *)
Definition cenq (s : cstate) (op : cop) : list pkt :=
  match op with
  | CQueueSlash a id dt => if dt && memz a (outst s) then [] else [mkPkt (if dt then 1 else 3) id a]
  | CQueueVsc id => [mkPkt 2 id 0]
  | _ => []
  end.

(* IBC delivers exactly one acknowledgement per sent packet: a result for a slash packet arrives
   only while the record says "waiting on reply" *)
Definition ack_ok (s : cstate) (op : cop) : bool :=
  match op with
  | CAck kind res =>
      if (kind =? 2) || (res =? 4) || (res =? 5) || (res =? 6) then true
      else match srec s with Some (true, _) => true | _ => false end
  | _ => true
  end.

(* sequence of distinct packets handed to IBC: a packet equal to the last one is a re-send *)
Definition push (acc : list Z) (x : Z) : list Z :=
  match rev acc with
  | y :: _ => if y =? x then acc else acc ++ [x]
  | [] => [x]
  end.
Definition collapse (l : list Z) : list Z := fold_left push l [].

(* instrumented run: state, everything ever enqueued, ids of everything ever handed to IBC *)
Record ghost := mkG { g_s : cstate; g_enq : list pkt; g_sent : list Z }.
Definition gstep (delay : Z) (g : ghost) (op : cop) : ghost :=
  mkG (cstep delay (g_s g) op) (g_enq g ++ cenq (g_s g) op) (g_sent g ++ map p_id (csent delay (g_s g) op)).
Definition grun (delay : Z) (g : ghost) (ops : list cop) : ghost := fold_left (gstep delay) ops g.

Fixpoint wf_acks (delay : Z) (s : cstate) (ops : list cop) : bool :=
  match ops with
  | [] => true
  | op :: t => ack_ok s op && wf_acks delay (cstep delay s op) t
  end.

(* does [op] clear the outstanding-downtime flag of [a]? *)
Definition clearing_op (s : cstate) (op : cop) (a : Z) : bool :=
  match op with
  | CRecvVSC acks _ => memz a acks
  | CApply => memz a (created (pend s) (ccvals s))
  | _ => false
  end.

(* number of downtime reports for [a] enqueued along a run, and whether a clearing op occurs *)
Fixpoint enq_count (delay : Z) (a : Z) (s : cstate) (ops : list cop) : Z :=
  match ops with
  | [] => 0
  | op :: t => Z.of_nat (length (filter (is_downtime_for a) (cenq s op))) + enq_count delay a (cstep delay s op) t
  end.
Fixpoint no_clear (delay : Z) (a : Z) (s : cstate) (ops : list cop) : bool :=
  match ops with
  | [] => true
  | op :: t => negb (clearing_op s op a) && no_clear delay a (cstep delay s op) t
  end.
(* a clearing op for [a] never happens while a downtime report for [a] is still queued *)
Fixpoint ordered_clears (delay : Z) (a : Z) (s : cstate) (ops : list cop) : bool :=
  match ops with
  | [] => true
  | op :: t => (negb (clearing_op s op a) || negb (existsb (is_downtime_for a) (queue s)))
               && ordered_clears delay a (cstep delay s op) t
  end.
Definition queued_for (a : Z) (s : cstate) : Z := Z.of_nat (length (filter (is_downtime_for a) (queue s))).

(* ================================================================ wire interface *)

Definition to_optnat (t : tree) : option nat :=
  match tlist t with x :: _ => Some (Z.to_nat (tz x)) | [] => None end.

(* GetEffectiveValPower (throttle.go): validator not found or jailed -> 0, else staking's LastValidatorPower (which is
   refreshed only by the staking end-blocker, hence still non-zero for a validator jailed earlier in the same block) *)
Definition eff_pow (found jailed : bool) (lastpow : Z) : Z := if negb found || jailed then 0 else lastpow.

(* wire: [1, now, total] | [2, reach, found, jailed, lastpower, can_jail]  (staking state of the reported validator
   before the packet; can_jail = known, not unbonded, not tombstoned, consumer has infraction parameters) *)
Definition dec_pop (t : tree) : pop :=
  if tz (tnth 0 t) =? 1 then PBegin (tz (tnth 1 t)) (tz (tnth 2 t))
  else PRecv (tbool (tnth 1 t)) (eff_pow (tbool (tnth 2 t)) (tbool (tnth 3 t)) (tz (tnth 4 t))).

(* one wire action = a group of ops observed together; the consumer's EndBlock (code 3) is SendPackets
   followed by ApplyCCValidatorChanges on the pending changes *)
Definition dec_cop (t : tree) : list cop :=
  let c := tz (tnth 0 t) in
  if c =? 1 then [CQueueSlash (tz (tnth 1 t)) (tz (tnth 2 t)) (tbool (tnth 3 t))]
  else if c =? 2 then [CQueueVsc (tz (tnth 1 t))]
  else if c =? 3 then [CSend (tz (tnth 1 t)) (to_optnat (tnth 2 t)); CApply]
  else if c =? 4 then [CAck (tz (tnth 1 t)) (tz (tnth 2 t))]
  else if c =? 5 then [CRecvVSC (tzs (tnth 1 t)) (to_pairs (tnth 2 t))]
  else [CApply].

(* provider observation per op: [class, meter, candidate, allowance (begin-block only, else 0)] *)
Fixpoint prun (frac period : Z) (s : pstate) (ops : list pop) : list tree :=
  match ops with
  | [] => []
  | op :: t =>
    let s' := pstep frac period s op in
    TL [TI (presult s op); TI (meter s'); TI (cand s');
        TI (match op with PBegin _ total => allowance frac total | _ => 0 end)]
    :: prun frac period s' t
  end.

Definition of_pkt (p : pkt) : tree := TL [TI (p_kind p); TI (p_id p); TI (p_addr p)].
Definition of_rec (r : option (bool * Z)) : tree :=
  match r with None => TL [] | Some (w, t) => TL [of_bool w; TI t] end.
Definition zid (x : Z) : Z := x.

(* consumer observation per op: [rc, sent ids, queue, record, flags desc, ccvals desc, channel?] *)
Definition cobs (s : cstate) (sent : list pkt) (rc : Z) : tree :=
  TL [TI rc; of_zs (map p_id sent); TL (map of_pkt (queue s)); of_rec (srec s);
      of_zs (sort_desc zid (outst s)); of_zs (sort_desc zid (ccvals s)); of_bool (chan s)].

Fixpoint cgroup (delay : Z) (s : cstate) (ops : list cop) : cstate * list pkt * Z :=
  match ops with
  | [] => (s, [], 0)
  | op :: t =>
    let '(s1, sent1, rc1) := cstep_out delay s op in
    let '(s2, sent2, rc2) := cgroup delay s1 t in
    (s2, sent1 ++ sent2, Z.max rc1 rc2)
  end.

Fixpoint crun (delay : Z) (s : cstate) (groups : list (list cop)) : list tree :=
  match groups with
  | [] => []
  | g :: t =>
    let '(s', sent, rc) := cgroup delay s g in
    cobs s' sent rc :: crun delay s' t
  end.

(* input: [1, [frac, period], [meter0, cand0], ops]  |  [2, [delay, chan0], ops] *)
Definition run (t : tree) : tree :=
  if tz (tnth 0 t) =? 1 then
    let cfg := tnth 1 t in let st := tnth 2 t in
    TL (prun (tz (tnth 0 cfg)) (tz (tnth 1 cfg)) (mkP (tz (tnth 0 st)) (tz (tnth 1 st)))
             (map dec_pop (tlist (tnth 3 t))))
  else
    let cfg := tnth 1 t in
    TL (crun (tz (tnth 0 cfg)) (cinit (tbool (tnth 1 cfg))) (map dec_cop (tlist (tnth 2 t)))).

(* ================================================================ monitors on implementation observations *)

Definition flag (b : bool) (n : Z) : list Z := if b then [] else [n].

(* --- provider.  Observations give (class, meter, cand, allowance) after each op. --- *)
Record pmon := mkPM {
  pm_meter : Z; pm_cand : Z;
  pm_lastrep : option Z;                 (* time of the last observed meter increase *)
  pm_pts : list (Z * Z * Z * Z);         (* per earlier point i: (meter_i, D, R, L) accumulated since i *)
  pm_bad : list Z }.

Definition upd_pts (pts : list (Z * Z * Z * Z)) (d r : Z) (l : option Z) : list (Z * Z * Z * Z) :=
  map (fun '(m, D, R, L) => (m, D + d, R + r, match l with Some x => x | None => L end)) pts.

Definition pmon_step (frac period : Z) (st : pmon) (opt : tree) (o : tree) : pmon :=
  let op := dec_pop opt in
  let cls := tz (tnth 0 o) in let m' := tz (tnth 1 o) in let c' := tz (tnth 2 o) in let al := tz (tnth 3 o) in
  let m := pm_meter st in
  match op with
  | PBegin now total =>
      let isdue := negb (now <? pm_cand st) in
      let inc := m <? m' in
      let bad :=
        flag (m' <=? al) 1 ++
        flag ((1 <=? al) && (al =? allowance frac total)) 2 ++
        flag (negb inc || (isdue && (m' - m <=? al) &&
                           match pm_lastrep st with Some t0 => t0 + period <=? now | None => true end)) 3 ++
        flag (isdue || (m' =? Z.min m al)) 7 in
      let pts := upd_pts (pm_pts st) 0 (if isdue then al else 0) None in
      mkPM m' c' (if inc then Some now else pm_lastrep st) (pts ++ [(m', 0, 0, 0)]) (pm_bad st ++ bad)
  | PRecv reach pow =>
      let ded := m - m' in
      let bad :=
        flag (if reach then (if m <? 0 then cls =? 3 else negb (cls =? 3)) else negb (cls =? 3)) 4 ++
        flag (if reach && negb (m <? 0) then m' =? m - pow else m' =? m) 5 in
      let pts := if 0 <? ded then upd_pts (pm_pts st) ded 0 (Some ded) else pm_pts st in
      let wbad := flag (forallb (fun '(mi, D, R, L) => D <=? Z.max 0 (mi + R) + L) pts) 6 in
      (* 10: the meter is charged the JAILED validator's power: a packet that lowers the meter must jail the reported
             validator (observation field 4), unless that validator could not be jailed for a reason that does not occur
             on a real chain (tombstoned but not jailed, unbonded with last power, consumer without infraction parameters);
             in particular a packet for an already jailed validator never lowers the meter *)
      let jailed_before := tbool (tnth 3 opt) in let can_jail := tbool (tnth 5 opt) in
      let jbad := flag (negb (0 <? ded) || tbool (tnth 4 o) || (negb jailed_before && negb can_jail)) 10 in
      mkPM m' c' (pm_lastrep st) (pts ++ [(m', 0, 0, 0)]) (pm_bad st ++ bad ++ wbad ++ jbad)
  end.

Fixpoint pmon_run (frac period : Z) (st : pmon) (ops : list tree) (obs : list tree) : pmon :=
  match ops, obs with
  | op :: t, o :: ot => pmon_run frac period (pmon_step frac period st op o) t ot
  | _, _ => st
  end.

(* --- consumer.  Observations give the full visible state after each op. --- *)
Definition to_pkt (t : tree) : pkt := mkPkt (tz (tnth 0 t)) (tz (tnth 1 t)) (tz (tnth 2 t)).
Definition to_rec (t : tree) : option (bool * Z) :=
  match tlist t with w :: x :: _ => Some (tbool w, tz x) | _ => None end.
Definition pkt_eqb (a b : pkt) : bool := (p_kind a =? p_kind b) && (p_id a =? p_id b) && (p_addr a =? p_addr b).
Fixpoint list_eqb {A} (eqb : A -> A -> bool) (a b : list A) : bool :=
  match a, b with
  | [], [] => true
  | x :: s, y :: t => eqb x y && list_eqb eqb s t
  | _, _ => false
  end.
Fixpoint is_prefix (a b : list Z) : bool :=
  match a, b with
  | [], _ => true
  | x :: s, y :: t => (x =? y) && is_prefix s t
  | _, [] => false
  end.
Definition is_nil (l : list Z) : bool := match l with [] => true | _ => false end.
(* of the first n packets of q all but the last are vsc-matured packets *)
Fixpoint sent_shape (n : nat) (q : list pkt) : bool :=
  match n, q with
  | O, _ => true
  | S O, _ :: _ => true
  | S n', p :: t => negb (is_slash p) && sent_shape n' t
  | S _, [] => false
  end.

Record cmon := mkCM {
  cm_q : list pkt; cm_rec : option (bool * Z); cm_out : list Z; cm_cc : list Z;
  cm_enq : list Z; cm_sent : list Z; cm_wf : bool; cm_bad : list Z }.

Definition cmon_step (delay : Z) (st : cmon) (op : cop) (o : tree) : cmon :=
  let rc := tz (tnth 0 o) in
  let sent := tzs (tnth 1 o) in
  let q' := map to_pkt (tlist (tnth 2 o)) in
  let r' := to_rec (tnth 3 o) in
  let out' := tzs (tnth 4 o) in
  let cc' := tzs (tnth 5 o) in
  let q := cm_q st in let r := cm_rec st in
  let headid := match q with p :: _ => [p_id p] | [] => [] end in
  let same_q := list_eqb pkt_eqb q q' in
  let flags_kept := forallb (fun a => memz a out') (cm_out st) in
  let bad :=
    match op with
    | CQueueSlash a idv dt =>
        flag (is_nil sent) 1 ++
        (if dt && memz a (cm_out st)
         then flag same_q 8                                             (* guard: nothing queued *)
         else flag (list_eqb pkt_eqb q' (q ++ [mkPkt (if dt then 1 else 3) idv a])) 8 ++
              flag (negb dt || memz a out') 9) ++
        flag flags_kept 10
    | CQueueVsc idv =>
        flag (is_nil sent) 1 ++ flag (list_eqb pkt_eqb q' (q ++ [mkPkt 2 idv 0])) 8 ++ flag flags_kept 10
    | CSend now _ =>
        (* 1: nothing sent while waiting; 2: nothing before the retry delay has elapsed, and a retry is the head alone;
           3: sent packets are the leading vsc-matured packets in queue order, then at most the first slash packet;
           4: the queue loses exactly the vsc-matured packets sent, a slash packet stays at the head *)
        let k := length (filter (fun p => negb (is_slash p)) (firstn (length sent) q)) in
        flag (match r with Some (true, _) => is_nil sent | _ => true end) 1 ++
        flag (match r with
              | Some (false, t) => if t + delay <? now then is_nil sent || list_eqb Z.eqb sent headid
                                   else is_nil sent
              | _ => true end) 2 ++
        flag (is_prefix sent (map p_id q) && sent_shape (length sent) q) 3 ++
        flag (list_eqb pkt_eqb q' (skipn k q)) 4 ++
        flag flags_kept 10
    | CAck kind res =>
        (* 5: the head is deleted exactly on a v1/handled result for a slash packet; nothing else touches the queue *)
        flag (is_nil sent) 1 ++
        flag (if (rc =? 0) && negb (kind =? 2) && ((res =? 1) || (res =? 2))
              then list_eqb pkt_eqb q' (tl q) else same_q) 5 ++
        flag flags_kept 10
    | CRecvVSC acks _ =>
        flag (is_nil sent) 1 ++ flag same_q 5 ++
        flag (forallb (fun a => negb (memz a out')) (filter (fun a => 0 <=? a) acks)) 11 ++
        flag (forallb (fun a => memz a out' || memz a acks) (cm_out st)) 10
    | CApply =>
        flag (is_nil sent) 1 ++ flag same_q 5 ++
        flag (forallb (fun a => memz a out' || (negb (memz a (cm_cc st)) && memz a cc')) (cm_out st)) 10
    end in
  let enq' := cm_enq st ++ map p_id (skipn (length q) q') in
  let sent' := cm_sent st ++ sent in
  let wf' := cm_wf st && ack_ok (mkC q r true false [] [] []) op in
  (* 6: FIFO, no drop, no duplicate: the distinct packets handed to IBC are exactly the consumed prefix of
        everything enqueued, plus the in-flight head *)
  let consumed := firstn (length enq' - length q') enq' in
  let infl := match r' with Some _ => firstn 1 (map p_id q') | None => [] end in
  let fifo := flag (negb wf' ||
                    (list_eqb Z.eqb (collapse sent') (consumed ++ infl) &&
                     list_eqb Z.eqb enq' (consumed ++ map p_id q'))) 6 in
  mkCM q' r' out' cc' enq' sent' wf' (cm_bad st ++ bad ++ fifo).

(* a group of two ops (EndBlock = send, then apply) is observed once: the send does not touch flags and validators,
   the apply does not touch queue, record and sent packets, so the intermediate observation is determined *)
Definition cmon_group (delay : Z) (st : cmon) (g : list cop) (o : tree) : cmon :=
  match g with
  | [op] => cmon_step delay st op o
  | [op1; op2] =>
    let mid := TL [tnth 0 o; tnth 1 o; tnth 2 o; tnth 3 o; of_zs (cm_out st); of_zs (cm_cc st); tnth 6 o] in
    let fin := TL [TI 0; TL []; tnth 2 o; tnth 3 o; tnth 4 o; tnth 5 o; tnth 6 o] in
    cmon_step delay (cmon_step delay st op1 mid) op2 fin
  | _ => st
  end.

Fixpoint cmon_run (delay : Z) (st : cmon) (groups : list (list cop)) (obs : list tree) : cmon :=
  match groups, obs with
  | g :: t, o :: ot => cmon_run delay (cmon_group delay st g o) t ot
  | _, _ => st
  end.

Definition mon (t o : tree) : tree :=
  if tz (tnth 0 t) =? 1 then
    let cfg := tnth 1 t in let st := tnth 2 t in
    let ops := tlist (tnth 3 t) in
    let m0 := tz (tnth 0 st) in
    of_zs (nodup Z.eq_dec
      (flag (Nat.eqb (length ops) (length (tlist o))) 99 ++
       pm_bad (pmon_run (tz (tnth 0 cfg)) (tz (tnth 1 cfg))
                 (mkPM m0 (tz (tnth 1 st)) None [(m0, 0, 0, 0)] []) ops (tlist o))))
  else
    let cfg := tnth 1 t in
    let ops := map dec_cop (tlist (tnth 2 t)) in
    of_zs (nodup Z.eq_dec
      (flag (Nat.eqb (length ops) (length (tlist o))) 99 ++
       cm_bad (cmon_run (tz (tnth 0 cfg)) (mkCM [] None [] [] [] [] true []) ops (tlist o)))).
