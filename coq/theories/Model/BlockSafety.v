(* Component of property C19 (block processing never fails; a failing consumer operation is rolled back).
   The model is Model/Lifecycle.v itself: [run] is Lifecycle.run on the history that ends with the block in which a
   fault was injected (the launch / send oracles of that block say which consumer's operation failed).  The monitor
   adds the clauses that compare the faulty block with the fault-free reference run of the same block:
     input = [ U, ops, [waive13], units, reference consumers, reference queues ]
       waive13  : the injected fault is ChanCloseInit itself (the channel cannot be closed; clause 13 does not apply)
       units    : [[pre, ref, faulty] ...] digests of the reward-allocation records per consumer before the block,
                  after the reference block and after the faulty block
       reference consumers : the consumer observations after the fault-free block
   Clause numbers (in addition to those of Lifecycle.mon):
    20 a reward allocation is neither completely done (as in the reference run) nor completely rolled back
    22 more than one consumer differs from the fault-free run: the failure of one consumer's operation leaked
       into another consumer
   Only definitions here. *)
From Coq Require Import ZArith List Bool.
From ICS Require Import Base.Tree Model.Lifecycle.
Import ListNotations.
Open Scope Z_scope.

Fixpoint tree_eqb (a b : tree) : bool :=
  match a, b with
  | TI x, TI y => x =? y
  | TL l, TL m =>
    (fix go (l m : list tree) : bool :=
       match l, m with
       | [], [] => true
       | x :: l', y :: m' => tree_eqb x y && go l' m'
       | _, _ => false
       end) l m
  | _, _ => false
  end.

Definition run (input : tree) : tree := Lifecycle.run input.

Definition last_tree (l : list tree) : tree := last l (TL []).

(* the consumers of the last snapshot that differ from the reference run *)
Definition differing (ref cur : list tree) : list Z :=
  map (fun p => tz (tnth 0 (snd p)))
      (filter (fun p => negb (tree_eqb (fst p) (snd p))) (combine ref cur)).

Definition mon (input implobs : tree) : tree :=
  let base := tzs (Lifecycle.mon input implobs) in
  let waive13 := tbool (tnth 0 (tnth 2 input)) in
  let units := tlist (tnth 3 input) in
  let ref := tlist (tnth 4 input) in
  let cur := tlist (tnth 2 (last_tree (tlist (tnth 0 implobs)))) in
  let c20 := flag 20 (forallb (fun u => tree_eqb (tnth 2 u) (tnth 1 u) || tree_eqb (tnth 2 u) (tnth 0 u)) units) in
  let udiff := filter (fun u => negb (tree_eqb (tnth 2 u) (tnth 1 u))) units in
  let c22 := flag 22 (Nat.eqb (length ref) (length cur) && (length (differing ref cur) + length udiff <=? 1)%nat) in
  of_zs (filter (fun x => negb (waive13 && (x =? 13))) base ++ c20 ++ c22).
