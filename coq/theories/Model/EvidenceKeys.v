(* Composition of two component models (DESIGN.md 2.2, growth towards one system model):
     Model/KeyAssign.v  consumer-key assignment, pruning, lifecycle phases, staking registry (C05, C06), and
     Model/Evidence.v   the provider's handling of consumer equivocation evidence (C07).
   In Evidence.v the consumer record carries the table consumer address -> provider validator as an ORACLE
   (c_keys).  Here it is COMPUTED: HandleConsumerDoubleVoting / HandleConsumerMisbehaviour call
   GetProviderAddrFromConsumerAddr = KeyAssign.resolve on the key-assignment state of that moment; the result
   (the [target]) is what Evidence's handlers see.  "The consumer has a client" is KeyAssign's c_client (set at
   launch, deleted by DeleteConsumerChain), so evidence is handled for LAUNCHED and for STOPPED-not-deleted
   consumers alike: evidence handling has no phase check.

   IDENTITY MAPPING (as in Model/SlashKeys.v).  KeyAssign names a validator inside a consumer by its provider
   consensus key P and staking validators by (operator o, provider key P).  Evidence names validators by an index
   into its validator table.  In the composition the index IS the provider key id: row P is the staking validator
   whose consensus key is P, and it is visible to the evidence handlers iff some registered operator has provider
   key P (otherwise the target is -1: GetValidatorByConsAddr fails).  Creating a validator installs its row,
   removing it clears the row.  KeyAssign's own [OSlash]/[s_jailed] stand-in is not used.

   Oracles that remain: everything cryptographic / structural about the evidence (Model/Evidence.v), the staking
   record of a new validator, external staking changes, each consumer's chain id / minimum evidence height /
   double-sign parameters (given at registration).  NO resolution oracle.
   Definitions only; lemmas in Proofs/EvidenceKeysProofs.v. *)
From Coq Require Import ZArith List Bool.
From ICS Require Import Base.Dec Base.Tree.
From ICS Require Model.KeyAssign Model.Evidence.
Import ListNotations.
Open Scope Z_scope.

Module K := ICS.Model.KeyAssign.
Module E := ICS.Model.Evidence.

(* a consumer's evidence settings *)
Record ecfg := mkEC { ec_chain : option Z; ec_minh : Z; ec_ds : option E.dsparams }.
Definition ecdflt : ecfg := mkEC None 0 None.

Record sys := mkSys { ks : K.state; vt : list E.vrec; es : list ecfg }.

Definition vdflt : E.vrec := E.mkV 0 false 0 false 0 0 0 0 false [].
Definition init_sys (unb : Z) (nk : nat) : sys := mkSys (K.init unb) (repeat vdflt nk) [].

Definition in_table (s : sys) (key : Z) : bool := (0 <=? key) && (key <? Z.of_nat (length (vt s))).
Definition registered (k : K.state) (P : Z) : bool :=
  match K.reg_by_key P (K.s_reg k) with Some _ => true | None => false end.

(* the validator evidence against consumer address a on consumer c is about: GetProviderAddrFromConsumerAddr,
   then GetValidatorByConsAddr (-1: staking does not know the address) *)
Definition target (s : sys) (c : nat) (a : Z) : Z :=
  let P := K.resolve (ks s) c a in if registered (ks s) P then P else -1.

(* the Evidence state the handlers see for evidence naming the consumer addresses [addrs] *)
Definition cons_view (s : sys) (addrs : list Z) (c : nat) : E.cons :=
  let x := K.getc (ks s) c in
  let g := nth c (es s) ecdflt in
  E.mkC (if K.c_client x then Some (Z.of_nat c) else None) (ec_chain g) (ec_minh g) (ec_ds g)
        (map (fun a => (a, target s c a)) addrs).
Definition view (s : sys) (addrs : list Z) : E.state :=
  E.mkS (K.s_now (ks s)) (vt s) (map (cons_view s addrs) (seq 0 (length (K.s_cons (ks s))))).

Definition setrow (s : sys) (key : Z) (v : E.vrec) : sys :=
  if key <? 0 then s else mkSys (ks s) (E.upd (Z.to_nat key) v (vt s)) (es s).
Definition getrow (s : sys) (key : Z) : option E.vrec :=
  if key <? 0 then None else nth_error (vt s) (Z.to_nat key).

Inductive sop :=
| SKey (a : K.op)                            (* any KeyAssign op except OCreateVal / ORemoveVal / ORegister / OSlash *)
| SRegister (g : ecfg)                       (* MsgCreateConsumer with chain id and infraction parameters *)
| SCreateVal (o key : Z) (v : E.vrec)        (* staking creates a validator (AfterValidatorCreated may abort it) *)
| SRemoveVal (o : Z)
| SExtVal (key : Z) (v : E.vrec)             (* staking / slashing changed validator [key] (tombstone, log kept) *)
| SDoubleVote (entry : Z) (e : E.dv)         (* consumer dv_cons e, consumer address dv_addr e *)
| SMisbehaviour (entry : Z) (m : E.mb).

Definition to_kop (s : sys) (a : sop) : option K.op :=
  match a with
  | SKey (K.OCreateVal _ _) | SKey (K.ORemoveVal _) | SKey K.ORegister | SKey (K.OSlash _ _) => None
  | SKey a => Some a
  | SRegister _ => Some K.ORegister
  | SCreateVal o key _ => if in_table s key then Some (K.OCreateVal o key) else None
  | SRemoveVal o => Some (K.ORemoveVal o)
  | _ => None
  end.

Definition mb_addrs (m : E.mb) : list Z := map E.g_addr (E.mb_sigs2 m).

Definition sstep (s : sys) (a : sop) : sys * Z :=
  match a with
  | SKey (K.OCreateVal _ _) | SKey (K.ORemoveVal _) | SKey K.ORegister | SKey (K.OSlash _ _) => (s, K.E_OTHER)
  | SKey a => let '(k', e) := K.step (ks s) a in (mkSys k' (vt s) (es s), e)
  | SRegister g => (mkSys (fst (K.step (ks s) K.ORegister)) (vt s) (es s ++ [g]), 0)
  | SCreateVal o key v =>
    if negb (in_table s key) then (s, K.E_OTHER) else
    let '(k', e) := K.step (ks s) (K.OCreateVal o key) in
    if e =? 0 then (setrow (mkSys k' (vt s) (es s)) key (E.ext_rec vdflt v), 0) else (s, e)
  | SRemoveVal o =>
    match K.reg_by_oper o (K.s_reg (ks s)) with
    | None => (s, K.E_NOVAL)
    | Some P => (setrow (mkSys (fst (K.step (ks s) (K.ORemoveVal o))) (vt s) (es s)) P vdflt, 0)
    end
  | SExtVal key v =>
    if registered (ks s) key
    then match getrow s key with
         | Some old => (setrow s key (E.ext_rec old v), 0)
         | None => (s, K.E_LIFECYCLE)
         end
    else (s, K.E_LIFECYCLE)
  | SDoubleVote entry e =>
    let '(v', code, _) := E.submit_dv (view s [E.dv_addr e]) entry e in
    (mkSys (ks s) (E.s_vals v') (es s), code)
  | SMisbehaviour entry m =>
    let '(v', code, _) := E.submit_mb (view s (mb_addrs m)) entry m in
    (mkSys (ks s) (E.s_vals v') (es s), code)
  end.

Definition srun (ops : list sop) (s : sys) : sys := fold_left (fun s a => fst (sstep s a)) ops s.

(* the KeyAssign run the composed machine performs *)
Fixpoint ktrace (s : sys) (ops : list sop) : list K.op :=
  match ops with
  | [] => []
  | a :: t => match to_kop s a with
              | Some o => o :: ktrace (fst (sstep s a)) t
              | None => ktrace (fst (sstep s a)) t
              end
  end.

(* ================= wire interface =================
   input  = [ [U, nkeys, nconsumers], [op ...] ]
     op = the encoding of Model/KeyAssign.v for codes 0,1,5,6,7,8,9,10,11, and
          [2,o,key,val]  [3,o]  [4,[chain]|[],minh,[[frac,jail,tomb]]|[]]  [21,key,val]
          [30,entry,dv]  [31,entry,mb]          (val, dv, mb as in Model/Evidence.v)
   output = [ snapshot_0, snapshot_1, ... ]  (initial state, then one per op)
   snapshot = [ result, now, [row of key 0, ...], [[phase, client, [resolve c k ...]] per consumer] ]
   row = [] (no registered validator has this provider key) | val *)
Definition dec_ecfg (t : tree) : ecfg := mkEC (to_optz (tnth 1 t)) (tz (tnth 2 t)) (E.dec_ds (tnth 3 t)).
Definition dec_sop (t : tree) : sop :=
  let code := tz (tnth 0 t) in
  if code =? 2 then SCreateVal (tz (tnth 1 t)) (tz (tnth 2 t)) (E.dec_val (tnth 3 t))
  else if code =? 3 then SRemoveVal (tz (tnth 1 t))
  else if code =? 4 then SRegister (dec_ecfg t)
  else if code =? 21 then SExtVal (tz (tnth 1 t)) (E.dec_val (tnth 2 t))
  else if code =? 30 then SDoubleVote (tz (tnth 1 t)) (E.dec_dv (tnth 2 t))
  else if code =? 31 then SMisbehaviour (tz (tnth 1 t)) (E.dec_mb (tnth 2 t))
  else SKey (K.decode_op t).

Definition obs_row (s : sys) (k : Z) : tree :=
  if registered (ks s) k then match getrow s k with Some v => E.enc_val v | None => TL [] end else TL [].

Definition snapshot (nk nc res : Z) (s : sys) : tree :=
  TL [ TI res; TI (K.s_now (ks s));
       TL (map (obs_row s) (K.zrange nk));
       TL (map (fun c => let x := K.getc (ks s) (Z.to_nat c) in
                         TL [TI (K.c_phase x); of_bool (K.c_client x);
                             of_zs (map (fun k => K.resolve (ks s) (Z.to_nat c) k) (K.zrange nk))]) (K.zrange nc)) ].

Fixpoint run_ops (nk nc : Z) (ops : list sop) (s : sys) : list tree :=
  match ops with
  | [] => []
  | a :: r => let '(s', e) := sstep s a in snapshot nk nc e s' :: run_ops nk nc r s'
  end.

Definition dec_init (c : tree) : sys := init_sys (tz (tnth 0 c)) (Z.to_nat (tz (tnth 1 c))).

Definition run (t : tree) : tree :=
  let c := tnth 0 t in
  let nk := tz (tnth 1 c) in let nc := tz (tnth 2 c) in
  let ops := map dec_sop (tlist (tnth 1 t)) in
  TL (snapshot nk nc 0 (dec_init c) :: run_ops nk nc ops (dec_init c)).

(* ================= monitor =================
   The attribution of the consumer address named by the evidence comes from the KEY-ASSIGNMENT HISTORY (the
   KeyAssign component run on the ops); the validators' records are read from the implementation's own snapshots.
   After a double-voting submission for (c, k), with P := the validator the history attributes k to on c:
     1: a validator other than P changed;   2: accepted but P is not a registered validator, or P's record is not
     the punished record (consumer's parameters, power incl. unbonding / redelegating stake), or rejected and P changed;
     3: the implementation's own resolution of (c, k) before the submission was not P;
     4: result class differs from the one the history, the consumer's settings and P's record imply;
     5: an op other than an evidence submission / validator creation / removal / external change altered a record;
   misbehaviour: 6: a record differs from the one implied by the attribution of every byzantine address. *)
Definition o_rows (t : tree) : list tree := tlist (tnth 2 t).
Definition o_row (t : tree) (k : Z) : tree := if k <? 0 then TL [] else nth (Z.to_nat k) (o_rows t) (TL []).
Definition o_resolve (t : tree) (c : nat) (k : Z) : Z := K.vec_at (tnth 2 (tnth c (tnth 3 t))) k.

Definition rows_same_except (nk : Z) (prev cur : tree) (except : Z) : bool :=
  forallb (fun k => (k =? except) || K.tree_eqb (o_row prev k) (o_row cur k)) (K.zrange nk).

(* the model state with the validators' records taken from an implementation snapshot *)
Definition with_rows (m : sys) (snap : tree) : sys :=
  mkSys (ks m)
        (map (fun kr => match tlist (snd kr) with [] => fst kr | _ => E.dec_val (snd kr) end)
             (combine (vt m) (o_rows snap ++ repeat (TL []) (length (vt m)))))
        (es m).

Definition mon_step (nk : Z) (m : sys) (a : sop) (prev cur : tree) : list Z :=
  match a with
  | SDoubleVote entry e =>
    let c := Z.to_nat (E.dv_cons e) in
    let k := E.dv_addr e in
    let P := K.resolve (ks m) c k in
    let mo := with_rows m prev in
    let '(m2, code) := sstep mo a in
    let known := (0 <=? E.dv_cons e) && (c <? length (tlist (tnth 3 prev)))%nat in
    E.flag (rows_same_except nk prev cur P) 1 ++
    E.flag (K.tree_eqb (o_row cur P) (obs_row m2 P) && (negb (K.o_res cur =? 0) || registered (ks m) P)) 2 ++
    E.flag (negb known || (o_resolve prev c k =? P)) 3 ++
    E.flag (K.o_res cur =? code) 4
  | SMisbehaviour entry mbv =>
    let mo := with_rows m prev in
    let '(m2, code) := sstep mo a in
    E.flag (forallb (fun k => K.tree_eqb (o_row cur k) (obs_row m2 k)) (K.zrange nk)) 6 ++
    E.flag (K.o_res cur =? code) 4
  | SCreateVal _ key _ => E.flag (rows_same_except nk prev cur key) 5
  | SRemoveVal o => E.flag (rows_same_except nk prev cur (K.optz (K.reg_by_oper o (K.s_reg (ks m))))) 5
  | SExtVal key _ => E.flag (rows_same_except nk prev cur key) 5
  | _ => E.flag (rows_same_except nk prev cur (-1)) 5
  end.

Fixpoint mon_loop (nk : Z) (m : sys) (ops : list sop) (prev : tree) (snaps : list tree) : list Z :=
  match ops, snaps with
  | a :: ops', cur :: snaps' => mon_step nk m a prev cur ++ mon_loop nk (fst (sstep m a)) ops' cur snaps'
  | _, _ => []
  end.

Definition mon (t o : tree) : tree :=
  let c := tnth 0 t in
  let nk := tz (tnth 1 c) in
  let ops := map dec_sop (tlist (tnth 1 t)) in
  match tlist o with
  | s0 :: snaps =>
    if Nat.eqb (length snaps) (length ops)
    then of_zs (K.dedup (mon_loop nk (dec_init c) ops s0 snaps))
    else of_zs [99]
  | [] => of_zs [99]
  end.
