(* Model of the provider store key layout, x/ccv/provider/types/keys.go (property C13):
   the prefix table getKeyPrefixes, every key constructor, the generic helpers
   StringIdWithLenKey / StringIdAndConsAddrKey / StringIdAndTsKey / StringIdAndUintIdKey,
   the legacy `prefix | consumerId` keys, the decoder that attributes a raw key to a consumer,
   and an abstract KV store with the access patterns of the keeper (exact Set/Delete, deletion by
   KVStorePrefixIterator over StringIdWithLenKey(prefix, consumerId) as in the Delete* helpers of
   power_shaping.go / partial_set_security.go / validator_set_storage.go, and the range iteration of
   key_assignment.go ConsumeConsumerAddrsToPrune).
   A byte is a Z in 0..255, a key or value is a list of bytes; consumer ids are byte strings
   (the decimal rendering of a natural, strconv.FormatUint in FetchAndIncrementConsumerId). *)
From Coq Require Import ZArith NArith List Bool Decimal.
From ICS Require Import Base.Tree.
Import ListNotations.
Open Scope Z_scope.

Definition bytes : Type := list Z.
Definition len (b : bytes) : Z := Z.of_nat (length b).

(* ---------------------------------------------------------------- byte strings *)

Fixpoint bytes_eqb (a b : bytes) : bool :=
  match a, b with
  | [], [] => true
  | x :: a', y :: b' => (x =? y) && bytes_eqb a' b'
  | _, _ => false
  end.

(* bytes.HasPrefix(b, a) *)
Fixpoint is_prefix (a b : bytes) : bool :=
  match a, b with
  | [], _ => true
  | x :: a', y :: b' => (x =? y) && is_prefix a' b'
  | _ :: _, [] => false
  end.

(* bytes.Compare(a, b) < 0: the iteration order of the IAVL store *)
Fixpoint lex_ltb (a b : bytes) : bool :=
  match a, b with
  | _, [] => false
  | [], _ :: _ => true
  | x :: a', y :: b' => if x <? y then true else if y <? x then false else lex_ltb a' b'
  end.
Definition lex_leb (a b : bytes) : bool := negb (lex_ltb b a).

(* sdk.Uint64ToBigEndian *)
Definition be64 (n : Z) : bytes :=
  [ (n / 72057594037927936) mod 256; (n / 281474976710656) mod 256;
    (n / 1099511627776) mod 256; (n / 4294967296) mod 256;
    (n / 16777216) mod 256; (n / 65536) mod 256; (n / 256) mod 256; n mod 256 ].
(* sdk.BigEndianToUint64 *)
Definition be_decode (l : bytes) : Z := fold_left (fun a b => a * 256 + b) l 0.

(* strconv.FormatUint(n, 10): Coq's own binary -> decimal conversion, digit by digit *)
Fixpoint uint_bytes (u : Decimal.uint) : bytes :=
  match u with
  | Nil => []
  | D0 u => 48 :: uint_bytes u | D1 u => 49 :: uint_bytes u | D2 u => 50 :: uint_bytes u
  | D3 u => 51 :: uint_bytes u | D4 u => 52 :: uint_bytes u | D5 u => 53 :: uint_bytes u
  | D6 u => 54 :: uint_bytes u | D7 u => 55 :: uint_bytes u | D8 u => 56 :: uint_bytes u
  | D9 u => 57 :: uint_bytes u
  end.
Definition decimal (n : N) : bytes := uint_bytes (N.to_uint n).

(* sdk.FormatTimeBytes = t.UTC().Format("2006-01-02T15:04:05.000000000"): fixed-width, zero padded
   fields; the calendar conversion of the instant into (year .. nanosecond) is Go's and is an input *)
Fixpoint pad (k : nat) (n : Z) : bytes :=
  match k with
  | O => []
  | S k' => pad k' (n / 10) ++ [48 + n mod 10]
  end.
Definition fmt_time (y mo d h mi s ns : Z) : bytes :=
  pad 4 y ++ [45] ++ pad 2 mo ++ [45] ++ pad 2 d ++ [84] ++ pad 2 h ++ [58] ++ pad 2 mi ++ [58] ++
  pad 2 s ++ [46] ++ pad 9 ns.

(* ---------------------------------------------------------------- prefix table *)
(* kinds of key spaces *)
Definition KNone : Z := 0.       (* not a prefix of the table *)
Definition KSingle : Z := 1.     (* one key: [prefix] *)
Definition KLegacy : Z := 2.     (* prefix | consumerId                         (exact access only) *)
Definition KLen : Z := 3.        (* prefix | len(consumerId) | consumerId *)
Definition KLenSuf : Z := 4.     (* prefix | len(consumerId) | consumerId | addr / timestamp / denom *)
Definition KTime : Z := 5.       (* prefix | timestamp ; the value is a list of consumer ids *)
Definition KForeign : Z := 6.    (* prefix | channelId ; the value is a consumer id *)
Definition KForeignLen : Z := 7. (* prefix | len(clientId) | clientId ; the value is a consumer id *)
Definition KWide : Z := 8.       (* provider-wide data keyed by vsc id / provider address / denom *)
Definition KDeprecated : Z := 9. (* reserved byte, no constructor *)

(* getKeyPrefixes(), in the order of GetAllKeyNames()/GetAllKeyPrefixes() (sorted by key name):
   (prefix byte, kind) *)
Definition prefix_table : list (Z * Z) :=
  [ (36, KLenSuf)      (* AllowlistKey *)
  ; (6, KForeign)      (* ChannelToConsumerIdKey *)
  ; (53, KForeignLen)  (* ClientIdToConsumerIdKey *)
  ; (41, KLenSuf)      (* ConsumerAddrsToPruneV2Key *)
  ; (39, KLenSuf)      (* ConsumerCommissionRateKey *)
  ; (14, KLegacy)      (* ConsumerGenesisKey *)
  ; (43, KSingle)      (* ConsumerIdKey *)
  ; (54, KLen)         (* ConsumerIdToAllowlistedRewardDenomKey *)
  ; (44, KLen)         (* ConsumerIdToChainIdKey *)
  ; (5, KLegacy)       (* ConsumerIdToChannelIdKey *)
  ; (7, KLegacy)       (* ConsumerIdToClientIdKey *)
  ; (57, KLen)         (* ConsumerIdToInfractionParametersKey *)
  ; (47, KLen)         (* ConsumerIdToInitializationParametersKey *)
  ; (46, KLen)         (* ConsumerIdToMetadataKey *)
  ; (45, KLen)         (* ConsumerIdToOwnerAddress *)
  ; (49, KLen)         (* ConsumerIdToPhaseKey *)
  ; (48, KLen)         (* ConsumerIdToPowerShapingParametersKey *)
  ; (58, KLen)         (* ConsumerIdToQueuedInfractionParametersKeyName *)
  ; (50, KLen)         (* ConsumerIdToRemovalTimeKey *)
  ; (27, KWide)        (* ConsumerRewardDenomsKey *)
  ; (55, KLenSuf)      (* ConsumerRewardsAllocationByDenomKey *)
  ; (31, KLenSuf)      (* ConsumerValidatorKey *)
  ; (22, KLenSuf)      (* ConsumerValidatorsKey *)
  ; (37, KLenSuf)      (* DenylistKey *)
  ; (25, KDeprecated)  (* DeprecatedConsumerAddrsToPruneKey *)
  ; (38, KDeprecated)  (* DeprecatedConsumerRewardsAllocationKey *)
  ; (21, KDeprecated)  (* DeprecatedGlobalSlashEntryKey *)
  ; (8, KDeprecated)   (* DeprecatedInitTimeoutTimestampKey *)
  ; (24, KDeprecated)  (* DeprecatedKeyAssignmentReplacementsKey *)
  ; (1, KDeprecated)   (* DeprecatedMaturedUnbondingOpsKey *)
  ; (9, KDeprecated)   (* DeprecatedPendingCAPKey *)
  ; (10, KDeprecated)  (* DeprecatedPendingCRPKey *)
  ; (30, KDeprecated)  (* DeprecatedProposedConsumerChainKey *)
  ; (20, KDeprecated)  (* DeprecatedThrottledPacketDataKey *)
  ; (19, KDeprecated)  (* DeprecatedThrottledPacketDataSizeKey *)
  ; (33, KDeprecated)  (* DeprecatedTopNKey *)
  ; (12, KDeprecated)  (* DeprecatedUnbondingOpIndexKey *)
  ; (11, KDeprecated)  (* DeprecatedUnbondingOpKey *)
  ; (28, KDeprecated)  (* DeprecatedVSCMaturedHandledThisBlockKey *)
  ; (35, KDeprecated)  (* DeprecatedValidatorSetCapKey *)
  ; (34, KDeprecated)  (* DeprecatedValidatorsPowerCapKey *)
  ; (18, KDeprecated)  (* DeprecatedVscSendTimestampKey *)
  ; (29, KLegacy)      (* EquivocationEvidenceMinHeightKey *)
  ; (59, KTime)        (* InfractionScheduledTimeToConsumerIdsKeyName *)
  ; (16, KLegacy)      (* InitChainHeightKey *)
  ; (42, KWide)        (* LastProviderConsensusValsKey *)
  ; (40, KLen)         (* MinimumPowerInTopNKey *)
  ; (32, KLenSuf)      (* OptedInKey *)
  ; (255, KSingle)     (* ParametersKey *)
  ; (17, KLegacy)      (* PendingVSCsKey *)
  ; (0, KSingle)       (* PortKey *)
  ; (56, KLenSuf)      (* PrioritylistKey *)
  ; (52, KTime)        (* RemovalTimeToConsumerIdsKeyName *)
  ; (15, KLegacy)      (* SlashAcksKey *)
  ; (26, KWide)        (* SlashLogKey *)
  ; (3, KSingle)       (* SlashMeterKey *)
  ; (4, KSingle)       (* SlashMeterReplenishTimeCandidateKey *)
  ; (51, KTime)        (* SpawnTimeToConsumerIdsKeyName *)
  ; (2, KSingle)       (* ValidatorSetUpdateIdKey *)
  ; (23, KLenSuf)      (* ValidatorsByConsumerAddrKey *)
  ; (13, KWide)        (* ValsetUpdateBlockHeightKey *)
  ].

Definition prefix_bytes : list Z := map fst prefix_table.

(* mustGetKeyPrefix, by byte *)
Definition kind_of (p : Z) : Z :=
  match find (fun e => fst e =? p) prefix_table with
  | Some e => snd e
  | None => KNone
  end.

Definition is_legacy (p : Z) : bool := kind_of p =? KLegacy.
Definition is_lenfam (p : Z) : bool := (kind_of p =? KLen) || (kind_of p =? KLenSuf).

(* ---------------------------------------------------------------- constructors *)

(* StringIdWithLenKey: bytePrefix | len(stringId) | stringId *)
Definition lenkey (p : Z) (id : bytes) : bytes := p :: be64 (len id) ++ id.
(* StringIdAndConsAddrKey / StringIdAndTsKey / ConsumerRewardsAllocationByDenomKey:
   bytePrefix | len(stringId) | stringId | suffix *)
Definition lenkey_suf (p : Z) (id suf : bytes) : bytes := lenkey p id ++ suf.
(* StringIdAndUintIdKey *)
Definition lenkey_uint (p : Z) (id : bytes) (u : Z) : bytes := lenkey p id ++ be64 u.
(* the legacy keys: append([]byte{prefix}, []byte(consumerId)...) *)
Definition legacy (p : Z) (id : bytes) : bytes := p :: id.

(* Every fully defined key function of keys.go, selected by its prefix byte [p]:
   KSingle  ParametersKey PortKey ValidatorSetUpdateIdKey SlashMeterKey
            SlashMeterReplenishTimeCandidateKey ConsumerIdKey                      -> [p]
   KLegacy  ConsumerIdToChannelIdKey ConsumerIdToClientIdKey ConsumerGenesisKey SlashAcksKey
            InitChainHeightKey PendingVSCsKey EquivocationEvidenceMinHeightKey     -> p | id
   KLen     MinimumPowerInTopNKey ConsumerIdToChainIdKey ConsumerIdToOwnerAddressKey
            ConsumerIdToMetadataKey ConsumerIdToInitializationParametersKey
            ConsumerIdToPowerShapingParametersKey ConsumerIdToPhaseKey ConsumerIdToRemovalTimeKey
            ConsumerIdToAllowlistedRewardDenomKey ConsumerIdToInfractionParametersKey
            ConsumerIdToQueuedInfractionParametersKey                              -> p | len | id
   KLenSuf  ConsumerValidatorsKey ValidatorsByConsumerAddrKey ConsumerValidatorKey AllowlistKey
            DenylistKey PrioritylistKey OptedInKey ConsumerCommissionRateKey (suffix: address)
            ConsumerAddrsToPruneV2Key (suffix: timestamp)
            ConsumerRewardsAllocationByDenomKey (suffix: denom)                    -> p | len | id | suf
   KTime    SpawnTimeToConsumerIdsKey RemovalTimeToConsumerIdsKey
            InfractionScheduledTimeToConsumerIdsKey                                -> p | timestamp
   KForeign ChannelToConsumerIdKey                                                 -> p | channelId
   KForeignLen ClientIdToConsumerIdKey                                             -> p | len | clientId
   KWide    ValsetUpdateBlockHeightKey (be64 id) SlashLogKey (address) ConsumerRewardDenomsKey
            (denom) LastProviderConsensusValsPrefix (empty suffix)                 -> p | suf *)
Definition build (p : Z) (id suf : bytes) : bytes :=
  let k := kind_of p in
  if k =? KSingle then [p]
  else if k =? KLegacy then legacy p id
  else if k =? KLen then lenkey p id
  else if k =? KLenSuf then lenkey_suf p id suf
  else if k =? KTime then p :: suf
  else if k =? KForeign then p :: id
  else if k =? KForeignLen then lenkey p id
  else if k =? KWide then p :: suf
  else [].

(* ---------------------------------------------------------------- attribution *)

(* The owner of a raw store key: for the legacy spaces everything after the prefix byte, for the
   length-prefixed spaces the ParseStringIdWithLenKey / ParseStringIdAndConsAddrKey /
   ParseStringIdAndTsKey reading (big-endian length, then that many bytes).  Go slices out of
   range panic; here the result is None. *)
Definition decode_owner (k : bytes) : option (Z * bytes) :=
  match k with
  | [] => None
  | p :: r =>
    if is_legacy p then Some (p, r)
    else if is_lenfam p then
      let n := be_decode (firstn 8 r) in
      let body := skipn 8 r in
      if (8 <=? len r) && (n <=? len body) then Some (p, firstn (Z.to_nat n) body) else None
    else None
  end.

(* the class of a key that has no owner: its kind in the table (KNone if empty or unknown byte) *)
Definition key_kind (k : bytes) : Z :=
  match k with [] => KNone | p :: _ => kind_of p end.

(* ---------------------------------------------------------------- abstract store *)

(* association list sorted by key (ascending bytes.Compare order, as the IAVL store iterates) *)
Definition store : Type := list (bytes * bytes).

Definition sget (k : bytes) (s : store) : option bytes :=
  match find (fun kv => bytes_eqb (fst kv) k) s with
  | Some kv => Some (snd kv)
  | None => None
  end.

Fixpoint sset (k v : bytes) (s : store) : store :=
  match s with
  | [] => [(k, v)]
  | (k', v') :: t =>
    if lex_ltb k k' then (k, v) :: s
    else if bytes_eqb k k' then (k, v) :: t
    else (k', v') :: sset k v t
  end.

Definition sdel (k : bytes) (s : store) : store :=
  filter (fun kv => negb (bytes_eqb (fst kv) k)) s.

(* iterate KVStorePrefixIterator(store, pre), collect the keys, delete them
   (DeleteAllowlist, DeleteDenylist, DeletePrioritylist, DeleteAllOptedIn, deleteValSet, ...) *)
Definition sdel_prefix (pre : bytes) (s : store) : store :=
  filter (fun kv => negb (is_prefix pre (fst kv))) s.

(* iterate store.Iterator(lo, hi) (lo inclusive, hi exclusive), delete the keys *)
Definition sdel_range (lo hi : bytes) (s : store) : store :=
  filter (fun kv => negb (lex_leb lo (fst kv) && lex_ltb (fst kv) hi)) s.

(* Per-consumer store operations, as performed by the keeper for the consumer [id]. *)
Inductive op :=
| OSet (p : Z) (id suf v : bytes)    (* store.Set(<constructor of p>(id, suf), v) *)
| ODel (p : Z) (id suf : bytes)      (* store.Delete(<constructor of p>(id, suf)) *)
| ODelPrefix (p : Z) (id : bytes)    (* the Delete* helpers: prefix iteration over StringIdWithLenKey(p, id) *)
| ODelRange (p : Z) (id ts : bytes). (* ConsumeConsumerAddrsToPrune(id, ts):
                                        [StringIdWithLenKey(p,id), InclusiveEndBytes(StringIdAndTsKey(p,id,ts))) *)

Definition op_consumer (o : op) : bytes :=
  match o with
  | OSet _ id _ _ => id | ODel _ id _ => id | ODelPrefix _ id => id | ODelRange _ id _ => id
  end.

(* the per-consumer key a constructor of space p builds *)
Definition pc_key (p : Z) (id suf : bytes) : bytes :=
  if is_legacy p then legacy p id
  else if kind_of p =? KLen then lenkey p id
  else lenkey_suf p id suf.

(* An operation outside the discipline of the code (a space that is not per-consumer, or a prefix /
   range iteration over a space that is not length-prefixed) is not an operation of the keeper:
   it leaves the store unchanged.  The lint part checks that the code has no such iteration. *)
Definition step (s : store) (o : op) : store :=
  match o with
  | OSet p id suf v => if is_legacy p || is_lenfam p then sset (pc_key p id suf) v s else s
  | ODel p id suf => if is_legacy p || is_lenfam p then sdel (pc_key p id suf) s else s
  | ODelPrefix p id => if is_lenfam p then sdel_prefix (lenkey p id) s else s
  | ODelRange p id ts =>
    if kind_of p =? KLenSuf
    then sdel_range (lenkey p id) (lenkey_suf p id ts ++ [0]) s else s
  end.

(* What a raw prefix iteration with a legacy-style prefix `p | id` would do (NOT an operation of the
   keeper; used for the negative fact C13_legacy_prefix_iteration_breaks_isolation). *)
Definition raw_prefix_delete (p : Z) (id : bytes) (s : store) : store :=
  sdel_prefix (legacy p id) s.

(* Iteration sites found in the keeper by the lint part: (prefix byte, form) with
   form 1 = KVStorePrefixIterator over StringIdWithLenKey(p, consumerId),
        2 = KVStorePrefixIterator over the whole space [p] (not per consumer),
        3 = prefix iteration over `p | consumerId` without the length (never allowed),
        4 = Iterator range starting at StringIdWithLenKey(p, consumerId). *)
Definition iter_ok (p form : Z) : bool :=
  if form =? 1 then is_lenfam p
  else if form =? 2 then negb (kind_of p =? KNone)
  else if form =? 4 then kind_of p =? KLenSuf
  else false.

(* ---------------------------------------------------------------- wire interface *)

Definition tbytes (t : tree) : bytes := tzs t.
Definition of_bytes (b : bytes) : tree := of_zs b.

(* id spec: [0, n] = decimal rendering of the natural n; [1, [bytes]] = raw bytes *)
Definition dec_id (t : tree) : bytes :=
  if tz (tnth 0 t) =? 0 then decimal (Z.to_N (tz (tnth 1 t))) else tbytes (tnth 1 t).
(* suffix spec: [0] none; [1, [bytes]] raw (address, denom); [2, y,mo,d,h,mi,s,ns] timestamp;
   [3, u] big-endian uint64 *)
Definition dec_suf (t : tree) : bytes :=
  let m := tz (tnth 0 t) in
  if m =? 1 then tbytes (tnth 1 t)
  else if m =? 2 then fmt_time (tz (tnth 1 t)) (tz (tnth 2 t)) (tz (tnth 3 t)) (tz (tnth 4 t))
                               (tz (tnth 5 t)) (tz (tnth 6 t)) (tz (tnth 7 t))
  else if m =? 3 then be64 (tz (tnth 1 t))
  else [].

(* part "keys": request [code, p, idspec, sufspec]
   code 0 = the fully defined key function of prefix p; 1 = StringIdWithLenKey(p, id);
   2 = StringIdAndConsAddrKey / StringIdAndTsKey (p, id, suf); 3 = StringIdAndUintIdKey(p, id, u);
   4 = legacy append([]byte{p}, id) *)
Definition run_key (t : tree) : tree :=
  let code := tz (tnth 0 t) in
  let p := tz (tnth 1 t) in
  let id := dec_id (tnth 2 t) in
  let suf := dec_suf (tnth 3 t) in
  of_bytes (if code =? 0 then build p id suf
            else if code =? 1 then lenkey p id
            else if code =? 2 then lenkey_suf p id suf
            else if code =? 3 then lenkey p id ++ suf
            else legacy p id).

(* part "store": op [kind, p, idspec, sufspec, [value]]; kind 1 set, 2 delete, 3 delete by prefix,
   4 delete range *)
Definition dec_op (t : tree) : op :=
  let kind := tz (tnth 0 t) in
  let p := tz (tnth 1 t) in
  let id := dec_id (tnth 2 t) in
  let suf := dec_suf (tnth 3 t) in
  if kind =? 1 then OSet p id suf (tbytes (tnth 4 t))
  else if kind =? 2 then ODel p id suf
  else if kind =? 3 then ODelPrefix p id
  else ODelRange p id suf.

Definition dump (s : store) : tree :=
  TL (map (fun kv => TL [of_bytes (fst kv); of_bytes (snd kv)]) s).
Definition undump (t : tree) : store :=
  map (fun e => (tbytes (tnth 0 e), tbytes (tnth 1 e))) (tlist t).

(* the dumps after each operation *)
Fixpoint run_ops (s : store) (ops : list op) : list tree :=
  match ops with
  | [] => []
  | o :: t => let s' := step s o in dump s' :: run_ops s' t
  end.

(* part "frame": a changed key is reported as [kind of the space, [owner]] (owner list empty when the
   key has no owner) *)
Definition attribute (k : bytes) : tree :=
  match decode_owner k with
  | Some (_, c) => TL [TI (key_kind k); TL [of_bytes c]]
  | None => TL [TI (key_kind k); TL []]
  end.

(* input = [tag, payload]:
   tag 1 (keys):  payload = [requests]                     -> [[key bytes ...], prefix table bytes]
   tag 2 (store): payload = [ops]                          -> [dump after each op]
   tag 3 (frame): payload = [c1, [[key, ids before, ids after] ...]] -> [[attribute of each key]]
   tag 4 (lint):  payload = [[p, form] ...] expected sites -> the same list
   tag 5 (differential frame): as tag 3, but the "changes" are the keys whose value differs between two
                  runs of the same history, one with and one without the operation on c1, after a common
                  continuation (BeginBlock / epoch EndBlock / time advance); monitor clauses 11..14 = 1..4 *)
Definition run (input : tree) : tree :=
  let tag := tz (tnth 0 input) in
  let pl := tnth 1 input in
  if tag =? 1 then TL [TL (map run_key (tlist pl)); of_zs prefix_bytes]
  else if tag =? 2 then TL (run_ops [] (map dec_op (tlist pl)))
  else if (tag =? 3) || (tag =? 5)
  then TL [TL (map (fun ch => attribute (tbytes (tnth 0 ch))) (tlist (tnth 1 pl)))]
  else if tag =? 4 then TL (map (fun e => TL [TI (tz (tnth 0 e)); TI (tz (tnth 1 e))]) (tlist pl))
  else TL [].

(* ---------------------------------------------------------------- monitors *)

Definition owner_is (c : bytes) (k : bytes) : bool :=
  match decode_owner k with Some (_, c') => bytes_eqb c' c | None => false end.
Definition has_owner (k : bytes) : bool :=
  match decode_owner k with Some _ => true | None => false end.

Definition opt_eqb (a b : option bytes) : bool :=
  match a, b with
  | Some x, Some y => bytes_eqb x y
  | None, None => true
  | _, _ => false
  end.

(* store part, clause 5: after an operation of consumer c, every key (of the store before or after)
   owned by another consumer has the same value before and after *)
Definition frame_ok (c : bytes) (before after : store) : bool :=
  forallb (fun kv => let k := fst kv in
                     negb (has_owner k) || owner_is c k || opt_eqb (sget k before) (sget k after))
          (before ++ after).

Fixpoint mon_store (prev : store) (ops : list op) (dumps : list tree) : list Z :=
  match ops, dumps with
  | o :: ops', d :: dumps' =>
    let cur := undump d in
    (if frame_ok (op_consumer o) prev cur then [] else [5]) ++ mon_store cur ops' dumps'
  | _, _ => []
  end.

(* frame part: change = [key, [ids in the value before], [ids in the value after]];
   clause 1: a changed key is owned by a consumer other than c1;
   clause 2: a changed key has no owner and is not in a provider-wide space
             (unknown / deprecated prefix byte or undecodable per-consumer key);
   clause 4: a time-queue or reverse-index entry changed with respect to a consumer other than c1
             (the id lists before and after differ in some id that is not c1) *)
Definition ids_of (t : tree) : list bytes := map tbytes (tlist t).
Definition mem_id (c : bytes) (l : list bytes) : bool := existsb (bytes_eqb c) l.
Definition count_id (c : bytes) (l : list bytes) : nat := length (filter (bytes_eqb c) l).
Definition ids_delta_ok (c1 : bytes) (a b : list bytes) : bool :=
  forallb (fun c => bytes_eqb c c1 || Nat.eqb (count_id c a) (count_id c b)) (a ++ b).

Definition mon_change (c1 : bytes) (ch : tree) : list Z :=
  let k := tbytes (tnth 0 ch) in
  let kd := key_kind k in
  match decode_owner k with
  | Some (_, c) => if bytes_eqb c c1 then [] else [1]
  | None =>
    if (kd =? KSingle) || (kd =? KWide) then []
    else if (kd =? KTime) || (kd =? KForeign) || (kd =? KForeignLen)
    then (if ids_delta_ok c1 (ids_of (tnth 1 ch)) (ids_of (tnth 2 ch)) then [] else [4])
    else [2]
  end.

(* impl obs of the frame part = [attributes, [consumers whose getter-level state changed], result code];
   clause 3: the getter-level state of a consumer other than c1 changed *)
Definition mon_frame (pl obs : tree) : list Z :=
  let c1 := tbytes (tnth 0 pl) in
  flat_map (mon_change c1) (tlist (tnth 1 pl)) ++
  (if forallb (fun c => bytes_eqb c c1) (ids_of (tnth 1 obs)) then [] else [3]).

(* lint part, clause 6: an iteration site of the keeper is not an allowed form *)
Definition mon_lint (obs : tree) : list Z :=
  if forallb (fun e => iter_ok (tz (tnth 0 e)) (tz (tnth 1 e))) (tlist obs) then [] else [6].

(* keys part, clause 7: two names of the implementation's prefix table share a byte *)
Fixpoint nodupb (l : list Z) : bool :=
  match l with
  | [] => true
  | x :: t => negb (existsb (Z.eqb x) t) && nodupb t
  end.

Fixpoint dedup (l : list Z) : list Z :=
  match l with
  | [] => []
  | x :: t => if existsb (Z.eqb x) t then dedup t else x :: dedup t
  end.

Definition mon (input obs : tree) : tree :=
  let tag := tz (tnth 0 input) in
  let pl := tnth 1 input in
  of_zs (dedup
    (if tag =? 1 then (if nodupb (tzs (tnth 1 obs)) then [] else [7])
     else if tag =? 2 then mon_store [] (map dec_op (tlist pl)) (tlist obs)
     else if tag =? 3 then mon_frame pl obs
     else if tag =? 5 then map (Z.add 10) (mon_frame pl obs)
     else if tag =? 4 then mon_lint obs
     else [])).
