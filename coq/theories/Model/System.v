(* Composition of two component models for ONE consumer chain (DESIGN.md 2.2, growth towards Model/System.v):
     Model/Eligibility.v  the provider's computation of the consumer validator set from the staking module's
                          bonded list and the consumer's configuration (property C02), and
     Model/Vsc.v          the replication of the computed sets to the consumer chain (property C01).
   In Vsc the set computed in an epoch block is an oracle ([PEndBlock true next r]); here it is COMPUTED:
   next := (consumer key, power) projection of Eligibility.compute_consumer_next_valset on the staking oracle of
   that block and on the consumer as stored at that moment, exactly as QueueVSCPackets calls
   ComputeConsumerNextValSet and hands DiffValidators(stored, next) to the packet.  The launch-time set
   (LaunchConsumer -> MakeConsumerGenesis) is computed the same way.  Block heights used for join heights are
   the provider heights kept by Vsc.
   Oracles that remain: the staking bonded list per block, MaxValidators, M, ComputeMinPowerInTopN,
   the outcome of SendPacket, and which messages were accepted. *)
From Coq Require Import ZArith List Bool.
From ICS Require Import Base.SortDesc Base.Tree Model.PowerCap.
From ICS Require Model.Eligibility Model.Vsc.
Import ListNotations.
Open Scope Z_scope.

Module E := ICS.Model.Eligibility.
Module V := ICS.Model.Vsc.

(* what goes into a packet / the consumer genesis: (consumer public key, power) *)
Definition proj_set (l : list E.cval) : list V.upd := map (fun x => (E.c_key x, E.c_pow x)) l.

(* everything one computation of the consumer set looks at *)
Record source := mkSrc {
  src_oracle : list E.sval;    (* GetBondedValidatorsByPower at that block *)
  src_maxv : Z;                (* staking MaxValidators *)
  src_M : Z;                   (* MaxProviderConsensusValidators *)
  src_height : Z;              (* provider block height *)
  src_cons : E.consumer;       (* the consumer as stored before the computation *)
  src_mp : Z                   (* ComputeMinPowerInTopN (oracle) *)
}.
Definition src_result (q : source) : E.consumer * list E.cval * E.slices :=
  E.compute_consumer_next_valset (src_M q) (src_height q) (src_cons q) (src_mp q)
    (E.mk_slices (src_oracle q) (src_maxv q) (src_M q)).
Definition src_next (q : source) : list E.cval := snd (fst (src_result q)).
Definition src_after (q : source) : E.consumer := fst (fst (src_result q)).

Record sys := mkSys {
  elig : E.consumer;           (* the provider's eligibility state for this consumer *)
  vsc : V.state;               (* the replication state (provider side, channel, consumer side) *)
  srcs : list source           (* ghost: the source of every entry of g_hist (vsc): launch, then every epoch
                                  whose computed set produced a packet *)
}.

Definition set_launched (c : E.consumer) (b : bool) : E.consumer :=
  E.mkCons (E.cfg c) (E.opted c) (E.keys c) (E.valset c) b.

(* LaunchConsumer at provider height ph (update id vid, id -> height store m0), consumer chain starting at
   height ch: the consumer as configured before the launch is c0 *)
Definition sys_launch (ph vid : Z) (m0 : V.kmap) (ch : Z)
                      (oracle : list E.sval) (maxv M mp : Z) (c0 : E.consumer) : sys :=
  let q := mkSrc oracle maxv M ph c0 mp in
  mkSys (set_launched (src_after q) true) (V.init_state ph vid m0 (proj_set (src_next q)) ch) [q].

Inductive sop :=
| SEpoch (oracle : list E.sval) (maxv M mp : Z) (r : V.sendres)   (* provider EndBlock of an epoch block *)
| SVsc (o : V.op)                 (* every other Vsc op; a PEndBlock here is a NON-epoch provider block *)
| SElig (o : E.op).               (* accepted MsgUpdateConsumer / MsgOptIn / MsgOptOut / MsgAssignConsumerKey *)

(* the Vsc ops a system op stands for *)
Definition to_vop (s : sys) (o : sop) : list V.op :=
  match o with
  | SEpoch oracle maxv M mp r =>
      if V.p_launched (vsc s)
      then [V.PEndBlock true (proj_set (src_next (mkSrc oracle maxv M (V.p_height (vsc s)) (elig s) mp))) r]
      else [V.PEndBlock true [] r]           (* QueueVSCPackets skips a consumer that is not launched *)
  | SVsc (V.PEndBlock _ _ r) => [V.PEndBlock false [] r]
  | SVsc o => [o]
  | SElig _ => []
  end.

Definition elig_step (c : E.consumer) (o : E.op) : E.consumer :=
  match o with
  | E.SetConfig _ g => E.get (E.step [c] (E.SetConfig 0 g)) 0
  | E.OptIn _ v => E.get (E.step [c] (E.OptIn 0 v)) 0
  | E.OptOut _ v => E.get (E.step [c] (E.OptOut 0 v)) 0
  | E.AssignKey _ v k => E.get (E.step [c] (E.AssignKey 0 v k)) 0
  | _ => c
  end.

Definition sys_step (s : sys) (o : sop) : sys :=
  let v' := V.run_ops (vsc s) (to_vop s o) in
  (* the provider's phase of the consumer is the one Vsc tracks (MsgRemoveConsumer, or a failed SendPacket) *)
  match o with
  | SEpoch oracle maxv M mp r =>
      if V.p_launched (vsc s) then
        let q := mkSrc oracle maxv M (V.p_height (vsc s)) (elig s) mp in
        mkSys (set_launched (src_after q) (V.p_launched v')) v'
              (if Nat.eqb (length (V.g_hist v')) (length (V.g_hist (vsc s))) then srcs s else srcs s ++ [q])
      else mkSys (elig s) v' (srcs s)
  | SVsc _ => mkSys (set_launched (elig s) (V.p_launched v')) v' (srcs s)
  | SElig eo => mkSys (elig_step (elig s) eo) v' (srcs s)
  end.

Definition run_sys (s : sys) (ops : list sop) : sys := fold_left sys_step ops s.

(* the Vsc run the composed machine performs *)
Fixpoint vtrace (s : sys) (ops : list sop) : list V.op :=
  match ops with
  | [] => []
  | o :: t => to_vop s o ++ vtrace (sys_step s o) t
  end.

(* ---- wire interface ----
   input  = [ [eligibility op...] accepted before the launch (encoding of Model/Eligibility.v, consumer index 0),
              [ph, vid, m0 pairs, ch, oracle, min_power]   the launch   ([] = the consumer was not launched: no run),
              [op...] ]
     oracle = [ [[id,tokens,last_power,provider_key]...], MaxValidators, M ]
     op = [1, is_epoch, oracle (or []), min_power, kind, pos]  provider EndBlock
        | [2] ChanOpen | [3] Deliver | [4] consumer BeginBlock | [5] consumer EndBlock | [7] Stop
        | [10, eligibility op]
   output = the provider's record of the consumer right after the launch, then
            per op: the observation of Model/Vsc.v for that op; for op 1 extended by the provider's record of the
            consumer [launched, [[id,key,power,join_height]...], [opted ids]]; nothing for op 10 *)
Definition dec_launch (c0 : E.consumer) (t : tree) : sys :=
  sys_launch (tz (tnth 0 t)) (tz (tnth 1 t)) (to_pairs (tnth 2 t)) (tz (tnth 3 t))
             (E.to_oracle (tnth 4 t)) (tz (tnth 1 (tnth 4 t))) (tz (tnth 2 (tnth 4 t))) (tz (tnth 5 t)) c0.
Definition dec_sop (t : tree) : sop :=
  let tag := tz (tnth 0 t) in
  if tag =? 10 then SElig (E.to_op (tnth 1 t))
  else if (tag =? 1) && tbool (tnth 1 t) then
    SEpoch (E.to_oracle (tnth 2 t)) (tz (tnth 1 (tnth 2 t))) (tz (tnth 2 (tnth 2 t))) (tz (tnth 3 t))
           (V.dec_sendres (tz (tnth 4 t)) (tz (tnth 5 t)))
  else if tag =? 1 then SVsc (V.PEndBlock false [] (V.dec_sendres (tz (tnth 4 t)) (tz (tnth 5 t))))
  else SVsc (V.dec_op t).

Definition obs_sop (t : tree) (o : sop) (s s' : sys) : list tree :=
  match o with
  | SElig _ => []
  | _ =>
    match to_vop s o with
    | vo :: _ =>
      let ob := V.obs_op t vo (vsc s) (vsc s') in
      match vo with
      | V.PEndBlock _ _ _ => [TL (tlist ob ++ [E.obs_consumer (elig s')])]
      | _ => [ob]
      end
    | [] => []
    end
  end.
Fixpoint run_obs (s : sys) (ts : list tree) : list tree :=
  match ts with
  | [] => []
  | t :: rest => let o := dec_sop t in let s' := sys_step s o in obs_sop t o s s' ++ run_obs s' rest
  end.
Definition pre_consumer (t : tree) : E.consumer :=
  fold_left elig_step (map E.to_op (tlist t)) E.empty_consumer.
Definition run (t : tree) : tree :=
  match tlist (tnth 1 t) with
  | [] => TL []
  | _ => let s0 := dec_launch (pre_consumer (tnth 0 t)) (tnth 1 t) in
         TL (E.obs_consumer (elig s0) :: run_obs s0 (tlist (tnth 2 t)))
  end.

(* ---- monitor, on the implementation's observations only.
   c    : the consumer's parameters and keys follow the accepted messages; opt-ins, stored set and launched flag are
          the implementation's last report;
   exp  : for the launch and for every epoch in which the implementation produced a packet, the map
          (consumer key -> power) the model computes from THAT block's staking snapshot;
   recv : number of packets the implementation's consumer accepted.
   Clauses: 21 the consumer's set after EndBlock is not exp[recv]; 22 the engine's set differs from the stored set;
            23 the provider's stored (key, power) record is not the projection of its stored validator set;
            1..12 the clauses of Model/Eligibility.v (C02) for the set the provider stored in that epoch. ---- *)
Record mstate := mkM { m_c : E.consumer; m_exp : list V.kmap; m_recv : nat; m_known : list Z; m_ph : Z; m_bad : list Z }.

Definition mon_op (m : mstate) (t o : tree) : mstate :=
  let tag := tz (tnth 0 t) in
  if tag =? 10 then mkM (elig_step (m_c m) (E.to_op (tnth 1 t))) (m_exp m) (m_recv m) (m_known m) (m_ph m) (m_bad m)
  else if tag =? 1 then
    let is_epoch := tbool (tnth 1 t) in
    let pend := tzs (tnth 3 o) in
    let sent := map (fun p => tz (tnth 0 p)) (tlist (tnth 4 o)) in
    let newids := filter (fun i => negb (existsb (Z.eqb i) (m_known m))) (sent ++ pend) in
    let produced := negb (E.is_nil newids) in
    let c' := E.impl_consumer (m_c m) (tnth 6 o) in
    let stored := to_pairs (tnth 2 o) in
    if is_epoch && E.launched (m_c m) then
      let oracle := E.to_oracle (tnth 2 t) in
      let maxv := tz (tnth 1 (tnth 2 t)) in
      let M := tz (tnth 2 (tnth 2 t)) in
      let mp := tz (tnth 3 t) in
      let q := mkSrc oracle maxv M (m_ph m) (m_c m) mp in
      mkM c' (if produced then m_exp m ++ [V.as_map (proj_set (src_next q))] else m_exp m) (m_recv m)
          (m_known m ++ newids) (m_ph m + 1)
          (m_bad m ++ E.mon_oracle oracle ++ E.mon_compute M (m_ph m) oracle maxv (m_c m) mp (E.valset c') ++
           (if V.pairs_eqb stored (V.as_map (proj_set (E.valset c'))) then [] else [23]))
    else mkM c' (m_exp m) (m_recv m) (m_known m ++ newids) (m_ph m + 1) (m_bad m)
  else if tag =? 3 then
    mkM (m_c m) (m_exp m) (if 0 <=? tz (tnth 0 o) then S (m_recv m) else m_recv m) (m_known m) (m_ph m) (m_bad m)
  else if tag =? 5 then
    let cc := to_pairs (tnth 1 o) in
    let eng := to_pairs (tnth 2 o) in
    mkM (m_c m) (m_exp m) (m_recv m) (m_known m) (m_ph m)
        (m_bad m ++ (if V.pairs_eqb cc (nth (m_recv m) (m_exp m) [(-1, -1)]) then [] else [21]) ++
                    (if V.pairs_eqb cc eng then [] else [22]))
  else if tag =? 7 then
    mkM (set_launched (m_c m) false) (m_exp m) (m_recv m) (m_known m) (m_ph m) (m_bad m)
  else m.

(* ops 10 have no observation *)
Fixpoint mon_walk (m : mstate) (ts obs : list tree) : mstate :=
  match ts with
  | [] => m
  | t :: rest =>
    if tz (tnth 0 t) =? 10 then mon_walk (mon_op m t (TL [])) rest obs
    else mon_walk (mon_op m t (hd (TL []) obs)) rest (tl obs)
  end.

Definition mon (t o : tree) : tree :=
  match tlist (tnth 1 t) with
  | [] => TL []
  | _ =>
    let l := tnth 1 t in
    let c0 := pre_consumer (tnth 0 t) in
    let oracle := E.to_oracle (tnth 4 l) in
    let maxv := tz (tnth 1 (tnth 4 l)) in
    let M := tz (tnth 2 (tnth 4 l)) in
    let q := mkSrc oracle maxv M (tz (tnth 0 l)) c0 (tz (tnth 5 l)) in
    let c1 := E.impl_consumer c0 (hd (TL []) (tlist o)) in
    let m0 := mkM c1 [V.as_map (proj_set (src_next q))] 0 [] (tz (tnth 0 l))
                  (E.mon_oracle oracle ++ E.mon_compute M (tz (tnth 0 l)) oracle maxv c0 (tz (tnth 5 l)) (E.valset c1)) in
    of_zs (nodup Z.eq_dec (m_bad (mon_walk m0 (tlist (tnth 2 t)) (tl (tlist o)))))
  end.
