(* Composition of two component models (DESIGN.md 2.2, growth towards one system model):
     Model/KeyAssign.v  consumer-key assignment, pruning, lifecycle phases, staking registry (C05, C06), and
     Model/Slash.v      the provider's handling of a consumer's downtime slash packet (C08).
   In Slash.v the op [ORecv .. res ..] carries the provider validator the reported consumer address resolves to
   as an ORACLE.  Here it is COMPUTED: OnRecvSlashPacket calls GetProviderAddrFromConsumerAddr = KeyAssign.resolve
   on the key-assignment state of that moment, and the result is fed to Slash.recv_slash.  The consumer's phase
   that Slash.recv_slash looks at is the one KeyAssign tracks, and "the channel is registered" is: the consumer
   is launched or stopped (the channel mapping is created at launch and deleted by DeleteConsumerChain).

   IDENTITY MAPPING.  KeyAssign names a validator inside a consumer by its provider consensus key P (the provider
   store is keyed by provider consensus address) and staking validators by (operator o, provider key P).
   Slash names validators by an index into its validator table, where [v_found] means "GetValidatorByConsAddr
   succeeds".  In the composition the Slash index IS the provider key id: row P of the table is the staking
   validator whose consensus key is P, [v_found (row P)] = "some registered operator has provider key P"
   (proved as an invariant).  Creating a validator with key P installs a fresh bonded row P; removing it clears
   the row (a validator re-created later with the same key starts unjailed, as in staking).  KeyAssign's own
   [OSlash]/[s_jailed] (its C06 stand-in for punishment) is not used: punishment is Slash's.

   Oracles that remain: the infraction height of the vsc id (None = unknown id), packet power / infraction kind,
   staking's total power at BeginBlock, tokens / power of a new validator, external staking changes of a
   validator (jail flag, tombstone, status), the consumer's stored validator set.  NO resolution oracle.
   Definitions only; lemmas in Proofs/SlashKeysProofs.v. *)
From Coq Require Import ZArith List Bool.
From ICS Require Import Base.Dec Base.Tree Model.Throttle.
From ICS Require Model.KeyAssign Model.Slash.
Import ListNotations.
Open Scope Z_scope.

Module K := ICS.Model.KeyAssign.
Module S := ICS.Model.Slash.

Record cfg := mkCfg {
  g_frac : Z;      (* slash meter replenish fraction (dec) *)
  g_period : Z;    (* slash meter replenish period, ns *)
  g_dfrac : Z;     (* default downtime slash fraction stored for a new consumer (dec) *)
  g_djail : Z      (* default downtime jail duration, ns *)
}.

Record sys := mkSys { ks : K.state; sl : S.state }.

Definition init_sys (unb : Z) (nk : nat) (m0 c0 : Z) : sys :=
  mkSys (K.init unb) (S.mkS (repeat S.vdflt nk) [] (mkP m0 c0)).

(* the Slash state OnRecvSlashPacket sees: every consumer's phase is the one KeyAssign tracks *)
Fixpoint view_from (k : K.state) (i : nat) (xs : list S.cons) : list S.cons :=
  match xs with
  | [] => []
  | x :: t => S.mkCo (K.c_phase (K.getc k i)) (S.c_set x) (S.c_params x) (S.c_acks x) :: view_from k (Datatypes.S i) t
  end.
Definition view (k : K.state) (s : S.state) : S.state :=
  S.mkS (S.vals s) (view_from k 0 (S.conss s)) (S.thr s).

Definition in_table (s : S.state) (key : Z) : bool :=
  (0 <=? key) && (key <? Z.of_nat (length (S.vals s))).
(* ChannelToConsumerId present: set at launch, deleted with the consumer *)
Definition has_channel (k : K.state) (c : nat) : bool :=
  (K.c_phase (K.getc k c) =? 3) || (K.c_phase (K.getc k c) =? 4).

Inductive sop :=
| SKey (a : K.op)                         (* any KeyAssign op except OCreateVal / ORemoveVal / OBeginBlock / OSlash *)
| SCreateVal (o key tokens pow : Z)       (* staking creates a bonded validator (AfterValidatorCreated may abort it) *)
| SRemoveVal (o : Z)
| SBeginBlock (total : Z)                 (* BeginBlockRemoveConsumers + BeginBlockCIS (meter), staking total power *)
| SSetMembers (c : nat) (set : list Z)    (* the consumer's stored validator set (provider keys) *)
| SExtVal (key : Z) (jailed tomb : bool) (status tokens lastpow : Z)   (* staking / slashing changed validator [key] *)
| SRecvSlash (c : nat) (k infr power : Z) (h : option Z).             (* slash packet on c's channel for address k *)

(* the KeyAssign op a system op performs in state s (None: none) *)
Definition to_kop (s : sys) (a : sop) : option K.op :=
  match a with
  | SKey (K.OCreateVal _ _) | SKey (K.ORemoveVal _) | SKey K.OBeginBlock | SKey (K.OSlash _ _) => None
  | SKey a => Some a
  | SCreateVal o key _ _ => if in_table (sl s) key then Some (K.OCreateVal o key) else None
  | SRemoveVal o => Some (K.ORemoveVal o)
  | SBeginBlock _ => Some K.OBeginBlock
  | _ => None
  end.

(* the validator a report for consumer address k on consumer c is about: GetProviderAddrFromConsumerAddr *)
Definition target (s : sys) (c : nat) (k : Z) : Z := K.resolve (ks s) c k.

Definition recv (s : sys) (c : nat) (k infr power : Z) (h : option Z) : Z * S.state :=
  S.recv_slash (view (ks s) (sl s)) (Z.of_nat c) k infr true power h (target s c k) (K.s_now (ks s)).

Definition sstep (g : cfg) (s : sys) (a : sop) : sys * Z :=
  match a with
  | SKey (K.OCreateVal _ _) | SKey (K.ORemoveVal _) | SKey K.OBeginBlock | SKey (K.OSlash _ _) => (s, K.E_OTHER)
  | SKey a =>
    let '(k', e) := K.step (ks s) a in
    match a with
    | K.ORegister =>    (* MsgCreateConsumer stores the default infraction parameters *)
      (mkSys k' (S.mkS (S.vals (sl s))
                       (S.conss (sl s) ++ [S.mkCo 1 [] (Some (g_dfrac g, g_djail g)) []]) (S.thr (sl s))), e)
    | _ => (mkSys k' (sl s), e)
    end
  | SCreateVal o key tokens pow =>
    if negb (in_table (sl s) key) then (s, K.E_OTHER) else
    let '(k', e) := K.step (ks s) (K.OCreateVal o key) in
    if e =? 0 then (mkSys k' (S.setv (sl s) key (S.mkV true 3 false false tokens pow 0 [])), 0) else (s, e)
  | SRemoveVal o =>
    match K.reg_by_oper o (K.s_reg (ks s)) with
    | None => (s, K.E_NOVAL)
    | Some P => (mkSys (fst (K.step (ks s) (K.ORemoveVal o))) (S.setv (sl s) P S.vdflt), 0)
    end
  | SBeginBlock total =>
    (mkSys (fst (K.step (ks s) K.OBeginBlock))
           (S.step (g_frac g) (g_period g) (sl s) (S.OBegin (K.s_now (ks s)) total)), 0)
  | SSetMembers c set =>
    match S.getc (sl s) (Z.of_nat c) with
    | Some x => (mkSys (ks s) (S.setc (sl s) (Z.of_nat c) (S.mkCo (S.c_phase x) set (S.c_params x) (S.c_acks x))), 0)
    | None => (s, K.E_LIFECYCLE)
    end
  | SExtVal key jailed tomb status tokens lastpow =>
    let v := S.getv (sl s) key in
    if S.v_found v
    then (mkSys (ks s) (S.setv (sl s) key (S.mkV true status jailed tomb tokens lastpow (S.v_until v) (S.v_log v))), 0)
    else (s, K.E_LIFECYCLE)
  | SRecvSlash c k infr power h =>
    if has_channel (ks s) c
    then let '(r, s') := recv s c k infr power h in (mkSys (ks s) s', r)
    else (s, 0)                                  (* unknown channel: the callback panics *)
  end.

Definition srun (g : cfg) (ops : list sop) (s : sys) : sys := fold_left (fun s a => fst (sstep g s a)) ops s.

(* the KeyAssign run the composed machine performs *)
Fixpoint ktrace (g : cfg) (s : sys) (ops : list sop) : list K.op :=
  match ops with
  | [] => []
  | a :: t => match to_kop s a with
              | Some o => o :: ktrace g (fst (sstep g s a)) t
              | None => ktrace g (fst (sstep g s a)) t
              end
  end.

(* ================= wire interface =================
   input  = [ [frac, period, dfrac, djail, U, nkeys, nconsumers, meter0, cand0], [op ...] ]
     op = the encoding of Model/KeyAssign.v for codes 0,1,4,5,6,7,8,10,11, and
          [2,o,key,tokens,power]  [3,o]  [9,total]  [20,c,[set]]  [21,key,jailed,tomb,status,tokens,lastpower]
          [22,c,k,infraction,power,[height]|[]]
   output = [ snapshot_0, snapshot_1, ... ]  (initial state, then one per op)
   snapshot = [ result, now, [row of key 0, ...], [[phase, [resolve c k ...]] per consumer], meter, candidate ]
   row = [found, status, jailed, tombstoned, tokens, lastpower, jailed-until] *)
Definition dec_sop (t : tree) : sop :=
  let code := tz (tnth 0 t) in
  if code =? 2 then SCreateVal (tz (tnth 1 t)) (tz (tnth 2 t)) (tz (tnth 3 t)) (tz (tnth 4 t))
  else if code =? 3 then SRemoveVal (tz (tnth 1 t))
  else if code =? 9 then SBeginBlock (tz (tnth 1 t))
  else if code =? 20 then SSetMembers (tnat (tnth 1 t)) (tzs (tnth 2 t))
  else if code =? 21 then SExtVal (tz (tnth 1 t)) (tbool (tnth 2 t)) (tbool (tnth 3 t)) (tz (tnth 4 t))
                                  (tz (tnth 5 t)) (tz (tnth 6 t))
  else if code =? 22 then SRecvSlash (tnat (tnth 1 t)) (tz (tnth 2 t)) (tz (tnth 3 t)) (tz (tnth 4 t)) (to_optz (tnth 5 t))
  else SKey (K.decode_op t).

Definition obs_row (v : S.val) : tree :=
  TL [of_bool (S.v_found v); TI (S.v_status v); of_bool (S.v_jailed v); of_bool (S.v_tomb v); TI (S.v_tokens v);
      TI (S.v_lastpow v); TI (S.v_until v)].

Definition snapshot (nk nc res : Z) (s : sys) : tree :=
  TL [ TI res; TI (K.s_now (ks s));
       TL (map (fun k => obs_row (S.getv (sl s) k)) (K.zrange nk));
       TL (map (fun c => TL [TI (K.c_phase (K.getc (ks s) (Z.to_nat c)));
                             of_zs (map (fun k => target s (Z.to_nat c) k) (K.zrange nk))]) (K.zrange nc));
       TI (meter (S.thr (sl s))); TI (cand (S.thr (sl s))) ].

Fixpoint run_ops (g : cfg) (nk nc : Z) (ops : list sop) (s : sys) : list tree :=
  match ops with
  | [] => []
  | a :: r => let '(s', e) := sstep g s a in snapshot nk nc e s' :: run_ops g nk nc r s'
  end.

Definition dec_cfg (c : tree) : cfg := mkCfg (tz (tnth 0 c)) (tz (tnth 1 c)) (tz (tnth 2 c)) (tz (tnth 3 c)).
Definition dec_init (c : tree) : sys :=
  init_sys (tz (tnth 4 c)) (Z.to_nat (tz (tnth 5 c))) (tz (tnth 7 c)) (tz (tnth 8 c)).

Definition run (t : tree) : tree :=
  let c := tnth 0 t in
  let nk := tz (tnth 5 c) in let nc := tz (tnth 6 c) in
  let ops := map dec_sop (tlist (tnth 1 t)) in
  TL (snapshot nk nc 0 (dec_init c) :: run_ops (dec_cfg c) nk nc ops (dec_init c)).

(* ================= monitor =================
   The attribution of a reported key comes from the KEY-ASSIGNMENT HISTORY (the KeyAssign component run on the
   ops); everything about validators and the meter is read from the implementation's own snapshots.
   After a slash packet for (c, k), with P := the validator the history attributes k to on c:
     1: a validator other than P changed;   2: P was not jailed although every condition held (or was jailed
     although one did not);   3: the implementation's own resolution of (c, k) before the packet was not P;
     4: result class differs from the one the conditions imply;   5: an op other than a slash packet, a validator
     creation/removal or an external change altered a validator row. *)
Definition o_rows (t : tree) : list tree := tlist (tnth 2 t).
Definition o_row (t : tree) (k : Z) : tree := if k <? 0 then TL [] else nth (Z.to_nat k) (o_rows t) (TL []).
Definition r_found (r : tree) : bool := tbool (tnth 0 r).
Definition r_status (r : tree) : Z := tz (tnth 1 r).
Definition r_jailed (r : tree) : bool := tbool (tnth 2 r).
Definition r_tomb (r : tree) : bool := tbool (tnth 3 r).
Definition o_resolve (t : tree) (c : nat) (k : Z) : Z := K.vec_at (tnth 1 (tnth c (tnth 3 t))) k.
Definition o_meter (t : tree) : Z := tz (tnth 4 t).

Definition rows_same_except (nk : Z) (prev cur : tree) (except : Z) : bool :=
  forallb (fun k => (k =? except) || K.tree_eqb (o_row prev k) (o_row cur k)) (K.zrange nk).

Definition mon_step (nk : Z) (m : sys) (a : sop) (prev cur : tree) : list Z :=
  match a with
  | SRecvSlash c k infr power h =>
    let P := target m c k in
    let row := o_row prev P in
    let x := S.getc (view (ks m) (sl m)) (Z.of_nat c) in
    let wf := S.validate true power infr && (infr =? S.DOWNTIME) && match h with Some _ => true | None => false end in
    let reach := has_channel (ks m) c && wf && S.launched (view (ks m) (sl m)) (Z.of_nat c)
                 && S.member (view (ks m) (sl m)) (Z.of_nat c) P in
    let cond := reach && negb (o_meter prev <? 0) && r_found row && negb (r_status row =? S.UNBONDED)
                && negb (r_tomb row) && negb (r_jailed row) && S.has_params (view (ks m) (sl m)) (Z.of_nat c) in
    let jailed_now := r_jailed (o_row cur P) && negb (r_jailed row) in
    let expect_class :=
      if negb (has_channel (ks m) c) then 0
      else if negb (S.validate true power infr) then 4
      else match h with None => 4 | Some _ =>
             if infr =? S.DOUBLE_SIGN then 1 else if reach && (o_meter prev <? 0) then 3 else 2 end in
    flag (rows_same_except nk prev cur P) 1 ++
    flag (Bool.eqb jailed_now cond) 2 ++
    flag (negb (has_channel (ks m) c) || (o_resolve prev c k =? P)) 3 ++
    flag (K.o_res cur =? expect_class) 4
  | SCreateVal _ key _ _ => flag (rows_same_except nk prev cur key) 5
  | SRemoveVal o => flag (rows_same_except nk prev cur (K.optz (K.reg_by_oper o (K.s_reg (ks m))))) 5
  | SExtVal key _ _ _ _ _ => flag (rows_same_except nk prev cur key) 5
  | _ => flag (rows_same_except nk prev cur (-1)) 5
  end.

Fixpoint mon_loop (g : cfg) (nk : Z) (m : sys) (ops : list sop) (prev : tree) (snaps : list tree) : list Z :=
  match ops, snaps with
  | a :: ops', cur :: snaps' =>
    mon_step nk m a prev cur ++ mon_loop g nk (fst (sstep g m a)) ops' cur snaps'
  | _, _ => []
  end.

Definition mon (t o : tree) : tree :=
  let c := tnth 0 t in
  let nk := tz (tnth 5 c) in
  let ops := map dec_sop (tlist (tnth 1 t)) in
  match tlist o with
  | s0 :: snaps =>
    if Nat.eqb (length snaps) (length ops)
    then of_zs (K.dedup (mon_loop (dec_cfg c) nk (dec_init c) ops s0 snaps))
    else of_zs [99]
  | [] => of_zs [99]
  end.
