(* Model of the consumer lifecycle of the provider (properties C10 and C11):
     x/ccv/provider/keeper/permissionless.go   FetchAndIncrementConsumerId, phases, IsConsumerActive/Prelaunched
     x/ccv/provider/keeper/msg_server.go       CreateConsumer, UpdateConsumer (including the repair of finding C10-F1: a
                                               chain-id-only update whose revision does not match the stored initial
                                               height is rejected), RemoveConsumer, OptIn (phase check only)
     x/ccv/provider/keeper/consumer_lifecycle.go  PrepareConsumerForLaunch, InitializeConsumer, BeginBlockLaunchConsumers,
                                               ConsumeIdsFromTimeQueue, LaunchConsumer, CreateConsumerClient, MakeConsumerGenesis,
                                               StopAndPrepareForConsumerRemoval, BeginBlockRemoveConsumers, DeleteConsumerChain,
                                               appendConsumerIdOnTime / removeConsumerIdFromTime
     x/ccv/provider/keeper/relay.go            OnTimeoutPacket, OnAcknowledgementPacket (error), QueueVSCPackets / SendVSCPackets
                                               (launched-phase filter), SendVSCPacketsToChain (failure -> stop)
     x/ccv/provider/keeper/keeper.go           SetConsumerChain (channel binding)
     x/ccv/provider/module.go                  BeginBlock order (launch, then remove)
   Only definitions here; lemmas are in Proofs/Lifecycle*.v, theorems in Props/C10.v and Props/C11.v.

   Encoding.  Consumer ids, owners, chain names, validators: integers.  Times: integers (ns relative to a base
   before every time used); 0 = the zero time (no spawn time / no removal time).  Phases as in the Go enum:
   0 unspecified (no such consumer), 1 registered, 2 initialized, 3 launched, 4 stopped, 5 deleted.
   External modules are oracle inputs carried by the ops (launch: size of the computed initial validator set,
   whether it contains an active provider validator, whether an external call of MakeConsumerGenesis /
   CreateConsumerClient fails; end block: iteration order of the client-id index, whether the validator set changed,
   its new size, and how the channel keeper answers SendPacket: 0 every call succeeds, 1 ErrClientNotActive on the
   first packet, 2 + j another error on packet number j). *)
From Coq Require Import ZArith List Bool.
From ICS Require Import Base.Tree.
Import ListNotations.
Open Scope Z_scope.

(* ------------------------------------------------------------------ state *)

(* descriptive records: kept when the consumer is deleted (chain id, owner, initialization parameters) *)
Record desc := mkD {
  d_owner : Z;
  d_chain : Z;        (* chain id: name ... *)
  d_rev : Z;          (* ... and revision number of the chain id (clienttypes.ParseChainID) *)
  d_spawn : Z;        (* InitializationParameters.SpawnTime, 0 = zero time *)
  d_hrev : Z;         (* InitializationParameters.InitialHeight.RevisionNumber *)
  d_conn : Z          (* InitializationParameters.ConnectionId, 0 = "" *)
}.

(* per-consumer protocol state: everything DeleteConsumerChain removes *)
Record proto := mkP {
  p_client : bool;    (* ConsumerIdToClientId + ClientIdToConsumerId *)
  p_genesis : bool;   (* ConsumerGenesis *)
  p_evmin : bool;     (* EquivocationEvidenceMinHeight *)
  p_channel : bool;   (* ConsumerIdToChannelId + ChannelToConsumerId + InitChainHeight *)
  p_valset : Z;       (* size of the stored consumer validator set *)
  p_pending : Z;      (* number of pending VSC packets *)
  p_removal : Z;      (* ConsumerIdToRemovalTime, 0 = none *)
  p_optin : list Z;   (* opted-in validators (sorted, no duplicates) *)
  p_extra : list Z    (* other per-consumer records present, by store prefix byte (sorted, no duplicates):
                         22,23 key assignment; 36 allowlist; 37 denylist; 56 prioritylist; 39 commission rates;
                         15 slash acks; 40 minimum power in top N; 41 consumer addresses to prune *)
}.

Definition empty_proto : proto := mkP false false false false 0 0 0 [] [].

Record consumer := mkC {
  c_id : Z;
  c_phase : Z;
  c_desc : desc;
  c_proto : proto;
  c_sent : Z          (* VSC packets handed to the channel keeper for this consumer so far (never reset) *)
}.

(* time queue, exactly like the store: key = timestamp (ascending), value = ConsumerIds in append order *)
Definition tq : Type := list (Z * list Z).

Record state := mkS {
  s_next : Z;               (* ConsumerId counter *)
  s_now : Z;                (* time of the current block *)
  s_cons : list consumer;   (* in order of creation *)
  s_spawnq : tq;            (* SpawnTimeToConsumerIds *)
  s_remq : tq               (* RemovalTimeToConsumerIds *)
}.

Definition init_state : state := mkS 0 0 [] [] [].

(* setters *)
Definition set_phase (p : Z) (r : consumer) : consumer := mkC (c_id r) p (c_desc r) (c_proto r) (c_sent r).
Definition set_desc (d : desc) (r : consumer) : consumer := mkC (c_id r) (c_phase r) d (c_proto r) (c_sent r).
Definition set_proto (p : proto) (r : consumer) : consumer := mkC (c_id r) (c_phase r) (c_desc r) p (c_sent r).
Definition set_sent (n : Z) (r : consumer) : consumer := mkC (c_id r) (c_phase r) (c_desc r) (c_proto r) n.

Definition d_set_owner (o : Z) (d : desc) := mkD o (d_chain d) (d_rev d) (d_spawn d) (d_hrev d) (d_conn d).
Definition d_set_chain (ch rv : Z) (d : desc) := mkD (d_owner d) ch rv (d_spawn d) (d_hrev d) (d_conn d).
Definition d_set_init (sp hr cn : Z) (d : desc) := mkD (d_owner d) (d_chain d) (d_rev d) sp hr cn.

Definition p_set_removal (t : Z) (p : proto) :=
  mkP (p_client p) (p_genesis p) (p_evmin p) (p_channel p) (p_valset p) (p_pending p) t (p_optin p) (p_extra p).
Definition p_set_channel (b : bool) (p : proto) :=
  mkP (p_client p) (p_genesis p) (p_evmin p) b (p_valset p) (p_pending p) (p_removal p) (p_optin p) (p_extra p).
Definition p_set_valset (n : Z) (p : proto) :=
  mkP (p_client p) (p_genesis p) (p_evmin p) (p_channel p) n (p_pending p) (p_removal p) (p_optin p) (p_extra p).
Definition p_set_pending (n : Z) (p : proto) :=
  mkP (p_client p) (p_genesis p) (p_evmin p) (p_channel p) (p_valset p) n (p_removal p) (p_optin p) (p_extra p).
Definition p_set_optin (l : list Z) (p : proto) :=
  mkP (p_client p) (p_genesis p) (p_evmin p) (p_channel p) (p_valset p) (p_pending p) (p_removal p) l (p_extra p).
Definition p_set_extra (l : list Z) (p : proto) :=
  mkP (p_client p) (p_genesis p) (p_evmin p) (p_channel p) (p_valset p) (p_pending p) (p_removal p) (p_optin p) l.
(* artefacts of a successful launch: validator set, genesis, client binding, evidence min height *)
Definition p_set_launch (n : Z) (p : proto) :=
  mkP true true true (p_channel p) n (p_pending p) (p_removal p) (p_optin p) (p_extra p).

Definition set_now (t : Z) (s : state) := mkS (s_next s) t (s_cons s) (s_spawnq s) (s_remq s).
Definition set_cons (l : list consumer) (s : state) := mkS (s_next s) (s_now s) l (s_spawnq s) (s_remq s).
Definition set_spawnq (q : tq) (s : state) := mkS (s_next s) (s_now s) (s_cons s) q (s_remq s).
Definition set_remq (q : tq) (s : state) := mkS (s_next s) (s_now s) (s_cons s) (s_spawnq s) q.

Definition get (s : state) (c : Z) : option consumer := find (fun r => c_id r =? c) (s_cons s).
(* GetConsumerPhase: unspecified for an unknown id *)
Definition phase_of (s : state) (c : Z) : Z := match get s c with Some r => c_phase r | None => 0 end.
Definition upd_list (c : Z) (f : consumer -> consumer) (l : list consumer) : list consumer :=
  map (fun r => if c_id r =? c then f r else r) l.
Definition upd (s : state) (c : Z) (f : consumer -> consumer) : state := set_cons (upd_list c f (s_cons s)) s.

(* sorted sets of integers *)
Fixpoint set_add (x : Z) (l : list Z) : list Z :=
  match l with
  | [] => [x]
  | y :: t => if x <? y then x :: l else if x =? y then l else y :: set_add x t
  end.
Definition set_del (x : Z) (l : list Z) : list Z := filter (fun y => negb (y =? x)) l.

(* ------------------------------------------------------------------ time queues *)

(* getConsumerIdsBasedOnTime *)
Fixpoint tq_get (q : tq) (ts : Z) : list Z :=
  match q with
  | [] => []
  | (t, ids) :: r => if t =? ts then ids else tq_get r ts
  end.

(* appendConsumerIdOnTime: append to the list under ts (creating the key in key order) *)
Fixpoint tq_append (q : tq) (ts c : Z) : tq :=
  match q with
  | [] => [(ts, [c])]
  | (t, ids) :: r =>
    if ts <? t then (ts, [c]) :: q
    else if ts =? t then (t, ids ++ [c]) :: r
    else (t, ids) :: tq_append r ts c
  end.

(* removal of the first occurrence; None = "failed to find consumer id" *)
Fixpoint remove_first (c : Z) (ids : list Z) : option (list Z) :=
  match ids with
  | [] => None
  | x :: t => if x =? c then Some t
              else match remove_first c t with Some t' => Some (x :: t') | None => None end
  end.

(* removeConsumerIdFromTime: error when nothing is stored under ts or the id is not there; the key is
   deleted when its list becomes empty *)
Fixpoint tq_remove (q : tq) (ts c : Z) : option tq :=
  match q with
  | [] => None
  | (t, ids) :: r =>
    if t =? ts then
      match remove_first c ids with
      | None => None
      | Some [] => Some r
      | Some ids' => Some ((t, ids') :: r)
      end
    else match tq_remove r ts c with Some r' => Some ((t, ids) :: r') | None => None end
  end.

(* ConsumeIdsFromTimeQueue with `avail` = limit - len(result): walk the keys in ascending order; stop when the
   limit is reached or the timestamp is after the block time; a timestamp whose list fits is consumed entirely
   (key deleted); otherwise the first `avail` ids are consumed, the key is deleted and the remaining ids are
   appended back under the same timestamp in their order (the result is the entry (ts, remaining ids)). *)
Fixpoint consume (q : tq) (now : Z) (avail : nat) : list Z * tq :=
  match q with
  | [] => ([], [])
  | (ts, ids) :: r =>
    match avail with
    | O => ([], q)                                     (* len(result) >= limit: break *)
    | S _ =>
      if now <? ts then ([], q)                        (* ts.After(ctx.BlockTime()): break *)
      else if (length ids <=? avail)%nat then
        let (res, q') := consume r now (avail - length ids) in (ids ++ res, q')
      else (firstn avail ids, (ts, skipn avail ids) :: r)
    end
  end.

Definition limit : nat := 200.

(* ------------------------------------------------------------------ operations *)

(* oracle of one launch attempt *)
Record lora := mkLO { lo_size : Z; lo_active : bool; lo_extfail : bool }.
(* oracle of one consumer in EndBlockVSU: validator set changed, new size, SendPacket answer
   (0 ok, 1 ErrClientNotActive, 2 + j: another error on packet number j) *)
Record eora := mkEO { eo_changes : bool; eo_size : Z; eo_mode : Z;
                      eo_stopfail : bool  (* staking.UnbondingTime fails inside the stop that follows a send failure *) }.

Fixpoint lookup {A} (d : A) (l : list (Z * A)) (c : Z) : A :=
  match l with
  | [] => d
  | (k, a) :: t => if k =? c then a else lookup d t c
  end.

Inductive op :=
| OCreate (owner chain rev : Z) (ini : option (Z * Z * Z))                          (* ini: spawn, hrev, conn; None = defaults *)
| OUpdate (c sender : Z) (newchain : option (Z * Z)) (newowner : option Z) (ini : option (Z * Z * Z))
| ORemove (c sender : Z)
| OOptIn (c v : Z) (withkey : bool)
| ODecorate (c tag : Z)                       (* another sub-protocol writes a per-consumer record *)
| OChannel (c : Z)                            (* SetConsumerChain: the CCV channel handshake completes *)
| OBegin (now : Z) (ora : list (Z * lora))
| OEnd (epoch : bool) (order : list Z) (ora : list (Z * eora))
| OTimeout (c : Z)
| OErrAck (c : Z)
| ONop.

(* result codes *)
Definition r_ok := 0.
Definition r_other := 1.        (* unknown consumer for a direct keeper write *)
Definition r_phase := 2.        (* ErrInvalidPhase *)
Definition r_unauth := 3.       (* ErrUnauthorized *)
Definition r_update := 4.       (* ErrInvalidMsgUpdateConsumer *)
Definition r_initpar := 5.      (* ErrInvalidConsumerInitializationParameters *)
Definition r_state := 6.        (* ErrInvalidConsumerState *)
Definition r_noowner := 7.      (* ErrNoOwnerAddress *)
Definition r_channel := 8.      (* unknown channel / channel cannot be bound *)
Definition r_block := 9.        (* BeginBlock / EndBlock returned an error *)

Definition is_prelaunched (p : Z) : bool := (p =? 1) || (p =? 2).
Definition is_active (p : Z) : bool := (p =? 1) || (p =? 2) || (p =? 3).

(* InitializeConsumer followed by PrepareConsumerForLaunch (the tail of CreateConsumer / UpdateConsumer).
   None = PrepareConsumerForLaunch failed (ErrInvalidConsumerState). *)
Definition initialize_and_prepare (s : state) (c prev : Z) : option state :=
  match get s c with
  | None => Some s
  | Some r =>
    if is_prelaunched (c_phase r) && negb (d_spawn (c_desc r) =? 0) then
      let s1 := upd s c (set_phase 2) in
      let spawn := d_spawn (c_desc r) in
      if prev =? 0 then Some (set_spawnq (tq_append (s_spawnq s1) spawn c) s1)
      else match tq_remove (s_spawnq s1) prev c with
           | None => None
           | Some q => Some (set_spawnq (tq_append q spawn c) s1)
           end
    else Some s
  end.

(* CreateConsumer *)
Definition do_create (s : state) (owner chain rev : Z) (ini : option (Z * Z * Z)) : state * Z :=
  let c := s_next s in                                              (* FetchAndIncrementConsumerId *)
  let '(spawn, hrev, conn) := match ini with Some x => x | None => (0, 1, 0) end in  (* DefaultConsumerInitializationParameters *)
  (* SetConsumerInitializationParameters: ValidateInitialHeight against the chain id *)
  if negb (hrev =? rev) then (s, r_initpar)
  else
    let r := mkC c 1 (mkD owner chain rev spawn hrev conn) empty_proto 0 in
    let s1 := mkS (c + 1) (s_now s) (s_cons s ++ [r]) (s_spawnq s) (s_remq s) in
    match initialize_and_prepare s1 c 0 with
    | Some s2 => (s2, r_ok)
    | None => (s, r_state)
    end.

(* UpdateConsumer, the block handling msg.InitializationParameters; inr = the handler returns that error *)
Definition apply_ini (s2 : state) (c phase0 prev : Z) (ini : option (Z * Z * Z)) : state + Z :=
  match ini with
  | None =>
    (* no new initialization parameters: the stored initial height must match the (possibly new) chain id *)
    match get s2 c with
    | Some r => if d_hrev (c_desc r) =? d_rev (c_desc r) then inl s2 else inr r_update
    | None => inl s2
    end
  | Some (spawn, hrev, conn) =>
    if negb (is_prelaunched phase0) then inr r_update
    else
      (* zero spawn time on an initialized chain: unschedule and move back to registered *)
      match (if (spawn =? 0) && (phase0 =? 2)
             then match tq_remove (s_spawnq s2) prev c with
                  | None => None
                  | Some q => Some (upd (set_spawnq q s2) c (set_phase 1))
                  end
             else Some s2) with
      | None => inr r_update
      | Some s3 =>
        (* SetConsumerInitializationParameters validates the height against the (possibly new) chain id *)
        let rv := match get s3 c with Some r => d_rev (c_desc r) | None => 0 end in
        if negb (hrev =? rv) then inr r_initpar
        else inl (upd s3 c (fun r => set_desc (d_set_init spawn hrev conn (c_desc r)) r))
      end
  end.

(* UpdateConsumer, in the order of the handler *)
Definition do_update (s : state) (c sender : Z) (newchain : option (Z * Z)) (newowner : option Z)
           (ini : option (Z * Z * Z)) : state * Z :=
  match get s c with
  | None => (s, r_phase)                                            (* IsConsumerActive is false *)
  | Some r0 =>
    if negb (is_active (c_phase r0)) then (s, r_phase)
    else if negb (d_owner (c_desc r0) =? sender) then (s, r_unauth)
    else
      (* NewChainId, only when non-empty and different from the current one *)
      let chg := match newchain with
                 | Some (ch, rv) => negb ((ch =? d_chain (c_desc r0)) && (rv =? d_rev (c_desc r0)))
                 | None => false end in
      if chg && negb (is_prelaunched (c_phase r0)) then (s, r_phase)
      else
        let s1 := match newchain with
                  | Some (ch, rv) => if chg then upd s c (fun r => set_desc (d_set_chain ch rv (c_desc r)) r) else s
                  | None => s end in
        let s2 := match newowner with
                  | Some o => upd s1 c (fun r => set_desc (d_set_owner o (c_desc r)) r)
                  | None => s1 end in
        let prev := d_spawn (c_desc r0) in                          (* previousSpawnTime *)
        match apply_ini s2 c (c_phase r0) prev ini with
        | inr code => (s, code)
        | inl s4 =>
          match initialize_and_prepare s4 c prev with
          | Some s5 => (s5, r_ok)
          | None => (s, r_state)
          end
        end
  end.

(* StopAndPrepareForConsumerRemoval: no phase check; overwrites the removal time; appends to the queue *)
Definition stop_and_prepare (U : Z) (s : state) (c : Z) : state :=
  let t := s_now s + U in
  let s1 := upd s c (fun r => set_proto (p_set_removal t (c_proto r)) (set_phase 4 r)) in
  set_remq (tq_append (s_remq s1) t c) s1.

(* PRE-FIX behaviour of a stop whose UnbondingTime call fails inside SendVSCPacketsToChain (before the repair of
   finding C19-stop-without-removal), kept for the record only; NOT used by [run]/[step]: the phase was already set
   to stopped when the error was returned (and swallowed by the caller), so the consumer ended up stopped with no
   removal time and no removal-queue entry *)
Definition stop_unscheduled_prefix (s : state) (c : Z) : state := upd s c (set_phase 4).

(* RemoveConsumer *)
Definition do_remove (U : Z) (s : state) (c sender : Z) : state * Z :=
  match get s c with
  | None => (s, r_noowner)
  | Some r =>
    if negb (d_owner (c_desc r) =? sender) then (s, r_unauth)
    else if negb (c_phase r =? 3) then (s, r_phase)
    else (stop_and_prepare U s c, r_ok)
  end.

(* MsgOptIn -> HandleOptIn (phase check, SetOptedIn, optional key assignment) *)
Definition do_optin (s : state) (c v : Z) (withkey : bool) : state * Z :=
  match get s c with
  | None => (s, r_phase)
  | Some r =>
    if negb (is_active (c_phase r)) then (s, r_phase)
    else (upd s c (fun r =>
            let p := p_set_optin (set_add v (p_optin (c_proto r))) (c_proto r) in
            set_proto (if withkey then p_set_extra (set_add 23 (set_add 22 (p_extra p))) p else p) r), r_ok)
  end.

(* a direct keeper write of another sub-protocol (no phase check in the keeper setters) *)
Definition do_decorate (s : state) (c tag : Z) : state * Z :=
  match get s c with
  | None => (s, r_other)
  | Some _ => (upd s c (fun r => set_proto (p_set_extra (set_add tag (p_extra (c_proto r))) (c_proto r)) r), r_ok)
  end.

(* SetConsumerChain: the client of the channel must be bound to a consumer that has no channel yet; no phase check *)
Definition do_channel (s : state) (c : Z) : state * Z :=
  match get s c with
  | None => (s, r_channel)
  | Some r =>
    if p_client (c_proto r) && negb (p_channel (c_proto r))
    then (upd s c (fun r => set_proto (p_set_channel true (c_proto r)) r), r_ok)
    else (s, r_channel)
  end.

(* OnTimeoutPacket / OnAcknowledgementPacket(error): GetChannelIdToConsumerId, then stop *)
Definition do_packet_failure (U : Z) (s : state) (c : Z) : state * Z :=
  match get s c with
  | None => (s, r_channel)
  | Some r => if p_channel (c_proto r) then (stop_and_prepare U s c, r_ok) else (s, r_channel)
  end.

(* LaunchConsumer on the cached context: Some = the consumer record to write, None = error (nothing written) *)
Definition launch_consumer (r : consumer) (o : lora) : option consumer :=
  (* ComputeConsumerNextValSet; "cannot launch consumer with no consumer validator" *)
  if lo_size o =? 0 then None
  (* HasActiveConsumerValidator *)
  else if negb (lo_active o) then None
  (* MakeConsumerGenesis (staking / connection / client keeper calls), CreateConsumerClient -> CreateClient *)
  else if lo_extfail o then None
  (* CreateConsumerClient: without a connection id the phase must be initialized *)
  else if (d_conn (c_desc r) =? 0) && negb (c_phase r =? 2) then None
  else Some (set_phase 3 (set_proto (p_set_launch (lo_size o) (c_proto r)) r)).

(* the fallback of BeginBlockLaunchConsumers: spawn time cleared, phase registered *)
Definition fallback (r : consumer) : consumer :=
  set_phase 1 (set_desc (d_set_init 0 (d_hrev (c_desc r)) (d_conn (c_desc r)) (c_desc r)) r).

Definition no_lora : lora := mkLO 0 false false.

(* the loop of BeginBlockLaunchConsumers; None = the function returns an error (the block fails):
   GetConsumerInitializationParameters fails for an unknown id, SetConsumerInitializationParameters fails when
   the stored initial height no longer matches the chain id's revision *)
Fixpoint launch_loop (s : state) (ora : list (Z * lora)) (ids : list Z) : option state :=
  match ids with
  | [] => Some s
  | c :: rest =>
    match get s c with
    | None => None
    | Some r =>
      match launch_consumer r (lookup no_lora ora c) with
      | Some r' => launch_loop (upd s c (fun _ => r')) ora rest            (* writeFn() *)
      | None =>
        if d_rev (c_desc r) =? d_hrev (c_desc r)
        then launch_loop (upd s c fallback) ora rest
        else None
      end
    end
  end.

(* DeleteConsumerChain (after the phase check) *)
Definition delete_consumer (r : consumer) : consumer := set_phase 5 (set_proto empty_proto r).

(* the loop of BeginBlockRemoveConsumers: a non-stopped consumer is logged and skipped *)
Fixpoint remove_loop (s : state) (ids : list Z) : state :=
  match ids with
  | [] => s
  | c :: rest => remove_loop (if phase_of s c =? 4 then upd s c delete_consumer else s) rest
  end.

(* module BeginBlock: launch, then remove.  On an error the block's writes are discarded (only the clock moves). *)
Definition do_begin (s : state) (now : Z) (ora : list (Z * lora)) : state * Z :=
  let s0 := set_now now s in
  let (ids, q') := consume (s_spawnq s0) now limit in
  match launch_loop (set_spawnq q' s0) ora ids with
  | None => (s0, r_block)
  | Some s1 =>
    let (rids, rq') := consume (s_remq s1) now limit in
    (remove_loop (set_remq rq' s1) rids, r_ok)
  end.

Definition no_eora : eora := mkEO false 0 0 false.

(* QueueVSCPackets, one consumer of GetAllConsumersWithIBCClients: launched-phase filter, new validator set,
   a packet when there are changes (consuming the slash acks) *)
Definition queue_one (ora : list (Z * eora)) (s : state) (c : Z) : state :=
  match get s c with
  | None => s
  | Some r =>
    if p_client (c_proto r) && (c_phase r =? 3) then
      let o := lookup no_eora ora c in
      upd s c (fun r =>
        let p := p_set_valset (eo_size o) (c_proto r) in
        set_proto (if eo_changes o
                   then p_set_extra (set_del 15 (p_extra p)) (p_set_pending (p_pending p + 1) p)
                   else p) r)
    else s
  end.

(* SendVSCPackets, one consumer: launched-phase filter, channel established, SendVSCPacketsToChain *)
Definition send_one (U : Z) (ora : list (Z * eora)) (s : state) (c : Z) : state :=
  match get s c with
  | None => s
  | Some r =>
    if p_client (c_proto r) && (c_phase r =? 3) && p_channel (c_proto r) then
      if p_pending (c_proto r) =? 0 then s                   (* nothing to send; DeletePendingVSCPackets *)
      else
        let m := eo_mode (lookup no_eora ora c) in
        if m =? 0 then                                        (* all packets sent, queue deleted *)
          upd s c (fun r => set_sent (c_sent r + p_pending (c_proto r)) (set_proto (p_set_pending 0 (c_proto r)) r))
        else if m =? 1 then s                                 (* client expired: packets stay queued *)
        else
          (* SendPacket fails at packet number j = m - 2: the j packets before it went out, the queue is not
             deleted, the consumer is stopped; when there are not that many packets all of them are sent *)
          let j := Z.max 0 (m - 2) in
          if p_pending (c_proto r) <=? j then
            upd s c (fun r => set_sent (c_sent r + p_pending (c_proto r)) (set_proto (p_set_pending 0 (c_proto r)) r))
          else
            let s1 := upd s c (fun r => set_sent (c_sent r + j) r) in
            (* StopAndPrepareForConsumerRemoval reads the unbonding period before it changes anything (repair of
               finding C19-stop-without-removal): when that fails the error is logged and the consumer stays
               launched with its packets queued *)
            if eo_stopfail (lookup no_eora ora c) then s1 else stop_and_prepare U s1 c
    else s
  end.

(* EndBlockVSU at an epoch boundary: QueueVSCPackets for all, then SendVSCPackets for all *)
Definition do_end (U : Z) (s : state) (epoch : bool) (order : list Z) (ora : list (Z * eora)) : state * Z :=
  if epoch then (fold_left (send_one U ora) order (fold_left (queue_one ora) order s), r_ok)
  else (s, r_ok).

Definition exec (U : Z) (s : state) (o : op) : state * Z :=
  match o with
  | OCreate owner chain rev ini => do_create s owner chain rev ini
  | OUpdate c sender nc no ini => do_update s c sender nc no ini
  | ORemove c sender => do_remove U s c sender
  | OOptIn c v k => do_optin s c v k
  | ODecorate c tag => do_decorate s c tag
  | OChannel c => do_channel s c
  | OBegin now ora => do_begin s now ora
  | OEnd epoch order ora => do_end U s epoch order ora
  | OTimeout c => do_packet_failure U s c
  | OErrAck c => do_packet_failure U s c
  | ONop => (s, r_ok)
  end.

Definition step (U : Z) (s : state) (o : op) : state := fst (exec U s o).
Definition result (U : Z) (s : state) (o : op) : Z := snd (exec U s o).

(* ------------------------------------------------------------------ wire interface
   input  = [ U, [op...] ]   with op =
     [1, owner, chain, rev, ini]            ini = [] | [spawn, hrev, conn]
     [2, c, sender, nc, no, ini]            nc = [] | [chain, rev];  no = [] | [owner]
     [3, c, sender]   [4, c, v, withkey]   [5, c, tag]   [6, c]
     [7, now, [[c, size, active, extfail]...]]
     [8, epoch, [c...], [[c, changes, size, mode, stopfail]...]]      (stopfail optional, default 0)
     [9, c]   [10, c]   [11]
   output = [ [obs after op 1, ...], [residual store prefixes per consumer at the end] ]
     obs = [code, next id, [consumer...], spawn queue, removal queue]
     consumer = [id, phase, spawn, removal, client, genesis, evmin, channel, valset, pending, sent, [optin], [extra]] *)

Definition dec_ini (t : tree) : option (Z * Z * Z) :=
  match tlist t with
  | [] => None
  | _ => Some (tz (tnth 0 t), tz (tnth 1 t), tz (tnth 2 t))
  end.
Definition dec_pair (t : tree) : option (Z * Z) :=
  match tlist t with [] => None | _ => Some (tz (tnth 0 t), tz (tnth 1 t)) end.
Definition dec_lora (t : tree) : Z * lora :=
  (tz (tnth 0 t), mkLO (tz (tnth 1 t)) (tbool (tnth 2 t)) (tbool (tnth 3 t))).
Definition dec_eora (t : tree) : Z * eora :=
  (tz (tnth 0 t), mkEO (tbool (tnth 1 t)) (tz (tnth 2 t)) (tz (tnth 3 t)) (tbool (tnth 4 t))).

Definition dec_op (t : tree) : op :=
  let a n := tz (tnth n t) in
  match Z.abs (a 0%nat) with
  | 1 => OCreate (a 1%nat) (a 2%nat) (a 3%nat) (dec_ini (tnth 4 t))
  | 2 => OUpdate (a 1%nat) (a 2%nat) (dec_pair (tnth 3 t)) (to_optz (tnth 4 t)) (dec_ini (tnth 5 t))
  | 3 => ORemove (a 1%nat) (a 2%nat)
  | 4 => OOptIn (a 1%nat) (a 2%nat) (tbool (tnth 3 t))
  | 5 => ODecorate (a 1%nat) (a 2%nat)
  | 6 => OChannel (a 1%nat)
  | 7 => OBegin (a 1%nat) (map dec_lora (tlist (tnth 2 t)))
  | 8 => OEnd (tbool (tnth 1 t)) (tzs (tnth 2 t)) (map dec_eora (tlist (tnth 3 t)))
  | 9 => OTimeout (a 1%nat)
  | 10 => OErrAck (a 1%nat)
  | _ => ONop
  end.

Definition enc_consumer (r : consumer) : tree :=
  let p := c_proto r in
  TL [TI (c_id r); TI (c_phase r); TI (d_spawn (c_desc r)); TI (p_removal p);
      of_bool (p_client p); of_bool (p_genesis p); of_bool (p_evmin p); of_bool (p_channel p);
      TI (p_valset p); TI (p_pending p); TI (c_sent r); of_zs (p_optin p); of_zs (p_extra p)].
Definition enc_tq (q : tq) : tree := TL (map (fun e => TL [TI (fst e); of_zs (snd e)]) q).
Definition enc_obs (code : Z) (s : state) : tree :=
  TL [TI code; TI (s_next s); TL (map enc_consumer (s_cons s)); enc_tq (s_spawnq s); enc_tq (s_remq s)].

(* the store prefixes under which something attributable to the consumer must exist (ascending) *)
Definition residual (r : consumer) : list Z :=
  let p := c_proto r in
  let b (x : bool) (l : list Z) := if x then l else [] in
  fold_right set_add []
    ([44; 45; 46; 47; 48; 49; 57] ++
     b (p_client p) [7; 53] ++ b (p_genesis p) [14] ++ b (p_evmin p) [29] ++ b (p_channel p) [5; 6; 16] ++
     b (negb (p_valset p =? 0)) [31] ++ b (negb (p_pending p =? 0)) [17] ++ b (negb (p_removal p =? 0)) [50] ++
     b (match p_optin p with [] => false | _ => true end) [32] ++ p_extra p).

(* an op with a negative tag is "quiet": executed, but no observation is emitted after it (bulk set-up of the
   histories with hundreds of consumers) *)
Definition dec_quiet (t : tree) : bool := tz (tnth 0 t) <? 0.
Definition dec_qop (t : tree) : bool * op := (dec_quiet t, dec_op t).

Fixpoint run_ops (U : Z) (s : state) (ops : list (bool * op)) : list tree * state :=
  match ops with
  | [] => ([], s)
  | (quiet, o) :: t =>
    let (s', code) := exec U s o in
    let (obs, sf) := run_ops U s' t in
    (if quiet then obs else enc_obs code s' :: obs, sf)
  end.

Definition run (input : tree) : tree :=
  let U := tz (tnth 0 input) in
  let ops := map dec_qop (tlist (tnth 1 input)) in
  let (obs, sf) := run_ops U init_state ops in
  TL [TL obs; TL (map (fun r => of_zs (residual r)) (s_cons sf))].

(* ------------------------------------------------------------------ vocabulary shared by monitor and theorems *)

(* all ids of a time queue in iteration order *)
Definition all_ids (q : tq) : list Z := concat (map snd q).
(* the ids stored under timestamps <= now, in iteration order *)
Definition due (q : tq) (now : Z) : list Z := concat (map snd (filter (fun e => fst e <=? now) q)).
Definition occ (c : Z) (l : list Z) : nat := length (filter (Z.eqb c) l).
Definition mem (c : Z) (l : list Z) : bool := existsb (Z.eqb c) l.

(* the edges of the phase machine (0 = not yet created) *)
Definition edge_ok (a b : Z) : bool :=
  (a =? b) || ((a =? 0) && ((b =? 1) || (b =? 2))) || ((a =? 1) && (b =? 2)) || ((a =? 2) && (b =? 1)) ||
  ((a =? 2) && (b =? 3)) || ((a =? 3) && (b =? 4)) || ((a =? 4) && (b =? 5)).

(* the launch oracle allows the launch *)
Definition lora_good (o : lora) : bool := negb (lo_size o =? 0) && lo_active o && negb (lo_extfail o).

(* no launch artefact / no protocol state at all *)
Definition no_artefact (p : proto) : bool :=
  negb (p_client p) && negb (p_genesis p) && negb (p_evmin p) && (p_valset p =? 0).
Definition proto_empty (p : proto) : bool :=
  negb (p_client p) && negb (p_genesis p) && negb (p_evmin p) && negb (p_channel p) &&
  (p_valset p =? 0) && (p_pending p =? 0) && (p_removal p =? 0) &&
  match p_optin p with [] => true | _ => false end && match p_extra p with [] => true | _ => false end.
(* the same except p_extra (records written by direct keeper calls of other sub-protocols) *)
Definition proto_empty_core (p : proto) : bool :=
  negb (p_client p) && negb (p_genesis p) && negb (p_evmin p) && negb (p_channel p) &&
  (p_valset p =? 0) && (p_pending p =? 0) && (p_removal p =? 0) &&
  match p_optin p with [] => true | _ => false end.

Definition zlist_eqb (a b : list Z) : bool := if list_eq_dec Z.eq_dec a b then true else false.
(* what is retained while a consumer is stopped *)
Definition retained_eqb (p q : proto) : bool :=
  Bool.eqb (p_client p) (p_client q) && Bool.eqb (p_genesis p) (p_genesis q) && Bool.eqb (p_evmin p) (p_evmin q) &&
  (p_valset p =? p_valset q) && zlist_eqb (p_optin p) (p_optin q) && zlist_eqb (p_extra p) (p_extra q).

(* outcome of a launch attempt on an initialized consumer: launched with its artefacts, or the fallback *)
Definition launched (r : consumer) (o : lora) : consumer :=
  set_phase 3 (set_proto (p_set_launch (lo_size o) (c_proto r)) r).
Definition attempt (r : consumer) (o : lora) : consumer :=
  if lora_good o then launched r o else fallback r.

(* the consumers BeginBlock attempts to launch / processes for removal at time [now] *)
Definition attempted (s : state) (now : Z) : list Z := firstn limit (due (s_spawnq s) now).
Definition removal_due (s : state) (now : Z) : list Z := firstn limit (due (s_remq s) now).

(* histories *)
Definition reach (U : Z) (ops : list op) : state := fold_left (step U) ops init_state.
Definition creates (U : Z) (s : state) (o : op) : bool :=
  match o with OCreate _ _ _ _ => result U s o =? 0 | _ => false end.
(* the block time after a history, and histories whose block times do not decrease *)
Fixpoint clock (now : Z) (ops : list op) : Z :=
  match ops with
  | [] => now
  | OBegin t _ :: r => clock t r
  | _ :: r => clock now r
  end.
Fixpoint monotone (now : Z) (ops : list op) : Prop :=
  match ops with
  | [] => True
  | OBegin t _ :: r => now <= t /\ monotone t r
  | _ :: r => monotone now r
  end.
(* ops that legitimately write protocol state of consumer c outside the lifecycle *)
Definition targets (o : op) (c : Z) : bool :=
  match o with ODecorate c' _ => c' =? c | OChannel c' => c' =? c | _ => false end.

(* ------------------------------------------------------------------ monitor
   The clauses of C10 / C11 evaluated on the implementation's observations (same shape as the output of [run]).
   Clause numbers:
    1 ids are 0,1,2,... issued once, in order, only by a successful create
    2 a phase moved along a forbidden edge
    3 phase / spawn time / spawn queue inconsistent (or the queue is not a strictly ascending list of non-empty lists)
    4 launched without genesis or client binding
    5 launch schedule: not exactly the first min(200, due) due consumers were attempted, or an attempted consumer has
      the wrong outcome (launched iff the oracle allows it, else registered with spawn time 0 and no artefact)
    6 a packet was queued or sent for a stopped / deleted consumer
    7 a consumer was deleted outside a begin-block, or before (first) stop time + unbonding period
    8 a deleted consumer still has protocol state
    9 protocol state of a stopped consumer changed before its removal
   10 BeginBlock returned an error (instead of falling back to registered)
   11 removal schedule: not exactly the first min(200, due) ids of the removal queue were processed, or a stopped
      consumer among them was not deleted
   12 the raw store holds keys for a consumer that its records do not account for (or lacks some)
   16 a stopped consumer is not scheduled for removal under its removal time
   14 EndBlock returned an error
   15 an operation panicked
   13 a consumer with an established channel was deleted but its channel was not closed (the implementation's
      observation of a consumer carries, as 14th element, whether the IBC channel object is CLOSED; the model
      does not track IBC's channel state, the projection drops the element before the comparison) *)

Definition dec_consumer (t : tree) : consumer :=
  let z n := tz (tnth n t) in
  mkC (z 0%nat) (z 1%nat) (mkD 0 0 0 (z 2%nat) 0 0)
      (mkP (tbool (tnth 4 t)) (tbool (tnth 5 t)) (tbool (tnth 6 t)) (tbool (tnth 7 t)) (z 8%nat) (z 9%nat) (z 3%nat)
           (tzs (tnth 11 t)) (tzs (tnth 12 t)))
      (z 10%nat).
Definition dec_tq (t : tree) : tq := map (fun e => (tz (tnth 0 e), tzs (tnth 1 e))) (tlist t).
(* per consumer: is its IBC channel object closed (14th element of the implementation's observation) *)
Definition dec_closed (t : tree) : list (Z * bool) :=
  map (fun ct => (tz (tnth 0 ct), tbool (tnth 13 ct))) (tlist (tnth 2 t)).

(* (code, snapshot); s_now is not observed *)
Definition dec_obs (t : tree) : Z * state :=
  (tz (tnth 0 t), mkS (tz (tnth 1 t)) 0 (map dec_consumer (tlist (tnth 2 t))) (dec_tq (tnth 3 t)) (dec_tq (tnth 4 t))).

Fixpoint zseq (start : Z) (n : nat) : list Z :=
  match n with O => [] | S k => start :: zseq (start + 1) k end.

Fixpoint tq_wf (q : tq) : bool :=
  match q with
  | [] => true
  | (t, ids) :: r =>
    match ids with [] => false | _ => true end &&
    match r with [] => true | (t', _) :: _ => t <? t' end && tq_wf r
  end.

Definition flag (n : Z) (ok : bool) : list Z := if ok then [] else [n].

(* clauses about one snapshot *)
Definition mon_snapshot (s : state) : list Z :=
  let ids := all_ids (s_spawnq s) in
  flag 3 (tq_wf (s_spawnq s) && tq_wf (s_remq s) &&
          forallb (fun r =>
            if c_phase r =? 2
            then negb (d_spawn (c_desc r) =? 0) && Nat.eqb (occ (c_id r) ids) 1 &&
                 mem (c_id r) (tq_get (s_spawnq s) (d_spawn (c_desc r)))
            else Nat.eqb (occ (c_id r) ids) 0 && (negb (c_phase r =? 1) || (d_spawn (c_desc r) =? 0)))
            (s_cons s)) ++
  flag 4 (forallb (fun r => negb (c_phase r =? 3) || (p_genesis (c_proto r) && p_client (c_proto r))) (s_cons s)) ++
  flag 8 (forallb (fun r => negb (c_phase r =? 5) || proto_empty_core (c_proto r)) (s_cons s)) ++
  flag 16 (forallb (fun r => negb (c_phase r =? 4) || mem (c_id r) (tq_get (s_remq s) (p_removal (c_proto r)))) (s_cons s)).

(* clauses about one step; [stops] = first stop time per stopped consumer; returns the new [stops] too *)
Definition mon_step (U now qc : Z) (stops : list (Z * Z)) (closed : list (Z * bool)) (o : op) (code : Z) (a b : state) : list Z * list (Z * Z) :=
  let created := match o with OCreate _ _ _ _ => code =? 0 | _ => false end in
  let lo := s_next a + (if created then 1 else 0) in
  let c1 := flag 1 (zlist_eqb (map c_id (s_cons b)) (zseq 0 (Z.to_nat (s_next b))) &&
                    (lo <=? s_next b) && (s_next b <=? lo + qc)) in
  let per (f : consumer -> consumer -> bool) : bool :=     (* f old new, for consumers that existed before *)
    forallb (fun r => match get a (c_id r) with Some r0 => f r0 r | None => true end) (s_cons b) in
  let c2 := flag 2 (forallb (fun r => edge_ok (phase_of a (c_id r)) (c_phase r)) (s_cons b)) in
  let c6 := flag 6 (per (fun r0 r =>
              negb (4 <=? c_phase r0) ||
              ((c_sent r =? c_sent r0) &&
               ((p_pending (c_proto r) =? p_pending (c_proto r0)) || ((c_phase r =? 5) && (p_pending (c_proto r) =? 0)))))) in
  let is_begin := match o with OBegin _ _ => true | _ => false end in
  let c7 := flag 7 (per (fun r0 r =>
              negb ((c_phase r0 =? 4) && (c_phase r =? 5)) ||
              (is_begin && match find (fun e => fst e =? c_id r) stops with
                           | Some e => snd e + U <=? now
                           | None => false end))) in
  let c8 := flag 8 (per (fun r0 r => negb ((c_phase r0 =? 4) && (c_phase r =? 5)) || proto_empty (c_proto r))) in
  let c13 := flag 13 (per (fun r0 r =>
              negb ((c_phase r0 =? 4) && (c_phase r =? 5) && p_channel (c_proto r0)) || lookup false closed (c_id r))) in
  let c9 := flag 9 (per (fun r0 r =>
              negb ((c_phase r0 =? 4) && (c_phase r =? 4)) || targets o (c_id r) ||
              retained_eqb (c_proto r0) (c_proto r))) in
  let sched :=
    match o with
    | OBegin t ora =>
      if code =? 0 then
        let d := due (s_spawnq a) t in
        let att := firstn limit d in
        let rd := due (s_remq a) t in
        let ratt := firstn limit rd in
        flag 5 (zlist_eqb (all_ids (s_spawnq b)) (skipn (length att) (all_ids (s_spawnq a))) &&
                forallb (fun c =>
                  match get a c, get b c with
                  | Some r0, Some r =>
                    if lora_good (lookup no_lora ora c) && (c_phase r0 =? 2)
                    then (c_phase r =? 3) && p_genesis (c_proto r) && p_client (c_proto r) &&
                         (p_valset (c_proto r) =? lo_size (lookup no_lora ora c))
                    else (c_phase r =? 1) && (d_spawn (c_desc r) =? 0) && no_artefact (c_proto r)
                  | _, _ => false
                  end) att &&
                per (fun r0 r => mem (c_id r) att || negb (c_phase r0 =? 2) || (c_phase r =? 2))) ++
        flag 11 (zlist_eqb (all_ids (s_remq b)) (skipn (length ratt) (all_ids (s_remq a))) &&
                 forallb (fun c => negb (phase_of a c =? 4) || (phase_of b c =? 5)) ratt &&
                 per (fun r0 r => mem (c_id r) ratt || negb (c_phase r0 =? 4) || (c_phase r =? 4)))
      else [10]
    | _ => []
    end in
  let stops' :=
    fold_left (fun acc r =>
      if (phase_of a (c_id r) =? 3) && (c_phase r =? 4) then (c_id r, now) :: acc else acc) (s_cons b) stops in
  let c14 := flag 14 (match o with OEnd _ _ _ => code =? 0 | _ => true end) in
  let c15 := flag 15 (negb (code =? 100)) in
  (c1 ++ c2 ++ c6 ++ c7 ++ c8 ++ c9 ++ c13 ++ c14 ++ c15 ++ sched ++ mon_snapshot b, stops').

(* [qc] = number of quiet create ops since the last observation *)
Fixpoint mon_ops (U now qc : Z) (stops : list (Z * Z)) (a : state) (ops : list (bool * op)) (obs : list tree)
  : list Z * state :=
  match ops with
  | [] => ([], a)
  | (quiet, o) :: ops' =>
    let now' := match o with OBegin t' _ => t' | _ => now end in
    if quiet then mon_ops U now' (qc + match o with OCreate _ _ _ _ => 1 | _ => 0 end) stops a ops' obs
    else
      match obs with
      | [] => ([], a)
      | t :: obs' =>
        let (code, b) := dec_obs t in
        let (bad, stops') := mon_step U now' qc stops (dec_closed t) o code a b in
        let (bad', sf) := mon_ops U now' 0 stops' b ops' obs' in
        (bad ++ bad', sf)
      end
  end.

Definition mon (input implobs : tree) : tree :=
  let U := tz (tnth 0 input) in
  let ops := map dec_qop (tlist (tnth 1 input)) in
  let (bad, sf) := mon_ops U 0 0 [] init_state ops (tlist (tnth 0 implobs)) in
  let res := map tzs (tlist (tnth 1 implobs)) in
  let c12 := flag 12 (Nat.eqb (length res) (length (s_cons sf)) &&
                      forallb (fun p => zlist_eqb (fst p) (residual (snd p))) (combine res (s_cons sf))) in
  of_zs (fold_right set_add [] (bad ++ c12)).
