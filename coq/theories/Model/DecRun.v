(* Differential-test entry point for Base/Dec.v (the model of cosmossdk.io/math.LegacyDec).
   input  = [ [opcode, a, b] ... ]   (a, b raw big integers = decimal * 10^18, or plain integers
                                      where the Go operation takes an int64)
   output = [ result ... ]           (raw big integers)
   opcodes: 1 Mul  2 MulTruncate  3 Quo  4 QuoTruncate  5 QuoInt64  6 TruncateInt  7 RoundInt
            8 chopPrecisionAndRound (observed through RoundInt)  9 Add  10 Sub  11 MulInt64
            12 LegacyNewDec  13 GTE (0/1) *)
From Coq Require Import ZArith List Bool.
From ICS Require Import Base.Dec Base.Tree.
Import ListNotations.
Open Scope Z_scope.

Definition apply_op (o a b : Z) : Z :=
  if o =? 1 then dmul a b
  else if o =? 2 then dmul_trunc a b
  else if o =? 3 then dquo a b
  else if o =? 4 then dquo_trunc a b
  else if o =? 5 then dquo_int a b
  else if o =? 6 then dtrunc_int a
  else if o =? 7 then dround_int a
  else if o =? 8 then chop_round a
  else if o =? 9 then dadd a b
  else if o =? 10 then dsub a b
  else if o =? 11 then dmul_int a b
  else if o =? 12 then dec_of_int a
  else if o =? 13 then (if dgte a b then 1 else 0)
  else 0.

Definition run (t : tree) : tree :=
  TL (map (fun c => TI (apply_op (tz (tnth 0 c)) (tz (tnth 1 c)) (tz (tnth 2 c)))) (tlist t)).

Definition mon (t o : tree) : tree := TL [].
