(* Composition of two component models (DESIGN.md 2.2, growth towards one system model):
     Model/Infraction.v  per-consumer infraction parameters: in force / queued / update schedule (C20), and
     Model/Slash.v       the provider's handling of a consumer's downtime slash packet (C08).
   In Slash.v the consumer's downtime parameters (slash fraction, jail duration) and its phase are an independent
   piece of state that an oracle op (OCons) may overwrite arbitrarily.  Here they are COMPUTED: OnRecvSlashPacket /
   HandleSlashPacket call GetConsumerPhase and GetInfractionParameters(consumerId), i.e. they read the Infraction
   component's phase class and parameters IN FORCE of that consumer at that moment ([consumer_row]), and that row
   is what Slash.recv_slash is run on.  The block time of the report is the Infraction component's clock.
   "The channel is registered" is: the consumer is launched or stopped (the channel mapping is created when the
   CCV channel opens after launch and deleted by DeleteConsumerChain).

   Oracles that remain (Slash's other inputs, unchanged): the provider validator the reported address resolves to
   (composed away in Model/SlashKeys.v), the consumer's stored validator set (SSetMembers), the infraction height of
   the vsc id (None = unknown id), packet power / infraction kind, staking's total power at BeginBlock, external
   staking changes of validators (SExt).  NO parameter oracle and NO phase oracle for the report.
   Definitions only; lemmas in Proofs/SlashParamsProofs.v. *)
From Coq Require Import ZArith List Bool.
From ICS Require Import Base.Dec Base.Tree Model.Throttle.
From ICS Require Model.Infraction Model.Slash.
Import ListNotations.
Open Scope Z_scope.

Module I := ICS.Model.Infraction.
Module S := ICS.Model.Slash.

Record cfg := mkCfg {
  g_frac : Z;      (* slash meter replenish fraction (dec) *)
  g_period : Z     (* slash meter replenish period, ns *)
}.

Record sys := mkSys {
  inf : I.state;                  (* the Infraction component *)
  vals : list S.val;              (* Slash's validator table *)
  thr : pstate;                   (* Slash's throttle (slash meter) *)
  members : I.amap (list Z)       (* stored consumer validator sets (oracle, SSetMembers) *)
}.

Definition init_sys (rows : list S.val) (m0 c0 : Z) : sys := mkSys I.init rows (mkP m0 c0) [].

(* providertypes.ConsumerPhase of a phase class (registered and initialized both map to 1; Slash only compares with LAUNCHED) *)
Definition sphase (o : option I.phase) : Z :=
  match o with
  | None => 0 | Some I.Prelaunch => 1 | Some I.Launched => S.LAUNCHED | Some I.Stopped => 4 | Some I.Deleted => 5
  end.

(* GetInfractionParameters(c).Downtime: the downtime (slash fraction, jail duration) IN FORCE *)
Definition dt_in_force (st : I.state) (c : Z) : option (Z * Z) :=
  match I.aget c (I.cur st) with
  | Some p => Some (I.h_frac (I.p_dt p), I.h_jail (I.p_dt p))
  | None => None
  end.

Definition members_of (s : sys) (c : Z) : list Z :=
  match I.aget c (members s) with Some l => l | None => [] end.

(* what OnRecvSlashPacket sees of consumer c *)
Definition consumer_row (s : sys) (c : Z) : S.cons :=
  S.mkCo (sphase (I.aget c (I.phases (inf s)))) (members_of s c) (dt_in_force (inf s) c) [].

(* the Slash state the report is handled in: the validator table, the meter, and consumer c's row (index 0) *)
Definition view (s : sys) (c : Z) : S.state := S.mkS (vals s) [consumer_row s c] (thr s).

(* ChannelToConsumerId present *)
Definition has_channel (s : sys) (c : Z) : bool :=
  match I.aget c (I.phases (inf s)) with Some I.Launched | Some I.Stopped => true | _ => false end.

Definition getv (s : sys) (i : Z) : S.val := S.getv (S.mkS (vals s) [] (thr s)) i.

Inductive sop :=
| SInf (o : I.op)                         (* any Infraction op except OBeginBlock (see SBegin) *)
| SBegin (now total : Z)                  (* new block: BeginBlockUpdateInfractionParameters + BeginBlockCIS (meter) *)
| SSetMembers (c : Z) (set : list Z)      (* the consumer's stored validator set *)
| SExt (rows : list S.val)                (* staking / slashing changed validators from outside (logs are kept) *)
| SRecvSlash (c res infr power : Z) (h : option Z).   (* slash packet on c's channel; reported address resolves to res *)

Definition recv (s : sys) (c res infr power : Z) (h : option Z) : Z * S.state :=
  S.recv_slash (view s c) 0 res infr true power h res (I.clock (inf s)).

Definition is_block (o : I.op) : bool := match o with I.OBeginBlock _ => true | _ => false end.

Definition sstep (g : cfg) (s : sys) (a : sop) : sys * Z :=
  match a with
  | SInf o =>
      if is_block o then (s, I.r_other)
      else let '(st', r) := I.step_res (inf s) o in (mkSys st' (vals s) (thr s) (members s), r)
  | SBegin now total =>
      let '(st', r) := I.step_res (inf s) (I.OBeginBlock now) in
      (mkSys st' (vals s) (begin_block (g_frac g) (g_period g) now total (thr s)) (members s), r)
  | SSetMembers c set => (mkSys (inf s) (vals s) (thr s) (I.aput c set (members s)), 0)
  | SExt rows => (mkSys (inf s) (S.ext_merge (vals s) rows) (thr s) (members s), 0)
  | SRecvSlash c res infr power h =>
      if has_channel s c
      then let '(r, s') := recv s c res infr power h in (mkSys (inf s) (S.vals s') (S.thr s') (members s), r)
      else (s, 0)                            (* unknown channel: the callback panics, nothing is written *)
  end.

Definition srun (g : cfg) (ops : list sop) (s : sys) : sys := fold_left (fun s a => fst (sstep g s a)) ops s.

(* the Infraction run the composed machine performs *)
Definition to_iop (a : sop) : list I.op :=
  match a with
  | SInf o => if is_block o then [] else [o]
  | SBegin now _ => [I.OBeginBlock now]
  | _ => []
  end.
Definition itrace (ops : list sop) : list I.op := flat_map to_iop ops.

(* ---------- specification predicates (used by Props/C20System.v and the monitor) ---------- *)
(* the conditions under which a report jails: Slash's jail_cond on the computed row *)
Definition sys_jail_cond (s : sys) (c res infr power : Z) (h : option Z) : bool :=
  has_channel s c && S.jail_cond (view s c) 0 infr true power h res.

Definition jailed_by (s s' : sys) (res : Z) : Prop :=
  S.v_jailed (getv s' res) = true /\ S.v_jailed (getv s res) = false.

(* ================= wire interface =================
   input  = [ [frac, period, meter0, cand0], [row ...], [group ...] ]   group = [op ...]
     op = the encoding of Model/Infraction.v for tags 0,1,2,3,4,5,7 and
          [6,now,total]  [20,c,[set]]  [21,[row ...]]  [22,c,res,infraction,power,[height]|[]]
     row = [found, status, jailed, tombstoned, tokens, lastpower, until, [[height,power,fraction]...]]  (Slash.v)
   output = [ [result of the last op of the group, snapshot] per group ]
     snapshot = [ [row ...], infraction snapshot (Model/Infraction.v: consumers + schedule), meter, candidate ] *)
Definition dec_sop (t : tree) : sop :=
  let tag := tz (tnth 0 t) in
  if tag =? 6 then SBegin (tz (tnth 1 t)) (tz (tnth 2 t))
  else if tag =? 20 then SSetMembers (tz (tnth 1 t)) (tzs (tnth 2 t))
  else if tag =? 21 then SExt (map S.to_val (tlist (tnth 1 t)))
  else if tag =? 22 then SRecvSlash (tz (tnth 1 t)) (tz (tnth 2 t)) (tz (tnth 3 t)) (tz (tnth 4 t)) (to_optz (tnth 5 t))
  else SInf (I.to_op t).

Definition snapshot (s : sys) : tree :=
  TL [ TL (map S.of_val (vals s)); I.snapshot (inf s); TI (meter (thr s)); TI (cand (thr s)) ].

Fixpoint run_group (g : cfg) (s : sys) (ops : list sop) (last : Z) : sys * Z :=
  match ops with
  | [] => (s, last)
  | a :: t => let '(s', r) := sstep g s a in run_group g s' t r
  end.
Fixpoint run_groups (g : cfg) (s : sys) (gs : list (list sop)) : list tree :=
  match gs with
  | [] => []
  | x :: t => let '(s', r) := run_group g s x 0 in TL [TI r; snapshot s'] :: run_groups g s' t
  end.

Definition dec_cfg (c : tree) : cfg := mkCfg (tz (tnth 0 c)) (tz (tnth 1 c)).
Definition dec_init (t : tree) : sys :=
  init_sys (map S.to_val (tlist (tnth 1 t))) (tz (tnth 2 (tnth 0 t))) (tz (tnth 3 (tnth 0 t))).
Definition dec_groups (t : tree) : list (list sop) := map (fun x => map dec_sop (tlist x)) (tlist (tnth 2 t)).

Definition run (t : tree) : tree := TL (run_groups (dec_cfg (tnth 0 t)) (dec_init t) (dec_groups t)).

(* ================= monitor =================
   Which parameters are in force (and the consumer's phase) comes from the INFRACTION HISTORY: the Infraction
   component run on the ops (m).  Everything about validators and the meter is read from the implementation's own
   snapshots.  After a slash packet for (c, res):
     1: a validator other than res changed
     2: res was not jailed although every condition held, or was jailed although one did not
     3: jailed, but jail-until <> block time + the downtime jail duration in force according to the history
     4: jailed, but the fraction passed to staking (slash log) or the tokens burnt are not those of the downtime
        fraction in force according to the history
     5: the implementation's stored parameters in force of c differ from the history's
     6: result class differs from the one the conditions imply
     7: an op other than a slash packet or an external change altered a validator row *)
Definition o_rows (snap : tree) : list S.val := map S.to_val (tlist (tnth 0 snap)).
Definition o_row (snap : tree) (i : Z) : S.val := S.getv (S.mkS (o_rows snap) [] (mkP 0 0)) i.
Definition o_meter (snap : tree) : Z := tz (tnth 2 snap).
Definition o_cur (snap : tree) (c : Z) : option I.params := I.s_cur (tnth 1 snap) c.

Definition rows_same_except (prev cur : tree) (except : Z) : bool :=
  Nat.eqb (length (o_rows prev)) (length (o_rows cur)) &&
  forallb (fun i => (i =? except) || S.val_eqb (o_row prev i) (o_row cur i)) (S.idxs (length (o_rows prev))).

Definition mon_step (m : sys) (a : sop) (res_class : Z) (prev cur : tree) : list Z :=
  match a with
  | SRecvSlash c res infr power h =>
    let row := o_row prev res in
    let row' := o_row cur res in
    let now := I.clock (inf m) in
    let wf := S.validate true power infr && (infr =? S.DOWNTIME) && match h with Some _ => true | None => false end in
    let reach := has_channel m c && wf && (sphase (I.aget c (I.phases (inf m))) =? S.LAUNCHED)
                 && memz res (members_of m c) in
    let cond := reach && negb (o_meter prev <? 0) && S.v_found row && negb (S.v_status row =? S.UNBONDED)
                && negb (S.v_tomb row) && negb (S.v_jailed row)
                && match dt_in_force (inf m) c with Some _ => true | None => false end in
    let jailed_now := S.v_jailed row' && negb (S.v_jailed row) in
    let expect_class :=
      if negb (has_channel m c) then 0
      else if negb (S.validate true power infr) then 4
      else match h with None => 4 | Some _ =>
             if infr =? S.DOUBLE_SIGN then 1 else if reach && (o_meter prev <? 0) then 3 else 2 end in
    flag (rows_same_except prev cur res) 1 ++
    flag (Bool.eqb jailed_now cond) 2 ++
    (if jailed_now then
       match dt_in_force (inf m) c, h with
       | Some (fr, dur), Some height =>
           flag (S.v_until row' =? now + dur) 3 ++
           flag (S.val_eqb row' (S.jail_val row fr (S.v_until row' - now) power height now)) 4
       | _, _ => [3; 4]
       end
     else []) ++
    flag (I.oparams_eqb (o_cur prev c) (I.aget c (I.cur (inf m)))) 5 ++
    flag (res_class =? expect_class) 6
  | SExt _ => []
  | _ => flag (rows_same_except prev cur (-1)) 7
  end.

(* a group is checked as a whole against the snapshots around it: validator rows may only change by its last op *)
Fixpoint mon_group (g : cfg) (m : sys) (ops : list sop) (res_class : Z) (prev cur : tree) : sys * list Z :=
  match ops with
  | [] => (m, [])
  | [a] => (fst (sstep g m a), mon_step m a res_class prev cur)
  | a :: t => mon_group g (fst (sstep g m a)) t res_class prev cur
  end.

Fixpoint mon_loop (g : cfg) (m : sys) (gs : list (list sop)) (prev : tree) (obs : list tree) : list Z :=
  match gs, obs with
  | x :: gs', ob :: obs' =>
    let cur := tnth 1 ob in
    let '(m', bad) := mon_group g m x (tz (tnth 0 ob)) prev cur in
    bad ++ mon_loop g m' gs' cur obs'
  | _, _ => []
  end.

Definition mon (t o : tree) : tree :=
  let gs := dec_groups t in
  if Nat.eqb (length gs) (length (tlist o))
  then of_zs (I.dedup (mon_loop (dec_cfg (tnth 0 t)) (dec_init t) gs (snapshot (dec_init t)) (tlist o)))
  else of_zs [99].
