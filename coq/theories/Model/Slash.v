(* Model of the provider side of consumer-initiated downtime slashing (C08):
     x/ccv/provider/keeper/relay.go   OnRecvSlashPacket, ValidateSlashPacket, HandleSlashPacket,
                                      QueueVSCPackets (ConsumeSlashAcks only when a packet is produced)
     x/ccv/provider/keeper/keeper.go  AppendSlashAck, ConsumeSlashAcks, GetSlashAcks
     x/ccv/provider/keeper/throttle.go GetEffectiveValPower (meter functions: Model/Throttle.v)
     x/ccv/provider/ibc_module.go     OnRecvPacket (result / error acknowledgement / panic)
     x/ccv/types/wire.go              SlashPacketData.Validate

   Validators are identified by small integers = index into the validator table (ids outside the
   table = an address that staking does not know).  Oracle inputs carried by the ops: the consumer
   the channel belongs to, the provider validator the reported key resolves to
   (GetProviderAddrFromConsumerAddr), the infraction height mapped from the vsc id (None = unknown id),
   block time, staking's total power; the staking/slashing state of all validators and each consumer's
   phase / stored validator set / infraction parameters are state that external ops (OExt, OCons)
   may overwrite arbitrarily (staking, lifecycle, validator-set and parameter components). *)
From Coq Require Import ZArith List Bool.
From ICS Require Import Base.Dec Base.Tree Model.Throttle.
Import ListNotations.
Open Scope Z_scope.

Definition PR : Z := 1000000.            (* staking PowerReduction *)
Definition LAUNCHED : Z := 3.            (* providertypes.CONSUMER_PHASE_LAUNCHED *)
Definition UNBONDED : Z := 1.            (* stakingtypes.Unbonded *)
Definition DOUBLE_SIGN : Z := 1.         (* stakingtypes.Infraction_INFRACTION_DOUBLE_SIGN *)
Definition DOWNTIME : Z := 2.            (* stakingtypes.Infraction_INFRACTION_DOWNTIME *)

Record val := mkV {
  v_found : bool;        (* staking knows the validator (GetValidatorByConsAddr succeeds) *)
  v_status : Z;          (* 1 unbonded, 2 unbonding, 3 bonded *)
  v_jailed : bool;
  v_tomb : bool;
  v_tokens : Z;
  v_lastpow : Z;         (* staking LastValidatorPower *)
  v_until : Z;           (* slashing JailedUntil, ns *)
  v_log : list (Z * Z * Z)   (* slashes executed: (infraction height, power, fraction) *)
}.
Definition vdflt : val := mkV false 0 false false 0 0 0 [].

Record cons := mkCo {
  c_phase : Z;
  c_set : list Z;                 (* stored consumer validator set (provider validator ids) *)
  c_params : option (Z * Z);      (* downtime infraction parameters: (slash fraction, jail duration ns) *)
  c_acks : list Z                 (* pending slash acks (reported consumer addresses) *)
}.
Definition cdflt : cons := mkCo 0 [] None [].

Record state := mkS { vals : list val; conss : list cons; thr : pstate }.

Definition getv (s : state) (i : Z) : val := if i <? 0 then vdflt else nth (Z.to_nat i) (vals s) vdflt.
Definition getc (s : state) (c : Z) : option cons := if c <? 0 then None else nth_error (conss s) (Z.to_nat c).

Fixpoint upd {A} (n : nat) (x : A) (l : list A) : list A :=
  match l, n with
  | [], _ => []
  | _ :: t, O => x :: t
  | y :: t, S n' => y :: upd n' x t
  end.
Definition setv (s : state) (i : Z) (v : val) : state :=
  if i <? 0 then s else mkS (upd (Z.to_nat i) v (vals s)) (conss s) (thr s).
Definition setc (s : state) (c : Z) (x : cons) : state :=
  if c <? 0 then s else mkS (vals s) (upd (Z.to_nat c) x (conss s)) (thr s).

(* AppendSlashAck *)
Definition append_ack (s : state) (c key : Z) : state :=
  match getc s c with
  | Some x => setc s c (mkCo (c_phase x) (c_set x) (c_params x) (c_acks x ++ [key]))
  | None => s
  end.

(* SlashPacketData.Validate *)
Definition validate (addr_ok : bool) (power infr : Z) : bool :=
  addr_ok && negb (power =? 0) && ((infr =? DOUBLE_SIGN) || (infr =? DOWNTIME)).

(* GetEffectiveValPower *)
Definition eff_power (v : val) : Z := if negb (v_found v) || v_jailed v then 0 else v_lastpow v.

(* staking Slash as implemented by the harness' staking stand-in: burn min(tokens, trunc(fraction * power * PR)) *)
Definition slash_tokens (frac power tokens : Z) : Z :=
  let amt := dtrunc_int (dmul_int frac (power * PR)) in
  tokens - (if tokens <? amt then tokens else amt).

Definition jail_val (v : val) (frac dur power height now : Z) : val :=
  mkV (v_found v) (v_status v) true (v_tomb v) (slash_tokens frac power (v_tokens v)) (v_lastpow v)
      (now + dur) (v_log v ++ [(height, power, frac)]).

(* HandleSlashPacket *)
Definition handle (s : state) (c key power height res now : Z) : state :=
  let v := getv s res in
  if negb (v_found v) then s                    (* validator not found: return without ack *)
  else if v_status v =? UNBONDED then s         (* unbonded: return without ack *)
  else if v_tomb v then s                       (* tombstoned: return without ack *)
  else
    let s1 := append_ack s c key in             (* infraction height was found during validation *)
    match getc s c with
    | None => s1
    | Some x =>
      match c_params x with
      | None => s1                              (* GetInfractionParameters failed: return after the ack *)
      | Some (frac, dur) =>
        if v_jailed v then s1
        else setv s1 res (jail_val v frac dur power height now)   (* slash, jail, JailUntil *)
      end
    end.

(* result classes: 0 panic (no acknowledgement, tx fails), 1 v1 result, 2 handled, 3 bounced, 4 error ack *)
Definition recv_slash (s : state) (c key infr : Z) (addr_ok : bool) (power : Z) (h : option Z) (res now : Z)
  : Z * state :=
  match getc s c with
  | None => (0, s)                                        (* unknown channel: panic *)
  | Some x =>
    if negb (validate addr_ok power infr) then (4, s)     (* data.Validate *)
    else match h with
    | None => (4, s)                                      (* ValidateSlashPacket: vsc id unknown *)
    | Some height =>
      if infr =? DOUBLE_SIGN then (1, s)                  (* logged only *)
      else if negb (c_phase x =? LAUNCHED) then (2, append_ack s c key)
      else if negb (memz res (c_set x)) then (2, append_ack s c key)
      else if meter (thr s) <? 0 then (3, s)
      else
        let s1 := mkS (vals s) (conss s) (snd (recv_meter (eff_power (getv s res)) (thr s))) in
        (2, handle s1 c key power height res now)
    end
  end.

Inductive op :=
| ORecv (c key infr : Z) (addr_ok : bool) (power : Z) (h : option Z) (res now : Z)
| OEpoch (produced : list bool)          (* QueueVSCPackets; produced[c] = a VSC packet is built for consumer c *)
| OBegin (now total : Z)                 (* BeginBlockCIS *)
| OExt (rows : list val)                 (* staking / slashing changed validators (logs of the rows are ignored) *)
| OCons (c phase : Z) (set : list Z) (params : option (Z * Z)).   (* lifecycle / valset / params components *)

Fixpoint ext_merge (old new : list val) : list val :=
  match new with
  | [] => []
  | r :: t =>
    let lg := match old with o :: _ => v_log o | [] => [] end in
    mkV (v_found r) (v_status r) (v_jailed r) (v_tomb r) (v_tokens r) (v_lastpow r) (v_until r) lg
    :: ext_merge (tl old) t
  end.

(* QueueVSCPackets: ConsumeSlashAcks for exactly the consumers for which a packet is produced *)
Fixpoint epoch (cs : list cons) (prod : list bool) : list cons * list (list Z) :=
  match cs with
  | [] => ([], [])
  | x :: t =>
    let '(t', e) := epoch t (tl prod) in
    if hd false prod then (mkCo (c_phase x) (c_set x) (c_params x) [] :: t', c_acks x :: e)
    else (x :: t', [] :: e)
  end.

(* one step: (new state, result class, slash acks emitted into the VSC packet of each consumer) *)
Definition step_out (frac period : Z) (s : state) (o : op) : state * Z * list (list Z) :=
  match o with
  | ORecv c key infr addr_ok power h res now =>
      let '(r, s') := recv_slash s c key infr addr_ok power h res now in (s', r, [])
  | OEpoch produced =>
      let '(cs, em) := epoch (conss s) produced in (mkS (vals s) cs (thr s), 0, em)
  | OBegin now total => (mkS (vals s) (conss s) (begin_block frac period now total (thr s)), 0, [])
  | OExt rows => (mkS (ext_merge (vals s) rows) (conss s) (thr s), 0, [])
  | OCons c phase set params =>
      match getc s c with
      | Some x => (setc s c (mkCo phase set params (c_acks x)), 0, [])
      | None => (s, 0, [])
      end
  end.

Definition step (frac period : Z) (s : state) (o : op) : state := fst (fst (step_out frac period s o)).
Definition emitted (frac period : Z) (s : state) (o : op) : list (list Z) := snd (step_out frac period s o).
Definition nthz {A} (c : Z) (l : list A) (d : A) : A := if c <? 0 then d else nth (Z.to_nat c) l d.

(* ---------------------------------------------------------------- specification predicates
   (used by the theorems of Props/C08.v and by the monitor) *)

(* the packet is a well-formed downtime report with a known vsc id from a registered channel *)
Definition wellformed (s : state) (c infr : Z) (addr_ok : bool) (power : Z) (h : option Z) : bool :=
  match getc s c, h with
  | Some _, Some _ => validate addr_ok power infr && (infr =? DOWNTIME)
  | _, _ => false
  end.
Definition launched (s : state) (c : Z) : bool :=
  match getc s c with Some x => c_phase x =? LAUNCHED | None => false end.
Definition member (s : state) (c res : Z) : bool :=
  match getc s c with Some x => memz res (c_set x) | None => false end.
Definition has_params (s : state) (c : Z) : bool :=
  match getc s c with Some x => match c_params x with Some _ => true | None => false end | None => false end.
(* the throttle admits the packet *)
Definition admitted (s : state) : bool := negb (meter (thr s) <? 0).
(* the validator can be punished: known to staking, not unbonded, not tombstoned *)
Definition punishable (v : val) : bool := v_found v && negb (v_status v =? UNBONDED) && negb (v_tomb v).

(* right-hand side of C08_jail_iff *)
Definition jail_cond (s : state) (c infr : Z) (addr_ok : bool) (power : Z) (h : option Z) (res : Z) : bool :=
  wellformed s c infr addr_ok power h && launched s c && member s c res && admitted s
  && punishable (getv s res) && negb (v_jailed (getv s res)) && has_params s c.

(* the cases in which the report is acknowledged with the next VSC packet *)
Definition ack_cond (s : state) (c infr : Z) (addr_ok : bool) (power : Z) (h : option Z) (res : Z) : bool :=
  wellformed s c infr addr_ok power h &&
  (negb (launched s c) || negb (member s c res) || (admitted s && punishable (getv s res))).

Definition acks_of (s : state) (c : Z) : list Z :=
  match getc s c with Some x => c_acks x | None => [] end.

(* acks appended for consumer c by an op (specification) *)
Definition appended (s : state) (o : op) (c : Z) : list Z :=
  match o with
  | ORecv c' key infr addr_ok power h res _ =>
      if (c' =? c) && ack_cond s c' infr addr_ok power h res then [key] else []
  | _ => []
  end.
Definition emitted_for (frac period : Z) (s : state) (o : op) (c : Z) : list Z :=
  match o with
  | OEpoch _ => nthz c (emitted frac period s o) []
  | _ => []
  end.
Fixpoint all_appended (frac period : Z) (s : state) (ops : list op) (c : Z) : list Z :=
  match ops with
  | [] => []
  | o :: t => appended s o c ++ all_appended frac period (step frac period s o) t c
  end.
Fixpoint all_emitted (frac period : Z) (s : state) (ops : list op) (c : Z) : list Z :=
  match ops with
  | [] => []
  | o :: t => emitted_for frac period s o c ++ all_emitted frac period (step frac period s o) t c
  end.

(* ---------------------------------------------------------------- wire interface *)

Definition to_log (t : tree) : list (Z * Z * Z) :=
  map (fun e => (tz (tnth 0 e), tz (tnth 1 e), tz (tnth 2 e))) (tlist t).
Definition of_log (l : list (Z * Z * Z)) : tree :=
  TL (map (fun '(h, p, f) => TL [TI h; TI p; TI f]) l).
(* row: [found, status, jailed, tombstoned, tokens, lastpower, until, [[height,power,fraction]...]] *)
Definition to_val (t : tree) : val :=
  mkV (tbool (tnth 0 t)) (tz (tnth 1 t)) (tbool (tnth 2 t)) (tbool (tnth 3 t)) (tz (tnth 4 t))
      (tz (tnth 5 t)) (tz (tnth 6 t)) (to_log (tnth 7 t)).
Definition of_val (v : val) : tree :=
  TL [of_bool (v_found v); TI (v_status v); of_bool (v_jailed v); of_bool (v_tomb v); TI (v_tokens v);
      TI (v_lastpow v); TI (v_until v); of_log (v_log v)].
Definition to_params (t : tree) : option (Z * Z) :=
  match tlist t with f :: d :: _ => Some (tz f, tz d) | _ => None end.
(* consumer: [phase, [set], [] | [fraction, duration], [acks]] *)
Definition to_cons (t : tree) : cons :=
  mkCo (tz (tnth 0 t)) (tzs (tnth 1 t)) (to_params (tnth 2 t)) (tzs (tnth 3 t)).

(* ops: [1,c,key,infr,addr_ok,power,[h]|[],res,now] [2,[produced...]] [3,now,total] [4,[rows]] [5,c,phase,[set],params] *)
Definition dec_op (t : tree) : op :=
  let k := tz (tnth 0 t) in
  if k =? 1 then ORecv (tz (tnth 1 t)) (tz (tnth 2 t)) (tz (tnth 3 t)) (tbool (tnth 4 t)) (tz (tnth 5 t))
                       (to_optz (tnth 6 t)) (tz (tnth 7 t)) (tz (tnth 8 t))
  else if k =? 2 then OEpoch (map tbool (tlist (tnth 1 t)))
  else if k =? 3 then OBegin (tz (tnth 1 t)) (tz (tnth 2 t))
  else if k =? 4 then OExt (map to_val (tlist (tnth 1 t)))
  else OCons (tz (tnth 1 t)) (tz (tnth 2 t)) (tzs (tnth 3 t)) (to_params (tnth 4 t)).

(* observation after each op: [result, [emitted acks], [rows], [[acks of consumer 0], ...], meter, candidate] *)
Definition snapshot (s : state) (r : Z) (em : list (list Z)) : tree :=
  TL [TI r; TL (map of_zs em); TL (map of_val (vals s)); TL (map (fun x => of_zs (c_acks x)) (conss s));
      TI (meter (thr s)); TI (cand (thr s))].

Fixpoint srun (frac period : Z) (s : state) (ops : list op) : list tree :=
  match ops with
  | [] => []
  | o :: t =>
    let '(s', r, em) := step_out frac period s o in
    snapshot s' r em :: srun frac period s' t
  end.

(* input: [[frac, period], [rows], [consumers], [meter, cand], [ops]] *)
Definition dec_state (t : tree) : state :=
  mkS (map to_val (tlist (tnth 1 t))) (map to_cons (tlist (tnth 2 t)))
      (mkP (tz (tnth 0 (tnth 3 t))) (tz (tnth 1 (tnth 3 t)))).

Definition run (t : tree) : tree :=
  let cfg := tnth 0 t in
  TL (srun (tz (tnth 0 cfg)) (tz (tnth 1 cfg)) (dec_state t) (map dec_op (tlist (tnth 4 t)))).

(* ---------------------------------------------------------------- monitor
   The implementation's visible state after each op is decoded from its observation; each clause of C08 is
   evaluated between the implementation's pre- and post-state. *)

Definition val_eqb (a b : val) : bool :=
  Bool.eqb (v_found a) (v_found b) && (v_status a =? v_status b) && Bool.eqb (v_jailed a) (v_jailed b)
  && Bool.eqb (v_tomb a) (v_tomb b) && (v_tokens a =? v_tokens b) && (v_lastpow a =? v_lastpow b)
  && (v_until a =? v_until b)
  && list_eqb (fun x y => (fst (fst x) =? fst (fst y)) && (snd (fst x) =? snd (fst y)) && (snd x =? snd y))
              (v_log a) (v_log b).

(* post-state as observed: validators, acks and meter from the observation; phase/set/params from the oracle ops *)
Definition observe (pre : state) (o : tree) : state :=
  let acks := map tzs (tlist (tnth 3 o)) in
  mkS (map to_val (tlist (tnth 2 o)))
      (map (fun '(x, a) => mkCo (c_phase x) (c_set x) (c_params x) a) (combine (conss pre) acks))
      (mkP (tz (tnth 4 o)) (tz (tnth 5 o))).

Definition idxs (n : nat) : list Z := map Z.of_nat (seq 0 n).

Definition mon_step (frac period : Z) (pre : state) (o : op) (ob : tree) : state * list Z :=
  let r := tz (tnth 0 ob) in
  let em := map tzs (tlist (tnth 1 ob)) in
  let pre' := match o with
              | OCons c phase set params =>
                  match getc pre c with Some x => setc pre c (mkCo phase set params (c_acks x)) | None => pre end
              | _ => pre end in
  let post := observe pre' ob in
  let nv := idxs (length (vals pre)) in
  let nc := idxs (length (conss pre)) in
  let others_same (except : Z) :=
    Nat.eqb (length (vals post)) (length (vals pre)) &&
    forallb (fun i => (i =? except) || val_eqb (getv post i) (getv pre i)) nv in
  let acks_same (except : Z) :=
    forallb (fun c => (c =? except) || list_eqb Z.eqb (acks_of post c) (acks_of pre c)) nc in
  let bad :=
    match o with
    | ORecv c key infr addr_ok power h res now =>
      let v := getv pre res in let v' := getv post res in
      let jailed_now := v_jailed v' && negb (v_jailed v) in
      let cond := jail_cond pre c infr addr_ok power h res in
      let reach := wellformed pre c infr addr_ok power h && launched pre c && member pre c res in
      let expect_class :=
        match getc pre c with
        | None => 0
        | Some _ => if negb (validate addr_ok power infr) then 4
                    else match h with None => 4 | Some _ =>
                      if infr =? DOUBLE_SIGN then 1
                      else if reach && negb (admitted pre) then 3 else 2 end
        end in
      (* 1: jailed (and slashed) by this packet iff the conditions of the property hold *)
      flag (Bool.eqb jailed_now cond) 1 ++
      (* 2: nobody else is affected; double-sign packets change no validator; without jailing the target is unchanged *)
      flag (others_same res) 2 ++
      flag ((negb (infr =? DOUBLE_SIGN) && jailed_now) || val_eqb v' v) 3 ++
      (* 4: slashed and jailed with the consumer's downtime parameters *)
      flag (negb jailed_now ||
            match getc pre c, h with
            | Some x, Some height =>
              match c_params x with
              | Some (fr, dur) => val_eqb v' (jail_val v fr dur power height now)
              | None => false
              end
            | _, _ => false
            end) 4 ++
      (* 5: an ack is recorded exactly in the listed cases, for the reported address, for this consumer only *)
      flag (list_eqb Z.eqb (acks_of post c)
              (acks_of pre c ++ (if ack_cond pre c infr addr_ok power h res then [key] else []))) 5 ++
      flag (acks_same c) 6 ++
      (* 7: acknowledgement class; 8: meter deducted by the effective power exactly when handled past the meter check *)
      flag (r =? expect_class) 7 ++
      flag (meter (thr post) =? (if reach && admitted pre then meter (thr pre) - eff_power v else meter (thr pre))) 8 ++
      flag (match em with [] => true | _ => false end) 9
    | OEpoch produced =>
      (* 9: a produced VSC packet carries exactly the pending acks and empties the list; otherwise nothing moves *)
      flag (forallb (fun c =>
              let p := nthz c produced false in
              list_eqb Z.eqb (nthz c em []) (if p then acks_of pre c else []) &&
              list_eqb Z.eqb (acks_of post c) (if p then [] else acks_of pre c)) nc) 9 ++
      flag (others_same (-1)) 2
    | OBegin now total => flag (acks_same (-1)) 6 ++ flag (others_same (-1)) 2
    | OExt rows => flag (acks_same (-1)) 6
    | OCons _ _ _ _ => flag (acks_same (-1)) 6 ++ flag (others_same (-1)) 2
    end in
  (post, bad).

Fixpoint mon_run (frac period : Z) (pre : state) (ops : list op) (obs : list tree) : list Z :=
  match ops, obs with
  | o :: t, ob :: ot =>
    let '(post, bad) := mon_step frac period pre o ob in
    bad ++ mon_run frac period post t ot
  | _, _ => []
  end.

Definition mon (t o : tree) : tree :=
  let cfg := tnth 0 t in
  let ops := map dec_op (tlist (tnth 4 t)) in
  of_zs (nodup Z.eq_dec
    (flag (Nat.eqb (length ops) (length (tlist o))) 99 ++
     mon_run (tz (tnth 0 cfg)) (tz (tnth 1 cfg)) (dec_state t) ops (tlist o))).
