(* Model of consumer equivocation handling on the provider (C07):
     x/ccv/provider/keeper/consumer_equivocation.go
         HandleConsumerDoubleVoting, VerifyDoubleVotingEvidence, HandleConsumerMisbehaviour,
         CheckMisbehaviour, GetByzantineValidators, SlashValidator, JailAndTombstoneValidator,
         ComputePowerToSlash
     x/ccv/provider/keeper/msg_server.go     SubmitConsumerDoubleVoting, SubmitConsumerMisbehaviour
     x/ccv/provider/types/msg.go             ValidateBasic of both messages
     x/ccv/provider/keeper/key_assignment.go GetProviderAddrFromConsumerAddr

   Addresses (provider consensus addresses and consumer keys alike) are integers; the validator table is
   a list and validator i has provider address i, every other address is unknown to staking.
   ORACLES (inputs carried by the evidence, nothing is assumed about them):
     - cryptography: for each vote of a duplicate-vote evidence the list of chain ids over which its
       signature verifies under the supplied public key (the model only tests membership of the consumer's
       chain id); for each commit signature of a misbehaviour header the verdict of
       verifyLightBlockCommitSig; the light client's CheckForMisbehaviour / VerifyClientMessage verdicts;
     - structural facts about the evidence bytes (same height/round/type, same address, order of the block-id
       keys, key found in the supplied validator set, ...), reported by the driver that constructed them;
     - staking / slashing state of every validator and every consumer's configuration, which the external
       ops OExt / OCons may overwrite arbitrarily (a tombstone is never removed: x/slashing has no such
       operation).
   A rejected submission returns the OLD state (SDK transaction rollback). *)
From Coq Require Import ZArith List Bool.
From ICS Require Import Base.Dec Base.Tree.
Import ListNotations.
Open Scope Z_scope.

Definition PR : Z := 1000000.            (* staking PowerReduction *)
Definition UNBONDED : Z := 1.            (* stakingtypes.Unbonded *)
Definition F_ABSENT : Z := 1.            (* cmttypes.BlockIDFlagAbsent *)
Definition F_COMMIT : Z := 2.            (* cmttypes.BlockIDFlagCommit *)
Definition F_NIL : Z := 3.               (* cmttypes.BlockIDFlagNil *)

(* ---------------------------------------------------------------- state *)

Record vrec := mkV {
  v_status : Z;              (* 1 unbonded, 2 unbonding, 3 bonded *)
  v_jailed : bool;
  v_until : Z;               (* slashing JailedUntil, ns *)
  v_tomb : bool;
  v_tokens : Z;
  v_lastpow : Z;             (* staking LastValidatorPower *)
  v_unb : Z;                 (* tokens in unbonding delegations from this validator *)
  v_red : Z;                 (* tokens in redelegations away from this validator *)
  v_sinfo : bool;            (* x/slashing has a signing info (JailUntil / Tombstone fail without) *)
  v_log : list (Z * Z)       (* SlashWithInfractionReason calls: (power, fraction) *)
}.

Record dsparams := mkDS { ds_frac : Z; ds_jail : Z; ds_tomb : bool }.

Record cons := mkC {
  c_client : option Z;             (* GetConsumerClientId *)
  c_chain : option Z;              (* GetConsumerChainId *)
  c_minh : Z;                      (* GetEquivocationEvidenceMinHeight *)
  c_ds : option dsparams;          (* GetInfractionParameters(...).DoubleSign *)
  c_keys : list (Z * Z)            (* ValidatorByConsumerAddr: consumer address -> provider address *)
}.

Record state := mkS { s_time : Z; s_vals : list vrec; s_cons : list cons }.

Definition getv (s : state) (p : Z) : option vrec :=
  if p <? 0 then None else nth_error (s_vals s) (Z.to_nat p).
Definition getc (s : state) (c : Z) : option cons :=
  if c <? 0 then None else nth_error (s_cons s) (Z.to_nat c).

Fixpoint upd {A} (n : nat) (x : A) (l : list A) : list A :=
  match l, n with
  | [], _ => []
  | _ :: t, O => x :: t
  | y :: t, S n' => y :: upd n' x t
  end.
Definition setv (s : state) (p : Z) (v : vrec) : state :=
  if p <? 0 then s else mkS (s_time s) (upd (Z.to_nat p) v (s_vals s)) (s_cons s).

Fixpoint assoc (k : Z) (l : list (Z * Z)) : option Z :=
  match l with
  | [] => None
  | (a, b) :: t => if a =? k then Some b else assoc k t
  end.

(* GetProviderAddrFromConsumerAddr: without a mapping the consumer address IS the provider address *)
Definition resolve (c : cons) (key : Z) : Z :=
  match assoc key (c_keys c) with Some p => p | None => key end.

Fixpoint memz (x : Z) (l : list Z) : bool :=
  match l with [] => false | y :: t => (y =? x) || memz x t end.

(* ---------------------------------------------------------------- punishing one validator *)

Inductive res (A : Type) := Ok (a : A) | Err (code : Z).
Arguments Ok {A} a.
Arguments Err {A} code.

(* result classes (0 = accepted) *)
Definition E_VB : Z := 1.          (* ValidateBasic of the message *)
Definition E_VALSET : Z := 2.      (* dv: ValidatorSetFromProto fails *)
Definition E_NOKEY : Z := 3.       (* dv: key not in the supplied validator set *)
Definition E_NOCLIENT : Z := 4.    (* consumer has no client *)
Definition E_OLD : Z := 5.         (* evidence height below the minimum *)
Definition E_NOCHAIN : Z := 6.     (* dv: GetConsumerChainId fails *)
Definition E_KEYNIL : Z := 7.
Definition E_KEYADDR : Z := 8.
Definition E_HRT : Z := 9.
Definition E_ADDR : Z := 10.
Definition E_SAMEBID : Z := 11.
Definition E_SIGA : Z := 12.
Definition E_SIGB : Z := 13.
Definition E_NOPARAMS : Z := 14.
Definition E_NOTFOUND : Z := 15.
Definition E_UNBONDED : Z := 16.
Definition E_TOMB : Z := 17.
Definition E_JAIL : Z := 18.       (* dv: JailAndTombstoneValidator fails after SlashValidator succeeded *)
Definition E_CLIENTID : Z := 19.   (* mb: other client id *)
Definition E_HEIGHTS : Z := 20.    (* mb: headers at different heights *)
Definition E_CFM : Z := 21.        (* mb: CheckForMisbehaviour = false *)
Definition E_VCM : Z := 22.        (* mb: VerifyClientMessage fails *)
Definition E_LB : Z := 23.         (* mb: headerToLightBlock fails *)
Definition E_SIG : Z := 24.        (* mb: verifyLightBlockCommitSig fails *)
Definition E_NOBODY : Z := 25.     (* mb: no validator was punished *)
Definition E_PANIC : Z := 26.      (* mb: JailAndTombstoneValidator fails after SlashValidator: panic *)
Definition E_MBNOCHAIN : Z := 27.  (* mb: GetConsumerChainId fails *)
Definition E_MBCHAIN : Z := 28.    (* mb: header chain id is not the consumer's *)

(* the guards shared by SlashValidator and JailAndTombstoneValidator: not found, unbonded, tombstoned *)
Definition guard_rec (v : vrec) : Z :=
  if v_status v =? UNBONDED then E_UNBONDED else if v_tomb v then E_TOMB else 0.
Definition guards (s : state) (p : Z) : res vrec :=
  match getv s p with
  | None => Err E_NOTFOUND
  | Some v => if guard_rec v =? 0 then Ok v else Err (guard_rec v)
  end.

(* ComputePowerToSlash: power + TokensToConsensusPower(undelegations + redelegations) *)
Definition power_to_slash (v : vrec) : Z := v_lastpow v + Z.quot (v_unb v + v_red v) PR.

(* staking Slash as implemented by the harness' staking stand-in: burn min(tokens, trunc(fraction * power * PR)) *)
Definition slash_tokens (frac power tokens : Z) : Z :=
  let amt := dtrunc_int (dmul_int frac (power * PR)) in
  tokens - (if tokens <? amt then tokens else amt).

Definition slashed_rec (ds : dsparams) (v : vrec) : vrec :=
  mkV (v_status v) (v_jailed v) (v_until v) (v_tomb v)
      (slash_tokens (ds_frac ds) (power_to_slash v) (v_tokens v))
      (v_lastpow v) (v_unb v) (v_red v) (v_sinfo v)
      (v_log v ++ [(power_to_slash v, ds_frac ds)]).

(* Jail (if not jailed), JailUntil(block time + JailDuration), Tombstone if the consumer says so *)
Definition jailed_rec (now : Z) (ds : dsparams) (v : vrec) : vrec :=
  mkV (v_status v) true (now + ds_jail ds) (v_tomb v || ds_tomb ds)
      (v_tokens v) (v_lastpow v) (v_unb v) (v_red v) (v_sinfo v) (v_log v).

(* SlashValidator *)
Definition slash_validator (s : state) (p : Z) (ds : dsparams) : res state :=
  match guards s p with
  | Err e => Err e
  | Ok v => Ok (setv s p (slashed_rec ds v))
  end.

(* JailAndTombstoneValidator *)
Definition jail_and_tombstone (s : state) (p : Z) (ds : dsparams) : res state :=
  match guards s p with
  | Err e => Err e
  | Ok v =>
    if negb (v_sinfo v) then Err E_JAIL            (* slashingKeeper.JailUntil: no signing info *)
    else Ok (setv s p (jailed_rec (s_time s) ds v))
  end.

(* ---------------------------------------------------------------- double voting *)

Record dv := mkDV {
  dv_cons : Z;               (* msg.ConsumerId *)
  dv_vb_ok : bool;           (* ValidateBasic passes apart from the order of the block ids *)
  dv_bid_cmp : Z;            (* sign of Compare(VoteA.BlockID.Key(), VoteB.BlockID.Key()) *)
  dv_valset_ok : bool;       (* ValidatorSetFromProto(InfractionBlockHeader.ValidatorSet) succeeds *)
  dv_key_in_valset : bool;   (* the set has an entry at VoteA.ValidatorAddress *)
  dv_key_present : bool;     (* keeper entry: pubkey != nil *)
  dv_key_addr_ok : bool;     (* pubkey.Address() = VoteA.ValidatorAddress *)
  dv_hrt_eq : bool;          (* same height, round and type *)
  dv_addr_eq : bool;         (* VoteA.ValidatorAddress = VoteB.ValidatorAddress *)
  dv_height : Z;             (* VoteA.Height *)
  dv_sigA : list Z;          (* ORACLE: chain ids over which VoteA's signature verifies under the key *)
  dv_sigB : list Z;          (* ORACLE: same for VoteB *)
  dv_addr : Z                (* VoteA.ValidatorAddress *)
}.

(* VerifyDoubleVotingEvidence(evidence, chainId, pubkey): first failing check, 0 = verified *)
Definition verify_dv (key_present : bool) (e : dv) (chain : Z) : Z :=
  if negb key_present then E_KEYNIL
  else if negb (dv_key_addr_ok e) then E_KEYADDR
  else if negb (dv_hrt_eq e) then E_HRT
  else if negb (dv_addr_eq e) then E_ADDR
  else if dv_bid_cmp e =? 0 then E_SAMEBID
  else if negb (memz chain (dv_sigA e)) then E_SIGA
  else if negb (memz chain (dv_sigB e)) then E_SIGB
  else 0.

(* HandleConsumerDoubleVoting up to (excluding) the punishment: first failing check, 0 = pass *)
Definition dv_check (s : state) (key_present : bool) (e : dv) : Z :=
  match getc s (dv_cons e) with
  | None => E_NOCLIENT
  | Some c =>
    match c_client c with
    | None => E_NOCLIENT
    | Some _ =>
      if dv_height e <? c_minh c then E_OLD
      else match c_chain c with
      | None => E_NOCHAIN
      | Some chain =>
        if negb (verify_dv key_present e chain =? 0) then verify_dv key_present e chain
        else match c_ds c with None => E_NOPARAMS | Some _ => 0 end
      end
    end
  end.

(* the provider address punished by an accepted double-voting submission *)
Definition dv_target (s : state) (e : dv) : Z :=
  match getc s (dv_cons e) with Some c => resolve c (dv_addr e) | None => dv_addr e end.
Definition ds_of (s : state) (c : Z) : dsparams :=
  match getc s c with
  | Some x => match c_ds x with Some d => d | None => mkDS 0 0 false end
  | None => mkDS 0 0 false
  end.

(* (state, code, dirty): dirty = the staking module was written before the failure (the fake World of the
   harness is not transactional; on a real chain the SDK rolls the whole transaction back) *)
Definition handle_dv (s : state) (key_present : bool) (e : dv) : state * Z * bool :=
  if negb (dv_check s key_present e =? 0) then (s, dv_check s key_present e, false)
  else
    let p := dv_target s e in
    let ds := ds_of s (dv_cons e) in
    match slash_validator s p ds with
    | Err x => (s, x, false)
    | Ok s1 =>
      match jail_and_tombstone s1 p ds with
      | Err x => (s, x, true)
      | Ok s2 => (s2, 0, false)
      end
    end.

(* entry 0: MsgSubmitConsumerDoubleVoting through ValidateBasic and the msg server;
   entry <> 0: Keeper.HandleConsumerDoubleVoting called directly with a (possibly nil) key *)
Definition submit_dv (s : state) (entry : Z) (e : dv) : state * Z * bool :=
  if entry =? 0 then
    if negb (dv_vb_ok e) || (0 <=? dv_bid_cmp e) then (s, E_VB, false)
    else if negb (dv_valset_ok e) then (s, E_VALSET, false)
    else if negb (dv_key_in_valset e) then (s, E_NOKEY, false)
    else handle_dv s true e
  else handle_dv s (dv_key_present e) e.

(* ---------------------------------------------------------------- misbehaviour *)

(* one commit signature: address, BlockIDFlag, ORACLE verdict of verifyLightBlockCommitSig *)
Record sigent := mkSig { g_addr : Z; g_flag : Z; g_ok : bool }.

Record mb := mkMB {
  mb_cons : Z;
  mb_vb_ok : bool;           (* Misbehaviour.ValidateBasic *)
  mb_chain : Z;              (* Header1.Header.ChainID *)
  mb_client : Z;             (* misbehaviour.ClientId *)
  mb_heights_eq : bool;
  mb_height : Z;             (* Header1 revision height *)
  mb_cfm : bool;             (* ORACLE: lightClientModule.CheckForMisbehaviour *)
  mb_vcm : bool;             (* ORACLE: lightClientModule.VerifyClientMessage = nil *)
  mb_lb_ok : bool;           (* headerToLightBlock succeeds for both headers *)
  mb_conflict : bool;        (* headersStateTransitionsAreConflicting *)
  mb_rounds_eq : bool;       (* Commit.Round equal *)
  mb_sigs1 : list sigent;    (* Header1 commit signatures in order *)
  mb_sigs2 : list sigent
}.

(* only BlockIDFlagCommit counts as having signed the header (absent validators and NIL votes do not; repaired
   in /repo by "fix: only validators that committed to both headers are byzantine" - before that repair every
   non-absent signature counted, see signed_prefix in Proofs/EvidenceProofs.v) *)
Definition signed (e : sigent) : bool := g_flag e =? F_COMMIT.

(* header1Signers[address] = index of the LAST committed signature with that address *)
Fixpoint last_signer (a : Z) (l : list sigent) : option sigent :=
  match l with
  | [] => None
  | e :: t =>
    match last_signer a t with
    | Some x => Some x
    | None => if signed e && (g_addr e =? a) then Some e else None
    end
  end.

(* the loop over the signatures of header 2 *)
Fixpoint byz_loop (s1 l2 : list sigent) : res (list Z) :=
  match l2 with
  | [] => Ok []
  | e :: t =>
    if negb (signed e) then byz_loop s1 t
    else match last_signer (g_addr e) s1 with
    | None => byz_loop s1 t
    | Some e1 =>
      if negb (g_ok e1) then Err E_SIG
      else if negb (g_ok e) then Err E_SIG
      else match byz_loop s1 t with
           | Ok r => Ok (g_addr e :: r)
           | Err x => Err x
           end
    end
  end.

(* GetByzantineValidators *)
Definition get_byzantine (m : mb) : res (list Z) :=
  if negb (mb_lb_ok m) then Err E_LB
  else if negb (mb_conflict m) && negb (mb_rounds_eq m) then Ok []      (* amnesia *)
  else byz_loop (mb_sigs1 m) (mb_sigs2 m).

(* CheckMisbehaviour: first failing check, 0 = pass *)
Definition mb_check (s : state) (m : mb) : Z :=
  match getc s (mb_cons m) with
  | None => E_MBNOCHAIN
  | Some c =>
    match c_chain c with
    | None => E_MBNOCHAIN
    | Some chain =>
      if negb (chain =? mb_chain m) then E_MBCHAIN
      else match c_client c with
      | None => E_NOCLIENT
      | Some cl =>
        if negb (cl =? mb_client m) then E_CLIENTID
        else if negb (mb_heights_eq m) then E_HEIGHTS
        else if mb_height m <? c_minh c then E_OLD
        else if negb (mb_cfm m) then E_CFM
        else if negb (mb_vcm m) then E_VCM
        else 0
      end
    end
  end.

(* the slash / jail loop of HandleConsumerMisbehaviour; n = number of validators punished so far *)
Fixpoint punish (s : state) (c : cons) (ds : dsparams) (l : list Z) (n : Z) : res (state * Z) :=
  match l with
  | [] => Ok (s, n)
  | a :: t =>
    let p := resolve c a in
    match slash_validator s p ds with
    | Err _ => punish s c ds t n                               (* logged, continue *)
    | Ok s1 =>
      match jail_and_tombstone s1 p ds with
      | Err _ => Err E_PANIC
      | Ok s2 => punish s2 c ds t (n + 1)
      end
    end
  end.

Definition handle_mb (s : state) (m : mb) : state * Z * bool :=
  if negb (mb_check s m =? 0) then (s, mb_check s m, false)
  else match get_byzantine m with
  | Err x => (s, x, false)
  | Ok l =>
    match getc s (mb_cons m) with
    | None => (s, E_MBNOCHAIN, false)
    | Some c =>
      match c_ds c with
      | None => (s, E_NOPARAMS, false)
      | Some ds =>
        match punish s c ds l 0 with
        | Err x => (s, x, true)
        | Ok (s', n) => if n =? 0 then (s, E_NOBODY, false) else (s', 0, false)
        end
      end
    end
  end.

(* entry 0: MsgSubmitConsumerMisbehaviour with ValidateBasic; otherwise Keeper.HandleConsumerMisbehaviour *)
Definition submit_mb (s : state) (entry : Z) (m : mb) : state * Z * bool :=
  if (entry =? 0) && negb (mb_vb_ok m) then (s, E_VB, false) else handle_mb s m.

(* ---------------------------------------------------------------- ops *)

Inductive op :=
| OTime (t : Z)
| OExt (i : Z) (v : vrec)        (* staking / slashing change validator i; the log is kept, a tombstone stays *)
| OCons (c : Z) (x : cons)       (* lifecycle / key assignment / parameter components rewrite consumer c *)
| ODV (entry : Z) (e : dv)
| OMB (entry : Z) (m : mb)
| OGBV (m : mb).                 (* GetByzantineValidators called directly (no state change) *)

Definition ext_rec (old new : vrec) : vrec :=
  mkV (v_status new) (v_jailed new) (v_until new) (v_tomb old || v_tomb new) (v_tokens new) (v_lastpow new)
      (v_unb new) (v_red new) (v_sinfo new) (v_log old).

(* step: (new state, result class, dirty, extra output) *)
Definition step (s : state) (o : op) : state * Z * bool * list Z :=
  match o with
  | OTime t => (mkS t (s_vals s) (s_cons s), 0, false, [])
  | OExt i v =>
    match getv s i with
    | Some old => (setv s i (ext_rec old v), 0, false, [])
    | None => (s, 0, false, [])
    end
  | OCons c x =>
    if c <? 0 then (s, 0, false, [])
    else (mkS (s_time s) (s_vals s) (upd (Z.to_nat c) x (s_cons s)), 0, false, [])
  | ODV entry e => let '(s', code, d) := submit_dv s entry e in (s', code, d, [])
  | OMB entry m => let '(s', code, d) := submit_mb s entry m in (s', code, d, [])
  | OGBV m =>
    match get_byzantine m with
    | Ok l => (s, 0, false, l)
    | Err x => (s, x, false, [])
    end
  end.

Definition st (r : state * Z * bool * list Z) : state := fst (fst (fst r)).
Definition code (r : state * Z * bool * list Z) : Z := snd (fst (fst r)).
Definition dirty (r : state * Z * bool * list Z) : bool := snd (fst r).
Definition extra (r : state * Z * bool * list Z) : list Z := snd r.

Definition run_ops (ops : list op) (s : state) : state := fold_left (fun s o => st (step s o)) ops s.

(* ---------------------------------------------------------------- wire format
   input  = [ [time, [val...], [cons...]], [op...] ]
   val    = [status, jailed, until, tomb, tokens, lastpow, unb, red, sinfo, [[power, frac]...]]
   cons   = [client?, chain?, minh, ds?, [[key, provider]...]]     x? = [] | [x];  ds = [frac, jail, tomb]
   op     = [0,t] | [1,i,val] | [2,c,cons] | [3,entry,dv] | [4,entry,mb] | [5,mb]
   dv     = [cons, vb_ok, bid_cmp, valset_ok, key_in_valset, key_present, key_addr_ok, hrt_eq, addr_eq, height,
             [chain...], [chain...], addr]
   mb     = [cons, vb_ok, chain, client, heights_eq, height, cfm, vcm, lb_ok, conflict, rounds_eq,
             [[addr, flag, ok]...], [[addr, flag, ok]...]]
   output = one [code, dirty, [extra...], [val...]] per op *)

Definition dec_val (t : tree) : vrec :=
  mkV (tz (tnth 0 t)) (tbool (tnth 1 t)) (tz (tnth 2 t)) (tbool (tnth 3 t)) (tz (tnth 4 t)) (tz (tnth 5 t))
      (tz (tnth 6 t)) (tz (tnth 7 t)) (tbool (tnth 8 t)) (to_pairs (tnth 9 t)).
Definition enc_val (v : vrec) : tree :=
  TL [TI (v_status v); of_bool (v_jailed v); TI (v_until v); of_bool (v_tomb v); TI (v_tokens v); TI (v_lastpow v);
      TI (v_unb v); TI (v_red v); of_bool (v_sinfo v); of_pairs (v_log v)].
Definition dec_ds (t : tree) : option dsparams :=
  match tlist t with
  | x :: _ => Some (mkDS (tz (tnth 0 x)) (tz (tnth 1 x)) (tbool (tnth 2 x)))
  | [] => None
  end.
Definition dec_cons (t : tree) : cons :=
  mkC (to_optz (tnth 0 t)) (to_optz (tnth 1 t)) (tz (tnth 2 t)) (dec_ds (tnth 3 t)) (to_pairs (tnth 4 t)).
Definition dec_dv (t : tree) : dv :=
  mkDV (tz (tnth 0 t)) (tbool (tnth 1 t)) (tz (tnth 2 t)) (tbool (tnth 3 t)) (tbool (tnth 4 t)) (tbool (tnth 5 t))
       (tbool (tnth 6 t)) (tbool (tnth 7 t)) (tbool (tnth 8 t)) (tz (tnth 9 t)) (tzs (tnth 10 t)) (tzs (tnth 11 t))
       (tz (tnth 12 t)).
Definition dec_sig (t : tree) : sigent := mkSig (tz (tnth 0 t)) (tz (tnth 1 t)) (tbool (tnth 2 t)).
Definition dec_mb (t : tree) : mb :=
  mkMB (tz (tnth 0 t)) (tbool (tnth 1 t)) (tz (tnth 2 t)) (tz (tnth 3 t)) (tbool (tnth 4 t)) (tz (tnth 5 t))
       (tbool (tnth 6 t)) (tbool (tnth 7 t)) (tbool (tnth 8 t)) (tbool (tnth 9 t)) (tbool (tnth 10 t))
       (map dec_sig (tlist (tnth 11 t))) (map dec_sig (tlist (tnth 12 t))).
Definition dec_op (t : tree) : op :=
  let k := tz (tnth 0 t) in
  if k =? 0 then OTime (tz (tnth 1 t))
  else if k =? 1 then OExt (tz (tnth 1 t)) (dec_val (tnth 2 t))
  else if k =? 2 then OCons (tz (tnth 1 t)) (dec_cons (tnth 2 t))
  else if k =? 3 then ODV (tz (tnth 1 t)) (dec_dv (tnth 2 t))
  else if k =? 4 then OMB (tz (tnth 1 t)) (dec_mb (tnth 2 t))
  else OGBV (dec_mb (tnth 1 t)).
Definition dec_state (t : tree) : state :=
  let i := tnth 0 t in
  mkS (tz (tnth 0 i)) (map dec_val (tlist (tnth 1 i))) (map dec_cons (tlist (tnth 2 i))).

Definition enc_out (r : state * Z * bool * list Z) : tree :=
  TL [TI (code r); of_bool (dirty r); of_zs (extra r); TL (map enc_val (s_vals (st r)))].

Fixpoint srun (s : state) (ops : list op) : list tree :=
  match ops with
  | [] => []
  | o :: t => let r := step s o in enc_out r :: srun (st r) t
  end.

Definition run (t : tree) : tree := TL (srun (dec_state t) (map dec_op (tlist (tnth 1 t)))).

(* ---------------------------------------------------------------- monitor
   The clauses of C07 evaluated between the implementation's own pre- and post-observation of every
   submission.  The validators' records come from the implementation's observations; time and the
   consumers' configuration from the oracle ops. *)

Fixpoint list_eqb {A} (f : A -> A -> bool) (a b : list A) : bool :=
  match a, b with
  | [], [] => true
  | x :: a', y :: b' => f x y && list_eqb f a' b'
  | _, _ => false
  end.

Definition vrec_eqb (a b : vrec) : bool :=
  (v_status a =? v_status b) && Bool.eqb (v_jailed a) (v_jailed b) && (v_until a =? v_until b)
  && Bool.eqb (v_tomb a) (v_tomb b) && (v_tokens a =? v_tokens b) && (v_lastpow a =? v_lastpow b)
  && (v_unb a =? v_unb b) && (v_red a =? v_red b) && Bool.eqb (v_sinfo a) (v_sinfo b)
  && list_eqb (fun x y => (fst x =? fst y) && (snd x =? snd y)) (v_log a) (v_log b).

Definition optv_eqb (a b : option vrec) : bool :=
  match a, b with
  | Some x, Some y => vrec_eqb x y
  | None, None => true
  | _, _ => false
  end.

Definition idxs (n : nat) : list Z := map Z.of_nat (seq 0 n).
Definition flag (ok : bool) (n : Z) : list Z := if ok then [] else [n].

(* what one successful SlashValidator + JailAndTombstoneValidator does to a record *)
Definition punished_rec (now : Z) (ds : dsparams) (v : vrec) : vrec := jailed_rec now ds (slashed_rec ds v).
Definition punishable (v : vrec) : bool := guard_rec v =? 0.

(* k-fold punishment as long as the guards pass *)
Fixpoint punish_n (now : Z) (ds : dsparams) (k : nat) (v : vrec) : vrec :=
  match k with
  | O => v
  | S k' => if punishable v then punish_n now ds k' (punished_rec now ds v) else v
  end.

Definition count_res (c : cons) (i : Z) (l : list Z) : nat :=
  length (filter (fun a => resolve c a =? i) l).

(* validity of a double-voting submission apart from the state of the punished validator *)
Definition dv_valid_b (s : state) (entry : Z) (e : dv) : bool :=
  (if entry =? 0 then dv_vb_ok e && (dv_bid_cmp e <? 0) && dv_valset_ok e && dv_key_in_valset e
   else dv_key_present e)
  && (dv_check s true e =? 0).

Definition mon_step (pre : state) (o : op) (ob : tree) : state * list Z :=
  let r := tz (tnth 0 ob) in
  let d := tbool (tnth 1 ob) in
  let pre' := match o with
              | OTime t => mkS t (s_vals pre) (s_cons pre)
              | OCons c x => st (step pre o)
              | _ => pre end in
  let post := mkS (s_time pre') (map dec_val (tlist (tnth 3 ob))) (s_cons pre') in
  let nv := idxs (length (s_vals pre)) in
  let same_len := Nat.eqb (length (s_vals post)) (length (s_vals pre)) in
  let unchanged i := optv_eqb (getv post i) (getv pre i) in
  let all_same := same_len && forallb unchanged nv in
  let once := forallb (fun i => match getv pre i with
                                | Some v => negb (v_tomb v) || unchanged i
                                | None => true end) nv in
  let bad :=
    match o with
    | ODV entry e =>
      let p := dv_target pre e in
      let ds := ds_of pre (dv_cons e) in
      (* 1: rejected => nothing changed (dirty: the stand-in was written and rolled back by the driver) *)
      flag ((r =? 0) || all_same) 1 ++
      (* 2: accepted => the evidence is valid for that consumer *)
      flag (negb (r =? 0) || dv_valid_b pre entry e) 2 ++
      (* 3: accepted => everybody but the resolved signer is unchanged *)
      flag (negb (r =? 0) || (same_len && forallb (fun i => (i =? p) || unchanged i) nv)) 3 ++
      (* 4: accepted => the signer was punishable and is slashed / jailed / tombstoned with the consumer's parameters *)
      flag (negb (r =? 0) ||
            match getv pre p, getv post p with
            | Some v, Some v' => punishable v && vrec_eqb v' (punished_rec (s_time pre) ds v)
            | _, _ => false
            end) 4 ++
      (* 5: a tombstoned validator is never touched again *)
      flag once 5 ++
      (* 6: dirty only with a rejection *)
      flag (negb d || negb (r =? 0)) 6 ++
      (* 11: valid evidence against a punishable validator IS accepted *)
      flag (negb (dv_valid_b pre entry e &&
                  match getv pre p with Some v => punishable v && v_sinfo v | None => false end) || (r =? 0)) 11
    | OMB entry m =>
      match getc pre (mb_cons m) with
      | None => flag (negb (r =? 0) && all_same) 1
      | Some c =>
        let ds := ds_of pre (mb_cons m) in
        let byz := match get_byzantine m with Ok l => l | Err _ => [] end in
        flag ((r =? 0) || all_same) 1 ++
        (* 7: accepted => CheckMisbehaviour's conditions hold and the signature checks passed *)
        flag (negb (r =? 0) || ((mb_check pre m =? 0) && implb (entry =? 0) (mb_vb_ok m)
                                && match get_byzantine m with Ok _ => true | Err _ => false end
                                && match c_ds c with Some _ => true | None => false end)) 7 ++
        (* 8: accepted => every validator is punished exactly as often as a byzantine key resolves to it
              (as long as its guards pass), everybody else is unchanged *)
        flag (negb (r =? 0) ||
              (same_len && forallb (fun i =>
                 match getv pre i, getv post i with
                 | Some v, Some v' => vrec_eqb v' (punish_n (s_time pre) ds (count_res c i byz) v)
                 | None, None => true
                 | _, _ => false end) nv)) 8 ++
        (* 9: accepted => somebody was punished *)
        flag (negb (r =? 0) || negb all_same) 9 ++
        (* 13: whoever is changed has, under one of its keys, a BlockIDFlagCommit signature in BOTH commits
               (a validator that only voted nil or was absent in a header is never punished) *)
        flag (same_len && forallb (fun i => unchanged i ||
                existsb (fun e2 => (g_flag e2 =? F_COMMIT) && (resolve c (g_addr e2) =? i) &&
                           existsb (fun e1 => (g_flag e1 =? F_COMMIT) && (g_addr e1 =? g_addr e2)) (mb_sigs1 m))
                        (mb_sigs2 m)) nv) 13 ++
        flag once 5 ++
        flag (negb d || negb (r =? 0)) 6 ++
        (* 12: a valid misbehaviour with a punishable byzantine validator IS accepted *)
        flag (negb ((mb_check pre m =? 0) && implb (entry =? 0) (mb_vb_ok m)
                    && match get_byzantine m with Ok _ => true | Err _ => false end
                    && match c_ds c with Some _ => true | None => false end
                    && existsb (fun a => match getv pre (resolve c a) with Some v => punishable v | None => false end) byz
                    && forallb (fun a => match getv pre (resolve c a) with
                                         | Some v => negb (punishable v) || v_sinfo v | None => true end) byz)
              || (r =? 0)) 12
      end
    | OGBV m =>
      let out := tzs (tnth 2 ob) in
      flag all_same 1 ++
      (* 10: every returned validator has a BlockIDFlagCommit signature in both commits, and vice versa; amnesia => nobody *)
      flag (negb (r =? 0) ||
            (forallb (fun a => existsb (fun e => signed e && (g_addr e =? a)) (mb_sigs1 m)
                               && existsb (fun e => signed e && (g_addr e =? a)) (mb_sigs2 m)) out
             && (if negb (mb_conflict m) && negb (mb_rounds_eq m) then match out with [] => true | _ => false end
                 else forallb (fun e => negb (signed e)
                                        || negb (existsb (fun e1 => signed e1 && (g_addr e1 =? g_addr e)) (mb_sigs1 m))
                                        || memz (g_addr e) out) (mb_sigs2 m)))) 10
    | _ => []
    end in
  (post, bad).

Fixpoint mon_run (pre : state) (ops : list op) (obs : list tree) : list Z :=
  match ops, obs with
  | o :: ops', ob :: obs' => let '(post, bad) := mon_step pre o ob in bad ++ mon_run post ops' obs'
  | _, _ => []
  end.

Definition mon (t o : tree) : tree :=
  let ops := map dec_op (tlist (tnth 1 t)) in
  of_zs (nodup Z.eq_dec (flag (Nat.eqb (length ops) (length (tlist o))) 99 ++ mon_run (dec_state t) ops (tlist o))).
