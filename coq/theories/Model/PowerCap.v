(* Model of x/ccv/provider/keeper/power_shaping.go:
   PartitionBasedOnPriorityList, CapValidatorSet, CapValidatorsPower,
   NoMoreThanPercentOfTheSum, sum.  A validator is (provider address id, power). *)
From Coq Require Import ZArith List Bool.
From ICS Require Import Base.Dec Base.SortDesc Base.Tree.
Import ListNotations.
Open Scope Z_scope.

Definition val : Type := (Z * Z)%type.
Definition vid (v : val) : Z := fst v.
Definition vpow (v : val) : Z := snd v.

(* func sum *)
Definition sum_pow (l : list val) : Z := fold_right (fun v a => vpow v + a) 0 l.

(* maxPower := LegacyNewDec(sum).Mul(LegacyNewDec(percent)).QuoInt64(100).TruncateInt64(); 0 -> 1 *)
Definition raw_max_power (s percent : Z) : Z :=
  dtrunc_int (dquo_int (dmul (dec_of_int s) (dec_of_int percent)) 100).
Definition max_power (s percent : Z) : Z :=
  let m := raw_max_power s percent in if m =? 0 then 1 else m.

(* first loop: remainingPower and validatorsWithPowerLessThanMaxPower *)
Fixpoint excess (maxp : Z) (l : list val) : Z :=
  match l with
  | [] => 0
  | v :: t => (if maxp <=? vpow v then vpow v - maxp else 0) + excess maxp t
  end.
Fixpoint count_below (maxp : Z) (l : list val) : Z :=
  match l with
  | [] => 0
  | v :: t => (if maxp <=? vpow v then 0 else 1) + count_below maxp t
  end.

(* the redistribution loop; Go's int64 `/` is Z.quot *)
Fixpoint cap_loop (maxp : Z) (l : list val) (rem rv ppv : Z) : list val :=
  match l with
  | [] => []
  | v :: t =>
    let '(out, rem', rv') :=
      if maxp <=? vpow v then (maxp, rem, rv)
      else if maxp <=? vpow v + ppv then (maxp, rem - (maxp - vpow v), rv - 1)
      else (vpow v + ppv, rem - ppv, rv - 1) in
    let ppv' := if rv' =? 0 then ppv else Z.quot rem' rv' in
    (vid v, out) :: cap_loop maxp t rem' rv' ppv'
  end.

Definition no_more_than_percent (vals : list val) (percent : Z) : list val :=
  let maxp := max_power (sum_pow vals) percent in
  let sorted := sort_desc vpow vals in
  let rem := excess maxp sorted in
  let cnt := count_below maxp sorted in
  let ppv := if cnt =? 0 then 0 else Z.quot rem cnt in
  cap_loop maxp sorted rem cnt ppv.

(* CapValidatorsPower *)
Definition cap_validators_power (power_cap : Z) (vals : list val) : list val :=
  if 0 <? power_cap then no_more_than_percent vals power_cap else vals.

(* PartitionBasedOnPriorityList: `prio` is the stored priority list *)
Definition is_prio (prio : list Z) (v : val) : bool := existsb (Z.eqb (vid v)) prio.
Definition partition_priority (prio : list Z) (vals : list val) : list val * list val :=
  (sort_desc vpow (filter (is_prio prio) vals),
   sort_desc vpow (filter (fun v => negb (is_prio prio v)) vals)).

(* CapValidatorSet *)
Definition cap_validator_set (top_n set_cap : Z) (vals : list val) : list val :=
  if 0 <? top_n then vals
  else if negb (set_cap =? 0) && (set_cap <? Z.of_nat (length vals))
       then firstn (Z.to_nat set_cap) vals else vals.

(* the three stages as composed in ComputeNextValidators *)
Definition shape (prio : list Z) (top_n set_cap power_cap : Z) (eligible : list val) : list val :=
  let '(p, np) := partition_priority prio eligible in
  cap_validators_power power_cap (cap_validator_set top_n set_cap (p ++ np)).

(* ---- wire interface for the correspondence driver ----
   input  = [ [ [id,power]... ], [prio ids...], top_n, set_cap, power_cap ]
   output = [ nmp(vals,power_cap) if power_cap>0 else [], partition p, partition np, shape result ] *)
Definition run (t : tree) : tree :=
  let vals := to_pairs (tnth 0 t) in
  let prio := tzs (tnth 1 t) in
  let top_n := tz (tnth 2 t) in
  let set_cap := tz (tnth 3 t) in
  let power_cap := tz (tnth 4 t) in
  let '(p, np) := partition_priority prio vals in
  TL [ of_pairs (if 0 <? power_cap then no_more_than_percent vals power_cap else []);
       of_pairs p; of_pairs np;
       of_pairs (cap_validator_set top_n set_cap (p ++ np));
       of_pairs (shape prio top_n set_cap power_cap vals);
       (* sixth observation: the real ComputeNextValidators on all-eligible validators = the composition *)
       of_pairs (shape prio top_n set_cap power_cap vals) ].

(* ---- monitor: the clauses of property C04 evaluated on an arbitrary (implementation) output.
   Returns the numbers of the clauses that fail; [] = all hold. ---- *)
Definition lookup_pow (l : list val) (id : Z) : Z :=
  match find (fun v => vid v =? id) l with Some v => vpow v | None => 0 end.
Definition achievable (vals : list val) (percent : Z) : bool :=
  let s := sum_pow vals in let m := raw_max_power s percent in
  (1 <=? m) && (s <=? Z.of_nat (length vals) * m).
Definition order_ok (vals out : list val) : bool :=
  forallb (fun a => forallb (fun b =>
     negb (vpow b <? vpow a) || (lookup_pow out (vid b) <=? lookup_pow out (vid a))) vals) vals.
Definition mon_power_cap (vals : list val) (percent : Z) (out : list val) : list Z :=
  let s := sum_pow vals in
  let m := raw_max_power s percent in
  let ids l := sort_desc (fun x => x) (map vid l) in
  (if list_eq_dec Z.eq_dec (ids vals) (ids out) then [] else [1]) ++
  (if achievable vals percent then
     (if forallb (fun o => vpow o <=? m) out then [] else [2]) ++
     (if sum_pow out =? s then [] else [3]) ++
     (if forallb (fun o => 1 <=? vpow o) out then [] else [4]) ++
     (if order_ok vals out then [] else [5])
   else
     (if forallb (fun o => vpow o =? Z.max m 1) out then [] else [6])).

(* rank: (priority-listed?, power) lexicographic; b outranks a *)
Definition outranks (prio : list Z) (b a : val) : bool :=
  (is_prio prio b && negb (is_prio prio a)) ||
  (Bool.eqb (is_prio prio b) (is_prio prio a) && (vpow a <? vpow b)).
Definition mon_set_cap (prio : list Z) (top_n set_cap : Z) (eligible out : list val) : list Z :=
  let excluded := filter (fun v => negb (existsb (fun o => vid o =? vid v) out)) eligible in
  (if (0 <? top_n) || (set_cap =? 0) || (Z.of_nat (length out) <=? set_cap) then [] else [7]) ++
  (if forallb (fun o => existsb (fun v => (vid v =? vid o) && (vpow v =? vpow o)) eligible) out then [] else [8]) ++
  (if forallb (fun e => forallb (fun o => negb (outranks prio e o)) out) excluded then [] else [9]) ++
  (if (0 <? top_n) || (set_cap =? 0) || (Z.of_nat (length eligible) <=? set_cap)
   then (if Nat.eqb (length out) (length eligible) then [] else [10])
   else (if Z.of_nat (length out) =? set_cap then [] else [10])).

(* the power-cap clauses for the end-to-end result of ComputeNextValidators: the power cap must hold relative to
   the validators that are actually in the final set (the set-capped list), clause numbers offset by 10 *)
Definition mon_composed (prio : list Z) (top_n set_cap power_cap : Z) (vals out : list val) : list Z :=
  let members := filter (fun v => existsb (fun o => vid o =? vid v) out) vals in
  map (fun c => c + 10)
      (mon_set_cap prio top_n set_cap vals (map (fun o => (vid o, lookup_pow vals (vid o))) out) ++
       (if 0 <? power_cap then mon_power_cap members power_cap out else [])).

(* mon input impl_output: impl_output has the shape produced by [run] *)
Definition mon (t o : tree) : tree :=
  let vals := to_pairs (tnth 0 t) in
  let prio := tzs (tnth 1 t) in
  let top_n := tz (tnth 2 t) in
  let set_cap := tz (tnth 3 t) in
  let power_cap := tz (tnth 4 t) in
  of_zs ((if 0 <? power_cap then mon_power_cap vals power_cap (to_pairs (tnth 0 o)) else []) ++
         mon_set_cap prio top_n set_cap vals (to_pairs (tnth 3 o)) ++
         mon_composed prio top_n set_cap power_cap vals (to_pairs (tnth 5 o))).
