(* Composition of two component models for ONE consumer chain (DESIGN.md 2.2, growth towards one system model):
     Model/Eligibility.v  ComputeConsumerNextValSet on the staking module's bonded list (property C02); there the
                          Top-N threshold is an ORACLE (the value of the real ComputeMinPowerInTopN), and
     Model/TopN.v         ComputeMinPowerInTopN in LegacyDec arithmetic, the stored MinimumPowerInTopN record,
                          UpdateMinimumPowerInTopN, HandleOptOut (property C03).
   Here the threshold is COMPUTED: min_power := TopN.compute_min_power over the last powers of the provider's
   active validators = the first MaxProviderConsensusValidators (M) entries of the SAME staking list the set is
   computed from, exactly as ComputeConsumerNextValSet calls ComputeMinPowerInTopN(activeValidators, Top_N),
   stores the result and hands it to OptInTopNValidators and ComputeNextValidators.
   Error path (ComputeMinPowerInTopN fails: no active validator / "should never reach"):
     LaunchConsumer runs on a cached context -> the launch fails, nothing is written (BeginBlockLaunchConsumers
     then resets the spawn time and the phase);
     QueueVSCPackets propagates the error -> EndBlock fails (the block is not committed): code 3, state unchanged.
   Oracles that remain: the staking bonded list per block (id, tokens, last power, provider key), MaxValidators, M,
   the block height, which opt-in / key-assignment / parameter messages were accepted, the last power of a
   validator that sends MsgOptOut. *)
From Coq Require Import ZArith List Bool.
From ICS Require Import Base.SortDesc Base.Tree Model.PowerCap.
From ICS Require Model.Eligibility Model.TopN.
Import ListNotations.
Open Scope Z_scope.

Module E := ICS.Model.Eligibility.
Module T := ICS.Model.TopN.

(* the last powers ComputeMinPowerInTopN reads: those of GetLastProviderConsensusActiveValidators *)
Definition active_powers (oracle : list E.sval) (M : Z) : list Z := map E.s_pow (E.take_max M oracle).

(* the provider's record of the consumer (Eligibility) and its MinimumPowerInTopN record (TopN) *)
Record sys := mkSys { cons : E.consumer; thr : option Z }.

Definition init : sys := mkSys E.empty_consumer None.

Definition set_launched (c : E.consumer) (b : bool) : E.consumer :=
  E.mkCons (E.cfg c) (E.opted c) (E.keys c) (E.valset c) b.

(* ComputeConsumerNextValSet with the threshold computed.  None = error return. *)
Definition compute_next_topn (oracle : list E.sval) (maxv M height : Z) (s : sys) : option (sys * list E.cval) :=
  let c := cons s in
  if 0 <? E.top_n (E.cfg c) then
    match T.compute_min_power (active_powers oracle M) (E.top_n (E.cfg c)) with
    | None => None
    | Some m =>
      let r := E.compute_consumer_next_valset M height c m (E.mk_slices oracle maxv M) in
      Some (mkSys (fst (fst r)) (Some m), snd (fst r))      (* SetMinimumPowerInTopN *)
    end
  else
    let r := E.compute_consumer_next_valset M height c 0 (E.mk_slices oracle maxv M) in
    Some (mkSys (fst (fst r)) (thr s), snd (fst r)).

Inductive sop :=
| SConfig (g : E.config) (oracle : list E.sval) (M : Z)   (* MsgUpdateConsumer (owner = gov) that passed the checks before UpdateMinimumPowerInTopN *)
| SOptIn (v : Z)                                          (* accepted MsgOptIn *)
| SOptOut (v power : Z)                                   (* MsgOptOut of a registered validator with that last power *)
| SAssignKey (v k : Z)                                    (* accepted MsgAssignConsumerKey / opt-in with key *)
| SLaunch (height : Z) (oracle : list E.sval) (maxv M : Z)   (* BeginBlockLaunchConsumers with this consumer due *)
| SEpoch (height : Z) (oracle : list E.sval) (maxv M : Z).   (* QueueVSCPackets *)

(* the accepted-message steps are Eligibility's own *)
Definition elig_step (c : E.consumer) (o : E.op) : E.consumer := E.get (E.step [c] o) 0.

(* UpdateConsumer: SetConsumerPowerShapingParameters, then UpdateMinimumPowerInTopN(old, new) *)
Definition set_config (s : sys) (g : E.config) (oracle : list E.sval) (M : Z) : sys * Z :=
  let c1 := elig_step (cons s) (E.SetConfig 0 g) in
  if negb (E.top_n g =? E.top_n (E.cfg (cons s))) then
    if 0 <? E.top_n g then
      match T.compute_min_power (active_powers oracle M) (E.top_n g) with
      | None => (s, 2)
      | Some m => (mkSys c1 (Some m), 0)
      end
    else (mkSys c1 None, 0)
  else (mkSys c1 (thr s), 0).

(* HandleOptOut against the stored threshold *)
Definition opt_out (s : sys) (v power : Z) : sys * Z :=
  let c := cons s in
  if negb (E.launched c) then (s, 2)
  else if 0 <? E.top_n (E.cfg c) then
    match thr s with
    | None => (s, 3)
    | Some m => if m <=? power then (s, 4) else (mkSys (elig_step c (E.OptOut 0 v)) (thr s), 0)
    end
  else (mkSys (elig_step c (E.OptOut 0 v)) (thr s), 0).

(* LaunchConsumer: computed on a cached context; needs a non-empty set with an active validator *)
Definition launch (s : sys) (height : Z) (oracle : list E.sval) (maxv M : Z) : sys * Z :=
  if E.launched (cons s) then (s, 1)
  else match compute_next_topn oracle maxv M height s with
       | None => (s, 2)
       | Some (s', next) =>
         if negb (E.is_nil next) && E.has_active next (E.take_max M oracle)
         then (mkSys (set_launched (cons s') true) (thr s'), 0) else (s, 2)
       end.

(* QueueVSCPackets: only a launched consumer is computed; an error fails the block *)
Definition epoch (s : sys) (height : Z) (oracle : list E.sval) (maxv M : Z) : sys * Z :=
  if negb (E.launched (cons s)) then (s, 0)
  else match compute_next_topn oracle maxv M height s with
       | None => (s, 3)
       | Some (s', _) => (s', 0)
       end.

Definition step (s : sys) (o : sop) : sys * Z :=
  match o with
  | SConfig g oracle M => set_config s g oracle M
  | SOptIn v => (mkSys (elig_step (cons s) (E.OptIn 0 v)) (thr s), 0)
  | SOptOut v power => opt_out s v power
  | SAssignKey v k => (mkSys (elig_step (cons s) (E.AssignKey 0 v k)) (thr s), 0)
  | SLaunch height oracle maxv M => launch s height oracle maxv M
  | SEpoch height oracle maxv M => epoch s height oracle maxv M
  end.

Definition exec (ops : list sop) : sys := fold_left (fun s o => fst (step s o)) ops init.

(* ---- wire interface ----
   input  = [ op... ]
     op = [0, top_n,set_cap,power_cap,min_stake,allow_inactive,[allow],[deny],[prio], oracle]
        | [1, v] | [2, v, power] | [3, v, k] | [4, height, oracle] | [5, height, oracle]
     oracle = [ [[id,tokens,last_power,provider_key]...], MaxValidators, M ]   (NO threshold value)
   output = per op [ code, [threshold] or [], [launched, [[id,key,power,join_height]... by id], [opted ids ascending]] ] *)
Definition dec_oracle (t : tree) : list E.sval * Z * Z := (E.to_oracle t, tz (tnth 1 t), tz (tnth 2 t)).
Definition dec_sop (t : tree) : sop :=
  let k := tz (tnth 0 t) in
  if k =? 0 then
    let '(oracle, _, M) := dec_oracle (tnth 9 t) in
    SConfig (E.mkCfg (tz (tnth 1 t)) (tz (tnth 2 t)) (tz (tnth 3 t)) (tz (tnth 4 t)) (tbool (tnth 5 t))
                     (tzs (tnth 6 t)) (tzs (tnth 7 t)) (tzs (tnth 8 t))) oracle M
  else if k =? 1 then SOptIn (tz (tnth 1 t))
  else if k =? 2 then SOptOut (tz (tnth 1 t)) (tz (tnth 2 t))
  else if k =? 3 then SAssignKey (tz (tnth 1 t)) (tz (tnth 2 t))
  else if k =? 4 then let '(oracle, maxv, M) := dec_oracle (tnth 2 t) in SLaunch (tz (tnth 1 t)) oracle maxv M
  else let '(oracle, maxv, M) := dec_oracle (tnth 2 t) in SEpoch (tz (tnth 1 t)) oracle maxv M.

Definition obs_of (s : sys) (code : Z) : tree := TL [TI code; of_optz (thr s); E.obs_consumer (cons s)].

Fixpoint trace (s : sys) (ops : list sop) : list tree :=
  match ops with
  | [] => []
  | o :: t => let '(s', c) := step s o in obs_of s' c :: trace s' t
  end.

Definition run (t : tree) : tree := TL (trace init (map dec_sop (tlist t))).

(* ---- monitor: the clauses of the composed property on the IMPLEMENTATION's observations.
   View [s]: parameters and keys from the accepted messages; opt-in records, stored set, launched flag and stored
   threshold from the implementation's previous observation.  At a successful launch / an epoch of a launched consumer:
     1-11   the clauses of C02 (Eligibility.mon_compute) with mp := the implementation's stored threshold
     12     oracle hypothesis (distinct ids, last powers >= 1); 20 more bonded validators than MaxValidators
     21     the stored threshold is not the exact rational specification on the ACTIVE validators' last powers
            (checked when their total is < 2*10^16); also after an accepted Top-N change
     22     an active validator with power >= m passing allow/deny/min-stake is missing, has another key than its
            assigned-or-provider key, (without power cap) another power than its provider power, or no record
     23     a member with power < m held no opt-in record before the computation
     24     a Top-N consumer's set is missing an eligible candidate although only the validator-set cap could exclude it
     26     opt-out outcome contradicts "launched and (not Top-N or power < stored m)"
     31-36  the clauses of C04's power cap (PowerCap.mon_power_cap) on the members at provider power *)
Definition shift (k : Z) (l : list Z) : list Z := map (Z.add k) l.

Definition mon_topn (s : sys) (height : Z) (oracle : list E.sval) (maxv M : Z)
           (thr' : option Z) (c' : E.consumer) : list Z :=
  let c := cons s in
  let g := E.cfg c in
  let out := E.valset c' in
  let active := E.take_max M oracle in
  let powers := active_powers oracle M in
  E.mon_oracle oracle ++
  (if Z.of_nat (length oracle) <=? maxv then [] else [20]) ++
  if 0 <? E.top_n g then
    let in_range := (0 <? T.sum_z powers) && (T.sum_z powers <? T.total_bound) in
    let m_spec := if in_range then T.spec_min_power powers (E.top_n g) else thr' in
    shift 20 (T.check_thr powers (E.top_n g) thr') ++
    (match thr' with
     | Some m' => E.mon_compute M height oracle maxv c m' out
     | None => [21]
     end) ++
    (match m_spec with
     | None => []
     | Some m =>
       if forallb (fun v =>
            negb (m <=? E.s_pow v)
            || negb ((E.is_nil (E.allowl g) || E.mem (E.s_id v) (E.allowl g))
                     && negb (E.mem (E.s_id v) (E.denyl g))
                     && ((E.min_stake g =? 0) || (E.min_stake g <=? E.s_tok v)))
            || (E.mem (E.s_id v) (E.opted c')
                && existsb (fun x => (E.c_id x =? E.s_id v)
                                     && ((0 <? E.power_cap g) || (E.c_pow x =? E.s_pow v))
                                     && (E.c_key x =? match E.assoc (E.s_id v) (E.keys c) with
                                                      | Some k => k | None => E.s_key v end)) out)) active
       then [] else [22]
     end) ++
    (match thr' with
     | None => []
     | Some m =>
       if forallb (fun x => match find (fun v => E.s_id v =? E.c_id x) oracle with
                            | Some v => (m <=? E.s_pow v) || E.mem (E.c_id x) (E.opted c)
                            | None => true
                            end) out
       then [] else [23]
     end) ++
    (match thr' with
     | None => []
     | Some m =>
       if forallb (fun v => negb (E.all_conditions c m v) || E.mem (E.s_id v) (map E.c_id out))
                  (if E.allow_inactive g then E.take_max maxv oracle else active)
       then [] else [24]
     end) ++
    (if 0 <? E.power_cap g then
       let members := flat_map (fun x => match find (fun v => E.s_id v =? E.c_id x) oracle with
                                         | Some v => [(E.s_id v, E.s_pow v)] | None => [] end) out in
       shift 30 (mon_power_cap members (E.power_cap g) (map E.to_val out))
     else [])
  else E.mon_compute M height oracle maxv c 0 out.

Definition mon_step (s : sys) (o : sop) (ob : tree) : list Z * sys :=
  let code := tz (tnth 0 ob) in
  let thr' := to_optz (tnth 1 ob) in
  let view (c : E.consumer) := mkSys (E.impl_consumer c (tnth 2 ob)) thr' in
  match o with
  | SConfig g oracle M =>
    if code =? 0 then
      ((if (0 <? E.top_n g) && negb (E.top_n g =? E.top_n (E.cfg (cons s)))
        then shift 20 (T.check_thr (active_powers oracle M) (E.top_n g) thr') else []),
       view (elig_step (cons s) (E.SetConfig 0 g)))
    else ([], view (cons s))
  | SOptIn v => ([], view (cons s))
  | SAssignKey v k => ([], view (elig_step (cons s) (E.AssignKey 0 v k)))
  | SOptOut v power =>
    let allowed := E.launched (cons s) &&
                   (negb (0 <? E.top_n (E.cfg (cons s))) || match thr s with Some m => power <? m | None => false end) in
    ((if Bool.eqb (code =? 0) allowed then [] else [26]), view (cons s))
  | SLaunch height oracle maxv M =>
    let s' := view (cons s) in
    ((if code =? 0 then mon_topn s height oracle maxv M thr' (cons s') else []), s')
  | SEpoch height oracle maxv M =>
    let s' := view (cons s) in
    ((if (code =? 0) && E.launched (cons s) then mon_topn s height oracle maxv M thr' (cons s') else []), s')
  end.

Fixpoint mon_trace (s : sys) (ops : list sop) (obs : list tree) : list Z :=
  match ops, obs with
  | o :: t, ob :: tobs => let '(bad, s') := mon_step s o ob in bad ++ mon_trace s' t tobs
  | _, _ => []
  end.

Definition mon (t o : tree) : tree :=
  of_zs (fold_right T.set_add [] (mon_trace init (map dec_sop (tlist t)) (tlist o))).
