(* Model of the two places where the CCV state machines touch Go constructs whose behaviour the
   language leaves open (x/ccv/types/utils.go AccumulateChanges: range over a map, then an unstable
   sort.Slice; x/ccv/provider/keeper/validator_set_update.go DiffValidators: maps used for lookup only).
   An update is (key, power); `key` is the rank of PubKey.String() among the keys of the case, so that
   integer order = Go string order. *)
From Coq Require Import ZArith List Bool.
From ICS Require Import Base.Tree.
Import ListNotations.
Open Scope Z_scope.

Definition upd : Type := (Z * Z)%type.
Definition ukey (u : upd) : Z := fst u.
Definition upow (u : upd) : Z := snd u.

(* m[key] = u on a Go map, kept as an association list with unique keys *)
Fixpoint map_set (u : upd) (m : list upd) : list upd :=
  match m with
  | [] => [u]
  | x :: t => if ukey x =? ukey u then u :: t else x :: map_set u t
  end.

(* the two loops filling the map: current changes first, then new changes (last writer wins) *)
Definition accumulate_map (cur new : list upd) : list upd :=
  fold_left (fun m u => map_set u m) new (fold_left (fun m u => map_set u m) cur []).

(* less(i,j) of the sort.Slice call: power descending, then key string descending *)
Definition less (a b : upd) : bool :=
  if upow a =? upow b then ukey b <? ukey a else upow b <? upow a.

Fixpoint insert_by (u : upd) (l : list upd) : list upd :=
  match l with
  | [] => [u]
  | x :: t => if less u x then u :: x :: t else x :: insert_by u t
  end.
Definition sort_by (l : list upd) : list upd := fold_right insert_by [] l.

(* AccumulateChanges with the map iterated in the order given by [perm] (any permutation) *)
Definition accumulate_with (perm : list upd -> list upd) (cur new : list upd) : list upd :=
  sort_by (perm (accumulate_map cur new)).
Definition accumulate (cur new : list upd) : list upd := accumulate_with (fun l => l) cur new.

(* DiffValidators: a validator is (key, power); output order is the Go loops' order *)
Definition lookup (k : Z) (l : list upd) : option Z :=
  match find (fun x => ukey x =? k) l with Some x => Some (upow x) | None => None end.
(* the maps are filled front to back, so a duplicate key resolves to its LAST occurrence *)
Definition lookup_last (k : Z) (l : list upd) : option Z := lookup k (rev l).

Definition diff_validators (cur next : list upd) : list upd :=
  flat_map (fun c => match lookup_last (ukey c) next with
                     | None => [(ukey c, 0)]
                     | Some p => if upow c =? p then [] else [(ukey c, p)]
                     end) cur
  ++ flat_map (fun n => match lookup_last (ukey n) cur with
                        | None => [n]
                        | Some _ => []
                        end) next.

(* ---- wire interface ----
   input  = [tag, a, b]
     tag 0 (fn part):      a = current changes, b = new changes  -> [accumulate a b, diff_validators a b]
     tag 1 (replica part): a = list of per-replica digests (each a list of integers) -> [a's first element]
     tag 2 (lint part):    a = expected inventory -> a
   The replica and lint parts have no protocol content on the model side: the model states what must be
   observed (all replicas equal to the first; inventory as recorded). *)
Definition run (t : tree) : tree :=
  let tag := tz (tnth 0 t) in
  if tag =? 0 then
    TL [of_pairs (accumulate (to_pairs (tnth 1 t)) (to_pairs (tnth 2 t)));
        of_pairs (diff_validators (to_pairs (tnth 1 t)) (to_pairs (tnth 2 t)))]
  else if tag =? 1 then
    TL (map (fun _ => tnth 0 (tnth 1 t)) (tlist (tnth 1 t)))
  else tnth 1 t.

Fixpoint tree_eqb (a b : tree) {struct a} : bool :=
  match a, b with
  | TI x, TI y => x =? y
  | TL l1, TL l2 =>
    (fix go (l1 l2 : list tree) {struct l1} : bool :=
       match l1, l2 with
       | [], [] => true
       | x :: t1, y :: t2 => tree_eqb x y && go t1 t2
       | _, _ => false
       end) l1 l2
  | _, _ => false
  end.

(* monitor: clause 1 = the implementation's AccumulateChanges output is not sorted by (power desc, key desc)
   or is not a last-writer-wins merge; clause 2 = replicas diverge; clause 3 = unexpected nondeterminism site *)
Fixpoint sorted_by (l : list upd) : bool :=
  match l with
  | [] => true
  | x :: t => forallb (fun y => less x y || ((ukey x =? ukey y) && (upow x =? upow y))) t && sorted_by t
  end.
Definition mon (t o : tree) : tree :=
  let tag := tz (tnth 0 t) in
  if tag =? 0 then
    let out := to_pairs (tnth 0 o) in
    let m := accumulate_map (to_pairs (tnth 1 t)) (to_pairs (tnth 2 t)) in
    of_zs ((if sorted_by out
               && forallb (fun u => match lookup (ukey u) m with Some p => p =? upow u | None => false end) out
               && Nat.eqb (length out) (length m) then [] else [1]))
  else if tag =? 1 then
    of_zs (if forallb (fun r => tree_eqb r (tnth 0 o)) (tlist o) then [] else [2])
  else
    of_zs (if tree_eqb (tnth 1 t) o then [] else [3]).
