(* Model of the two places where the CCV state machines touch Go constructs whose behaviour the
   language leaves open (x/ccv/types/utils.go AccumulateChanges: range over a map, then an unstable
   sort.Slice; x/ccv/provider/keeper/validator_set_update.go DiffValidators: maps used for lookup only).
   An update is (key, power); `key` is the rank of PubKey.String() among the keys of the case, so that
   integer order = Go string order. *)
From Coq Require Import ZArith List Bool.
From ICS Require Import Base.Tree.
Import ListNotations.
Open Scope Z_scope.

Definition upd : Type := (Z * Z)%type.
Definition ukey (u : upd) : Z := fst u.
Definition upow (u : upd) : Z := snd u.

(* m[key] = u on a Go map, kept as an association list with unique keys *)
Fixpoint map_set (u : upd) (m : list upd) : list upd :=
  match m with
  | [] => [u]
  | x :: t => if ukey x =? ukey u then u :: t else x :: map_set u t
  end.

(* the two loops filling the map: current changes first, then new changes (last writer wins) *)
Definition accumulate_map (cur new : list upd) : list upd :=
  fold_left (fun m u => map_set u m) new (fold_left (fun m u => map_set u m) cur []).

(* less(i,j) of the sort.Slice call: power descending, then key string descending *)
Definition less (a b : upd) : bool :=
  if upow a =? upow b then ukey b <? ukey a else upow b <? upow a.

Fixpoint insert_by (u : upd) (l : list upd) : list upd :=
  match l with
  | [] => [u]
  | x :: t => if less u x then u :: x :: t else x :: insert_by u t
  end.
Definition sort_by (l : list upd) : list upd := fold_right insert_by [] l.

(* AccumulateChanges with the map iterated in the order given by [perm] (any permutation) *)
Definition accumulate_with (perm : list upd -> list upd) (cur new : list upd) : list upd :=
  sort_by (perm (accumulate_map cur new)).
Definition accumulate (cur new : list upd) : list upd := accumulate_with (fun l => l) cur new.

(* DiffValidators: a validator is (key, power); output order is the Go loops' order *)
Definition lookup (k : Z) (l : list upd) : option Z :=
  match find (fun x => ukey x =? k) l with Some x => Some (upow x) | None => None end.
(* the maps are filled front to back, so a duplicate key resolves to its LAST occurrence *)
Definition lookup_last (k : Z) (l : list upd) : option Z := lookup k (rev l).

Definition diff_validators (cur next : list upd) : list upd :=
  flat_map (fun c => match lookup_last (ukey c) next with
                     | None => [(ukey c, 0)]
                     | Some p => if upow c =? p then [] else [(ukey c, p)]
                     end) cur
  ++ flat_map (fun n => match lookup_last (ukey n) cur with
                        | None => [n]
                        | Some _ => []
                        end) next.

(* ---- standalone -> consumer changeover (x/ccv/consumer/keeper/changeover.go, module.go EndBlock) ----
   A validator / update is (key id, power).  [bonded] is the standalone staking module's bonded set in power order
   (oracle: GetBondedValidatorsByPower); GetLastBondedValidatorsUtil keeps the first MaxValidators of it.  The Go map
   initialUpdatesFlag is used for lookup only, so the returned slice is: the stored initial validator set in its stored
   order, then one zero-power update per standalone validator whose key is not in it, in staking order. *)
Definition has_key (k : Z) (l : list upd) : bool := existsb (fun x => ukey x =? k) l.
Definition last_bonded (maxv : Z) (bonded : list upd) : list upd := firstn (Z.to_nat maxv) bonded.
Definition changeover_updates (init standalone : list upd) : list upd :=
  init ++ flat_map (fun s => if has_key (ukey s) init then [] else [(ukey s, 0)]) standalone.

(* ApplyCCValidatorChanges on the cross-chain validator store (an association list with unique keys) *)
Definition remove_key (k : Z) (m : list upd) : list upd := filter (fun x => negb (ukey x =? k)) m.
Fixpoint cc_apply (changes : list upd) (m : list upd) : list upd :=
  match changes with
  | [] => m
  | c :: t =>
    match lookup (ukey c) m with
    | Some _ => if upow c <? 1 then cc_apply t (remove_key (ukey c) m) else cc_apply t (map_set c m)
    | None => if 0 <? upow c then cc_apply t (map_set c m) else cc_apply t m
    end
  end.

(* what CometBFT does with the returned updates: power 0 removes the validator, any other power sets it *)
Definition tm1 (m : list upd) (u : upd) : list upd :=
  if upow u =? 0 then remove_key (ukey u) m else map_set u m.
Definition tm_apply (ups : list upd) (m : list upd) : list upd := fold_left tm1 ups m.

(* ChangeoverIsComplete for a previously standalone chain: FirstConsumerHeight = init genesis height + ValidatorUpdateDelay + 1 *)
Definition changeover_complete (init_h h : Z) : bool := init_h + 2 <=? h.

Fixpoint kinsert (u : upd) (l : list upd) : list upd :=
  match l with
  | [] => [u]
  | x :: t => if ukey u <=? ukey x then u :: x :: t else x :: kinsert u t
  end.
Definition ksort (l : list upd) : list upd := fold_right kinsert [] l.

(* the set the consensus engine ends up with must be the provider's initial set (last entry per key, zero = absent) *)
Definition handed_over (init standalone out : list upd) : bool :=
  forallb (fun k =>
    match lookup k (tm_apply out standalone), lookup_last k init with
    | None, None => true
    | None, Some p => p =? 0
    | Some q, Some p => (q =? p) && negb (p =? 0)
    | Some _, None => false
    end) (map ukey init ++ map ukey standalone ++ map ukey out).

(* ---- wire interface ----
   input  = [tag, a, b]
     tag 0 (fn part):      a = current changes, b = new changes  -> [accumulate a b, diff_validators a b]
     tag 1 (replica part): a = list of per-replica digests (each a list of integers) -> [a's first element]
     tag 2 (lint part):    a = expected inventory -> a
     tag 3 (changeover):   [3, init set, standalone bonded set, MaxValidators, init genesis height]
                           -> [updates returned by the changeover EndBlock (in order), cross-chain validator store (by key),
                               [PreCCV afterwards; ChangeoverIsComplete at heights h, h+1, h+2, h+3]]
   The replica and lint parts have no protocol content on the model side: the model states what must be
   observed (all replicas equal to the first; inventory as recorded). *)
Definition run (t : tree) : tree :=
  let tag := tz (tnth 0 t) in
  if tag =? 0 then
    TL [of_pairs (accumulate (to_pairs (tnth 1 t)) (to_pairs (tnth 2 t)));
        of_pairs (diff_validators (to_pairs (tnth 1 t)) (to_pairs (tnth 2 t)))]
  else if tag =? 1 then
    TL (map (fun _ => tnth 0 (tnth 1 t)) (tlist (tnth 1 t)))
  else if tag =? 3 then
    let init := to_pairs (tnth 1 t) in
    let sa := last_bonded (tz (tnth 3 t)) (to_pairs (tnth 2 t)) in
    let h := tz (tnth 4 t) in
    TL [of_pairs (changeover_updates init sa);
        of_pairs (ksort (cc_apply init []));
        of_zs (0 :: map (fun d => if changeover_complete h (h + d) then 1 else 0) [0; 1; 2; 3])]
  else tnth 1 t.

Fixpoint tree_eqb (a b : tree) {struct a} : bool :=
  match a, b with
  | TI x, TI y => x =? y
  | TL l1, TL l2 =>
    (fix go (l1 l2 : list tree) {struct l1} : bool :=
       match l1, l2 with
       | [], [] => true
       | x :: t1, y :: t2 => tree_eqb x y && go t1 t2
       | _, _ => false
       end) l1 l2
  | _, _ => false
  end.

(* monitor: clause 1 = the implementation's AccumulateChanges output is not sorted by (power desc, key desc)
   or is not a last-writer-wins merge; clause 2 = replicas diverge; clause 3 = unexpected nondeterminism site *)
Fixpoint sorted_by (l : list upd) : bool :=
  match l with
  | [] => true
  | x :: t => forallb (fun y => less x y || ((ukey x =? ukey y) && (upow x =? upow y))) t && sorted_by t
  end.
Definition mon (t o : tree) : tree :=
  let tag := tz (tnth 0 t) in
  if tag =? 0 then
    let out := to_pairs (tnth 0 o) in
    let m := accumulate_map (to_pairs (tnth 1 t)) (to_pairs (tnth 2 t)) in
    of_zs ((if sorted_by out
               && forallb (fun u => match lookup (ukey u) m with Some p => p =? upow u | None => false end) out
               && Nat.eqb (length out) (length m) then [] else [1]))
  else if tag =? 1 then
    of_zs (if forallb (fun r => tree_eqb r (tnth 0 o)) (tlist o) then [] else [2])
  else if tag =? 3 then
    (* clause 4 = the updates returned at the changeover do not hand the consensus set over to the provider's initial set *)
    of_zs (if handed_over (to_pairs (tnth 1 t)) (last_bonded (tz (tnth 3 t)) (to_pairs (tnth 2 t))) (to_pairs (tnth 0 o))
           then [] else [4])
  else
    of_zs (if tree_eqb (tnth 1 t) o then [] else [3]).
