(* Model of the computation of a consumer validator set on the provider (property C02):
     x/ccv/provider/keeper/validator_set_update.go  ComputeConsumerNextValSet, ComputeNextValidators,
                                                    FilterValidators, CreateConsumerValidator,
                                                    GetLastBondedValidators,
                                                    GetLastProviderConsensusActiveValidators
     x/ccv/types/utils.go                           GetLastBondedValidatorsUtil
     x/ccv/provider/keeper/power_shaping.go         CanValidateChain, HasMinPower, FulfillsMinStake
                                                    (+ PowerCap.shape for partition / set cap / power cap)
     x/ccv/provider/keeper/partial_set_security.go  OptInTopNValidators, opt-in store
     x/ccv/provider/keeper/key_assignment.go        GetValidatorConsumerPubKey
     x/ccv/provider/keeper/relay.go                 QueueVSCPackets (one pair of slices for all consumers)
     x/ccv/provider/keeper/consumer_lifecycle.go    BeginBlockLaunchConsumers, LaunchConsumer (validator-set part),
                                                    HasActiveConsumerValidator
   Oracles: the staking module's GetBondedValidatorsByPower list (validator id, bonded tokens, last power,
   provider key), MaxValidators, MaxProviderConsensusValidators (M), the block height, and
   ComputeMinPowerInTopN (its result is an input here; it is modelled by Model/TopN.v for C03).
   Validators, keys and consumers are small integers. *)
From Coq Require Import ZArith List Bool.
From ICS Require Import Base.SortDesc Base.Tree Model.PowerCap.
Import ListNotations.
Open Scope Z_scope.

(* a staking validator as returned by GetBondedValidatorsByPower *)
Record sval := mkS { s_id : Z; s_tok : Z; s_pow : Z; s_key : Z }.
(* types.ConsensusValidator: ProviderConsAddr, PublicKey, Power, JoinHeight *)
Record cval := mkC { c_id : Z; c_key : Z; c_pow : Z; c_height : Z }.
(* types.PowerShapingParameters *)
Record config := mkCfg { top_n : Z; set_cap : Z; power_cap : Z; min_stake : Z; allow_inactive : bool;
                         allowl : list Z; denyl : list Z; priol : list Z }.
(* what the provider stores for one consumer: parameters, opted-in index, key assignments
   (validator -> consumer key), the stored consumer validator set, launched phase *)
Record consumer := mkCons { cfg : config; opted : list Z; keys : list (Z * Z); valset : list cval;
                            launched : bool }.

Definition mem (x : Z) (l : list Z) : bool := existsb (Z.eqb x) l.
Definition is_nil {A} (l : list A) : bool := match l with [] => true | _ => false end.
Definition assoc (x : Z) (l : list (Z * Z)) : option Z :=
  match find (fun p => fst p =? x) l with Some p => Some (snd p) | None => None end.

(* GetLastBondedValidatorsUtil: if len < maxVals return all, else [:maxVals] *)
Definition take_max {A} (maxv : Z) (l : list A) : list A :=
  if Z.of_nat (length l) <? maxv then l else firstn (Z.to_nat maxv) l.

(* HasMinPower: GetLastValidatorPower(validator) >= minPower *)
Definition has_min_power (min_power : Z) (v : sval) : bool := min_power <=? s_pow v.

(* CanValidateChain *)
Definition can_validate (c : consumer) (min_power : Z) (v : sval) : bool :=
  let opted_in := mem (s_id v) (opted c) in
  let opted_in := if negb opted_in && (0 <? top_n (cfg c)) then has_min_power min_power v else opted_in in
  opted_in
  && (is_nil (allowl (cfg c)) || mem (s_id v) (allowl (cfg c)))
  && (is_nil (denyl (cfg c)) || negb (mem (s_id v) (denyl (cfg c)))).

(* FulfillsMinStake: minStake == 0 || GetBondedTokens().GTE(minStake) *)
Definition fulfills_min_stake (ms : Z) (v : sval) : bool :=
  if ms =? 0 then true else ms <=? s_tok v.

Definition eligible (c : consumer) (min_power : Z) (v : sval) : bool :=
  can_validate c min_power v && fulfills_min_stake (min_stake (cfg c)) v.

(* CreateConsumerValidator: last power; assigned key if found else provider key;
   join height = stored one if the validator is already a consumer validator, else this block *)
Definition create_consumer_validator (height : Z) (c : consumer) (v : sval) : cval :=
  mkC (s_id v)
      (match assoc (s_id v) (keys c) with Some k => k | None => s_key v end)
      (s_pow v)
      (match find (fun p => c_id p =? s_id v) (valset c) with Some p => c_height p | None => height end).

(* FilterValidators *)
Definition filter_validators (height : Z) (c : consumer) (min_power : Z) (l : list sval) : list cval :=
  map (create_consumer_validator height c) (filter (eligible c min_power) l).

(* PowerCap.shape works on (provider address, power); the other fields of the ConsensusValidator
   structs travel with the address (addresses are distinct: hypothesis of the theorems, checked by the monitor) *)
Definition to_val (x : cval) : val := (c_id x, c_pow x).
Definition reattach (l : list cval) (v : val) : list cval :=
  match find (fun x => c_id x =? vid v) l with
  | Some x => [mkC (c_id x) (c_key x) (vpow v) (c_height x)]
  | None => []
  end.

(* ComputeNextValidators.  Returns the next validators and the caller's slice after the call
   (sort.Slice sorts the caller's backing array in place; the truncation is local). *)
Definition compute_next_validators (M height : Z) (c : consumer) (min_power : Z) (slice : list sval)
  : list cval * list sval :=
  let sorted := sort_desc s_tok slice in
  let cand :=
    if allow_inactive (cfg c) then sorted
    else if M <? Z.of_nat (length sorted) then firstn (Z.to_nat M) sorted else sorted in
  let filtered := filter_validators height c min_power cand in
  let shaped := shape (priol (cfg c)) (top_n (cfg c)) (set_cap (cfg c)) (power_cap (cfg c))
                      (map to_val filtered) in
  (flat_map (reattach filtered) shaped, sorted).

(* OptInTopNValidators *)
Definition add_opt (x : Z) (l : list Z) : list Z := if mem x l then l else l ++ [x].
Definition opt_in_topn (c : consumer) (active : list sval) (min_power : Z) : consumer :=
  mkCons (cfg c)
         (fold_left (fun o v => if min_power <=? s_pow v then add_opt (s_id v) o else o) active (opted c))
         (keys c) (valset c) (launched c).

Definition set_valset (c : consumer) (next : list cval) : consumer :=
  mkCons (cfg c) (opted c) (keys c) next (launched c).

(* the two slices QueueVSCPackets / BeginBlockLaunchConsumers hand to every consumer *)
Definition slices : Type := (list sval * list sval)%type.
Definition mk_slices (oracle : list sval) (maxv M : Z) : slices := (take_max maxv oracle, take_max M oracle).

(* ComputeConsumerNextValSet (after the fix): candidates are the provider's active validators unless
   the consumer allows inactive validators.  Returns the consumer (opt-ins, stored set), the next
   validators and the slices as the next consumer sees them. *)
Definition compute_consumer_next_valset (M height : Z) (c : consumer) (min_power_oracle : Z) (sl : slices)
  : consumer * list cval * slices :=
  let min_power := if 0 <? top_n (cfg c) then min_power_oracle else 0 in
  let c1 := if 0 <? top_n (cfg c) then opt_in_topn c (snd sl) min_power else c in
  if allow_inactive (cfg c) then
    let r := compute_next_validators M height c1 min_power (fst sl) in
    (set_valset c1 (fst r), fst r, (snd r, snd sl))
  else
    let r := compute_next_validators M height c1 min_power (snd sl) in
    (set_valset c1 (fst r), fst r, (fst sl, snd r)).

(* PRE-FIX COPY (regression only, not used by [run]): before commit "fix: consumers that disallow
   inactive validators draw candidates from the provider's active set" the bonded slice was always
   passed, and ComputeNextValidators truncated the token-sorted list. *)
Definition compute_consumer_next_valset_prefix_bug (M height : Z) (c : consumer) (min_power_oracle : Z) (sl : slices)
  : consumer * list cval * slices :=
  let min_power := if 0 <? top_n (cfg c) then min_power_oracle else 0 in
  let c1 := if 0 <? top_n (cfg c) then opt_in_topn c (snd sl) min_power else c in
  let r := compute_next_validators M height c1 min_power (fst sl) in
  (set_valset c1 (fst r), fst r, (snd r, snd sl)).

(* ---- the provider state seen by C02: the consumers, by consumer id ---- *)
Definition state : Type := list consumer.
Definition empty_cfg : config := mkCfg 0 0 0 0 false [] [] [].
Definition empty_consumer : consumer := mkCons empty_cfg [] [] [] false.
Definition get (s : state) (i : Z) : consumer := nth (Z.to_nat i) s empty_consumer.
Fixpoint set_nth (n : nat) (c : consumer) (s : state) : state :=
  match s, n with
  | [], _ => []
  | _ :: t, O => c :: t
  | x :: t, S k => x :: set_nth k c t
  end.
Definition upd (s : state) (i : Z) (c : consumer) : state := if i <? 0 then s else set_nth (Z.to_nat i) c s.

Inductive op :=
| SetConfig (i : Z) (g : config)                 (* successful MsgCreateConsumer / MsgUpdateConsumer *)
| OptIn (i v : Z)                                (* successful MsgOptIn *)
| OptOut (i v : Z)                               (* successful MsgOptOut *)
| AssignKey (i v k : Z)                          (* successful MsgAssignConsumerKey / opt-in with key *)
| Launch (height : Z) (oracle : list sval) (maxv M : Z) (due : list (Z * Z))   (* BeginBlockLaunchConsumers *)
| Epoch (height : Z) (oracle : list sval) (maxv M : Z) (mp : list Z).          (* QueueVSCPackets *)

(* HasActiveConsumerValidator *)
Definition has_active (next : list cval) (active : list sval) : bool :=
  existsb (fun x => existsb (fun a => s_id a =? c_id x) active) next.

(* one consumer of BeginBlockLaunchConsumers: LaunchConsumer on a cached context (a failed launch
   writes nothing), but the in-place sort of the shared slices happens either way *)
Definition launch_one (M height : Z) (acc : state * slices) (d : Z * Z) : state * slices :=
  let '(s, sl) := acc in
  let c := get s (fst d) in
  let '(c', next, sl') := compute_consumer_next_valset M height c (snd d) sl in
  if negb (launched c) && negb (is_nil next) && has_active next (snd sl)
  then (upd s (fst d) (mkCons (cfg c') (opted c') (keys c') (valset c') true), sl')
  else (s, sl').

(* one consumer of QueueVSCPackets (only launched consumers are computed) *)
Fixpoint epoch_loop (M height : Z) (cs : list consumer) (mp : list Z) (sl : slices) : list consumer * slices :=
  match cs with
  | [] => ([], sl)
  | c :: t =>
    let m := hd 0 mp in
    if launched c then
      let '(c', _, sl') := compute_consumer_next_valset M height c m sl in
      let '(t', sl'') := epoch_loop M height t (tl mp) sl' in (c' :: t', sl'')
    else
      let '(t', sl'') := epoch_loop M height t (tl mp) sl in (c :: t', sl'')
  end.

Definition step (s : state) (o : op) : state :=
  match o with
  | SetConfig i g => let c := get s i in upd s i (mkCons g (opted c) (keys c) (valset c) (launched c))
  | OptIn i v => let c := get s i in upd s i (mkCons (cfg c) (add_opt v (opted c)) (keys c) (valset c) (launched c))
  | OptOut i v => let c := get s i in
      upd s i (mkCons (cfg c) (filter (fun x => negb (x =? v)) (opted c)) (keys c) (valset c) (launched c))
  | AssignKey i v k => let c := get s i in
      upd s i (mkCons (cfg c) (opted c) ((v, k) :: filter (fun p => negb (fst p =? v)) (keys c)) (valset c) (launched c))
  | Launch height oracle maxv M due => fst (fold_left (launch_one M height) due (s, mk_slices oracle maxv M))
  | Epoch height oracle maxv M mp => fst (epoch_loop M height s mp (mk_slices oracle maxv M))
  end.

(* ---- wire interface ----
   input  = [ nc, [op...] ]
     op = [0,i,top_n,set_cap,power_cap,min_stake,allow_inactive,[allow],[deny],[prio]] | [1,i,v] | [2,i,v] | [3,i,v,k]
        | [4,height,oracle,[[i,min_power]...]] | [5,height,oracle,[min_power of consumer 0,1,...]]
     oracle = [ [[id,tokens,last_power,provider_key]...], MaxValidators, M ]
   output = one entry per op 4/5:
     [ ids of the provider's active set (op 5; [] for op 4),
       [ [launched, [[id,key,power,join_height]... by id], [opted ids ascending]] per consumer ],
       1 (the driver's independent check of the oracle hypothesis: listed validators are bonded, not jailed,
          in (power desc, operator address asc) order with power = tokens / 10^6 > 0) ] *)
Definition to_sval (t : tree) : sval := mkS (tz (tnth 0 t)) (tz (tnth 1 t)) (tz (tnth 2 t)) (tz (tnth 3 t)).
Definition to_oracle (t : tree) : list sval := map to_sval (tlist (tnth 0 t)).
Definition to_op (t : tree) : op :=
  let k := tz (tnth 0 t) in
  if k =? 0 then SetConfig (tz (tnth 1 t))
       (mkCfg (tz (tnth 2 t)) (tz (tnth 3 t)) (tz (tnth 4 t)) (tz (tnth 5 t)) (tbool (tnth 6 t))
              (tzs (tnth 7 t)) (tzs (tnth 8 t)) (tzs (tnth 9 t)))
  else if k =? 1 then OptIn (tz (tnth 1 t)) (tz (tnth 2 t))
  else if k =? 2 then OptOut (tz (tnth 1 t)) (tz (tnth 2 t))
  else if k =? 3 then AssignKey (tz (tnth 1 t)) (tz (tnth 2 t)) (tz (tnth 3 t))
  else if k =? 4 then Launch (tz (tnth 1 t)) (to_oracle (tnth 2 t)) (tz (tnth 1 (tnth 2 t))) (tz (tnth 2 (tnth 2 t)))
                             (to_pairs (tnth 3 t))
  else Epoch (tz (tnth 1 t)) (to_oracle (tnth 2 t)) (tz (tnth 1 (tnth 2 t))) (tz (tnth 2 (tnth 2 t)))
             (tzs (tnth 3 t)).

Definition zid (x : Z) : Z := x.
Definition asc (l : list Z) : list Z := rev (sort_desc zid l).
Definition of_cval (x : cval) : tree := of_zs [c_id x; c_key x; c_pow x; c_height x].
Definition obs_consumer (c : consumer) : tree :=
  TL [of_bool (launched c); TL (map of_cval (rev (sort_desc c_id (valset c)))); of_zs (asc (opted c))].
Definition obs_op (o : op) (s : state) : list tree :=
  match o with
  | Launch _ _ _ _ _ => [TL [TL []; TL (map obs_consumer s); TI 1]]
  | Epoch _ oracle _ M _ => [TL [of_zs (asc (map s_id (take_max M oracle))); TL (map obs_consumer s); TI 1]]
  | _ => []
  end.
Fixpoint run_ops (s : state) (ops : list op) : list tree :=
  match ops with
  | [] => []
  | o :: t => let s' := step s o in obs_op o s' ++ run_ops s' t
  end.
Definition init (nc : Z) : state := repeat empty_consumer (Z.to_nat nc).
Definition run (t : tree) : tree := TL (run_ops (init (tz (tnth 0 t))) (map to_op (tlist (tnth 1 t)))).

(* ---- monitor: the clauses of C02 evaluated on the implementation's observations.
   For every computed consumer (launched in this block, or launched before an epoch) the clauses are
   evaluated on the implementation's validator set against the oracle snapshot, the parameters and key
   assignments delivered by messages, and the implementation's own previous observation
   (opt-ins before the computation, previous stored set). ---- *)
Definition to_cval (t : tree) : cval := mkC (tz (tnth 0 t)) (tz (tnth 1 t)) (tz (tnth 2 t)) (tz (tnth 3 t)).
Definition nodupb (l : list Z) : bool :=
  (fix go (l : list Z) : bool := match l with [] => true | x :: t => negb (mem x t) && go t end) l.

Definition all_conditions (c : consumer) (min_power : Z) (v : sval) : bool :=
  (mem (s_id v) (opted c) || ((0 <? top_n (cfg c)) && (min_power <=? s_pow v)))
  && (is_nil (allowl (cfg c)) || mem (s_id v) (allowl (cfg c)))
  && negb (mem (s_id v) (denyl (cfg c)))
  && ((min_stake (cfg c) =? 0) || (min_stake (cfg c) <=? s_tok v)).

(* c: the consumer before the computation; out: the implementation's computed set *)
Definition mon_compute (M height : Z) (oracle : list sval) (maxv : Z) (c : consumer) (mp : Z) (out : list cval) : list Z :=
  let bonded := take_max maxv oracle in
  let active := take_max M oracle in
  let g := cfg c in
  let min_power := if 0 <? top_n g then mp else 0 in
  let look id := find (fun v => s_id v =? id) bonded in
  let chk (n : Z) (f : cval -> sval -> bool) :=
    if forallb (fun x => match look (c_id x) with Some v => f x v | None => true end) out then [] else [n] in
  (if forallb (fun x => match look (c_id x) with Some _ => true | None => false end) out then [] else [1]) ++
  chk 2 (fun x v => mem (s_id v) (opted c) || ((0 <? top_n g) && (min_power <=? s_pow v))) ++
  chk 3 (fun x v => is_nil (allowl g) || mem (s_id v) (allowl g)) ++
  chk 4 (fun x v => negb (mem (s_id v) (denyl g))) ++
  chk 5 (fun x v => (min_stake g =? 0) || (min_stake g <=? s_tok v)) ++
  (if allow_inactive g || forallb (fun x => mem (c_id x) (map s_id active)) out then [] else [6]) ++
  (if negb (power_cap g =? 0) then [] else chk 7 (fun x v => c_pow x =? s_pow v)) ++
  chk 8 (fun x v => c_key x =? match assoc (s_id v) (keys c) with Some k => k | None => s_key v end) ++
  chk 9 (fun x v => c_height x =? match find (fun p => c_id p =? s_id v) (valset c) with
                                  | Some p => c_height p | None => height end) ++
  (if (set_cap g =? 0) || (0 <? top_n g) then
     (if forallb (fun v => negb (all_conditions c min_power v) || mem (s_id v) (map c_id out))
                 (if allow_inactive g then bonded else active) then [] else [10])
   else []) ++
  (if nodupb (map c_id out) then [] else [11]).

Definition mon_oracle (oracle : list sval) : list Z :=
  if nodupb (map s_id oracle) && forallb (fun v => 0 <? s_pow v) oracle then [] else [12].

Definition impl_consumer (c : consumer) (t : tree) : consumer :=
  mkCons (cfg c) (tzs (tnth 2 t)) (keys c) (map to_cval (tlist (tnth 1 t))) (tbool (tnth 0 t)).

(* walk the ops; the state's parameters and keys follow the delivered messages, its opt-ins, stored
   sets and launched flags are replaced by the implementation's observation after every computation *)
Fixpoint mon_ops (s : state) (ops : list op) (obs : list tree) : list Z :=
  match ops with
  | [] => []
  | o :: t =>
    match o with
    | Launch height oracle maxv M due =>
      let ob := hd (TL []) obs in
      let per := tlist (tnth 1 ob) in
      let s' := map (fun p => impl_consumer (fst p) (snd p)) (combine s per) in
      mon_oracle oracle ++
      flat_map (fun d => let c := get s (fst d) in let c' := get s' (fst d) in
                  if negb (launched c) && launched c'
                  then mon_compute M height oracle maxv c (snd d) (valset c') else []) due ++
      mon_ops s' t (tl obs)
    | Epoch height oracle maxv M mp =>
      let ob := hd (TL []) obs in
      let per := tlist (tnth 1 ob) in
      let s' := map (fun p => impl_consumer (fst p) (snd p)) (combine s per) in
      mon_oracle oracle ++
      (if list_eq_dec Z.eq_dec (tzs (tnth 0 ob)) (asc (map s_id (take_max M oracle))) then [] else [13]) ++
      flat_map (fun q => let '(c, c', m) := q in
                  if launched c then mon_compute M height oracle maxv c m (valset c') else [])
               (combine (combine s s') (mp ++ repeat 0 (length s))) ++
      mon_ops s' t (tl obs)
    | _ => mon_ops (step s o) t obs
    end
  end.

Definition mon (t o : tree) : tree :=
  of_zs (mon_ops (init (tz (tnth 0 t))) (map to_op (tlist (tnth 1 t))) (tlist o)).
