(* Model of the provider's consumer-key assignment (properties C05, C06):
     x/ccv/provider/keeper/key_assignment.go  AssignConsumerKey, GetProviderAddrFromConsumerAddr,
         AppendConsumerAddrsToPrune, ConsumeConsumerAddrsToPrune, PruneKeyAssignments,
         DeleteKeyAssignments, ValidatorConsensusKeyInUse
     x/ccv/provider/keeper/hooks.go           AfterValidatorCreated, AfterValidatorRemoved
     x/ccv/provider/keeper/partial_set_security.go  HandleOptIn
     x/ccv/provider/keeper/msg_server.go      AssignConsumerKey, OptIn, RemoveConsumer (checks, in order)
     x/ccv/provider/keeper/relay.go           EndBlockCIS (pruning), HandleSlashPacket (who is jailed)
     x/ccv/provider/keeper/consumer_lifecycle.go  StopAndPrepareForConsumerRemoval,
         BeginBlockRemoveConsumers, DeleteConsumerChain
   Keys are small integers; a consensus address is identified with its key.  The provider store is
   keyed by *provider consensus address*, so inside a consumer a validator is its provider key P;
   the staking registry maps operator ids to provider keys (oracle: staking keeps both unique).
   Definitions only; lemmas are in Proofs/KeyAssignProofs.v. *)
From Coq Require Import ZArith List Bool.
From ICS Require Import Base.Tree.
Import ListNotations.
Open Scope Z_scope.

(* ---- association lists.  None of the modelled functions observes the iteration order of the
   ValidatorConsumerPubKey / ValidatorsByConsumerAddr stores (they are read by key, and the two loops
   that iterate them delete independent entries), so these two are plain association lists; the
   ConsumerAddrsToPrune store IS iterated in key (= timestamp) order and is kept in that order. ---- *)
Definition kv : Type := list (Z * Z).

Fixpoint lookup (k : Z) (l : kv) : option Z :=
  match l with
  | [] => None
  | (a, b) :: t => if a =? k then Some b else lookup k t
  end.
Definition remove_key (k : Z) (l : kv) : kv := filter (fun p => negb (fst p =? k)) l.
Definition set_key (k v : Z) (l : kv) : kv := (k, v) :: remove_key k l.
Definition mem (k : Z) (l : list Z) : bool := existsb (Z.eqb k) l.
Definition remove_keys (ks : list Z) (l : kv) : kv := filter (fun p => negb (mem (fst p) ks)) l.

(* AppendConsumerAddrsToPrune: entries (pruneTs, consumer address); store key = timestamp, the value is a
   list to which the address is appended: the new entry goes after every entry with ts' <= ts *)
Fixpoint tp_insert (ts k : Z) (l : kv) : kv :=
  match l with
  | [] => [(ts, k)]
  | (t, a) :: r => if t <=? ts then (t, a) :: tp_insert ts k r else (ts, k) :: l
  end.

(* ---- state ---- *)
Record consumer := mkC {
  c_phase : Z;            (* ConsumerPhase: 0 unspecified 1 registered 2 initialized 3 launched 4 stopped 5 deleted *)
  c_client : bool;        (* ConsumerIdToClientId present (GetAllConsumersWithIBCClients) *)
  c_assigned : kv;        (* ValidatorConsumerPubKey:  provider key P -> consumer key *)
  c_byaddr : kv;          (* ValidatorsByConsumerAddr: consumer key -> provider key P *)
  c_toprune : kv;         (* ConsumerAddrsToPruneV2:   (prune timestamp, consumer key), timestamp order *)
  c_optin : list Z;       (* OptedIn: provider keys *)
  c_removal : option Z    (* ConsumerIdToRemovalTime *)
}.
Definition cdefault : consumer := mkC 0 false [] [] [] [] None.
Definition cfresh : consumer := mkC 1 false [] [] [] [] None.

Record state := mkS {
  s_now : Z;              (* block time, ns *)
  s_unb : Z;              (* staking UnbondingTime, ns *)
  s_reg : kv;             (* staking registry: operator id -> provider key *)
  s_jailed : list Z;      (* jailed operators (staking) *)
  s_cons : list consumer  (* consumer id = position *)
}.
Definition init (unb : Z) : state := mkS 0 unb [] [] [].

Definition getc (s : state) (c : nat) : consumer := nth c (s_cons s) cdefault.
Fixpoint upd (n : nat) (f : consumer -> consumer) (l : list consumer) : list consumer :=
  match l, n with
  | [], _ => []
  | x :: t, O => f x :: t
  | x :: t, S m => x :: upd m f t
  end.
Definition with_cons (s : state) (l : list consumer) : state := mkS (s_now s) (s_unb s) (s_reg s) (s_jailed s) l.
Definition setc (s : state) (c : nat) (x : consumer) : state := with_cons s (upd c (fun _ => x) (s_cons s)).

Definition set_phase (x : consumer) (p : Z) : consumer :=
  mkC p (c_client x) (c_assigned x) (c_byaddr x) (c_toprune x) (c_optin x) (c_removal x).
Definition set_keys (x : consumer) (a b t : kv) : consumer :=
  mkC (c_phase x) (c_client x) a b t (c_optin x) (c_removal x).

(* staking lookups *)
Definition reg_by_oper (o : Z) (reg : kv) : option Z := lookup o reg.
Fixpoint reg_by_key (k : Z) (reg : kv) : option Z :=
  match reg with
  | [] => None
  | (o, p) :: t => if p =? k then Some o else reg_by_key k t
  end.

(* IsConsumerActive *)
Definition is_active (phase : Z) : bool := (phase =? 1) || (phase =? 2) || (phase =? 3).

(* error classes *)
Definition E_PHASE := 1.      (* ErrInvalidPhase *)
Definition E_INUSE := 2.      (* ErrConsumerKeyInUse *)
Definition E_DEFAULT := 3.    (* ErrCannotAssignDefaultKeyAssignment *)
Definition E_NOVAL := 4.      (* ErrNoValidatorFound *)
Definition E_HOOK := 5.       (* AfterValidatorCreated panics: creation aborted *)
Definition E_STAKING := 6.    (* staking's own operator / pubkey uniqueness checks *)
Definition E_LIFECYCLE := 7.  (* phase guard of a lifecycle step / DeleteConsumerChain on a non-stopped chain *)
Definition E_BASIC := 8.      (* ValidateBasic (signer is not the operator) / ErrUnauthorized *)
Definition E_OTHER := 9.

(* Keeper.AssignConsumerKey on the consumer record; o = operator of the validator, P = its provider key.
   Returns (new record, 0) or (anything, error). *)
Definition assign_c (reg : kv) (now unb : Z) (o P k : Z) (x : consumer) : consumer * Z :=
  (* if !k.IsConsumerActive *)
  if negb (is_active (c_phase x)) then (x, E_PHASE) else
  (* if existingVal, err := stakingKeeper.GetValidatorByConsAddr(consumerAddr); err == nil *)
  let chk :=
    match reg_by_key k reg with
    | Some o' =>
      if negb (o' =? o) then E_INUSE
      else match lookup P (c_assigned x) with None => E_DEFAULT | Some _ => 0 end
    | None => 0
    end in
  if negb (chk =? 0) then (x, chk) else
  (* if _, found := k.GetValidatorByConsumerAddr(consumerAddr); found *)
  match lookup k (c_byaddr x) with
  | Some _ => (x, E_INUSE)
  | None =>
    (* previous key of this validator *)
    let '(b1, t1) :=
      match lookup P (c_assigned x) with
      | Some old =>
        if c_phase x =? 3
        then (c_byaddr x, tp_insert (now + unb) old (c_toprune x))   (* AppendConsumerAddrsToPrune(blockTime+unbonding) *)
        else (remove_key old (c_byaddr x), c_toprune x)              (* DeleteValidatorByConsumerAddr(old) *)
      | None => (c_byaddr x, c_toprune x)
      end in
    (* SetValidatorConsumerPubKey; SetValidatorByConsumerAddr *)
    (set_keys x (set_key P k (c_assigned x)) (set_key k P b1) t1, 0)
  end.

Definition add_optin (P : Z) (x : consumer) : consumer :=
  mkC (c_phase x) (c_client x) (c_assigned x) (c_byaddr x) (c_toprune x)
      (if mem P (c_optin x) then c_optin x else P :: c_optin x) (c_removal x).

(* HandleOptIn: the opt-in is recorded before the key assignment is attempted *)
Definition optin_c (reg : kv) (now unb : Z) (o P : Z) (k : option Z) (x : consumer) : consumer * Z :=
  if negb (is_active (c_phase x)) then (x, E_PHASE) else
  let x1 := add_optin P x in
  match k with
  | None => (x1, 0)
  | Some k => assign_c reg now unb o P k x1
  end.

(* GetProviderAddrFromConsumerAddr *)
Definition resolve_c (x : consumer) (k : Z) : Z :=
  match lookup k (c_byaddr x) with Some p => p | None => k end.
Definition resolve (s : state) (c : nat) (k : Z) : Z := resolve_c (getc s c) k.

(* PruneKeyAssignments(now): ConsumeConsumerAddrsToPrune returns (and deletes) every entry with ts <= now,
   then DeleteValidatorByConsumerAddr for each returned address *)
Definition due (now : Z) (e : Z * Z) : bool := fst e <=? now.
Definition prune_c (now : Z) (x : consumer) : consumer :=
  let d := filter (due now) (c_toprune x) in
  set_keys x (c_assigned x) (remove_keys (map snd d) (c_byaddr x)) (filter (fun e => negb (due now e)) (c_toprune x)).

(* DeleteConsumerChain (the parts that matter here): DeleteConsumerClientId, DeleteKeyAssignments,
   DeleteAllOptedIn, DeleteConsumerRemovalTime, phase := DELETED *)
Definition delete_c (x : consumer) : consumer := mkC 5 false [] [] [] [] None.

(* AfterValidatorRemoved(P) on one consumer: the current assignment of P and its reverse entry go;
   addresses of P that await pruning stay *)
Definition remove_val_c (P : Z) (x : consumer) : consumer :=
  match lookup P (c_assigned x) with
  | Some k => set_keys x (remove_key P (c_assigned x)) (remove_key k (c_byaddr x)) (c_toprune x)
  | None => x
  end.

(* ValidatorConsensusKeyInUse: GetAllActiveConsumerIds, GetValidatorByConsumerAddr *)
Definition key_in_use (key : Z) (l : list consumer) : bool :=
  existsb (fun x => is_active (c_phase x) && match lookup key (c_byaddr x) with Some _ => true | None => false end) l.

(* BeginBlockRemoveConsumers on one consumer: removal time reached and DeleteConsumerChain's phase guard *)
Definition removal_due (now : Z) (x : consumer) : bool :=
  (c_phase x =? 4) && match c_removal x with Some t => t <=? now | None => false end.

Inductive op :=
| OAssign (c : nat) (o k : Z) (sok : bool)            (* MsgAssignConsumerKey; sok: signer is the operator *)
| OOptIn (c : nat) (o : Z) (k : option Z) (sok : bool) (* MsgOptIn, optionally with a consumer key *)
| OCreateVal (o key : Z)                               (* staking creates a validator, AfterValidatorCreated *)
| ORemoveVal (o : Z)                                   (* staking removes a validator, AfterValidatorRemoved *)
| ORegister                                            (* MsgCreateConsumer *)
| OInitialize (c : nat)                                (* registered -> initialized *)
| OLaunch (c : nat)                                    (* initialized -> launched, client created *)
| OStop (c : nat) (owner_ok : bool)                    (* MsgRemoveConsumer *)
| ODelete (c : nat)                                    (* DeleteConsumerChain *)
| OBeginBlock                                          (* BeginBlockRemoveConsumers *)
| OEndBlock                                            (* EndBlockCIS *)
| OAdvance (dt : Z)                                    (* next block, dt later *)
| OSlash (c : nat) (k : Z).                            (* HandleSlashPacket for consumer address k *)

Definition step (s : state) (a : op) : state * Z :=
  match a with
  | OAssign c o k sok =>
    if negb sok then (s, E_BASIC) else
    match reg_by_oper o (s_reg s) with
    | None => (s, E_NOVAL)
    | Some P =>
      let '(x, e) := assign_c (s_reg s) (s_now s) (s_unb s) o P k (getc s c) in
      if e =? 0 then (setc s c x, 0) else (s, e)
    end
  | OOptIn c o k sok =>
    if negb sok then (s, E_BASIC) else
    match reg_by_oper o (s_reg s) with
    | None => (s, E_NOVAL)
    | Some P =>
      let '(x, e) := optin_c (s_reg s) (s_now s) (s_unb s) o P k (getc s c) in
      if e =? 0 then (setc s c x, 0) else (s, e)
    end
  | OCreateVal o key =>
    match reg_by_oper o (s_reg s), reg_by_key key (s_reg s) with
    | None, None =>
      if key_in_use key (s_cons s) then (s, E_HOOK)
      else (mkS (s_now s) (s_unb s) ((o, key) :: s_reg s) (s_jailed s) (s_cons s), 0)
    | _, _ => (s, E_STAKING)
    end
  | ORemoveVal o =>
    match reg_by_oper o (s_reg s) with
    | None => (s, E_NOVAL)
    | Some P =>
      (mkS (s_now s) (s_unb s) (remove_key o (s_reg s)) (filter (fun j => negb (j =? o)) (s_jailed s))
           (map (remove_val_c P) (s_cons s)), 0)
    end
  | ORegister => (with_cons s (s_cons s ++ [cfresh]), 0)
  | OInitialize c =>
    if c_phase (getc s c) =? 1 then (setc s c (set_phase (getc s c) 2), 0) else (s, E_LIFECYCLE)
  | OLaunch c =>
    let x := getc s c in
    if c_phase x =? 2
    then (setc s c (mkC 3 true (c_assigned x) (c_byaddr x) (c_toprune x) (c_optin x) (c_removal x)), 0)
    else (s, E_LIFECYCLE)
  | OStop c owner_ok =>
    let x := getc s c in
    if c_phase x =? 0 then (s, E_OTHER)              (* no owner address *)
    else if negb owner_ok then (s, E_BASIC)           (* ErrUnauthorized *)
    else if negb (c_phase x =? 3) then (s, E_PHASE)
    else (setc s c (mkC 4 (c_client x) (c_assigned x) (c_byaddr x) (c_toprune x) (c_optin x)
                        (Some (s_now s + s_unb s))), 0)
  | ODelete c =>
    if c_phase (getc s c) =? 4 then (setc s c (delete_c (getc s c)), 0) else (s, E_LIFECYCLE)
  | OBeginBlock =>
    (with_cons s (map (fun x => if removal_due (s_now s) x then delete_c x else x) (s_cons s)), 0)
  | OEndBlock =>
    (with_cons s (map (fun x => if c_client x then prune_c (s_now s) x else x) (s_cons s)), 0)
  | OAdvance dt => (mkS (s_now s + dt) (s_unb s) (s_reg s) (s_jailed s) (s_cons s), 0)
  | OSlash c k =>
    if negb (c_phase (getc s c) =? 3) then (s, E_LIFECYCLE) else
    match reg_by_key (resolve s c k) (s_reg s) with
    | Some o =>
      if mem o (s_jailed s) then (s, 0)
      else (mkS (s_now s) (s_unb s) (s_reg s) (o :: s_jailed s) (s_cons s), 0)
    | None => (s, 0)
    end
  end.

Definition exec (ops : list op) (s : state) : state := fold_left (fun s a => fst (step s a)) ops s.

(* ================= wire interface =================
   input  = [ [U, nkeys, nopers, nconsumers], [op ...] ]        op = [code, a, b, c, d]
   output = [ snapshot_0, snapshot_1, ... ]                     one per op, plus the initial one
   snapshot = [ result, now, reg_vec, jailed_vec, [consumer ...] ]
   consumer = [ phase, client, byaddr_vec, resolve_vec, assigned_vec, toprune pairs, optin_vec, removal ] *)
Definition zrange (n : Z) : list Z := map Z.of_nat (seq 0 (Z.to_nat n)).
Definition optz (o : option Z) : Z := match o with Some z => z | None => -1 end.

Definition decode_op (t : tree) : op :=
  let a := tz (tnth 1 t) in let b := tz (tnth 2 t) in let c := tz (tnth 3 t) in let d := tz (tnth 4 t) in
  let code := tz (tnth 0 t) in
  if code =? 0 then OAssign (Z.to_nat a) b c (negb (d =? 0))
  else if code =? 1 then OOptIn (Z.to_nat a) b (if c <? 0 then None else Some c) (negb (d =? 0))
  else if code =? 2 then OCreateVal a b
  else if code =? 3 then ORemoveVal a
  else if code =? 4 then ORegister
  else if code =? 5 then OInitialize (Z.to_nat a)
  else if code =? 6 then OLaunch (Z.to_nat a)
  else if code =? 7 then OStop (Z.to_nat a) (negb (b =? 0))
  else if code =? 8 then ODelete (Z.to_nat a)
  else if code =? 9 then OBeginBlock
  else if code =? 10 then OEndBlock
  else if code =? 11 then OAdvance a
  else OSlash (Z.to_nat a) b.

Definition obs_consumer (nk : Z) (x : consumer) : tree :=
  TL [ TI (c_phase x); of_bool (c_client x);
       of_zs (map (fun k => optz (lookup k (c_byaddr x))) (zrange nk));
       of_zs (map (resolve_c x) (zrange nk));
       of_zs (map (fun p => optz (lookup p (c_assigned x))) (zrange nk));
       of_pairs (c_toprune x);
       of_zs (map (fun p => if mem p (c_optin x) then 1 else 0) (zrange nk));
       TI (optz (c_removal x)) ].

Definition snapshot (nk no nc res : Z) (s : state) : tree :=
  TL [ TI res; TI (s_now s);
       of_zs (map (fun o => optz (reg_by_oper o (s_reg s))) (zrange no));
       of_zs (map (fun o => if mem o (s_jailed s) then 1 else 0) (zrange no));
       TL (map (fun c => obs_consumer nk (getc s (Z.to_nat c))) (zrange nc)) ].

Fixpoint run_ops (nk no nc : Z) (ops : list op) (s : state) : list tree :=
  match ops with
  | [] => []
  | a :: r => let '(s', e) := step s a in snapshot nk no nc e s' :: run_ops nk no nc r s'
  end.

Definition run (t : tree) : tree :=
  let cfg := tnth 0 t in
  let unb := tz (tnth 0 cfg) in let nk := tz (tnth 1 cfg) in let no := tz (tnth 2 cfg) in let nc := tz (tnth 3 cfg) in
  let ops := map decode_op (tlist (tnth 1 t)) in
  TL (snapshot nk no nc 0 (init unb) :: run_ops nk no nc ops (init unb)).

(* ================= monitor: clauses of C05 / C06 evaluated on the implementation's snapshots ================= *)
Definition tnz (n : Z) (t : tree) : tree := tnth (Z.to_nat n) t.
Definition o_res (t : tree) : Z := tz (tnth 0 t).
Definition o_now (t : tree) : Z := tz (tnth 1 t).
Definition o_con (t : tree) (c : Z) : tree := tnz c (tnth 4 t).
Definition vec_at (v : tree) (i : Z) : Z :=
  if i <? 0 then -1 else match nth_error (tlist v) (Z.to_nat i) with Some (TI z) => z | _ => -1 end.
Definition o_reg (t : tree) (o : Z) : Z := vec_at (tnth 2 t) o.
Definition x_phase (x : tree) : Z := tz (tnth 0 x).
Definition x_client (x : tree) : bool := tbool (tnth 1 x).
Definition x_byaddr (x : tree) (k : Z) : Z := vec_at (tnth 2 x) k.
Definition x_resolve (x : tree) (k : Z) : Z := vec_at (tnth 3 x) k.
Definition x_assigned (x : tree) (p : Z) : Z := vec_at (tnth 4 x) p.
Definition x_toprune (x : tree) : kv := to_pairs (tnth 5 x).
Definition o_regvec (t : tree) : list Z := tzs (tnth 2 t).
Definition o_jailvec (t : tree) : list Z := tzs (tnth 3 t).

(* the validators (provider keys) with which key k is associated on consumer snapshot x, given the registry *)
Definition assoc_set (nk : Z) (regvec : list Z) (x : tree) (k : Z) : list Z :=
  filter (fun p => (x_assigned x p =? k) || (x_byaddr x k =? p) || ((p =? k) && mem p regvec)) (zrange nk).

(* clauses evaluated on one snapshot *)
Definition mon_static (nk nc : Z) (t : tree) : list Z :=
  let regvec := filter (fun p => 0 <=? p) (o_regvec t) in
  flat_map (fun c =>
    let x := o_con t c in
    (if is_active (x_phase x)
     then (if forallb (fun k => (Z.of_nat (length (assoc_set nk regvec x k)) <=? 1)) (zrange nk) then [] else [1])
     else []) ++
    (if forallb (fun k => let p := x_byaddr x k in
                 (p <? 0) || (x_assigned x p =? k) || mem k (map snd (x_toprune x))) (zrange nk) then [] else [2]))
    (zrange nc).

Fixpoint tree_eqb (a b : tree) : bool :=
  match a, b with
  | TI x, TI y => x =? y
  | TL l, TL m =>
    (fix go (l m : list tree) : bool :=
       match l, m with
       | [], [] => true
       | h :: r, h' :: r' => tree_eqb h h' && go r r'
       | _, _ => false
       end) l m
  | _, _ => false
  end.
Definition same_state (a b : tree) : bool :=
  tree_eqb (TL (tl (tlist a))) (TL (tl (tlist b))).

(* an obligation of C06: (consumer, old key, provider key, deadline) *)
Definition oblig : Type := (Z * Z * Z * Z)%type.

(* clauses about one transition prev --a--> cur *)
Definition mon_step (unb nk nc : Z) (a : op) (prev cur : tree) : list Z :=
  let res := o_res cur in
  let regvec := filter (fun p => 0 <=? p) (o_regvec prev) in
  let key_op := match a with
                | OAssign c o k true => Some (Z.of_nat c, o, k)
                | OOptIn c o (Some k) true => Some (Z.of_nat c, o, k)
                | _ => None end in
  (* 3: a rejected message / creation left the state unchanged *)
  (match a with
   | OAssign _ _ _ _ | OOptIn _ _ _ _ | OCreateVal _ _ | OStop _ _ | ODelete _ =>
     if negb (res =? 0) && negb (same_state prev cur) then [3] else []
   | _ => [] end) ++
  (* 8: an assignment that had to be rejected was accepted; 7: pre-launch replacement dropped at once *)
  (match key_op with
   | Some (c, o, k) =>
     let x := o_con prev c in let P := o_reg prev o in
     if res =? 0 then
       (if (mem k regvec && negb (k =? P)) || (0 <=? x_byaddr x k) || ((k =? P) && (x_assigned x P <? 0))
           || negb (is_active (x_phase x)) || (P <? 0)
        then [8] else []) ++
       (let old := x_assigned x P in
        if (0 <=? old) && negb (x_phase x =? 3) && (0 <=? x_byaddr (o_con cur c) old) then [7] else [])
     else []
   | None => [] end) ++
  (match a with
   | OAssign _ _ _ false | OOptIn _ _ _ false => if res =? 0 then [8] else []
   | _ => [] end) ++
  (* 9: a validator was created with a key known on an active consumer *)
  (match a with
   | OCreateVal o key =>
     if (res =? 0) && existsb (fun c => is_active (x_phase (o_con prev c)) && (0 <=? x_byaddr (o_con prev c) key)) (zrange nc)
     then [9] else []
   | _ => [] end) ++
  (* 10: a slash request jailed somebody else than the validator the key resolved to *)
  (match a with
   | OSlash c k =>
     let x := o_con prev (Z.of_nat c) in
     if x_phase x =? 3 then
       let P := if 0 <=? x_byaddr x k then x_byaddr x k else k in
       let expect := map (fun oj => let o := fst oj in let j := snd oj in
                                    if (negb (j =? 0)) || ((0 <=? P) && (vec_at (tnth 2 prev) o =? P)) then 1 else 0)
                         (combine (zrange (Z.of_nat (length (o_jailvec prev)))) (o_jailvec prev)) in
       if list_eq_dec Z.eq_dec expect (o_jailvec cur) then [] else [10]
     else []
   | _ => [] end).

(* new C06 obligation created by this transition *)
Definition new_oblig (unb : Z) (a : op) (prev cur : tree) : list oblig :=
  match a with
  | OAssign c o _ true | OOptIn c o (Some _) true =>
    let x := o_con prev (Z.of_nat c) in let P := o_reg prev o in
    let old := x_assigned x P in
    if (o_res cur =? 0) && (x_phase x =? 3) && (0 <=? P) && (0 <=? old)
    then [(Z.of_nat c, old, P, o_now prev + unb)] else []
  | _ => []
  end.

(* check the open obligations on the new snapshot; returns (failed clauses, obligations still open) *)
Fixpoint check_obligs (a : op) (prev cur : tree) (l : list oblig) : list Z * list oblig :=
  match l with
  | [] => ([], [])
  | ((c, k, P, dl) as ob) :: r =>
    let '(f, keep) := check_obligs a prev cur r in
    let x := o_con cur c in
    if x_phase x =? 5 then (f, keep)                                   (* consumer removed: nothing is owed *)
    else match a with
         | OEndBlock =>
           if dl <=? o_now prev
           then ((if 0 <=? x_byaddr x k then [5] else []) ++ f, keep)   (* first EndBlock at/after the deadline: forgotten *)
           else ((if (x_byaddr x k =? P) && (x_resolve x k =? P) then [] else [4]) ++ f, ob :: keep)
         | _ => ((if (x_byaddr x k =? P) && (x_resolve x k =? P) then [] else [4]) ++ f, ob :: keep)
         end
  end.

(* 6: a key never named in an assignment on c resolves to itself *)
Definition named (ops : list op) (c k : Z) : bool :=
  existsb (fun a => match a with
                    | OAssign c' _ k' _ => (Z.of_nat c' =? c) && (k' =? k)
                    | OOptIn c' _ (Some k') _ => (Z.of_nat c' =? c) && (k' =? k)
                    | _ => false end) ops.
Definition mon_identity (nk nc : Z) (ops : list op) (last : tree) : list Z :=
  if forallb (fun c => forallb (fun k => named ops c k || (x_resolve (o_con last c) k =? k)) (zrange nk)) (zrange nc)
  then [] else [6].

Fixpoint mon_loop (unb nk nc : Z) (ops : list op) (prev : tree) (snaps : list tree) (obl : list oblig) : list Z :=
  match ops, snaps with
  | a :: ops', cur :: snaps' =>
    let '(f, keep) := check_obligs a prev cur obl in
    mon_static nk nc cur ++ mon_step unb nk nc a prev cur ++ f ++
    mon_loop unb nk nc ops' cur snaps' (new_oblig unb a prev cur ++ keep)
  | _, _ => []
  end.

Fixpoint dedup (l : list Z) : list Z :=
  match l with [] => [] | h :: t => if mem h t then dedup t else h :: dedup t end.

Definition mon (t o : tree) : tree :=
  let cfg := tnth 0 t in
  let unb := tz (tnth 0 cfg) in let nk := tz (tnth 1 cfg) in let nc := tz (tnth 3 cfg) in
  let ops := map decode_op (tlist (tnth 1 t)) in
  match tlist o with
  | s0 :: snaps =>
    if Nat.eqb (length snaps) (length ops)
    then of_zs (dedup (mon_static nk nc s0 ++ mon_loop unb nk nc ops s0 snaps [] ++
                       mon_identity nk nc ops (last snaps s0)))
    else of_zs [99]
  | [] => of_zs [99]
  end.
