(* Model of the Top-N machinery of the provider (property C03):
     x/ccv/provider/keeper/power_shaping.go      ComputeMinPowerInTopN, UpdateMinimumPowerInTopN,
                                                 CanValidateChain, HasMinPower, FulfillsMinStake,
                                                 Set/Get/DeleteMinimumPowerInTopN
     x/ccv/provider/keeper/partial_set_security.go  HandleOptIn, HandleOptOut, OptInTopNValidators
     x/ccv/provider/keeper/validator_set_update.go  ComputeConsumerNextValSet, ComputeNextValidators
     x/ccv/provider/keeper/msg_server.go            UpdateConsumer (power-shaping branch), OptIn, OptOut
     x/ccv/provider/keeper/consumer_lifecycle.go    LaunchConsumer (validator-set part)
   One consumer.  Validators are small integers; the staking module (bonded list, last powers,
   tokens, MaxProviderConsensusValidators) is an oracle input of each operation. *)
From Coq Require Import ZArith List Bool.
From ICS Require Import Base.Dec Base.SortDesc Base.Tree.
Import ListNotations.
Open Scope Z_scope.

(* ------------------------------------------------------------------ ComputeMinPowerInTopN *)

Definition zid (x : Z) : Z := x.
Definition sum_z (l : list Z) : Z := fold_right Z.add 0 l.

(* totalPower = totalPower.Add(LegacyNewDec(power)) over the validators, in order *)
Definition total_dec (powers : list Z) : Z :=
  fold_left (fun a p => dadd a (dec_of_int p)) powers 0.

(* topNThreshold := LegacyNewDec(topN).QuoInt64(100) *)
Definition topn_threshold (topN : Z) : Z := dquo_int (dec_of_int topN) 100.

(* for _, power := range powers { powerSum = powerSum.Add(..); if powerSum.Quo(totalPower).GTE(thr) {return power} }
   falling off the end is the "should never reach this point" error *)
Fixpoint min_power_loop (thr total acc : Z) (l : list Z) : option Z :=
  match l with
  | [] => None
  | p :: t =>
    let acc' := dadd acc (dec_of_int p) in
    if dgte (dquo acc' total) thr then Some p else min_power_loop thr total acc' t
  end.

(* None = error return.  topN is a uint32 in Go. *)
Definition compute_min_power (powers : list Z) (topN : Z) : option Z :=
  if (topN =? 0) || (100 <? topN) then None
  else min_power_loop (topn_threshold topN) (total_dec powers) 0 (sort_desc zid powers).

(* The specification of the threshold in exact integer arithmetic (used by the monitor and by
   theorem C03_threshold): m is a power of the table, the validators with power >= m hold at
   least N %, those with power > m hold less than N %. *)
Definition sum_ge (m : Z) (l : list Z) : Z := fold_right (fun p a => if m <=? p then p + a else a) 0 l.
Definition sum_gt (m : Z) (l : list Z) : Z := fold_right (fun p a => if m <? p then p + a else a) 0 l.
Definition spec_ok (powers : list Z) (n m : Z) : bool :=
  existsb (Z.eqb m) powers
  && (n * sum_z powers <=? 100 * sum_ge m powers)
  && (100 * sum_gt m powers <? n * sum_z powers).
Definition spec_min_power (powers : list Z) (n : Z) : option Z := find (spec_ok powers n) powers.

(* Quo rounds at 18 decimals: exactness is proved (and monitored) for totals below this bound *)
Definition total_bound : Z := 20000000000000000.

(* ------------------------------------------------------------------ one consumer's state *)

(* a bonded validator as seen by ComputeNextValidators: id, last power, bonded tokens *)
Record bval := mkB { bid : Z; bpow : Z; btok : Z }.

Record state := mkState {
  opted : list Z;            (* opt-in records (OptedInKey), ascending ids = store key order *)
  thr : option Z;            (* MinimumPowerInTopN record *)
  top_n : Z;                 (* PowerShapingParameters.Top_N *)
  launched : bool;           (* phase = LAUNCHED (otherwise REGISTERED/INITIALIZED) *)
  allow : list Z;            (* allowlist *)
  deny : list Z;             (* denylist *)
  min_stake : Z;             (* PowerShapingParameters.MinStake *)
  allow_inactive : bool;     (* PowerShapingParameters.AllowInactiveVals *)
  valset : list Z            (* provider ids of the stored consumer validator set *)
}.

Definition init : state := mkState [] None 0 false [] [] 0 false [].

Definition with_opted (o : list Z) (s : state) : state :=
  mkState o (thr s) (top_n s) (launched s) (allow s) (deny s) (min_stake s) (allow_inactive s) (valset s).
Definition with_thr (t : option Z) (s : state) : state :=
  mkState (opted s) t (top_n s) (launched s) (allow s) (deny s) (min_stake s) (allow_inactive s) (valset s).
Definition with_valset (v : list Z) (s : state) : state :=
  mkState (opted s) (thr s) (top_n s) (launched s) (allow s) (deny s) (min_stake s) (allow_inactive s) v.
Definition with_launched (s : state) : state :=
  mkState (opted s) (thr s) (top_n s) true (allow s) (deny s) (min_stake s) (allow_inactive s) (valset s).
Definition with_params (n : Z) (al dl : list Z) (ms : Z) (ai : bool) (s : state) : state :=
  mkState (opted s) (thr s) n (launched s) al dl ms ai (valset s).

Definition mem (x : Z) (l : list Z) : bool := existsb (Z.eqb x) l.
Definition is_empty {A : Type} (l : list A) : bool := match l with [] => true | _ => false end.

(* SetOptedIn / DeleteOptedIn on a key-ordered store *)
Fixpoint set_add (x : Z) (l : list Z) : list Z :=
  match l with
  | [] => [x]
  | y :: t => if x <? y then x :: l else if x =? y then l else y :: set_add x t
  end.
Definition set_del (x : Z) (l : list Z) : list Z := filter (fun y => negb (y =? x)) l.

(* OptInTopNValidators: every active validator with power >= minPowerToOptIn gets a record *)
Definition opt_in_topn (active : list bval) (m : Z) (o : list Z) : list Z :=
  fold_left (fun acc a => if m <=? bpow a then set_add (bid a) acc else acc) active o.

(* CanValidateChain (HasMinPower reads the same last power the bonded entry carries) *)
Definition can_validate (s : state) (m : Z) (b : bval) : bool :=
  (mem (bid b) (opted s) || ((0 <? top_n s) && (m <=? bpow b)))
  && (is_empty (allow s) || mem (bid b) (allow s))
  && (is_empty (deny s) || negb (mem (bid b) (deny s))).

(* FulfillsMinStake *)
Definition fulfills_min_stake (ms : Z) (b : bval) : bool := (ms =? 0) || (ms <=? btok b).

(* ComputeConsumerNextValSet: the candidates are the bonded validators if AllowInactiveVals, else the
   provider's active validators.  ComputeNextValidators, first part: sort them by bonded tokens
   (descending); without AllowInactiveVals keep the first MaxProviderConsensusValidators *)
Definition candidates (s : state) (active bonded : list bval) (maxv : Z) : list bval :=
  let sorted := sort_desc btok (if allow_inactive s then bonded else active) in
  if allow_inactive s then sorted
  else if maxv <? Z.of_nat (length sorted) then firstn (Z.to_nat maxv) sorted else sorted.

(* ComputeNextValidators, FilterValidators part.  The priority list, validator-set cap and power cap
   that follow are property C04's (Model/PowerCap.v); the driver leaves them unset, CapValidatorSet is
   a no-op for Top-N chains, and none of them adds a validator. *)
Definition next_validators (s : state) (active bonded : list bval) (maxv m : Z) : list Z :=
  map bid (filter (fun b => can_validate s m b && fulfills_min_stake (min_stake s) b)
                  (candidates s active bonded maxv)).

(* ComputeConsumerNextValSet: threshold computed from the ACTIVE validators and stored, automatic
   opt-in, then the next validator set is computed from the BONDED validators and stored. *)
Definition compute_next (s : state) (active : list bval) (bonded : list bval) (maxv : Z) : option state :=
  if 0 <? top_n s then
    match compute_min_power (map bpow active) (top_n s) with
    | None => None
    | Some m =>
      let s1 := with_opted (opt_in_topn active m (opted s)) (with_thr (Some m) s) in
      Some (with_valset (next_validators s1 active bonded maxv m) s1)
    end
  else Some (with_valset (next_validators s active bonded maxv 0) s).

Inductive op :=
| SetTopN (n : Z) (al dl : list Z) (ms : Z) (ai : bool) (active : list bval)
| Launch (active : list bval) (bonded : list bval) (maxv : Z)
| Epoch (active : list bval) (bonded : list bval) (maxv : Z)
| OptIn (v : Z) (known : bool)
| OptOut (v : Z) (known : bool) (power : Z).

(* MsgUpdateConsumer with PowerShapingParameters, owner = gov authority:
   ValidatePowerShapingParameters, SetConsumerPowerShapingParameters, UpdateMinimumPowerInTopN *)
Definition set_top_n (s : state) (n : Z) (al dl : list Z) (ms : Z) (ai : bool) (active : list bval) : state * Z :=
  if negb (n =? 0) && ((n <? 50) || (100 <? n)) then (s, 1)
  else
    let s1 := with_params n al dl ms ai s in
    if negb (n =? top_n s) then
      if 0 <? n then
        match compute_min_power (map bpow active) n with
        | None => (s, 2)
        | Some m => (with_thr (Some m) s1, 0)
        end
      else (with_thr None s1, 0)
    else (s1, 0).

(* BeginBlockLaunchConsumers/LaunchConsumer on a cached context: a failed launch changes nothing *)
Definition launch (s : state) (active : list bval) (bonded : list bval) (maxv : Z) : state * Z :=
  if launched s then (s, 1)
  else match compute_next s active bonded maxv with
       | None => (s, 2)
       | Some s' =>
         if is_empty (valset s') then (s, 2)
         else if negb (existsb (fun v => mem v (map bid active)) (valset s')) then (s, 2)
         else (with_launched s', 0)
       end.

(* QueueVSCPackets only handles launched consumers *)
Definition epoch (s : state) (active : list bval) (bonded : list bval) (maxv : Z) : state * Z :=
  if negb (launched s) then (s, 0)
  else match compute_next s active bonded maxv with
       | None => (s, 3)
       | Some s' => (s', 0)
       end.

(* MsgOptIn: validator must be registered; HandleOptIn (consumer is active in every modelled phase) *)
Definition opt_in (s : state) (v : Z) (known : bool) : state * Z :=
  if negb known then (s, 1) else (with_opted (set_add v (opted s)) s, 0).

(* MsgOptOut / HandleOptOut *)
Definition opt_out (s : state) (v : Z) (known : bool) (power : Z) : state * Z :=
  if negb known then (s, 1)
  else if negb (launched s) then (s, 2)
  else if 0 <? top_n s then
    match thr s with
    | None => (s, 3)
    | Some m => if m <=? power then (s, 4) else (with_opted (set_del v (opted s)) s, 0)
    end
  else (with_opted (set_del v (opted s)) s, 0).

Definition step (s : state) (o : op) : state * Z :=
  match o with
  | SetTopN n al dl ms ai active => set_top_n s n al dl ms ai active
  | Launch active bonded maxv => launch s active bonded maxv
  | Epoch active bonded maxv => epoch s active bonded maxv
  | OptIn v known => opt_in s v known
  | OptOut v known power => opt_out s v known power
  end.

Definition exec (ops : list op) : state := fold_left (fun s o => fst (step s o)) ops init.

(* ------------------------------------------------------------------ wire interface
   input = [1, [ [powers, topN] ... ]]                 -> [ optz ... ]
         | [2, [ op ... ]]                             -> [ [code, optz thr, opted, sorted valset] ... ]
   op    = [1, n, allow, deny, min_stake, allow_inactive, active]   active = [[id,power,tokens]...]
         | [2, active, bonded, maxv]  (launch)         bonded = [[id,power,tokens]...]
         | [3, active, bonded, maxv]  (epoch)
         | [4, v, known] (opt in) | [5, v, known, power] (opt out) *)

Definition to_bvals (t : tree) : list bval :=
  map (fun x => mkB (tz (tnth 0 x)) (tz (tnth 1 x)) (tz (tnth 2 x))) (tlist t).

Definition decode_op (t : tree) : op :=
  let c := tz (tnth 0 t) in
  if c =? 1 then SetTopN (tz (tnth 1 t)) (tzs (tnth 2 t)) (tzs (tnth 3 t)) (tz (tnth 4 t))
                         (tbool (tnth 5 t)) (to_bvals (tnth 6 t))
  else if c =? 2 then Launch (to_bvals (tnth 1 t)) (to_bvals (tnth 2 t)) (tz (tnth 3 t))
  else if c =? 3 then Epoch (to_bvals (tnth 1 t)) (to_bvals (tnth 2 t)) (tz (tnth 3 t))
  else if c =? 4 then OptIn (tz (tnth 1 t)) (tbool (tnth 2 t))
  else OptOut (tz (tnth 1 t)) (tbool (tnth 2 t)) (tz (tnth 3 t)).

Definition sort_asc (l : list Z) : list Z := rev (sort_desc zid l).

Definition obs_of (s : state) (code : Z) : tree :=
  TL [TI code; of_optz (thr s); of_zs (opted s); of_zs (sort_asc (valset s))].

Fixpoint trace (s : state) (ops : list op) : list tree :=
  match ops with
  | [] => []
  | o :: t => let '(s', c) := step s o in obs_of s' c :: trace s' t
  end.

Definition run (t : tree) : tree :=
  if tz (tnth 0 t) =? 1 then
    TL (map (fun c => of_optz (compute_min_power (tzs (tnth 0 c)) (tz (tnth 1 c)))) (tlist (tnth 1 t)))
  else TL (trace init (map decode_op (tlist (tnth 1 t)))).

(* ------------------------------------------------------------------ monitors
   The clauses of C03 evaluated on the IMPLEMENTATION's observations:
   1 stored/returned threshold differs from the exact rational specification (total < 2*10^16)
   2 an active validator with power >= m passing the filters is missing from the set or has no record
   3 an opt-out outcome contradicts "succeeds iff launched and (not Top-N or power < stored m)", or a
     rejected opt-out changed the records, or an accepted one left the record
   4 a member of the set with power below m holds no opt-in record
   5 an out-of-range N was accepted
   6 an accepted opt-in left no record
   7 the staking oracle violates a hypothesis of C03_included (more active validators than
     MaxProviderConsensusValidators, or an active validator that is not bonded) *)

Definition mon_min_power (powers : list Z) (n : Z) (r : option Z) : list Z :=
  if (n <=? 0) || (100 <? n) then (match r with None => [] | Some _ => [5] end)
  else if is_empty powers || (sum_z powers <=? 0) || (total_bound <=? sum_z powers) then []
  else match r with
       | Some m => if spec_ok powers n m then [] else [1]
       | None => [1]
       end.

(* the monitor's view [s] of the consumer: configuration from the accepted operations, records and
   threshold from the implementation's previous observation *)
Definition check_thr (powers : list Z) (n : Z) (r : option Z) : list Z :=
  if (sum_z powers <=? 0) || (total_bound <=? sum_z powers) then []
  else match r with
       | Some m => if spec_ok powers n m then [] else [1]
       | None => [1]
       end.

Definition lookup_pow (bonded : list bval) (v : Z) : option Z :=
  match find (fun b => bid b =? v) bonded with Some b => Some (bpow b) | None => None end.

Definition filters_pass (s : state) (b : bval) : bool :=
  (is_empty (allow s) || mem (bid b) (allow s))
  && (is_empty (deny s) || negb (mem (bid b) (deny s)))
  && fulfills_min_stake (min_stake s) b.

Definition mon_compute (s : state) (active : list bval) (bonded : list bval) (maxv : Z)
           (thr' : option Z) (opted' vs' : list Z) : list Z :=
  if 0 <? top_n s then
    let powers := map bpow active in
    let in_range := (0 <? sum_z powers) && (sum_z powers <? total_bound) in
    let m_spec := if in_range then spec_min_power powers (top_n s) else thr' in
    check_thr powers (top_n s) thr' ++
    (if (Z.of_nat (length active) <=? maxv)
        && forallb (fun a => existsb (fun b => (bid b =? bid a) && (bpow b =? bpow a) && (btok b =? btok a)) bonded) active
     then [] else [7]) ++
    (match m_spec with
     | None => []
     | Some m =>
       if forallb (fun a =>
            negb (m <=? bpow a) || negb (filters_pass s a)
            || (mem (bid a) vs' && mem (bid a) opted')) active
       then [] else [2]
     end) ++
    (match thr' with
     | None => []
     | Some m =>
       if forallb (fun v => match lookup_pow bonded v with
                            | Some p => (m <=? p) || (mem v (opted s) && mem v opted')
                            | None => true
                            end) vs'
       then [] else [4]
     end)
  else [].

Definition zlist_eqb (a b : list Z) : bool := if list_eq_dec Z.eq_dec a b then true else false.

Definition mon_step (s : state) (o : op) (ob : tree) : list Z * state :=
  let code := tz (tnth 0 ob) in
  let thr' := to_optz (tnth 1 ob) in
  let opted' := tzs (tnth 2 ob) in
  let vs' := tzs (tnth 3 ob) in
  let view (c : state) := with_valset vs' (with_opted opted' (with_thr thr' c)) in
  match o with
  | SetTopN n al dl ms ai active =>
    if code =? 0 then
      ((if (0 <? n) && negb (n =? top_n s) then check_thr (map bpow active) n thr' else []),
       view (with_params n al dl ms ai s))
    else ([], view s)
  | Launch active bonded maxv =>
    if code =? 0 then (mon_compute s active bonded maxv thr' opted' vs', view (with_launched s))
    else ([], view s)
  | Epoch active bonded maxv =>
    if (code =? 0) && launched s then (mon_compute s active bonded maxv thr' opted' vs', view s)
    else ([], view s)
  | OptIn v known =>
    ((if (code =? 0) && negb (mem v opted') then [6] else []), view s)
  | OptOut v known power =>
    let allowed := known && launched s &&
                   (negb (0 <? top_n s) || match thr s with Some m => power <? m | None => false end) in
    ((if Bool.eqb (code =? 0) allowed
         && (if code =? 0 then negb (mem v opted') else zlist_eqb opted' (opted s))
      then [] else [3]), view s)
  end.

Fixpoint mon_trace (s : state) (ops : list op) (obs : list tree) : list Z :=
  match ops, obs with
  | o :: t, ob :: tobs => let '(bad, s') := mon_step s o ob in bad ++ mon_trace s' t tobs
  | _, _ => []
  end.

Definition dedup_sorted (l : list Z) : list Z := fold_right set_add [] l.

Definition mon (t o : tree) : tree :=
  of_zs (dedup_sorted
    (if tz (tnth 0 t) =? 1 then
       concat (map (fun co => mon_min_power (tzs (tnth 0 (fst co))) (tz (tnth 1 (fst co))) (to_optz (snd co)))
                   (combine (tlist (tnth 1 t)) (tlist o)))
     else mon_trace init (map decode_op (tlist (tnth 1 t))) (tlist o))).
