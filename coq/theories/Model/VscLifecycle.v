(* Composition of two component models (DESIGN.md 2.2, growth towards one system model):
     Model/Lifecycle.v  the provider's consumer lifecycle for MANY consumers (properties C10, C11, C19): phases, launch
                        and removal queues, stop causes, channel binding, and per consumer only COUNTERS of pending /
                        sent packets, and
     Model/Vsc.v        the validator-set replication for ONE consumer (properties C01, C12): provider-side record and
                        pending packets, the ordered channel, the consumer chain.
   In Vsc the consumer's phase ("launched") and the channel are changed by free ops (Stop, ChanOpen); in Lifecycle
   the effect of an epoch EndBlock on a consumer is decided by free oracle values (set changed?, new size).  Here:
     - there is one Vsc instance per consumer that has a client (launched or stopped, not yet deleted); it is created
       by the BeginBlock that launches the consumer (launch set = oracle of that launch; its size is what Lifecycle
       sees) and dropped by the BeginBlock that deletes the consumer;
     - Stop / ChanOpen of an instance are never ops: they are applied exactly when the consumer's Lifecycle record
       leaves the launched phase (MsgRemoveConsumer, timeout, error ack, send failure) / gets its channel;
     - the provider EndBlock runs Vsc's PEndBlock on every instance with that consumer's computed set and SendPacket
       answer (oracles), and Lifecycle's OEnd with oracle values DERIVED from them (changed := DiffValidators(stored,
       next) non-empty, size := length next, same SendPacket answer), so that a non-expiry send failure - decided
       on Vsc's pending list - stops the consumer in Lifecycle.
   Oracles that remain: the computed sets, the SendPacket answers, the iteration order of the client-id index,
   whether a launch finds an active validator / an external call fails.  staking.UnbondingTime is assumed not to
   fail inside the stop that follows a send failure (eo_stopfail = false; the other case is C19's).
   Only definitions here; lemmas in Proofs/VscLifecycleProofs.v, theorems in Props/C11System.v. *)
From Coq Require Import ZArith List Bool.
From ICS Require Import Base.Tree.
From ICS Require Model.Lifecycle Model.Vsc.
Import ListNotations.
Open Scope Z_scope.

Module L := ICS.Model.Lifecycle.
Module V := ICS.Model.Vsc.

Record sys := mkSys {
  lc : L.state;                   (* the lifecycle state of all consumers *)
  g_height : Z;                   (* provider block in progress *)
  g_vscid : Z;                    (* ValidatorSetUpdateId *)
  g_vsc2h : V.kmap;               (* ValsetUpdateBlockHeight *)
  vs : list (Z * V.state)         (* consumer id -> replication instance, in order of creation *)
}.

Fixpoint inst_of (l : list (Z * V.state)) (c : Z) : option V.state :=
  match l with
  | [] => None
  | (k, v) :: t => if k =? c then Some v else inst_of t c
  end.
Definition inst (s : sys) (c : Z) : option V.state := inst_of (vs s) c.

(* oracle of one consumer in a provider EndBlock: the set computed by ComputeNextValidators and the answer of the
   channel keeper (0 every SendPacket succeeds, 1 ErrClientNotActive, 2 + j another error on packet number j) *)
Record vora := mkVO { vo_next : list V.upd; vo_mode : Z }.
Definition no_vora : vora := mkVO [] 0.
Definition mode_res (m : Z) : V.sendres :=
  if m =? 0 then V.SOk else if m =? 1 then V.SExpired 0 else V.SErr (Z.to_nat (Z.max 0 (m - 2))).

(* oracle of one launch attempt: the computed initial set, HasActiveConsumerValidator, failure of an external call,
   and the height at which the consumer chain starts *)
Record launch := mkLa { la_set : list V.upd; la_active : bool; la_extfail : bool; la_ch : Z }.
Definition no_launch : launch := mkLa [] false false 0.

Inductive sop :=
| SMsg (o : L.op)                 (* messages, channel handshake, timeout, error ack (OBegin/OEnd here are ignored) *)
| SBegin (now : Z) (ora : list (Z * launch))
| SEnd (epoch : bool) (order : list Z) (ora : list (Z * vora))
| SCons (c : Z) (o : V.op).       (* Deliver / consumer BeginBlock / EndBlock / slash ops of consumer c *)

Definition is_nil {A} (l : list A) : bool := match l with [] => true | _ => false end.

Definition to_lora (la : launch) : L.lora :=
  L.mkLO (Z.of_nat (length (la_set la))) (la_active la) (la_extfail la).

(* what Lifecycle sees of consumer c in EndBlockVSU *)
Definition to_eora (s : sys) (c : Z) (o : vora) : L.eora :=
  let stored := match inst s c with Some v => V.p_stored v | None => [] end in
  L.mkEO (negb (is_nil (V.diff stored (vo_next o)))) (Z.of_nat (length (vo_next o))) (vo_mode o) false.

(* the Lifecycle op a system op stands for *)
Definition lop (s : sys) (o : sop) : L.op :=
  match o with
  | SMsg (L.OBegin _ _) => L.ONop
  | SMsg (L.OEnd _ _ _) => L.ONop
  | SMsg o => o
  | SBegin now ora => L.OBegin now (map (fun e => (fst e, to_lora (snd e))) ora)
  | SEnd e order ora => L.OEnd e order (map (fun c => (c, to_eora s c (L.lookup no_vora ora c))) order)
  | SCons _ _ => L.ONop
  end.

(* the Vsc op of consumer c in a provider EndBlock *)
Definition vop (e : bool) (ora : list (Z * vora)) (c : Z) : V.op :=
  let o := L.lookup no_vora ora c in V.PEndBlock e (vo_next o) (mode_res (vo_mode o)).

(* consumer-side ops only *)
Definition cons_op (o : V.op) : V.op :=
  match o with
  | V.Deliver | V.CBeginBlock | V.CEndBlock | V.ConsumerSlash _ | V.ProviderRecvSlash _ => o
  | _ => V.ConsumerSlash 0
  end.

(* an instance follows its consumer's Lifecycle record: channel binding, leaving the launched phase *)
Definition sync1 (l : L.state) (c : Z) (v : V.state) : V.state :=
  match L.get l c with
  | None => v
  | Some r =>
    let v1 := if L.p_channel (L.c_proto r) && negb (V.p_chan v) then V.step v V.ChanOpen else v in
    if negb (L.c_phase r =? 3) && V.p_launched v1 then V.step v1 V.Stop else v1
  end.
Definition alive (l : L.state) (c : Z) : bool := (L.phase_of l c =? 3) || (L.phase_of l c =? 4).
Definition sync (l : L.state) (insts : list (Z * V.state)) : list (Z * V.state) :=
  map (fun e => (fst e, sync1 l (fst e) (snd e))) (filter (fun e => alive l (fst e)) insts).

(* instances of the consumers launched by this BeginBlock (launched now, not launched before) *)
Definition spawn (s : sys) (l : L.state) (ora : list (Z * launch)) (insts : list (Z * V.state)) : list (Z * V.state) :=
  insts ++
  flat_map (fun r =>
    let c := L.c_id r in
    if (L.c_phase r =? 3) && negb (L.phase_of (lc s) c =? 3) &&
       negb (match inst_of insts c with Some _ => true | None => false end) then
      let la := L.lookup no_launch ora c in
      [(c, sync1 l c (V.init_state (g_height s) (g_vscid s) (g_vsc2h s) (la_set la) (la_ch la)))]
    else []) (L.s_cons l).

Definition sys_step (U : Z) (s : sys) (o : sop) : sys :=
  let l' := L.step U (lc s) (lop s o) in
  match o with
  | SMsg _ => mkSys l' (g_height s) (g_vscid s) (g_vsc2h s) (sync l' (vs s))
  | SBegin _ ora => mkSys l' (g_height s) (g_vscid s) (g_vsc2h s) (spawn s l' ora (sync l' (vs s)))
  | SEnd e _ ora =>
    let vs1 := map (fun x => (fst x, V.step (snd x) (vop e ora (fst x)))) (vs s) in
    mkSys l' (g_height s + 1) (g_vscid s + (if e then 1 else 0))
          (V.mset (g_vscid s) (g_height s + 1) (g_vsc2h s)) (sync l' vs1)
  | SCons c vo =>
    mkSys l' (g_height s) (g_vscid s) (g_vsc2h s)
          (map (fun x => if fst x =? c then (fst x, V.step (snd x) (cons_op vo)) else x) (vs s))
  end.

Definition sys_init (h vid : Z) (m0 : V.kmap) : sys := mkSys L.init_state h vid m0 [].
Definition run_sys (U : Z) (s : sys) (ops : list sop) : sys := fold_left (sys_step U) ops s.

(* ================= wire interface =================
   input  = [U, h0, vid0, m0 pairs, [op...]]   with op =
     the ops of Model/Lifecycle.v with tags 1..6, 9, 10, 11 (create, update, remove, opt-in, decorate, channel, timeout,
     error ack, nop) |
     [7, now, [[c, set pairs, active, extfail, ch]...]]          BeginBlock
     [8, epoch, [c...], [[c, next pairs, mode]...]]                EndBlock
     [20, c, vsc op]                                               vsc op as in Model/Vsc.v: [3] [4] [5] [8,h,q] [9,id,e]
   output = [obs per op]:
     tags 1..7, 9..11: [code, snapshot]        8: [code, snapshot, [[c, PEndBlock observation of Vsc]...]]
     20: the observation of Model/Vsc.v for that op ([] when the consumer has no instance)
     snapshot = [ [[id, phase, channel, pending count]...] all consumers,
                  [[id, launched, channel, init height, [pending ids], stored map, [in-flight ids]]...] instances by id ] *)
Definition dec_launch (t : tree) : Z * launch :=
  (tz (tnth 0 t), mkLa (to_pairs (tnth 1 t)) (tbool (tnth 2 t)) (tbool (tnth 3 t)) (tz (tnth 4 t))).
Definition dec_vora (t : tree) : Z * vora := (tz (tnth 0 t), mkVO (to_pairs (tnth 1 t)) (tz (tnth 2 t))).
Definition dec_sop (t : tree) : sop :=
  let tag := tz (tnth 0 t) in
  if tag =? 7 then SBegin (tz (tnth 1 t)) (map dec_launch (tlist (tnth 2 t)))
  else if tag =? 8 then SEnd (tbool (tnth 1 t)) (tzs (tnth 2 t)) (map dec_vora (tlist (tnth 3 t)))
  else if tag =? 20 then SCons (tz (tnth 1 t)) (V.dec_op (tnth 2 t))
  else SMsg (L.dec_op t).

Definition snapshot (s : sys) : tree :=
  TL [TL (map (fun r => TL [TI (L.c_id r); TI (L.c_phase r); of_bool (L.p_channel (L.c_proto r));
                            TI (L.p_pending (L.c_proto r))]) (L.s_cons (lc s)));
      TL (flat_map (fun r =>
            match inst s (L.c_id r) with
            | Some v => [TL [TI (L.c_id r); of_bool (V.p_launched v); of_bool (V.p_chan v); TI (V.optz (V.p_init v));
                             of_zs (map V.pid (V.p_pending v)); of_pairs (V.as_map (V.p_stored v));
                             of_zs (map V.pid (V.inflight v))]]
            | None => []
            end) (L.s_cons (lc s)))].

Definition obs_sop (U : Z) (t : tree) (o : sop) (s s' : sys) : tree :=
  let code := L.result U (lc s) (lop s o) in
  match o with
  | SEnd e _ ora =>
    TL [TI code; snapshot s';
        TL (flat_map (fun r =>
              let c := L.c_id r in
              match inst s c with
              | Some v =>
                let vo := vop e ora c in
                [TL [TI c; V.obs_op (TL []) vo v (V.step v vo)]]
              | None => []
              end) (L.s_cons (lc s)))]
  | SCons c vo =>
    match inst s c, inst s' c with
    | Some v, Some v' => V.obs_op (tnth 2 t) (cons_op vo) v v'
    | _, _ => TL []
    end
  | _ => TL [TI code; snapshot s']
  end.

Fixpoint run_obs (U : Z) (s : sys) (ts : list tree) : list tree :=
  match ts with
  | [] => []
  | t :: rest => let o := dec_sop t in let s' := sys_step U s o in obs_sop U t o s s' :: run_obs U s' rest
  end.

Definition run (t : tree) : tree :=
  TL (run_obs (tz (tnth 0 t)) (sys_init (tz (tnth 1 t)) (tz (tnth 2 t)) (to_pairs (tnth 3 t))) (tlist (tnth 4 t))).

(* ================= monitor, on the implementation's observations only =================
   Clauses:
     31 a packet was produced (new pending id) or handed to IBC for a consumer that was not launched when the block ended
        began, or anything of a non-launched consumer's packets changed in another step
     32 a consumer moved along a forbidden phase edge
     33 an instance exists for a consumer that is not launched/stopped, or none for one that is
     34 the order oracle is not a duplicate-free enumeration of the consumers with a client
     35 EndBlock / BeginBlock returned an error or an operation panicked
     36 a stopped consumer's instance reports launched, or a launched one reports stopped
     37 the lifecycle pending counter differs from the number of pending packets
     1..9 the clauses of Model/Vsc.v (C01) for every consumer from its launch to its deletion *)
Record cstream := mkCS { cs_id : Z; cs_l0 : list V.upd; cs_ops : list tree; cs_obs : list tree }.

Record mst := mkMS {
  ms_phase : list (Z * Z);                 (* last reported phase per consumer *)
  ms_inst : list (Z * tree);               (* last reported instance record per consumer *)
  ms_streams : list cstream;
  ms_bad : list Z
}.

Definition zflag (c : Z) (ok : bool) : list Z := if ok then [] else [c].
Definition zmem (c : Z) (l : list Z) : bool := existsb (Z.eqb c) l.
Fixpoint znodup (l : list Z) : bool := match l with [] => true | x :: t => negb (zmem x t) && znodup t end.

Definition push (c : Z) (op ob : tree) (l : list cstream) : list cstream :=
  map (fun x => if cs_id x =? c then mkCS (cs_id x) (cs_l0 x) (cs_ops x ++ [op]) (cs_obs x ++ [ob]) else x) l.

Definition ids_of (t : tree) : list Z := tzs t.
Definition zsuffix (a b : list Z) : bool :=
  existsb (fun k => L.zlist_eqb (skipn k b) a) (seq 0 (S (length b))).

Definition mon_snapshot (m : mst) (o : sop) (snap : tree) (pend_ok : bool) : mst :=
  let phases := map (fun t => (tz (tnth 0 t), tz (tnth 1 t))) (tlist (tnth 0 snap)) in
  let insts := map (fun t => (tz (tnth 0 t), t)) (tlist (tnth 1 snap)) in
  let old_phase c := L.lookup 0 (ms_phase m) c in
  let c32 := zflag 32 (forallb (fun e => L.edge_ok (old_phase (fst e)) (snd e)) phases) in
  let c33 := zflag 33 (forallb (fun e => Bool.eqb ((snd e =? 3) || (snd e =? 4)) (zmem (fst e) (map fst insts))) phases) in
  let c36 := zflag 36 (forallb (fun e => Bool.eqb (L.lookup 0 phases (fst e) =? 3) (tbool (tnth 1 (snd e)))) insts) in
  let c37 := zflag 37 (forallb (fun t => negb (zmem (tz (tnth 0 t)) (map fst insts)) ||
                                  (tz (tnth 3 t) =? Z.of_nat (length (tlist (tnth 4 (L.lookup (TL []) insts (tz (tnth 0 t))))))))
                               (tlist (tnth 0 snap))) in
  (* packets of a consumer that was not launched before this step: nothing may change *)
  let c31 := zflag 31 (pend_ok &&
                forallb (fun e =>
                  match o with
                  | SEnd _ _ _ => true      (* checked from the PEndBlock observations *)
                  | SCons _ _ => true
                  | _ =>
                    (old_phase (fst e) =? 3) || negb (zmem (fst e) (map fst (ms_inst m))) ||
                    let old := L.lookup (TL []) (ms_inst m) (fst e) in
                    (* pending list identical; in flight: only deliveries (a suffix remains) *)
                    L.zlist_eqb (ids_of (tnth 4 old)) (ids_of (tnth 4 (snd e))) &&
                    zsuffix (ids_of (tnth 6 (snd e))) (ids_of (tnth 6 old))
                  end) insts) in
  mkMS phases insts (ms_streams m) (ms_bad m ++ c31 ++ c32 ++ c33 ++ c36 ++ c37).

Definition mon_op (m : mst) (t ob : tree) : mst :=
  let o := dec_sop t in
  match o with
  | SCons c vo =>
    mkMS (ms_phase m) (ms_inst m)
         (match tlist ob with [] => ms_streams m | _ => push c (tnth 2 t) ob (ms_streams m) end) (ms_bad m)
  | SEnd e order ora =>
    let code := tz (tnth 0 ob) in
    let per := tlist (tnth 2 ob) in
    (* per instance: PEndBlock observation = [vscid, launched, stored, pending ids, sent, vsc2h] *)
    let c31 := forallb (fun p =>
                  let c := tz (tnth 0 p) in
                  let po := tnth 1 p in
                  (L.lookup 0 (ms_phase m) c =? 3) ||
                  (is_nil (tlist (tnth 4 po)) &&
                   L.zlist_eqb (ids_of (tnth 3 po)) (ids_of (tnth 4 (L.lookup (TL []) (ms_inst m) c))))) per in
    let c34 := zflag 34 (znodup order &&
                         forallb (fun e => zmem (fst e) order) (ms_inst m) &&
                         forallb (fun c => zmem c (map fst (ms_inst m))) order) in
    let streams := fold_left (fun acc p =>
                      let c := tz (tnth 0 p) in
                      let nx := vo_next (L.lookup no_vora ora c) in
                      push c (TL [TI 1; of_bool e; of_pairs nx; TI 0; TI 0]) (tnth 1 p) acc) per (ms_streams m) in
    let m1 := mkMS (ms_phase m) (ms_inst m) streams (ms_bad m ++ zflag 35 (code =? 0) ++ c34) in
    mon_snapshot m1 o (tnth 1 ob) c31
  | SBegin now ora =>
    let code := tz (tnth 0 ob) in
    let snap := tnth 1 ob in
    let insts := map (fun t => tz (tnth 0 t)) (tlist (tnth 1 snap)) in
    let fresh := filter (fun c => negb (zmem c (map fst (ms_inst m)))) insts in
    let streams := ms_streams m ++
                   map (fun c => mkCS c (la_set (L.lookup no_launch ora c)) [] []) fresh in
    mon_snapshot (mkMS (ms_phase m) (ms_inst m) streams (ms_bad m ++ zflag 35 (code =? 0))) o snap true
  | SMsg _ =>
    let code := tz (tnth 0 ob) in
    mon_snapshot (mkMS (ms_phase m) (ms_inst m) (ms_streams m) (ms_bad m ++ zflag 35 (negb (code =? 100)))) o (tnth 1 ob) true
  end.

Definition mon_stream (x : cstream) : list Z :=
  V.mon_instance 1 (TL [TI 0; TI 0; TL []; of_pairs (cs_l0 x); TI 0; TL (cs_ops x)]) (TL (cs_obs x)).

Definition mon (t o : tree) : tree :=
  let m := fold_left (fun m p => mon_op m (fst p) (snd p)) (combine (tlist (tnth 4 t)) (tlist o)) (mkMS [] [] [] []) in
  of_zs (nodup Z.eq_dec (ms_bad m ++ concat (map mon_stream (ms_streams m)))).
