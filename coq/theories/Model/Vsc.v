(* Model of the validator-set-change (VSC) sub-protocol for ONE consumer chain (properties C01, C12).
   Provider side : x/ccv/provider/keeper/validator_set_update.go (DiffValidators, ComputeConsumerNextValSet:
                   the stored set is replaced by the computed one every epoch),
                   relay.go (EndBlockCIS, EndBlockVSU, QueueVSCPackets, SendVSCPackets, SendVSCPacketsToChain,
                   getMappedInfractionHeight, ValidateSlashPacket/OnRecvSlashPacket),
                   keeper.go (SetConsumerChain, IncrementValidatorSetUpdateId, AppendPendingVSCPackets),
                   consumer_lifecycle.go (LaunchConsumer/MakeConsumerGenesis: launch-time set, StopAndPrepareForConsumerRemoval).
   Shared        : x/ccv/types/utils.go (AccumulateChanges).
   Consumer side : x/ccv/consumer/keeper/relay.go (OnRecvVSCPacket), validators.go (ApplyCCValidatorChanges,
                   SlashWithInfractionReason), module.go (BeginBlock, EndBlock), genesis.go (InitGenesis).
   The ordered IBC channel is a FIFO list.  Consumer public keys, powers, heights and ids are integers.
   Oracle inputs (carried by the ops): the validator set computed by ComputeNextValidators in an epoch
   block, whether the block is an epoch block (BlocksUntilNextEpoch = 0), and which SendPacket call of
   the send loop fails and how.  Several consumers are independent instances of this model. *)
From Coq Require Import ZArith List Bool.
From ICS Require Import Base.Tree.
Import ListNotations.
Open Scope Z_scope.

Definition upd : Type := (Z * Z)%type.           (* (consumer key, power) *)
Definition kmap : Type := list (Z * Z).          (* KV-store view: ascending, distinct keys *)
Definition packet : Type := (Z * list upd)%type. (* (ValsetUpdateId, ValidatorUpdates) *)
Definition pid (p : packet) : Z := fst p.
Definition pupd (p : packet) : list upd := snd p.

(* ---- KV store with integer keys (iteration order = ascending key) ---- *)
Fixpoint mget (k : Z) (m : kmap) : option Z :=
  match m with
  | [] => None
  | (k', v) :: t => if k =? k' then Some v else mget k t
  end.
Fixpoint mset (k v : Z) (m : kmap) : kmap :=
  match m with
  | [] => [(k, v)]
  | (k', v') :: t => if k <? k' then (k, v) :: m
                     else if k =? k' then (k, v) :: t
                     else (k', v') :: mset k v t
  end.
Fixpoint mdel (k : Z) (m : kmap) : kmap :=
  match m with
  | [] => []
  | (k', v') :: t => if k =? k' then t else (k', v') :: mdel k t
  end.
(* getters that return 0 when the key is absent (GetHeightValsetUpdateID) *)
Definition get0 (k : Z) (m : kmap) : Z := match mget k m with Some v => v | None => 0 end.

(* Go map built from a list by `m[key] = val` in list order, then looked up: the LAST entry wins *)
Fixpoint ulast (k : Z) (l : list upd) : option Z :=
  match l with
  | [] => None
  | (k', p) :: t => match ulast k t with
                    | Some q => Some q
                    | None => if k =? k' then Some p else None
                    end
  end.

(* a list of (key, power) as a key -> power map *)
Definition as_map (l : list upd) : kmap := fold_left (fun m u => mset (fst u) (snd u) m) l [].

(* ---- DiffValidators (validator_set_update.go:88) ---- *)
(* first loop, one current validator: not in next -> power 0; power differs -> next power; else nothing *)
Definition diff_old (next : list upd) (c : upd) : list upd :=
  match ulast (fst c) next with
  | None => [(fst c, 0)]
  | Some pn => if snd c =? pn then [] else [(fst c, pn)]
  end.
(* second loop: next validators whose key is not a current key *)
Definition diff_new (cur : list upd) (n : upd) : bool :=
  match ulast (fst n) cur with None => true | Some _ => false end.
Definition diff (cur next : list upd) : list upd :=
  flat_map (diff_old next) cur ++ filter (diff_new cur) next.

(* ---- a validator-update list applied to a key -> power map (CometBFT semantics: power < 1 removes) ---- *)
Definition apply1 (u : upd) (m : kmap) : kmap :=
  if snd u <? 1 then mdel (fst u) m else mset (fst u) (snd u) m.
Definition apply_updates (us : list upd) (m : kmap) : kmap := fold_left (fun m u => apply1 u m) us m.

(* ---- ApplyCCValidatorChanges (consumer validators.go:26): new store, updates returned to CometBFT ---- *)
Fixpoint apply_cc (changes : list upd) (m : kmap) : kmap * list upd :=
  match changes with
  | [] => (m, [])
  | c :: t =>
    match mget (fst c) m with
    | Some _ =>                                   (* found: update or delete an existing validator *)
      let m' := if snd c <? 1 then mdel (fst c) m else mset (fst c) (snd c) m in
      let '(mf, ret) := apply_cc t m' in (mf, c :: ret)
    | None =>
      if 0 <? snd c then                          (* create a new validator *)
        let '(mf, ret) := apply_cc t (mset (fst c) (snd c) m) in (mf, c :: ret)
      else apply_cc t m                           (* zero power for an unknown validator: not forwarded *)
    end
  end.

(* ---- AccumulateChanges (x/ccv/types/utils.go:25) ----
   map with last writer wins (current first, then new), iterated in an arbitrary order [iter],
   then sorted by (power desc, key desc).  Keys are compared as integers here; the order inside an
   update list is never compared with the implementation (it belongs to C18). *)
Definition before (a b : upd) : bool := (snd b <? snd a) || ((snd a =? snd b) && (fst b <? fst a)).
Fixpoint ins_upd (x : upd) (l : list upd) : list upd :=
  match l with
  | [] => [x]
  | y :: t => if before x y then x :: y :: t else y :: ins_upd x t
  end.
Definition sort_upd (l : list upd) : list upd := fold_right ins_upd [] l.
Definition accumulate_with (iter : list upd -> list upd) (cur new : list upd) : list upd :=
  sort_upd (iter (as_map (cur ++ new))).
Definition accumulate : list upd -> list upd -> list upd := accumulate_with (fun l => l).

(* ---- outcome of the SendPacket calls of one SendVSCPacketsToChain loop (oracle) ---- *)
Inductive sendres :=
| SOk                      (* no call fails *)
| SExpired (n : nat)       (* call number n (0-based) returns ErrClientNotActive *)
| SErr (n : nat).          (* call number n returns another error *)
Definition fails_at (r : sendres) (i : nat) : option bool :=   (* Some true = expired client *)
  match r with
  | SOk => None
  | SExpired n => if Nat.eqb n i then Some true else None
  | SErr n => if Nat.eqb n i then Some false else None
  end.
(* the loop of SendVSCPacketsToChain: packets handed to IBC before the first failure, and the failure *)
Fixpoint send_loop (r : sendres) (i : nat) (pend : list packet) : list packet * option bool :=
  match pend with
  | [] => ([], None)
  | p :: t => match fails_at r i with
              | Some e => ([], Some e)
              | None => let '(s, f) := send_loop r (S i) t in (p :: s, f)
              end
  end.

(* ---- state ---- *)
Record state := mk {
  (* provider, for this consumer *)
  p_height : Z;                 (* ctx.BlockHeight() of the provider block in progress *)
  p_vscid : Z;                  (* ValidatorSetUpdateId *)
  p_stored : list upd;          (* consumer validator record (prefix 31) as (consumer key, power) *)
  p_pending : list packet;      (* PendingVSCs *)
  p_chan : bool;                (* ConsumerIdToChannelId present *)
  p_init : option Z;            (* InitChainHeight *)
  p_launched : bool;            (* phase = LAUNCHED (false: STOPPED) *)
  p_vsc2h : kmap;               (* ValsetUpdateBlockHeight: id -> height *)
  (* ordered channel provider -> consumer *)
  inflight : list packet;
  (* consumer *)
  c_height : Z;                 (* height of the consumer block in progress / next to begin *)
  c_inblock : bool;             (* BeginBlock of c_height has run, EndBlock not yet *)
  c_ccvals : kmap;              (* CrossChainValidator store: key -> power *)
  c_pending : option (list upd);(* PendingChanges *)
  c_h2id : kmap;                (* HeightValsetUpdateID *)
  c_engine : kmap;              (* fold of every update list handed to the consensus engine *)
  (* ghosts (never read by the protocol steps) *)
  g_hist : list kmap;           (* launch set, then every computed set that produced a packet *)
  g_prod : list packet;         (* every packet produced, in order *)
  g_prodh : list (Z * Z);       (* (id, provider height of the producing block) per produced packet *)
  g_deliv : list packet;        (* every packet delivered to the consumer, in order *)
  g_recvlog : list (Z * Z);     (* (consumer height of the receiving block, id) per received packet *)
  g_epochs : list (Z * Z)       (* (id, provider height) of every epoch block *)
}.
Definition g_recv (s : state) : nat := length (g_deliv s).

Inductive op :=
| PEndBlock (is_epoch : bool) (next : list upd) (r : sendres)
| ChanOpen
| Deliver
| CBeginBlock
| CEndBlock
| Stop
| ConsumerSlash (infraction_height : Z)
| ProviderRecvSlash (vscid : Z).

(* launch: LaunchConsumer stores the computed set l0 and puts DiffValidators([], l0) into the genesis;
   consumer InitGenesis (height ch) applies it, hands it to the engine, maps ch -> 0.
   ph = provider height of the block in progress, vid = current id, m0 = current id -> height map. *)
Definition init_state (ph vid : Z) (m0 : kmap) (l0 : list upd) (ch : Z) : state :=
  let genesis := diff [] l0 in
  let '(cc, ret) := apply_cc genesis [] in
  mk ph vid l0 [] false None true m0
     []
     ch false cc None (mset ch 0 []) (apply_updates ret [])
     [as_map l0] [] [] [] [] [].

(* EndBlockCIS: id -> height+1, every block *)
Definition cis (s : state) : state :=
  mk (p_height s) (p_vscid s) (p_stored s) (p_pending s) (p_chan s) (p_init s) (p_launched s)
     (mset (p_vscid s) (p_height s + 1) (p_vsc2h s))
     (inflight s) (c_height s) (c_inblock s) (c_ccvals s) (c_pending s) (c_h2id s) (c_engine s)
     (g_hist s) (g_prod s) (g_prodh s) (g_deliv s) (g_recvlog s) (g_epochs s).

(* QueueVSCPackets for this consumer + IncrementValidatorSetUpdateId *)
Definition queue (next : list upd) (s : state) : state :=
  let id := p_vscid s in
  let ep := g_epochs s ++ [(id, p_height s)] in
  if p_launched s then
    let us := diff (p_stored s) next in           (* diff against the STORED set; the set is replaced *)
    match us with
    | [] =>
      mk (p_height s) (id + 1) next (p_pending s) (p_chan s) (p_init s) (p_launched s) (p_vsc2h s)
         (inflight s) (c_height s) (c_inblock s) (c_ccvals s) (c_pending s) (c_h2id s) (c_engine s)
         (g_hist s) (g_prod s) (g_prodh s) (g_deliv s) (g_recvlog s) ep
    | _ :: _ =>
      mk (p_height s) (id + 1) next (p_pending s ++ [(id, us)]) (p_chan s) (p_init s) (p_launched s) (p_vsc2h s)
         (inflight s) (c_height s) (c_inblock s) (c_ccvals s) (c_pending s) (c_h2id s) (c_engine s)
         (g_hist s ++ [as_map next]) (g_prod s ++ [(id, us)]) (g_prodh s ++ [(id, p_height s)])
         (g_deliv s) (g_recvlog s) ep
    end
  else
    mk (p_height s) (id + 1) (p_stored s) (p_pending s) (p_chan s) (p_init s) (p_launched s) (p_vsc2h s)
       (inflight s) (c_height s) (c_inblock s) (c_ccvals s) (c_pending s) (c_h2id s) (c_engine s)
       (g_hist s) (g_prod s) (g_prodh s) (g_deliv s) (g_recvlog s) ep.

(* SendVSCPackets for this consumer: launched and channel established -> SendVSCPacketsToChain *)
Definition send (r : sendres) (s : state) : state :=
  if p_launched s && p_chan s then
    let '(sent, f) := send_loop r 0 (p_pending s) in
    let pend := match f with None => [] | Some _ => p_pending s end in     (* DeletePendingVSCPackets only after the loop *)
    let launched := match f with Some false => false | _ => p_launched s end in (* other error: StopAndPrepareForConsumerRemoval *)
    mk (p_height s) (p_vscid s) (p_stored s) pend (p_chan s) (p_init s) launched (p_vsc2h s)
       (inflight s ++ sent) (c_height s) (c_inblock s) (c_ccvals s) (c_pending s) (c_h2id s) (c_engine s)
       (g_hist s) (g_prod s) (g_prodh s) (g_deliv s) (g_recvlog s) (g_epochs s)
  else s.

Definition next_pheight (s : state) : state :=
  mk (p_height s + 1) (p_vscid s) (p_stored s) (p_pending s) (p_chan s) (p_init s) (p_launched s) (p_vsc2h s)
     (inflight s) (c_height s) (c_inblock s) (c_ccvals s) (c_pending s) (c_h2id s) (c_engine s)
     (g_hist s) (g_prod s) (g_prodh s) (g_deliv s) (g_recvlog s) (g_epochs s).

(* provider EndBlock: EndBlockCIS, then EndBlockVSU (queue + send only in an epoch block); next height *)
Definition p_end_block (is_epoch : bool) (next : list upd) (r : sendres) (s : state) : state :=
  let s1 := cis s in
  let s2 := if is_epoch then send r (queue next s1) else s1 in
  next_pheight s2.

(* SetConsumerChain (OnChanOpenConfirm): error if a channel exists, else mappings + InitChainHeight *)
Definition chan_open (s : state) : state :=
  if p_chan s then s else
  mk (p_height s) (p_vscid s) (p_stored s) (p_pending s) true (Some (p_height s)) (p_launched s) (p_vsc2h s)
     (inflight s) (c_height s) (c_inblock s) (c_ccvals s) (c_pending s) (c_h2id s) (c_engine s)
     (g_hist s) (g_prod s) (g_prodh s) (g_deliv s) (g_recvlog s) (g_epochs s).

(* OnRecvVSCPacket for the head of the channel, inside the consumer block in progress *)
Definition deliver (s : state) : state :=
  if negb (c_inblock s) then s else
  match inflight s with
  | [] => s
  | p :: rest =>
    if pid p =? 0 then                            (* Validate: id 0 is rejected (error ack), nothing stored *)
      mk (p_height s) (p_vscid s) (p_stored s) (p_pending s) (p_chan s) (p_init s) (p_launched s) (p_vsc2h s)
         rest (c_height s) (c_inblock s) (c_ccvals s) (c_pending s) (c_h2id s) (c_engine s)
         (g_hist s) (g_prod s) (g_prodh s) (g_deliv s) (g_recvlog s) (g_epochs s)
    else
      let cur := match c_pending s with Some l => l | None => [] end in
      mk (p_height s) (p_vscid s) (p_stored s) (p_pending s) (p_chan s) (p_init s) (p_launched s) (p_vsc2h s)
         rest (c_height s) (c_inblock s) (c_ccvals s)
         (Some (accumulate cur (pupd p)))
         (mset (c_height s + 1) (pid p) (c_h2id s))       (* height+1 -> id *)
         (c_engine s)
         (g_hist s) (g_prod s) (g_prodh s) (g_deliv s ++ [p]) (g_recvlog s ++ [(c_height s, pid p)]) (g_epochs s)
  end.

(* consumer BeginBlock: the id of this height is carried to the next height *)
Definition c_begin_block (s : state) : state :=
  if c_inblock s then s else
  mk (p_height s) (p_vscid s) (p_stored s) (p_pending s) (p_chan s) (p_init s) (p_launched s) (p_vsc2h s)
     (inflight s) (c_height s) true (c_ccvals s) (c_pending s)
     (mset (c_height s + 1) (get0 (c_height s) (c_h2id s)) (c_h2id s)) (c_engine s)
     (g_hist s) (g_prod s) (g_prodh s) (g_deliv s) (g_recvlog s) (g_epochs s).

(* consumer EndBlock: apply and delete the pending changes; the returned updates go to the engine *)
Definition c_end_block (s : state) : state :=
  if negb (c_inblock s) then s else
  let '(cc, ret) := match c_pending s with
                    | None => (c_ccvals s, [])
                    | Some ch => apply_cc ch (c_ccvals s)
                    end in
  mk (p_height s) (p_vscid s) (p_stored s) (p_pending s) (p_chan s) (p_init s) (p_launched s) (p_vsc2h s)
     (inflight s) (c_height s + 1) false cc None (c_h2id s) (apply_updates ret (c_engine s))
     (g_hist s) (g_prod s) (g_prodh s) (g_deliv s) (g_recvlog s) (g_epochs s).

Definition stop (s : state) : state :=
  mk (p_height s) (p_vscid s) (p_stored s) (p_pending s) (p_chan s) (p_init s) false (p_vsc2h s)
     (inflight s) (c_height s) (c_inblock s) (c_ccvals s) (c_pending s) (c_h2id s) (c_engine s)
     (g_hist s) (g_prod s) (g_prodh s) (g_deliv s) (g_recvlog s) (g_epochs s).

(* SlashWithInfractionReason: the id put into the slash packet *)
Definition slash_id (s : state) (h : Z) : Z := get0 h (c_h2id s).

(* OnRecvSlashPacket up to ValidateSlashPacket: None = error acknowledgement (panic on an unknown channel
   or no mapped height), Some h = getMappedInfractionHeight *)
Definition recv_slash (s : state) (id : Z) : option Z :=
  if negb (p_chan s) then None
  else if id =? 0 then p_init s
  else mget id (p_vsc2h s).

Definition step (s : state) (o : op) : state :=
  match o with
  | PEndBlock e next r => p_end_block e next r s
  | ChanOpen => chan_open s
  | Deliver => deliver s
  | CBeginBlock => c_begin_block s
  | CEndBlock => c_end_block s
  | Stop => stop s
  | ConsumerSlash _ => s
  | ProviderRecvSlash _ => s
  end.

Definition run_ops (s : state) (ops : list op) : state := fold_left step ops s.

(* ================= wire interface =================
   input  = [prop, [instance...]]            prop: 1 = C01 monitor, 12 = C12 monitor
   instance = [ph, vid, m0 pairs, l0 pairs, ch, [op...]]
   op     = [1, is_epoch, next pairs, kind, pos] | [2] | [3] | [4] | [5] | [7] | [8, h, queued] | [9, id, emitted]
   output = [[obs per op...] per instance] *)
Definition dec_sendres (kind : Z) (pos : Z) : sendres :=
  if kind =? 1 then SExpired (Z.to_nat pos) else if kind =? 2 then SErr (Z.to_nat pos) else SOk.
Definition dec_op (t : tree) : op :=
  let tag := tz (tnth 0 t) in
  if tag =? 1 then PEndBlock (tbool (tnth 1 t)) (to_pairs (tnth 2 t)) (dec_sendres (tz (tnth 3 t)) (tz (tnth 4 t)))
  else if tag =? 2 then ChanOpen
  else if tag =? 3 then Deliver
  else if tag =? 4 then CBeginBlock
  else if tag =? 5 then CEndBlock
  else if tag =? 7 then Stop
  else if tag =? 8 then ConsumerSlash (tz (tnth 1 t))
  else ProviderRecvSlash (tz (tnth 1 t)).

Definition of_packet (p : packet) : tree := TL [TI (pid p); of_pairs (as_map (pupd p))].
Definition optz (o : option Z) : Z := match o with Some z => z | None => -1 end.

(* observation of one op: s = state before, s' = state after *)
Definition obs_op (t : tree) (o : op) (s s' : state) : tree :=
  match o with
  | PEndBlock _ _ _ =>
    TL [TI (p_vscid s'); of_bool (p_launched s'); of_pairs (as_map (p_stored s'));
        of_zs (map pid (p_pending s'));
        TL (map of_packet (skipn (length (inflight s)) (inflight s')));
        of_pairs (p_vsc2h s')]
  | ChanOpen => TL [of_bool (p_chan s); TI (optz (p_init s'))]
  | Deliver =>
    TL [TI (if Nat.ltb (length (g_deliv s)) (length (g_deliv s')) then pid (last (g_deliv s') (0, [])) else -1)]
  | CBeginBlock => TL [TI (c_height s'); TI (get0 (c_height s' + 1) (c_h2id s'))]
  | CEndBlock =>
    TL [TI (c_height s); of_pairs (c_ccvals s'); of_pairs (c_engine s');
        TI (get0 (c_height s + 1) (c_h2id s')); of_pairs (c_h2id s');
        of_bool (match c_pending s' with Some _ => true | None => false end)]
  | Stop => TL [of_bool (p_launched s')]
  | ConsumerSlash h => TL [TI (if tbool (tnth 2 t) then slash_id s h else -1)]
  | ProviderRecvSlash id =>
    match recv_slash s id with
    | None => TL [TI 1; TI (-1)]
    | Some h => TL [TI 0; TI (if tbool (tnth 2 t) then h else -1)]
    end
  end.

Fixpoint run_obs (s : state) (ts : list tree) : list tree :=
  match ts with
  | [] => []
  | t :: rest => let o := dec_op t in let s' := step s o in obs_op t o s s' :: run_obs s' rest
  end.

Definition dec_init (t : tree) : state :=
  init_state (tz (tnth 0 t)) (tz (tnth 1 t)) (to_pairs (tnth 2 t)) (to_pairs (tnth 3 t)) (tz (tnth 4 t)).

Definition run_instance (t : tree) : tree := TL (run_obs (dec_init t) (tlist (tnth 5 t))).
Definition run (t : tree) : tree := TL (map run_instance (tlist (tnth 1 t))).

(* ================= monitor: the clauses of C01 / C12 evaluated on the implementation's observations =====
   The monitor keeps its own record built only from what the implementation reported. *)
Fixpoint pairs_eqb (a b : list (Z * Z)) : bool :=
  match a, b with
  | [], [] => true
  | (x1, x2) :: a', (y1, y2) :: b' => (x1 =? y1) && (x2 =? y2) && pairs_eqb a' b'
  | _, _ => false
  end.
Fixpoint nodup_keys (l : list upd) : bool :=
  match l with
  | [] => true
  | (k, _) :: t => match ulast k t with None => nodup_keys t | Some _ => false end
  end.
Definition wf_next (l : list upd) : bool := nodup_keys l && forallb (fun u => 1 <=? snd u) l.
Fixpoint increasing (l : list Z) : bool :=
  match l with
  | a :: ((b :: _) as t) => (a <? b) && increasing t
  | _ => true
  end.
(* id of the last receipt in a block < h (0 if none) *)
Definition last_before (h : Z) (log : list (Z * Z)) : Z :=
  fold_left (fun acc e => if fst e <? h then snd e else acc) log 0.
Fixpoint is_prefix (a b : list Z) : bool :=
  match a, b with
  | [], _ => true
  | x :: a', y :: b' => (x =? y) && is_prefix a' b'
  | _ :: _, [] => false
  end.

Record mstate := mkm {
  m_hist : list kmap;           (* launch set + stored set after every block that produced a packet *)
  m_prod : list Z;              (* ids produced (seen in "sent" or newly in "pending") *)
  m_prodh : list (Z * Z);       (* (id, height) of every epoch block *)
  m_sentq : list (Z * kmap);    (* packets sent (id, updates as map), in order *)
  m_delivered : list Z;         (* ids received by the consumer *)
  m_pheight : Z; m_vscid : Z; m_stored : kmap; m_known : list Z; (* ids the implementation reported as pending or sent *)
  m_open : Z;                   (* channel-opening height, -1 if none *)
  m_vsc2h : kmap;               (* last reported id -> height map *)
  m_cheight : Z; m_recvlog : list (Z * Z); m_h2id : kmap;
  m_bad : list Z
}.
Definition flag (c : Z) (ok : bool) : list Z := if ok then [] else [c].

Definition mon_op (prop : Z) (m : mstate) (t o : tree) : mstate :=
  let tag := tz (tnth 0 t) in
  let c01 := prop =? 1 in
  if tag =? 1 then
    let is_epoch := tbool (tnth 1 t) in
    let next := to_pairs (tnth 2 t) in
    let vid' := tz (tnth 0 o) in
    let launched := tbool (tnth 1 o) in
    let stored' := to_pairs (tnth 2 o) in
    let pend := tzs (tnth 3 o) in
    let sent := map (fun p => (tz (tnth 0 p), to_pairs (tnth 1 p))) (tlist (tnth 4 o)) in
    let vsc2h' := to_pairs (tnth 5 o) in
    let newids := nodup Z.eq_dec (filter (fun i => negb (existsb (Z.eqb i) (m_known m))) (map fst sent ++ pend)) in
    let produced := match newids with [] => false | _ => true end in
    let prodh' := if is_epoch then m_prodh m ++ [(m_vscid m, m_pheight m)] else m_prodh m in
    mkm (if produced then m_hist m ++ [stored'] else m_hist m)
        (m_prod m ++ newids) prodh'
        (m_sentq m ++ sent) (m_delivered m)
        (m_pheight m + 1) vid' stored' (m_known m ++ newids) (m_open m) vsc2h'
        (m_cheight m) (m_recvlog m) (m_h2id m)
        (m_bad m ++
         (if c01 then
            flag 1 (negb is_epoch || negb launched || wf_next next) ++
            (* the stored record changes only in a block that produced a packet *)
            flag 5 (produced || pairs_eqb stored' (m_stored m)) ++
            flag 4 (increasing (m_prod m ++ newids)) ++
            flag 6 (Nat.leb (length newids) 1)
          else
            flag 11 (vid' =? m_vscid m + (if is_epoch then 1 else 0)) ++
            flag 12 (increasing (m_prod m ++ newids) && forallb (fun i => i =? m_vscid m) newids) ++
            (* every id issued so far maps to 1 + the height of its epoch block *)
            flag 13 (forallb (fun e => match mget (fst e) vsc2h' with Some h => h =? snd e + 1 | None => false end) prodh') ++
            flag 13 (match mget (m_vscid m) vsc2h' with Some h => h =? m_pheight m + 1 | None => false end)))
  else if tag =? 2 then
    let ok := tz (tnth 0 o) =? 0 in
    mkm (m_hist m) (m_prod m) (m_prodh m) (m_sentq m) (m_delivered m) (m_pheight m) (m_vscid m) (m_stored m) (m_known m)
        (if ok then tz (tnth 1 o) else m_open m) (m_vsc2h m) (m_cheight m) (m_recvlog m) (m_h2id m)
        (m_bad m ++ (if c01 then [] else flag 16 (negb ok || (tz (tnth 1 o) =? m_pheight m))))
  else if tag =? 3 then
    let id := tz (tnth 0 o) in
    let deliv' := m_delivered m ++ [id] in
    (* the k-th packet delivered must be the k-th packet sent: its updates move hist[k-1] to hist[k] *)
    let k := length (m_delivered m) in
    let expected := nth k (m_sentq m) (-1, []) in
    mkm (m_hist m) (m_prod m) (m_prodh m) (m_sentq m) deliv' (m_pheight m) (m_vscid m) (m_stored m) (m_known m)
        (m_open m) (m_vsc2h m) (m_cheight m) (m_recvlog m ++ [(m_cheight m, id)]) (m_h2id m)
        (m_bad m ++ (if c01 then
                       flag 3 (is_prefix deliv' (m_prod m)) ++
                       flag 7 ((fst expected =? id) &&
                               pairs_eqb (apply_updates (snd expected) (nth k (m_hist m) [])) (nth (S k) (m_hist m) [(-1, -1)]))
                     else flag 12 (increasing deliv')))
  else if tag =? 4 then
    let h := tz (tnth 0 o) in
    mkm (m_hist m) (m_prod m) (m_prodh m) (m_sentq m) (m_delivered m) (m_pheight m) (m_vscid m) (m_stored m) (m_known m)
        (m_open m) (m_vsc2h m) h (m_recvlog m) (m_h2id m)
        (m_bad m ++ (if c01 then [] else flag 14 (tz (tnth 1 o) =? last_before h (m_recvlog m))))
  else if tag =? 5 then
    let h := tz (tnth 0 o) in
    let cc := to_pairs (tnth 1 o) in
    let eng := to_pairs (tnth 2 o) in
    let h2id := to_pairs (tnth 4 o) in
    let k := length (m_delivered m) in
    mkm (m_hist m) (m_prod m) (m_prodh m) (m_sentq m) (m_delivered m) (m_pheight m) (m_vscid m) (m_stored m) (m_known m)
        (m_open m) (m_vsc2h m) (h + 1) (m_recvlog m) h2id
        (m_bad m ++ (if c01 then
                       flag 2 (pairs_eqb cc eng) ++
                       flag 8 (pairs_eqb cc (nth k (m_hist m) [(-1, -1)])) ++
                       flag 9 (negb (tbool (tnth 5 o)))
                     else
                       flag 14 (tz (tnth 3 o) =? last_before (h + 1) (m_recvlog m)) ++
                       flag 14 (forallb (fun e => snd e =? last_before (fst e) (m_recvlog m)) h2id)))
  else if tag =? 8 then
    let h := tz (tnth 1 t) in
    let id := tz (tnth 0 o) in
    mkm (m_hist m) (m_prod m) (m_prodh m) (m_sentq m) (m_delivered m) (m_pheight m) (m_vscid m) (m_stored m) (m_known m)
        (m_open m) (m_vsc2h m) (m_cheight m) (m_recvlog m) (m_h2id m)
        (m_bad m ++ (if c01 then [] else
                       flag 15 (negb (tbool (tnth 2 t)) || (h <? 0) || (m_cheight m + 1 <? h)
                                || (id =? last_before h (m_recvlog m)))))
  else if tag =? 9 then
    let id := tz (tnth 1 t) in
    let ok := tz (tnth 0 o) =? 0 in
    let hh := tz (tnth 1 o) in
    mkm (m_hist m) (m_prod m) (m_prodh m) (m_sentq m) (m_delivered m) (m_pheight m) (m_vscid m) (m_stored m) (m_known m)
        (m_open m) (m_vsc2h m) (m_cheight m) (m_recvlog m) (m_h2id m)
        (m_bad m ++ (if c01 then [] else
                       (* an id above the current one was never issued: error; an id of a produced packet
                          must be accepted once the channel is open *)
                       flag 17 (negb ((m_vscid m <? id) || (id <? 0)) || negb ok) ++
                       (* clause 18: an id the provider never issued (not yet stamped in an epoch block: id >= the
                          current id at receive time) must be answered with an error *)
                       flag 18 (negb ok || (id <? m_vscid m)) ++
                       flag 16 (negb ok || (hh =? -1) ||
                                (if id =? 0 then hh =? m_open m
                                 else match ulast id (m_prodh m) with
                                      | Some ph => hh =? ph + 1
                                      | None => true
                                      end)) ++
                       flag 16 (ok || (m_open m =? -1) || negb (existsb (Z.eqb id) (0 :: m_prod m)))))
  else m.

Definition mon_instance (prop : Z) (inst obs : tree) : list Z :=
  let l0 := as_map (to_pairs (tnth 3 inst)) in
  let m0 := mkm [l0] [] [] [] [] (tz (tnth 0 inst)) (tz (tnth 1 inst)) l0 [] (-1) (to_pairs (tnth 2 inst))
                (tz (tnth 4 inst)) [] [] [] in
  m_bad (fold_left (fun m p => mon_op prop m (fst p) (snd p)) (combine (tlist (tnth 5 inst)) (tlist obs)) m0).

Definition mon (t o : tree) : tree :=
  let prop := tz (tnth 0 t) in
  of_zs (nodup Z.eq_dec
    (concat (map (fun p => mon_instance prop (fst p) (snd p)) (combine (tlist (tnth 1 t)) (tlist o))))).
