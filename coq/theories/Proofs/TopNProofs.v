(* Lemmas about Model/TopN.v (property C03). *)
From Coq Require Import ZArith List Bool Lia Permutation Sorted.
From ICS Require Import Base.Dec Base.SortDesc Base.Tree Model.TopN.
Import ListNotations.
Open Scope Z_scope.

(* ------------------------------------------------------------------ LegacyDec rounding *)

Lemma P_pos : 0 < P. Proof. reflexivity. Qed.
Lemma halfP_twice : 2 * halfP = P. Proof. reflexivity. Qed.
Lemma P_100 : P = 100 * 10000000000000000. Proof. reflexivity. Qed.

(* banker's rounding moves a non-negative value by at most half a unit *)
Lemma chop_round_bounds q :
  0 <= q -> 2 * q - P <= 2 * (chop_round q * P) <= 2 * q + P.
Proof.
  intros Hq. unfold chop_round.
  destruct (Z.ltb_spec q 0) as [Hneg|_]; [lia|].
  unfold chop_round_nonneg.
  pose proof P_pos as HP. pose proof halfP_twice as HH.
  pose proof (Z.quot_rem' q P) as Hqr.
  pose proof (Z.rem_bound_pos q P Hq HP) as Hr.
  set (k := Z.quot q P) in *. set (r := Z.rem q P) in *.
  destruct (Z.eqb_spec r 0) as [H0|H0]; [lia|].
  destruct (Z.ltb_spec r halfP) as [H1|H1]; [lia|].
  destruct (Z.ltb_spec halfP r) as [H2|H2]; [lia|].
  destruct (Z.even k); lia.
Qed.

Section Share.
  (* ps = power of a prefix, T = total power, N = percentage *)
  Variables ps T N : Z.
  Hypothesis Hps : 0 <= ps.
  Hypothesis HT : 0 < T.

  Let q := Z.quot (ps * P * P) T.

  Lemma dquo_share : dquo (ps * P) (T * P) = chop_round q.
  Proof.
    unfold dquo, q. f_equal.
    replace (ps * P * (P * P)) with (ps * P * P * P) by ring.
    apply Z.quot_mul_cancel_r; pose proof P_pos; lia.
  Qed.

  Lemma q_nonneg : 0 <= q.
  Proof. unfold q. apply Z.quot_pos; pose proof P_pos; nia. Qed.

  Lemma q_floor : T * q <= ps * P * P < T * q + T.
  Proof.
    unfold q. pose proof P_pos as HP.
    assert (H0 : 0 <= ps * P * P) by nia.
    pose proof (Z.quot_rem' (ps * P * P) T) as Hqr.
    pose proof (Z.rem_bound_pos (ps * P * P) T H0 HT) as Hr. lia.
  Qed.

  (* a prefix holding at least N % passes the GTE test *)
  Lemma share_ge : N * T <= 100 * ps -> topn_threshold N <= dquo (ps * P) (T * P).
  Proof.
    intros Hshare. rewrite dquo_share.
    pose proof q_nonneg as Hq. pose proof q_floor as Hfl.
    pose proof (chop_round_bounds q Hq) as Hb. pose proof P_pos as HP.
    unfold topn_threshold, dquo_int, dec_of_int.
    set (c := 10000000000000000).
    assert (HPc : P = 100 * c) by reflexivity.
    assert (Hthr : Z.quot (N * P) 100 = N * c).
    { rewrite HPc. replace (N * (100 * c)) with (N * c * 100) by ring. apply Z.quot_mul; lia. }
    rewrite Hthr.
    (* N*c*P <= q *)
    assert (Hlow : N * c * P <= q).
    { apply Z.quot_le_lower_bound; [assumption|].
      replace (T * (N * c * P)) with (N * T * (c * P)) by ring.
      replace (ps * P * P) with (100 * ps * (c * P)) by (rewrite HPc; ring).
      apply Z.mul_le_mono_nonneg_r; [unfold c; pose proof P_pos; lia | assumption]. }
    set (r := chop_round q) in *.
    assert (2 * (N * c) * P - P <= 2 * (r * P)) by lia.
    assert (Hlt : (N * c - 1) * P < r * P) by lia.
    apply Z.mul_lt_mono_pos_r in Hlt; lia.
  Qed.

  (* a prefix holding less than N % fails it, provided the total is below 2*10^16 *)
  Lemma share_lt :
    T < total_bound -> 100 * ps < N * T -> dquo (ps * P) (T * P) < topn_threshold N.
  Proof.
    intros HTb Hshare. rewrite dquo_share.
    pose proof q_nonneg as Hq. pose proof q_floor as Hfl.
    pose proof (chop_round_bounds q Hq) as Hb. pose proof P_pos as HP.
    unfold topn_threshold, dquo_int, dec_of_int.
    set (c := 10000000000000000).
    assert (HPc : P = 100 * c) by reflexivity.
    assert (Hc : 0 < c) by reflexivity.
    assert (HTc : T < 2 * c) by exact HTb.
    assert (Hthr : Z.quot (N * P) 100 = N * c).
    { rewrite HPc. replace (N * (100 * c)) with (N * c * 100) by ring. apply Z.quot_mul; lia. }
    rewrite Hthr.
    set (r := chop_round q) in *.
    (* 50*T*(2q+P) < 50*T*(2*N*c*P) *)
    assert (H1 : 100 * (T * q) <= 100 * (ps * P * P)) by lia.
    assert (H2 : 100 * ps * (P * P) <= (N * T - 1) * (P * P)).
    { apply Z.mul_le_mono_nonneg_r; nia. }
    assert (H3 : 50 * T * P < P * P).
    { apply Z.mul_lt_mono_pos_r; lia. }
    assert (H4 : 50 * T * (2 * q + P) < 50 * T * (2 * (N * c) * P)).
    { replace (50 * T * (2 * q + P)) with (100 * (T * q) + 50 * T * P) by ring.
      replace (50 * T * (2 * (N * c) * P)) with (N * T * (P * P)) by (rewrite HPc; ring).
      replace (100 * (ps * P * P)) with (100 * ps * (P * P)) in H1 by ring.
      replace ((N * T - 1) * (P * P)) with (N * T * (P * P) - P * P) in H2 by ring.
      lia. }
    apply Z.mul_lt_mono_pos_l in H4; [|lia].
    assert (Hlt : r * P < N * c * P) by lia.
    apply Z.mul_lt_mono_pos_r in Hlt; lia.
  Qed.
End Share.

(* ------------------------------------------------------------------ sums *)

Lemma total_dec_sum_aux l a :
  fold_left (fun a p => dadd a (dec_of_int p)) l a = a + sum_z l * P.
Proof.
  revert a. induction l as [|x t IH]; intros a; simpl; [lia|].
  rewrite IH. unfold dadd, dec_of_int. lia.
Qed.

Lemma total_dec_sum l : total_dec l = sum_z l * P.
Proof. unfold total_dec. rewrite total_dec_sum_aux. lia. Qed.

Lemma sum_z_app a b : sum_z (a ++ b) = sum_z a + sum_z b.
Proof. induction a as [|x t IH]; simpl; lia. Qed.

Lemma sum_z_perm a b : Permutation a b -> sum_z a = sum_z b.
Proof. induction 1; simpl; lia. Qed.

Lemma sum_ge_perm m a b : Permutation a b -> sum_ge m a = sum_ge m b.
Proof.
  induction 1 as [|x l l' _ IH|x y l|l l' l'' _ IH1 _ IH2]; simpl; try lia.
  - destruct (m <=? x); lia.
  - destruct (m <=? x), (m <=? y); lia.
Qed.

Lemma sum_gt_perm m a b : Permutation a b -> sum_gt m a = sum_gt m b.
Proof.
  induction 1 as [|x l l' _ IH|x y l|l l' l'' _ IH1 _ IH2]; simpl; try lia.
  - destruct (m <? x); lia.
  - destruct (m <? x), (m <? y); lia.
Qed.

Lemma sum_ge_app m a b : sum_ge m (a ++ b) = sum_ge m a + sum_ge m b.
Proof. induction a as [|x t IH]; simpl; [lia|]. destruct (m <=? x); lia. Qed.

Lemma sum_gt_app m a b : sum_gt m (a ++ b) = sum_gt m a + sum_gt m b.
Proof. induction a as [|x t IH]; simpl; [lia|]. destruct (m <? x); lia. Qed.

Lemma sum_z_nonneg l : Forall (fun p => 0 <= p) l -> 0 <= sum_z l.
Proof. induction 1; simpl; lia. Qed.

Lemma sum_ge_nonneg m l : Forall (fun p => 0 <= p) l -> 0 <= sum_ge m l.
Proof. induction 1 as [|x t Hx _ IH]; simpl; [lia|]. destruct (m <=? x); lia. Qed.

Lemma sum_ge_all m l : Forall (fun p => m <= p) l -> sum_ge m l = sum_z l.
Proof.
  induction 1 as [|x t Hx _ IH]; simpl; [reflexivity|].
  destruct (Z.leb_spec m x); lia.
Qed.

Lemma sum_gt_le_sum m l : Forall (fun p => 0 <= p) l -> sum_gt m l <= sum_z l.
Proof. induction 1 as [|x t Hx _ IH]; simpl; [lia|]. destruct (m <? x); lia. Qed.

Lemma sum_gt_none m l : Forall (fun p => p <= m) l -> sum_gt m l = 0.
Proof.
  induction 1 as [|x t Hx _ IH]; simpl; [reflexivity|].
  destruct (Z.ltb_spec m x); lia.
Qed.

(* ------------------------------------------------------------------ the loop *)

(* what the loop of ComputeMinPowerInTopN returns, for a total below the bound: the first
   element at which the running share reaches N % *)
Lemma min_power_loop_spec T N l :
  0 < T -> T < total_bound ->
  Forall (fun p => 0 <= p) l ->
  forall acc, 0 <= acc -> 100 * acc < N * T ->
  match min_power_loop (topn_threshold N) (T * P) (acc * P) l with
  | Some m => exists l1 l2, l = l1 ++ m :: l2
                /\ N * T <= 100 * (acc + sum_z l1 + m)
                /\ 100 * (acc + sum_z l1) < N * T
  | None => 100 * (acc + sum_z l) < N * T
  end.
Proof.
  intros HT HTb Hall. induction Hall as [|p t Hp Ht IH]; intros acc Hacc Hpre.
  - cbn [min_power_loop sum_z fold_right]. lia.
  - cbn [min_power_loop]. unfold dadd, dec_of_int.
    replace (acc * P + p * P) with ((acc + p) * P) by ring.
    unfold dgte.
    destruct (Z.leb_spec (topn_threshold N) (dquo ((acc + p) * P) (T * P))) as [Hge|Hlt].
    + exists [], t. cbn [app sum_z fold_right]. split; [reflexivity|]. split; [|lia].
      destruct (Z.le_gt_cases (N * T) (100 * (acc + p))) as [Hok|Hbad]; [lia|].
      exfalso. pose proof (share_lt (acc + p) T N ltac:(lia) HT HTb ltac:(lia)). lia.
    + assert (Hsmall : 100 * (acc + p) < N * T).
      { destruct (Z.le_gt_cases (N * T) (100 * (acc + p))) as [Hok|Hbad]; [|lia].
        exfalso. pose proof (share_ge (acc + p) T N ltac:(lia) HT Hok). lia. }
      specialize (IH (acc + p) ltac:(lia) Hsmall).
      destruct (min_power_loop (topn_threshold N) (T * P) ((acc + p) * P) t) as [m|].
      * destruct IH as (l1 & l2 & -> & H1 & H2).
        exists (p :: l1), l2. cbn [app sum_z fold_right]. fold (sum_z l1). split; [reflexivity|]. split; lia.
      * cbn [sum_z fold_right]. fold (sum_z t). lia.
Qed.

Lemma desc_split (l1 l2 : list Z) m :
  desc zid (l1 ++ m :: l2) ->
  Forall (fun p => m <= p) l1 /\ Forall (fun p => p <= m) l2.
Proof.
  unfold desc, zid. induction l1 as [|x t IH]; simpl; intros Hs.
  - inversion Hs as [|? ? _ Hall]; subst. split; [constructor|assumption].
  - inversion Hs as [|? ? Hst Hall]; subst.
    destruct (IH Hst) as [H1 H2]. split; [|assumption].
    constructor; [|assumption].
    rewrite Forall_forall in Hall. apply Hall. apply in_or_app. right. left. reflexivity.
Qed.

Lemma Forall_perm {A} (Q : A -> Prop) a b : Permutation a b -> Forall Q a -> Forall Q b.
Proof.
  intros Hp Ha. rewrite Forall_forall in *. intros x Hx.
  apply Ha. apply (Permutation_in _ (Permutation_sym Hp)). assumption.
Qed.

Theorem threshold_correct powers N :
  Forall (fun p => 0 <= p) powers ->
  0 < sum_z powers -> sum_z powers < total_bound ->
  1 <= N <= 100 ->
  exists m, compute_min_power powers N = Some m
    /\ In m powers
    /\ N * sum_z powers <= 100 * sum_ge m powers
    /\ 100 * sum_gt m powers < N * sum_z powers.
Proof.
  intros Hnn Hpos Hb HN.
  unfold compute_min_power.
  destruct (Z.eqb_spec N 0) as [?|_]; [lia|].
  destruct (Z.ltb_spec 100 N) as [?|_]; [lia|]. cbn [orb].
  rewrite total_dec_sum.
  set (T := sum_z powers) in *.
  set (sorted := sort_desc zid powers).
  assert (Hperm : Permutation sorted powers) by apply sort_desc_perm.
  assert (Hsnn : Forall (fun p => 0 <= p) sorted) by (apply (Forall_perm _ _ _ (Permutation_sym Hperm)); assumption).
  pose proof (min_power_loop_spec T N sorted Hpos Hb Hsnn 0 ltac:(lia) ltac:(lia)) as Hloop.
  change (0 * P) with 0 in Hloop.
  destruct (min_power_loop (topn_threshold N) (T * P) 0 sorted) as [m|].
  - destruct Hloop as (l1 & l2 & Hsplit & Hge & Hlt).
    exists m. split; [reflexivity|].
    assert (Hdesc : desc zid sorted) by apply sort_desc_sorted.
    rewrite Hsplit in Hdesc. destruct (desc_split _ _ _ Hdesc) as [Hl1 Hl2].
    assert (Hnn1 : Forall (fun p => 0 <= p) l1 /\ 0 <= m /\ Forall (fun p => 0 <= p) l2).
    { rewrite Hsplit in Hsnn. apply Forall_app in Hsnn. destruct Hsnn as [Ha Hb'].
      inversion Hb'; subst. auto. }
    destruct Hnn1 as (Hnn1 & Hm & Hnn2).
    split.
    { apply (Permutation_in _ Hperm). rewrite Hsplit. apply in_or_app. right. left. reflexivity. }
    rewrite <- (sum_ge_perm m _ _ Hperm), <- (sum_gt_perm m _ _ Hperm), Hsplit.
    rewrite sum_ge_app, sum_gt_app. cbn [sum_ge sum_gt fold_right].
    fold (sum_ge m l2). fold (sum_gt m l2).
    rewrite (sum_ge_all m l1 Hl1), (sum_gt_none m l2 Hl2).
    rewrite Z.leb_refl, Z.ltb_irrefl.
    pose proof (sum_ge_nonneg m l2 Hnn2). pose proof (sum_gt_le_sum m l1 Hnn1).
    split; lia.
  - exfalso. rewrite (sum_z_perm _ _ Hperm) in Hloop. fold T in Hloop. nia.
Qed.
