(* Lemmas about Model/TopN.v (property C03). *)
From Coq Require Import ZArith List Bool Lia Permutation Sorted.
From ICS Require Import Base.Dec Base.SortDesc Base.Tree Model.TopN.
Import ListNotations.
Open Scope Z_scope.

(* ------------------------------------------------------------------ LegacyDec rounding *)

Lemma P_pos : 0 < P. Proof. reflexivity. Qed.
Lemma halfP_twice : 2 * halfP = P. Proof. reflexivity. Qed.
Lemma P_100 : P = 100 * 10000000000000000. Proof. reflexivity. Qed.

(* banker's rounding moves a non-negative value by at most half a unit *)
Lemma chop_round_bounds q :
  0 <= q -> 2 * q - P <= 2 * (chop_round q * P) <= 2 * q + P.
Proof.
  intros Hq. unfold chop_round.
  destruct (Z.ltb_spec q 0) as [Hneg|_]; [lia|].
  unfold chop_round_nonneg.
  pose proof P_pos as HP. pose proof halfP_twice as HH.
  pose proof (Z.quot_rem' q P) as Hqr.
  pose proof (Z.rem_bound_pos q P Hq HP) as Hr.
  set (k := Z.quot q P) in *. set (r := Z.rem q P) in *.
  destruct (Z.eqb_spec r 0) as [H0|H0]; [lia|].
  destruct (Z.ltb_spec r halfP) as [H1|H1]; [lia|].
  destruct (Z.ltb_spec halfP r) as [H2|H2]; [lia|].
  destruct (Z.even k); lia.
Qed.

Section Share.
  (* ps = power of a prefix, T = total power, N = percentage *)
  Variables ps T N : Z.
  Hypothesis Hps : 0 <= ps.
  Hypothesis HT : 0 < T.

  Let q := Z.quot (ps * P * P) T.

  Lemma dquo_share : dquo (ps * P) (T * P) = chop_round q.
  Proof.
    unfold dquo, q. f_equal.
    replace (ps * P * (P * P)) with (ps * P * P * P) by ring.
    apply Z.quot_mul_cancel_r; pose proof P_pos; lia.
  Qed.

  Lemma q_nonneg : 0 <= q.
  Proof. unfold q. apply Z.quot_pos; pose proof P_pos; nia. Qed.

  Lemma q_floor : T * q <= ps * P * P < T * q + T.
  Proof.
    unfold q. pose proof P_pos as HP.
    assert (H0 : 0 <= ps * P * P) by nia.
    pose proof (Z.quot_rem' (ps * P * P) T) as Hqr.
    pose proof (Z.rem_bound_pos (ps * P * P) T H0 HT) as Hr. lia.
  Qed.

  (* a prefix holding at least N % passes the GTE test *)
  Lemma share_ge : N * T <= 100 * ps -> topn_threshold N <= dquo (ps * P) (T * P).
  Proof.
    intros Hshare. rewrite dquo_share.
    pose proof q_nonneg as Hq. pose proof q_floor as Hfl.
    pose proof (chop_round_bounds q Hq) as Hb. pose proof P_pos as HP.
    unfold topn_threshold, dquo_int, dec_of_int.
    set (c := 10000000000000000).
    assert (HPc : P = 100 * c) by reflexivity.
    assert (Hthr : Z.quot (N * P) 100 = N * c).
    { rewrite HPc. replace (N * (100 * c)) with (N * c * 100) by ring. apply Z.quot_mul; lia. }
    rewrite Hthr.
    (* N*c*P <= q *)
    assert (Hlow : N * c * P <= q).
    { apply Z.quot_le_lower_bound; [assumption|].
      replace (T * (N * c * P)) with (N * T * (c * P)) by ring.
      replace (ps * P * P) with (100 * ps * (c * P)) by (rewrite HPc; ring).
      apply Z.mul_le_mono_nonneg_r; [unfold c; pose proof P_pos; lia | assumption]. }
    set (r := chop_round q) in *.
    assert (2 * (N * c) * P - P <= 2 * (r * P)) by lia.
    assert (Hlt : (N * c - 1) * P < r * P) by lia.
    apply Z.mul_lt_mono_pos_r in Hlt; lia.
  Qed.

  (* a prefix holding less than N % fails it, provided the total is below 2*10^16 *)
  Lemma share_lt :
    T < total_bound -> 100 * ps < N * T -> dquo (ps * P) (T * P) < topn_threshold N.
  Proof.
    intros HTb Hshare. rewrite dquo_share.
    pose proof q_nonneg as Hq. pose proof q_floor as Hfl.
    pose proof (chop_round_bounds q Hq) as Hb. pose proof P_pos as HP.
    unfold topn_threshold, dquo_int, dec_of_int.
    set (c := 10000000000000000).
    assert (HPc : P = 100 * c) by reflexivity.
    assert (Hc : 0 < c) by reflexivity.
    assert (HTc : T < 2 * c) by exact HTb.
    assert (Hthr : Z.quot (N * P) 100 = N * c).
    { rewrite HPc. replace (N * (100 * c)) with (N * c * 100) by ring. apply Z.quot_mul; lia. }
    rewrite Hthr.
    set (r := chop_round q) in *.
    (* 50*T*(2q+P) < 50*T*(2*N*c*P) *)
    assert (H1 : 100 * (T * q) <= 100 * (ps * P * P)) by lia.
    assert (H2 : 100 * ps * (P * P) <= (N * T - 1) * (P * P)).
    { apply Z.mul_le_mono_nonneg_r; nia. }
    assert (H3 : 50 * T * P < P * P).
    { apply Z.mul_lt_mono_pos_r; lia. }
    assert (H4 : 50 * T * (2 * q + P) < 50 * T * (2 * (N * c) * P)).
    { replace (50 * T * (2 * q + P)) with (100 * (T * q) + 50 * T * P) by ring.
      replace (50 * T * (2 * (N * c) * P)) with (N * T * (P * P)) by (rewrite HPc; ring).
      replace (100 * (ps * P * P)) with (100 * ps * (P * P)) in H1 by ring.
      replace ((N * T - 1) * (P * P)) with (N * T * (P * P) - P * P) in H2 by ring.
      lia. }
    apply Z.mul_lt_mono_pos_l in H4; [|lia].
    assert (Hlt : r * P < N * c * P) by lia.
    apply Z.mul_lt_mono_pos_r in Hlt; lia.
  Qed.
End Share.

(* ------------------------------------------------------------------ sums *)

Lemma total_dec_sum_aux l a :
  fold_left (fun a p => dadd a (dec_of_int p)) l a = a + sum_z l * P.
Proof.
  revert a. induction l as [|x t IH]; intros a; simpl; [lia|].
  rewrite IH. unfold dadd, dec_of_int. lia.
Qed.

Lemma total_dec_sum l : total_dec l = sum_z l * P.
Proof. unfold total_dec. rewrite total_dec_sum_aux. lia. Qed.

Lemma sum_z_app a b : sum_z (a ++ b) = sum_z a + sum_z b.
Proof. induction a as [|x t IH]; simpl; lia. Qed.

Lemma sum_z_perm a b : Permutation a b -> sum_z a = sum_z b.
Proof. induction 1; simpl; lia. Qed.

Lemma sum_ge_perm m a b : Permutation a b -> sum_ge m a = sum_ge m b.
Proof.
  induction 1 as [|x l l' _ IH|x y l|l l' l'' _ IH1 _ IH2]; simpl; try lia.
  - destruct (m <=? x); lia.
  - destruct (m <=? x), (m <=? y); lia.
Qed.

Lemma sum_gt_perm m a b : Permutation a b -> sum_gt m a = sum_gt m b.
Proof.
  induction 1 as [|x l l' _ IH|x y l|l l' l'' _ IH1 _ IH2]; simpl; try lia.
  - destruct (m <? x); lia.
  - destruct (m <? x), (m <? y); lia.
Qed.

Lemma sum_ge_app m a b : sum_ge m (a ++ b) = sum_ge m a + sum_ge m b.
Proof. induction a as [|x t IH]; simpl; [lia|]. destruct (m <=? x); lia. Qed.

Lemma sum_gt_app m a b : sum_gt m (a ++ b) = sum_gt m a + sum_gt m b.
Proof. induction a as [|x t IH]; simpl; [lia|]. destruct (m <? x); lia. Qed.

Lemma sum_z_nonneg l : Forall (fun p => 0 <= p) l -> 0 <= sum_z l.
Proof. induction 1; simpl; lia. Qed.

Lemma sum_ge_nonneg m l : Forall (fun p => 0 <= p) l -> 0 <= sum_ge m l.
Proof. induction 1 as [|x t Hx _ IH]; simpl; [lia|]. destruct (m <=? x); lia. Qed.

Lemma sum_ge_all m l : Forall (fun p => m <= p) l -> sum_ge m l = sum_z l.
Proof.
  induction 1 as [|x t Hx _ IH]; simpl; [reflexivity|].
  destruct (Z.leb_spec m x); lia.
Qed.

Lemma sum_gt_le_sum m l : Forall (fun p => 0 <= p) l -> sum_gt m l <= sum_z l.
Proof. induction 1 as [|x t Hx _ IH]; simpl; [lia|]. destruct (m <? x); lia. Qed.

Lemma sum_gt_none m l : Forall (fun p => p <= m) l -> sum_gt m l = 0.
Proof.
  induction 1 as [|x t Hx _ IH]; simpl; [reflexivity|].
  destruct (Z.ltb_spec m x); lia.
Qed.

(* ------------------------------------------------------------------ the loop *)

(* what the loop of ComputeMinPowerInTopN returns, for a total below the bound: the first
   element at which the running share reaches N % *)
Lemma min_power_loop_spec T N l :
  0 < T -> T < total_bound ->
  Forall (fun p => 0 <= p) l ->
  forall acc, 0 <= acc -> 100 * acc < N * T ->
  match min_power_loop (topn_threshold N) (T * P) (acc * P) l with
  | Some m => exists l1 l2, l = l1 ++ m :: l2
                /\ N * T <= 100 * (acc + sum_z l1 + m)
                /\ 100 * (acc + sum_z l1) < N * T
  | None => 100 * (acc + sum_z l) < N * T
  end.
Proof.
  intros HT HTb Hall. induction Hall as [|p t Hp Ht IH]; intros acc Hacc Hpre.
  - cbn [min_power_loop sum_z fold_right]. lia.
  - cbn [min_power_loop]. unfold dadd, dec_of_int.
    replace (acc * P + p * P) with ((acc + p) * P) by ring.
    unfold dgte.
    destruct (Z.leb_spec (topn_threshold N) (dquo ((acc + p) * P) (T * P))) as [Hge|Hlt].
    + exists [], t. cbn [app sum_z fold_right]. split; [reflexivity|]. split; [|lia].
      destruct (Z.le_gt_cases (N * T) (100 * (acc + p))) as [Hok|Hbad]; [lia|].
      exfalso. pose proof (share_lt (acc + p) T N ltac:(lia) HT HTb ltac:(lia)). lia.
    + assert (Hsmall : 100 * (acc + p) < N * T).
      { destruct (Z.le_gt_cases (N * T) (100 * (acc + p))) as [Hok|Hbad]; [|lia].
        exfalso. pose proof (share_ge (acc + p) T N ltac:(lia) HT Hok). lia. }
      specialize (IH (acc + p) ltac:(lia) Hsmall).
      destruct (min_power_loop (topn_threshold N) (T * P) ((acc + p) * P) t) as [m|].
      * destruct IH as (l1 & l2 & -> & H1 & H2).
        exists (p :: l1), l2. cbn [app sum_z fold_right]. fold (sum_z l1). split; [reflexivity|]. split; lia.
      * cbn [sum_z fold_right]. fold (sum_z t). lia.
Qed.

Lemma desc_split (l1 l2 : list Z) m :
  desc zid (l1 ++ m :: l2) ->
  Forall (fun p => m <= p) l1 /\ Forall (fun p => p <= m) l2.
Proof.
  unfold desc, zid. induction l1 as [|x t IH]; simpl; intros Hs.
  - inversion Hs as [|? ? _ Hall]; subst. split; [constructor|assumption].
  - inversion Hs as [|? ? Hst Hall]; subst.
    destruct (IH Hst) as [H1 H2]. split; [|assumption].
    constructor; [|assumption].
    rewrite Forall_forall in Hall. apply Hall. apply in_or_app. right. left. reflexivity.
Qed.

Lemma Forall_perm {A} (Q : A -> Prop) a b : Permutation a b -> Forall Q a -> Forall Q b.
Proof.
  intros Hp Ha. rewrite Forall_forall in *. intros x Hx.
  apply Ha. apply (Permutation_in _ (Permutation_sym Hp)). assumption.
Qed.

Theorem threshold_correct powers N :
  Forall (fun p => 0 <= p) powers ->
  0 < sum_z powers -> sum_z powers < total_bound ->
  1 <= N <= 100 ->
  exists m, compute_min_power powers N = Some m
    /\ In m powers
    /\ N * sum_z powers <= 100 * sum_ge m powers
    /\ 100 * sum_gt m powers < N * sum_z powers.
Proof.
  intros Hnn Hpos Hb HN.
  unfold compute_min_power.
  destruct (Z.eqb_spec N 0) as [?|_]; [lia|].
  destruct (Z.ltb_spec 100 N) as [?|_]; [lia|]. cbn [orb].
  rewrite total_dec_sum.
  set (T := sum_z powers) in *.
  set (sorted := sort_desc zid powers).
  assert (Hperm : Permutation sorted powers) by apply sort_desc_perm.
  assert (Hsnn : Forall (fun p => 0 <= p) sorted) by (apply (Forall_perm _ _ _ (Permutation_sym Hperm)); assumption).
  pose proof (min_power_loop_spec T N sorted Hpos Hb Hsnn 0 ltac:(lia) ltac:(lia)) as Hloop.
  change (0 * P) with 0 in Hloop.
  destruct (min_power_loop (topn_threshold N) (T * P) 0 sorted) as [m|].
  - destruct Hloop as (l1 & l2 & Hsplit & Hge & Hlt).
    exists m. split; [reflexivity|].
    assert (Hdesc : desc zid sorted) by apply sort_desc_sorted.
    rewrite Hsplit in Hdesc. destruct (desc_split _ _ _ Hdesc) as [Hl1 Hl2].
    assert (Hnn1 : Forall (fun p => 0 <= p) l1 /\ 0 <= m /\ Forall (fun p => 0 <= p) l2).
    { rewrite Hsplit in Hsnn. apply Forall_app in Hsnn. destruct Hsnn as [Ha Hb'].
      inversion Hb'; subst. auto. }
    destruct Hnn1 as (Hnn1 & Hm & Hnn2).
    split.
    { apply (Permutation_in _ Hperm). rewrite Hsplit. apply in_or_app. right. left. reflexivity. }
    rewrite <- (sum_ge_perm m _ _ Hperm), <- (sum_gt_perm m _ _ Hperm), Hsplit.
    rewrite sum_ge_app, sum_gt_app. cbn [sum_ge sum_gt fold_right].
    fold (sum_ge m l2). fold (sum_gt m l2).
    rewrite (sum_ge_all m l1 Hl1), (sum_gt_none m l2 Hl2).
    rewrite Z.leb_refl, Z.ltb_irrefl.
    pose proof (sum_ge_nonneg m l2 Hnn2). pose proof (sum_gt_le_sum m l1 Hnn1).
    split; lia.
  - exfalso. rewrite (sum_z_perm _ _ Hperm) in Hloop. fold T in Hloop. nia.
Qed.

(* ------------------------------------------------------------------ records as sets *)

Lemma mem_In x l : mem x l = true <-> In x l.
Proof.
  unfold mem. rewrite existsb_exists. split.
  - intros (y & Hy & He). apply Z.eqb_eq in He. now subst.
  - intros H. exists x. split; [assumption|apply Z.eqb_refl].
Qed.

Lemma In_set_add v x l : In v (set_add x l) <-> v = x \/ In v l.
Proof.
  induction l as [|y t IH]; cbn [set_add].
  - simpl. intuition.
  - destruct (Z.ltb_spec x y) as [Hlt|Hge].
    + simpl. intuition.
    + destruct (Z.eqb_spec x y) as [->|Hne].
      * simpl. intuition.
      * simpl. rewrite IH. intuition.
Qed.

Lemma In_set_del v x l : In v (set_del x l) <-> v <> x /\ In v l.
Proof.
  unfold set_del. rewrite filter_In. split.
  - intros [Hin Hb]. split; [|assumption]. intros ->. rewrite Z.eqb_refl in Hb. discriminate.
  - intros [Hne Hin]. split; [assumption|]. destruct (Z.eqb_spec v x); [contradiction|reflexivity].
Qed.

Lemma In_opt_in_topn v active m o :
  In v (opt_in_topn active m o) <->
  In v o \/ exists a, In a active /\ bid a = v /\ m <= bpow a.
Proof.
  unfold opt_in_topn. revert o. induction active as [|a t IH]; intros o; cbn [fold_left].
  - split; [auto|]. intros [H|(a & [] & _)]. assumption.
  - rewrite IH. destruct (Z.leb_spec m (bpow a)) as [Hle|Hgt].
    + rewrite In_set_add. split.
      * intros [[->|H]|(b & Hb & He & Hm)].
        -- right. exists a. simpl. auto.
        -- auto.
        -- right. exists b. simpl. auto.
      * intros [H|(b & [<-|Hb] & He & Hm)].
        -- auto.
        -- left. left. auto.
        -- right. exists b. auto.
    + split.
      * intros [H|(b & Hb & He & Hm)]; [auto|]. right. exists b. simpl. auto.
      * intros [H|(b & [<-|Hb] & He & Hm)]; [auto|lia|]. right. exists b. auto.
Qed.

(* ------------------------------------------------------------------ HandleOptOut *)

Definition may_opt_out (s : state) (power : Z) : Prop :=
  launched s = true /\ (top_n s <= 0 \/ exists m, thr s = Some m /\ power < m).

Lemma opt_out_spec s v known power :
  let r := opt_out s v known power in
  (snd r = 0 <-> known = true /\ may_opt_out s power)
  /\ (snd r <> 0 -> fst r = s)
  /\ (snd r = 0 -> fst r = with_opted (set_del v (opted s)) s)
  /\ (known = true -> launched s = true -> 0 < top_n s -> thr s = None -> snd r = 3)
  /\ (known = true -> launched s = true -> 0 < top_n s ->
      forall m, thr s = Some m -> m <= power -> snd r = 4).
Proof.
  unfold opt_out, may_opt_out.
  destruct known; cbn [negb].
  2:{ cbn [fst snd]. repeat split; try discriminate; try tauto; intros; try lia; intuition discriminate. }
  destruct (launched s) eqn:Hl; cbn [negb].
  2:{ cbn [fst snd]. repeat split; try discriminate; try tauto; intros; try lia; intuition discriminate. }
  destruct (Z.ltb_spec 0 (top_n s)) as [Htop|Htop].
  - destruct (thr s) as [m|] eqn:Hthr.
    + destruct (Z.leb_spec m power) as [Hle|Hlt]; cbn [fst snd].
      * repeat split; try discriminate; try tauto; intros; try lia.
        -- destruct H as (_ & _ & [H|(m' & Hm' & Hp)]); [lia|]. injection Hm' as <-. lia.
      * repeat split; try discriminate; try tauto; intros; try lia.
        -- right. exists m. auto.
        -- injection H2 as <-. lia.
    + cbn [fst snd]. repeat split; try discriminate; try tauto; intros; try lia.
      destruct H as (_ & _ & [H|(m' & Hm' & _)]); [lia|discriminate].
  - cbn [fst snd]. repeat split; try discriminate; try tauto; intros; try lia.
Qed.

(* ------------------------------------------------------------------ ComputeConsumerNextValSet *)

Definition passes_filters (s : state) (b : bval) : Prop :=
  (allow s = [] \/ In (bid b) (allow s))
  /\ (deny s = [] \/ ~ In (bid b) (deny s))
  /\ (min_stake s = 0 \/ min_stake s <= btok b).

(* the staking oracle is well formed: the active validators are bonded validators and there are at
   most MaxProviderConsensusValidators of them *)
Definition oracle_ok (active bonded : list bval) (maxv : Z) : Prop :=
  incl active bonded /\ Z.of_nat (length active) <= maxv.

Lemma is_empty_true {A} (l : list A) : is_empty l = true <-> l = [].
Proof. destruct l; simpl; split; congruence. Qed.

Lemma candidates_active s active bonded maxv a :
  oracle_ok active bonded maxv -> In a active -> In a (candidates s active bonded maxv).
Proof.
  intros [Hincl Hlen] Ha. unfold candidates.
  destruct (allow_inactive s).
  - apply (Permutation_in _ (Permutation_sym (sort_desc_perm btok bonded))). apply Hincl, Ha.
  - rewrite sort_desc_length.
    destruct (Z.ltb_spec maxv (Z.of_nat (length active))) as [?|_]; [lia|].
    apply (Permutation_in _ (Permutation_sym (sort_desc_perm btok active))). exact Ha.
Qed.

Lemma firstn_incl {A} n (l : list A) x : In x (firstn n l) -> In x l.
Proof. intros H. rewrite <- (firstn_skipn n l). apply in_or_app. left. exact H. Qed.

Lemma candidates_sub s active bonded maxv b :
  In b (candidates s active bonded maxv) -> In b active \/ In b bonded.
Proof.
  unfold candidates. destruct (allow_inactive s).
  - intros H. right. apply (Permutation_in _ (sort_desc_perm btok bonded)), H.
  - destruct (maxv <? _); intros H; left.
    + apply firstn_incl in H. apply (Permutation_in _ (sort_desc_perm btok active)), H.
    + apply (Permutation_in _ (sort_desc_perm btok active)), H.
Qed.

(* what a successful ComputeConsumerNextValSet does on a Top-N consumer *)
Lemma compute_next_topn s active bonded maxv s' :
  0 < top_n s ->
  compute_next s active bonded maxv = Some s' ->
  exists m,
    compute_min_power (map bpow active) (top_n s) = Some m
    /\ thr s' = Some m
    /\ opted s' = opt_in_topn active m (opted s)
    /\ valset s' = next_validators s' active bonded maxv m
    /\ top_n s' = top_n s /\ launched s' = launched s
    /\ allow s' = allow s /\ deny s' = deny s /\ min_stake s' = min_stake s
    /\ allow_inactive s' = allow_inactive s.
Proof.
  intros Htop. unfold compute_next.
  destruct (Z.ltb_spec 0 (top_n s)) as [_|?]; [|lia].
  destruct (compute_min_power (map bpow active) (top_n s)) as [m|]; [|discriminate].
  intros [= <-]. exists m. cbn. repeat split; reflexivity.
Qed.

Lemma included_core s active bonded maxv s' :
  0 < top_n s ->
  compute_next s active bonded maxv = Some s' ->
  oracle_ok active bonded maxv ->
  exists m,
    compute_min_power (map bpow active) (top_n s) = Some m
    /\ thr s' = Some m
    /\ forall a, In a active -> m <= bpow a -> passes_filters s a ->
         In (bid a) (valset s') /\ In (bid a) (opted s').
Proof.
  intros Htop Hc Hor.
  destruct (compute_next_topn _ _ _ _ _ Htop Hc)
    as (m & Hm & Hthr & Hopt & Hvs & Htn & _ & Hal & Hdl & Hms & Hai).
  exists m. split; [assumption|]. split; [assumption|].
  intros a Ha Hpow (Hallow & Hdeny & Hstake).
  assert (Hrec : In (bid a) (opted s')).
  { rewrite Hopt. apply In_opt_in_topn. right. exists a. auto. }
  split; [|assumption].
  rewrite Hvs. unfold next_validators. apply in_map. apply filter_In. split.
  - apply candidates_active; assumption.
  - unfold can_validate, fulfills_min_stake. rewrite Hal, Hdl, Hms.
    apply andb_true_iff. split; [apply andb_true_iff; split; [apply andb_true_iff; split|]|].
    + apply orb_true_iff. left. apply mem_In, Hrec.
    + apply orb_true_iff. destruct Hallow as [->|Hin]; [left; reflexivity|right; apply mem_In, Hin].
    + apply orb_true_iff. destruct Hdeny as [->|Hnin]; [left; reflexivity|right].
      apply negb_true_iff. destruct (mem (bid a) (deny s)) eqn:E; [|reflexivity].
      apply mem_In in E. contradiction.
    + apply orb_true_iff. destruct Hstake as [->|Hle]; [left; reflexivity|right; apply Z.leb_le, Hle].
Qed.

(* members of the computed set below the threshold held an opt-in record before the epoch *)
Lemma below_core s active bonded maxv s' :
  0 < top_n s ->
  compute_next s active bonded maxv = Some s' ->
  exists m, thr s' = Some m /\
    forall v, In v (valset s') ->
      exists b, (In b active \/ In b bonded) /\ bid b = v /\
        (m <= bpow b \/ (In v (opted s) /\ In v (opted s')) \/
         exists a, In a active /\ bid a = v /\ m <= bpow a).
Proof.
  intros Htop Hc.
  destruct (compute_next_topn _ _ _ _ _ Htop Hc)
    as (m & Hm & Hthr & Hopt & Hvs & Htn & _).
  exists m. split; [assumption|]. intros v Hv.
  rewrite Hvs in Hv. unfold next_validators in Hv. apply in_map_iff in Hv.
  destruct Hv as (b & Hb & Hin). apply filter_In in Hin. destruct Hin as [Hcand Hok].
  exists b. split; [eapply candidates_sub; eassumption|]. split; [assumption|].
  unfold can_validate in Hok. repeat (apply andb_true_iff in Hok; destruct Hok as [Hok ?]).
  apply orb_true_iff in Hok. destruct Hok as [Hrec|Hpow].
  - apply mem_In in Hrec. rewrite Hb in Hrec. pose proof Hrec as Hrec'.
    rewrite Hopt in Hrec. apply In_opt_in_topn in Hrec.
    destruct Hrec as [Hold|Hauto]; [right; left; split; assumption|right; right; exact Hauto].
  - apply andb_true_iff in Hpow. destruct Hpow as [_ Hpow]. left. apply Z.leb_le, Hpow.
Qed.

Lemma epoch_ok s active bonded maxv s' :
  launched s = true -> step s (Epoch active bonded maxv) = (s', 0) ->
  compute_next s active bonded maxv = Some s'.
Proof.
  intros Hl. cbn [step]. unfold epoch. rewrite Hl. cbn [negb].
  destruct (compute_next s active bonded maxv) as [x|]; intros [= <-]; try reflexivity.
Qed.

Lemma launch_ok s active bonded maxv s' :
  step s (Launch active bonded maxv) = (s', 0) ->
  exists s1, compute_next s active bonded maxv = Some s1 /\ s' = with_launched s1 /\ launched s = false.
Proof.
  cbn [step]. unfold launch. destruct (launched s); [discriminate|].
  destruct (compute_next s active bonded maxv) as [x|]; [|discriminate].
  destruct (is_empty (valset x)); [discriminate|].
  destruct (negb _); [discriminate|].
  intros [= <-]. exists x. auto.
Qed.

(* an Epoch or a successful Launch *)
Definition recomputes (s : state) (o : op) (active bonded : list bval) (maxv : Z) : Prop :=
  (o = Epoch active bonded maxv /\ launched s = true) \/ o = Launch active bonded maxv.

Lemma recompute_next s o active bonded maxv s' :
  recomputes s o active bonded maxv -> step s o = (s', 0) ->
  exists s1, compute_next s active bonded maxv = Some s1
    /\ thr s' = thr s1 /\ opted s' = opted s1 /\ valset s' = valset s1.
Proof.
  intros [[-> Hl] | ->] Hstep.
  - exists s'. split; [eapply epoch_ok; eassumption|auto].
  - destruct (launch_ok _ _ _ _ _ Hstep) as (s1 & Hc & -> & _). exists s1. auto.
Qed.

Theorem included s o active bonded maxv s' :
  recomputes s o active bonded maxv -> 0 < top_n s ->
  step s o = (s', 0) ->
  oracle_ok active bonded maxv ->
  exists m,
    compute_min_power (map bpow active) (top_n s) = Some m
    /\ thr s' = Some m
    /\ forall a, In a active -> m <= bpow a -> passes_filters s a ->
         In (bid a) (valset s') /\ In (bid a) (opted s').
Proof.
  intros Hr Htop Hstep Hor.
  destruct (recompute_next _ _ _ _ _ _ Hr Hstep) as (s1 & Hc & Ht & Ho & Hv).
  destruct (included_core _ _ _ _ _ Htop Hc Hor) as (m & Hm & Hthr & Hall).
  exists m. rewrite Ht, Ho, Hv. auto.
Qed.

Theorem below_threshold s o active bonded maxv s' :
  recomputes s o active bonded maxv -> 0 < top_n s ->
  step s o = (s', 0) ->
  exists m, thr s' = Some m /\
    forall v, In v (valset s') ->
      exists b, (In b active \/ In b bonded) /\ bid b = v /\
        (m <= bpow b \/ (In v (opted s) /\ In v (opted s')) \/
         exists a, In a active /\ bid a = v /\ m <= bpow a).
Proof.
  intros Hr Htop Hstep.
  destruct (recompute_next _ _ _ _ _ _ Hr Hstep) as (s1 & Hc & Ht & Ho & Hv).
  destruct (below_core _ _ _ _ _ Htop Hc) as (m & Hthr & Hall).
  exists m. rewrite Ht, Ho, Hv. auto.
Qed.

(* ------------------------------------------------------------------ history of opt-in records *)

(* operation [o], executed in state [s], creates an opt-in record for [v]:
   a successful MsgOptIn of v, or an epoch / successful launch of a Top-N consumer at which v is an
   active validator with power at least the threshold computed at that moment *)
Definition grants (s : state) (o : op) (v : Z) : Prop :=
  match o with
  | OptIn v' known => v' = v /\ snd (step s o) = 0
  | Epoch active _ _ | Launch active _ _ =>
    snd (step s o) = 0 /\ (launched s = true \/ exists a b m, o = Launch a b m) /\ 0 < top_n s /\
    exists m a, compute_min_power (map bpow active) (top_n s) = Some m
                /\ In a active /\ bid a = v /\ m <= bpow a
  | _ => False
  end.

(* operation [o], executed in state [s], removes the record of [v]: a successful MsgOptOut of v *)
Definition revokes (s : state) (o : op) (v : Z) : Prop :=
  match o with
  | OptOut v' _ _ => v' = v /\ snd (step s o) = 0
  | _ => False
  end.

Lemma compute_next_optin s active bonded maxv s' :
  compute_next s active bonded maxv = Some s' ->
  forall v, In v (opted s') <->
    In v (opted s) \/
    (0 < top_n s /\ exists m a, compute_min_power (map bpow active) (top_n s) = Some m
                                /\ In a active /\ bid a = v /\ m <= bpow a).
Proof.
  intros Hc v. destruct (Z.ltb_spec 0 (top_n s)) as [Htop|Htop].
  - destruct (compute_next_topn _ _ _ _ _ Htop Hc) as (m & Hm & _ & Hopt & _).
    rewrite Hopt, In_opt_in_topn. split.
    + intros [H|(a & Ha & Hb & Hp)]; [auto|]. right. split; [assumption|]. exists m, a. auto.
    + intros [H|(_ & m' & a & Hm' & Ha & Hb & Hp)]; [auto|].
      rewrite Hm in Hm'. injection Hm' as <-. right. exists a. auto.
  - unfold compute_next in Hc. destruct (Z.ltb_spec 0 (top_n s)) as [?|_]; [lia|].
    injection Hc as <-. cbn. split; [auto|]. intros [H|[? _]]; [assumption|lia].
Qed.

Lemma step_opted s o v :
  In v (opted (fst (step s o))) <-> grants s o v \/ (In v (opted s) /\ ~ revokes s o v).
Proof.
  destruct o as [n al dl ms ai active|active bonded maxv|active bonded maxv|v' known|v' known power].
  - (* SetTopN never touches the records *)
    assert (Hsame : opted (fst (step s (SetTopN n al dl ms ai active))) = opted s).
    { cbn [step]. unfold set_top_n.
      destruct (negb (n =? 0) && ((n <? 50) || (100 <? n))); [reflexivity|].
      destruct (negb (n =? top_n s)); [|reflexivity].
      destruct (0 <? n); [|reflexivity].
      destruct (compute_min_power (map bpow active) n); reflexivity. }
    rewrite Hsame. cbn [grants revokes]. tauto.
  - (* Launch *)
    cbn [grants revokes].
    destruct (step s (Launch active bonded maxv)) as [s' c] eqn:Hstep. cbn [fst snd].
    destruct (Z.eq_dec c 0) as [->|Hc].
    + destruct (launch_ok _ _ _ _ _ Hstep) as (s1 & Hcn & -> & Hl).
      change (opted (with_launched s1)) with (opted s1).
      rewrite (compute_next_optin _ _ _ _ _ Hcn v). split.
      * intros [H|(Htop & m & a & H)]; [right; tauto|].
        left. split; [reflexivity|]. split; [right; eauto|]. split; [assumption|]. exists m, a. exact H.
      * intros [(_ & _ & Htop & m & a & H)|[H _]]; [right|left; assumption].
        split; [assumption|]. exists m, a. exact H.
    + assert (s' = s) as ->.
      { revert Hstep. cbn [step]. unfold launch. destruct (launched s); [intros [= <- _]; reflexivity|].
        destruct (compute_next s active bonded maxv) as [x|]; [|intros [= <- _]; reflexivity].
        destruct (is_empty (valset x)); [intros [= <- _]; reflexivity|].
        destruct (negb _); [intros [= <- _]; reflexivity|]. intros [= _ <-]. contradiction. }
      split; [intros H; right; tauto|]. intros [(H & _)|[H _]]; [contradiction|assumption].
  - (* Epoch *)
    cbn [grants revokes].
    destruct (step s (Epoch active bonded maxv)) as [s' c] eqn:Hstep. cbn [fst snd].
    revert Hstep. cbn [step]. unfold epoch.
    destruct (launched s) eqn:Hl; cbn [negb].
    + destruct (compute_next s active bonded maxv) as [x|] eqn:Hcn; intros [= <- <-].
      * rewrite (compute_next_optin _ _ _ _ _ Hcn v). split.
        -- intros [H|(Htop & m & a & H)]; [right; tauto|].
           left. split; [reflexivity|]. split; [left; reflexivity|]. split; [assumption|]. exists m, a. exact H.
        -- intros [(_ & _ & Htop & m & a & H)|[H _]]; [right|left; assumption].
           split; [assumption|]. exists m, a. exact H.
      * split; [intros H; right; tauto|]. intros [(H & _)|[H _]]; [discriminate|assumption].
    + intros [= <- <-]. split; [intros H; right; tauto|].
      intros [(_ & [H|(a & b & m & H)] & _)|[H _]]; [discriminate|discriminate|assumption].
  - (* OptIn *)
    cbn [grants revokes step]. unfold opt_in. destruct known; cbn [negb fst snd].
    + change (opted (with_opted (set_add v' (opted s)) s)) with (set_add v' (opted s)).
      rewrite In_set_add. split.
      * intros [->|H]; [left; auto|right; tauto].
      * intros [[-> _]|[H _]]; auto.
    + split; [intros H; right; tauto|]. intros [[_ H]|[H _]]; [discriminate|assumption].
  - (* OptOut *)
    cbn [grants revokes].
    pose proof (opt_out_spec s v' known power) as (Hiff & Hfail & Hok & _).
    cbn [step]. destruct (opt_out s v' known power) as [s' c]. cbn [fst snd] in *.
    destruct (Z.eq_dec c 0) as [->|Hc].
    + rewrite (Hok eq_refl). change (opted (with_opted (set_del v' (opted s)) s)) with (set_del v' (opted s)).
      rewrite In_set_del. split.
      * intros [Hne Hin]. right. split; [assumption|]. intros [-> _]. contradiction.
      * intros [[]|[Hin Hnr]]. split; [|assumption]. intros ->. apply Hnr. auto.
    + rewrite (Hfail Hc). split; [intros H; right; split; [assumption|]; intros [_ H']; contradiction|].
      intros [[]|[H _]]. assumption.
Qed.

Lemma exec_snoc ops o : exec (ops ++ [o]) = fst (step (exec ops) o).
Proof. unfold exec. rewrite fold_left_app. reflexivity. Qed.

Lemma snoc_cases {A} (l : list A) : l = [] \/ exists l' x, l = l' ++ [x].
Proof.
  induction l as [|a t IH] using rev_ind; [left; reflexivity|right]. exists t, a. reflexivity.
Qed.

(* v holds a record after [ops] iff some operation of the history created it and no later
   operation was a successful opt-out of v *)
Definition justified (ops : list op) (v : Z) : Prop :=
  exists pre o post, ops = pre ++ o :: post
    /\ grants (exec pre) o v
    /\ forall p1 o' p2, post = p1 ++ o' :: p2 -> ~ revokes (exec (pre ++ o :: p1)) o' v.

Theorem history ops v : In v (opted (exec ops)) <-> justified ops v.
Proof.
  induction ops as [|o ops IH] using rev_ind.
  - split; [intros []|]. intros (pre & o & post & H & _). destruct pre; discriminate.
  - rewrite exec_snoc, step_opted. split.
    + intros [Hg|[Hin Hnr]].
      * exists ops, o, []. split; [reflexivity|]. split; [assumption|].
        intros p1 o' p2 H. destruct p1; discriminate.
      * apply IH in Hin. destruct Hin as (pre & o0 & post & -> & Hg & Hpost).
        exists pre, o0, (post ++ [o]). split; [rewrite <- app_assoc; reflexivity|]. split; [assumption|].
        intros p1 o' p2 Hsplit.
        destruct (snoc_cases p2) as [->|(p2' & x & ->)].
        -- apply app_inj_tail in Hsplit. destruct Hsplit as [-> ->]. exact Hnr.
        -- rewrite app_comm_cons, app_assoc in Hsplit. apply app_inj_tail in Hsplit.
           destruct Hsplit as [-> _]. eapply Hpost. reflexivity.
    + intros (pre & o0 & post & Heq & Hg & Hpost).
      destruct (snoc_cases post) as [->|(post' & x & ->)].
      * apply app_inj_tail in Heq. destruct Heq as [-> ->]. left. exact Hg.
      * rewrite app_comm_cons, app_assoc in Heq. apply app_inj_tail in Heq. destruct Heq as [-> Hox].
        subst x. right. split.
        -- apply IH. exists pre, o0, post'. split; [reflexivity|]. split; [assumption|].
           intros p1 o' p2 ->. apply (Hpost p1 o' (p2 ++ [o])). rewrite <- app_assoc. reflexivity.
        -- apply (Hpost post' o []). reflexivity.
Qed.

(* ------------------------------------------------------------------ reachable states *)

Definition wf (s : state) : Prop :=
  (top_n s = 0 \/ 50 <= top_n s <= 100) /\ (0 < top_n s -> exists m, thr s = Some m).

Lemma compute_next_frame s active bonded maxv s' :
  compute_next s active bonded maxv = Some s' ->
  top_n s' = top_n s /\ (0 < top_n s -> exists m, thr s' = Some m) /\ (top_n s <= 0 -> thr s' = thr s).
Proof.
  intros Hc. destruct (Z.ltb_spec 0 (top_n s)) as [Htop|Htop].
  - destruct (compute_next_topn _ _ _ _ _ Htop Hc) as (m & _ & Ht & _ & _ & Hn & _).
    split; [assumption|]. split; [eauto|lia].
  - unfold compute_next in Hc. destruct (Z.ltb_spec 0 (top_n s)) as [?|_]; [lia|].
    injection Hc as <-. cbn. split; [reflexivity|]. split; [lia|reflexivity].
Qed.

Lemma step_wf s o : wf s -> wf (fst (step s o)).
Proof.
  intros [Hrange Hthr]. unfold wf.
  destruct o as [n al dl ms ai active|active bonded maxv|active bonded maxv|v' known|v' known power]; cbn [step].
  - unfold set_top_n.
    destruct (Z.eqb_spec n 0) as [->|Hn0]; cbn [negb andb].
    + destruct (Z.eqb_spec 0 (top_n s)) as [He|Hne]; cbn [negb fst].
      * cbn. split; [auto|lia].
      * cbn. split; [auto|lia].
    + destruct (Z.ltb_spec n 50) as [?|H50]; cbn [orb fst]; [auto|].
      destruct (Z.ltb_spec 100 n) as [?|H100]; cbn [fst]; [auto|].
      destruct (Z.eqb_spec n (top_n s)) as [He|Hne]; cbn [negb fst].
      * cbn. split; [right; lia|]. intros _. apply Hthr. lia.
      * destruct (Z.ltb_spec 0 n) as [_|?]; [|lia].
        destruct (compute_min_power (map bpow active) n) as [m|]; cbn; [|auto].
        split; [right; lia|eauto].
  - unfold launch. destruct (launched s); [cbn; auto|].
    destruct (compute_next s active bonded maxv) as [x|] eqn:Hc; [|cbn; auto].
    destruct (is_empty (valset x)); [cbn; auto|]. destruct (negb _); [cbn; auto|].
    destruct (compute_next_frame _ _ _ _ _ Hc) as (Hn & Hs & _). cbn. rewrite Hn. split; [assumption|].
    intros Htop. apply Hs. assumption.
  - unfold epoch. destruct (launched s); cbn [negb]; [|cbn; auto].
    destruct (compute_next s active bonded maxv) as [x|] eqn:Hc; [|cbn; auto].
    destruct (compute_next_frame _ _ _ _ _ Hc) as (Hn & Hs & _). cbn. rewrite Hn. split; [assumption|].
    intros Htop. apply Hs. assumption.
  - unfold opt_in. destruct known; cbn; auto.
  - pose proof (opt_out_spec s v' known power) as (_ & Hfail & Hok & _).
    destruct (opt_out s v' known power) as [s' c]. cbn [fst snd] in *.
    destruct (Z.eq_dec c 0) as [->|Hc]; [rewrite (Hok eq_refl); cbn; auto|rewrite (Hfail Hc); auto].
Qed.

Theorem exec_wf ops : wf (exec ops).
Proof.
  induction ops as [|o ops IH] using rev_ind.
  - cbn. split; [auto|]. cbn. lia.
  - rewrite exec_snoc. apply step_wf, IH.
Qed.

(* on reachable states the "minimum power not found" branch of HandleOptOut is dead *)
Theorem opt_out_reachable ops v known power :
  let s := exec ops in
  snd (step s (OptOut v known power)) = 0 <->
  known = true /\ launched s = true /\
  (top_n s = 0 \/ exists m, thr s = Some m /\ power < m).
Proof.
  intros s. pose proof (exec_wf ops) as [Hrange Hthr]. fold s in Hrange, Hthr.
  pose proof (opt_out_spec s v known power) as (Hiff & _). cbn [step].
  rewrite Hiff. unfold may_opt_out. split.
  - intros (Hk & Hl & [Hle|H]); repeat split; auto. left. lia.
  - intros (Hk & Hl & [He|H]); repeat split; auto. left. lia.
Qed.

(* ------------------------------------------------------------------ the precision bound is needed *)

(* total = 10^18 + 1 >= 2*10^16: the first validator alone holds 5*10^-19 less than 50 %, yet
   Quo rounds its share to exactly 0.5 and the function returns its power *)
Lemma rounding_witness :
  let powers := [500000000000000000; 250000000000000000; 250000000000000001] in
  compute_min_power powers 50 = Some 500000000000000000
  /\ 100 * sum_ge 500000000000000000 powers < 50 * sum_z powers
  /\ spec_min_power powers 50 = Some 250000000000000001.
Proof. vm_compute. repeat split; reflexivity. Qed.

(* ------------------------------------------------------------------ a concrete history (non-vacuity example of Props/C03.v) *)

Definition ex_vals : list bval := [mkB 0 100 100000000; mkB 2 40 40000000; mkB 1 30 30000000].
Definition ex_vals' : list bval := [mkB 2 40 40000000; mkB 1 30 30000000; mkB 0 20 20000000].
Definition ex_ops : list op :=
  [ OptIn 1 true; SetTopN 67 [] [] 0 false ex_vals; Launch ex_vals ex_vals 3;
    Epoch ex_vals' ex_vals' 3; OptOut 0 true 20; OptOut 2 true 40 ].

