(* Lemmas about the building blocks of Model/Lifecycle.v: consumer lookup/update, sorted sets, time queues. *)
From Coq Require Import ZArith List Bool Lia Permutation.
From ICS Require Import Base.Tree Model.Lifecycle.
Import ListNotations.
Open Scope Z_scope.

(* ------------------------------------------------------------------ get / upd *)

Lemma find_id : forall l c r, find (fun r => c_id r =? c) l = Some r -> c_id r = c /\ In r l.
Proof.
  induction l as [|x l IH]; simpl; intros c r H; [discriminate|].
  destruct (c_id x =? c) eqn:E.
  - inversion H; subst. split; [apply Z.eqb_eq; exact E | now left].
  - destruct (IH _ _ H) as [H1 H2]. split; [exact H1 | now right].
Qed.

Lemma get_id : forall s c r, get s c = Some r -> c_id r = c.
Proof. intros s c r H. exact (proj1 (find_id _ _ _ H)). Qed.

Lemma get_in : forall s c r, get s c = Some r -> In r (s_cons s).
Proof. intros s c r H. exact (proj2 (find_id _ _ _ H)). Qed.

Lemma find_upd_list : forall l c c' f,
  (forall r, c_id r = c -> c_id (f r) = c) ->
  find (fun r => c_id r =? c') (upd_list c f l) =
  if c =? c' then option_map f (find (fun r => c_id r =? c') l) else find (fun r => c_id r =? c') l.
Proof.
  induction l as [|x l IH]; intros c c' f Hf; simpl.
  - destruct (c =? c'); reflexivity.
  - destruct (c_id x =? c) eqn:E1.
    + apply Z.eqb_eq in E1. rewrite (Hf x E1).
      destruct (c =? c') eqn:E2.
      * apply Z.eqb_eq in E2. subst c'. rewrite E1, Z.eqb_refl. reflexivity.
      * rewrite E1, E2. rewrite IH by exact Hf. rewrite E2. reflexivity.
    + destruct (c =? c') eqn:E2.
      * apply Z.eqb_eq in E2. subst c'. rewrite E1. rewrite IH by exact Hf. rewrite Z.eqb_refl. reflexivity.
      * destruct (c_id x =? c') eqn:E3; [reflexivity|]. rewrite IH by exact Hf. rewrite E2. reflexivity.
Qed.

Lemma get_upd : forall s c c' f,
  (forall r, c_id r = c -> c_id (f r) = c) ->
  get (upd s c f) c' = if c =? c' then option_map f (get s c') else get s c'.
Proof. intros. unfold get, upd. simpl. apply find_upd_list. assumption. Qed.

Lemma get_upd_same : forall s c f r,
  (forall r, c_id r = c -> c_id (f r) = c) -> get s c = Some r -> get (upd s c f) c = Some (f r).
Proof. intros s c f r Hf H. rewrite get_upd by exact Hf. rewrite Z.eqb_refl, H. reflexivity. Qed.

Lemma get_upd_other : forall s c c' f,
  (forall r, c_id r = c -> c_id (f r) = c) -> c <> c' -> get (upd s c f) c' = get s c'.
Proof. intros s c c' f Hf H. rewrite get_upd by exact Hf. apply Z.eqb_neq in H. rewrite H. reflexivity. Qed.

Lemma upd_ids : forall l c f, (forall r, c_id r = c -> c_id (f r) = c) -> map c_id (upd_list c f l) = map c_id l.
Proof.
  induction l as [|x l IH]; intros c f Hf; simpl; [reflexivity|].
  rewrite IH by exact Hf. destruct (c_id x =? c) eqn:E; [|reflexivity].
  apply Z.eqb_eq in E. rewrite (Hf x E). rewrite E. reflexivity.
Qed.

Lemma upd_length : forall l c f, length (upd_list c f l) = length l.
Proof. intros. unfold upd_list. apply map_length. Qed.

(* the fields of an updated state *)
Lemma upd_fields : forall s c f,
  s_next (upd s c f) = s_next s /\ s_now (upd s c f) = s_now s /\
  s_spawnq (upd s c f) = s_spawnq s /\ s_remq (upd s c f) = s_remq s.
Proof. intros. unfold upd, set_cons. simpl. repeat split. Qed.

Lemma get_set_spawnq : forall s q c, get (set_spawnq q s) c = get s c.
Proof. reflexivity. Qed.
Lemma get_set_remq : forall s q c, get (set_remq q s) c = get s c.
Proof. reflexivity. Qed.
Lemma get_set_now : forall s t c, get (set_now t s) c = get s c.
Proof. reflexivity. Qed.

Lemma phase_of_get : forall s c r, get s c = Some r -> phase_of s c = c_phase r.
Proof. intros s c r H. unfold phase_of. rewrite H. reflexivity. Qed.

(* ------------------------------------------------------------------ zseq *)

Lemma zseq_length : forall n a, length (zseq a n) = n.
Proof. induction n; simpl; intros; [reflexivity | now rewrite IHn]. Qed.

Lemma zseq_in : forall n a x, In x (zseq a n) <-> a <= x < a + Z.of_nat n.
Proof.
  induction n as [|n IH]; intros a x; simpl.
  - split; [tauto | lia].
  - rewrite IH. lia.
Qed.

Lemma zseq_nodup : forall n a, NoDup (zseq a n).
Proof.
  induction n as [|n IH]; intros a; simpl; constructor; [|apply IH].
  rewrite zseq_in. lia.
Qed.

Lemma zseq_snoc : forall n a, zseq a (S n) = zseq a n ++ [a + Z.of_nat n].
Proof.
  induction n as [|n IH]; intros a.
  - simpl. f_equal. lia.
  - change (zseq a (S (S n))) with (a :: zseq (a + 1) (S n)). rewrite IH.
    simpl. do 2 f_equal. f_equal. lia.
Qed.

(* ------------------------------------------------------------------ occ / mem *)

Lemma occ_app : forall c l1 l2, occ c (l1 ++ l2) = (occ c l1 + occ c l2)%nat.
Proof. intros. unfold occ. rewrite filter_app, app_length. reflexivity. Qed.

Lemma occ_notin : forall c l, ~ In c l -> occ c l = 0%nat.
Proof.
  induction l as [|x l IH]; intros H; [reflexivity|].
  unfold occ in *. simpl. destruct (c =? x) eqn:E.
  - apply Z.eqb_eq in E. subst. exfalso. apply H. now left.
  - apply IH. intros Hin. apply H. now right.
Qed.

Lemma occ_in : forall c l, In c l -> (1 <= occ c l)%nat.
Proof.
  induction l as [|x l IH]; intros H; [destruct H|].
  unfold occ in *. simpl. destruct (c =? x) eqn:E; simpl; [lia|].
  destruct H as [H|H]; [subst; rewrite Z.eqb_refl in E; discriminate | apply IH; exact H].
Qed.

Lemma occ_nodup : forall c l, NoDup l -> In c l -> occ c l = 1%nat.
Proof.
  induction l as [|x l IH]; intros Hnd H; [destruct H|].
  inversion Hnd as [|? ? Hx Hnd']; subst.
  unfold occ in *. simpl. destruct (c =? x) eqn:E.
  - apply Z.eqb_eq in E. subst. simpl. f_equal. apply occ_notin. exact Hx.
  - destruct H as [H|H]; [subst; rewrite Z.eqb_refl in E; discriminate|]. apply IH; assumption.
Qed.

Lemma mem_in : forall c l, mem c l = true <-> In c l.
Proof.
  intros. unfold mem. rewrite existsb_exists. split.
  - intros [x [H1 H2]]. apply Z.eqb_eq in H2. subst. exact H1.
  - intros H. exists c. split; [exact H | apply Z.eqb_refl].
Qed.

(* ------------------------------------------------------------------ sorted sets *)

Lemma set_add_in : forall x y l, In y (set_add x l) <-> y = x \/ In y l.
Proof.
  induction l as [|z l IH]; simpl.
  - intuition.
  - destruct (x <? z) eqn:E1; simpl; [intuition|].
    destruct (x =? z) eqn:E2; simpl.
    + apply Z.eqb_eq in E2. subst. intuition.
    + rewrite IH. intuition.
Qed.

Lemma set_del_in : forall x y l, In y (set_del x l) <-> In y l /\ y <> x.
Proof.
  intros. unfold set_del. rewrite filter_In. rewrite negb_true_iff, Z.eqb_neq. tauto.
Qed.

(* ------------------------------------------------------------------ time queues *)

Fixpoint tq_sorted (q : tq) : Prop :=
  match q with
  | [] => True
  | (t, ids) :: r => ids <> [] /\ (forall e, In e r -> t < fst e) /\ tq_sorted r
  end.

Lemma all_ids_cons : forall t ids r, all_ids ((t, ids) :: r) = ids ++ all_ids r.
Proof. reflexivity. Qed.

Lemma tq_get_nokey : forall q ts, (forall e, In e q -> fst e <> ts) -> tq_get q ts = [].
Proof.
  induction q as [|[t ids] r IH]; intros ts H; simpl; [reflexivity|].
  destruct (t =? ts) eqn:E.
  - apply Z.eqb_eq in E. exfalso. apply (H (t, ids)); [now left | exact E].
  - apply IH. intros e He. apply H. now right.
Qed.

Lemma tq_get_in_all : forall q ts c, In c (tq_get q ts) -> In c (all_ids q).
Proof.
  induction q as [|[t ids] r IH]; simpl; intros ts c H; [destruct H|].
  rewrite all_ids_cons. apply in_or_app.
  destruct (t =? ts); [now left | right; eapply IH; exact H].
Qed.

Lemma in_all_tq_get : forall q c, tq_sorted q -> In c (all_ids q) -> exists ts, In c (tq_get q ts).
Proof.
  induction q as [|[t ids] r IH]; simpl; intros c Hs H; [destruct H|].
  destruct Hs as [_ [Hlt Hs]]. rewrite all_ids_cons in H. apply in_app_or in H. destruct H as [H|H].
  - exists t. rewrite Z.eqb_refl. exact H.
  - destruct (IH c Hs H) as [ts Hts]. exists ts.
    destruct (t =? ts) eqn:E; [|exact Hts].
    apply Z.eqb_eq in E. subst ts. exfalso.
    rewrite tq_get_nokey in Hts; [destruct Hts|]. intros e He. specialize (Hlt e He). lia.
Qed.

Lemma tq_get_entry : forall q t ids, tq_sorted q -> In (t, ids) q -> tq_get q t = ids.
Proof.
  induction q as [|[t' ids'] r IH]; simpl; intros t ids Hs H; [destruct H|].
  destruct Hs as [_ [Hlt Hs]]. destruct H as [H|H].
  - inversion H; subst. rewrite Z.eqb_refl. reflexivity.
  - destruct (t' =? t) eqn:E.
    + apply Z.eqb_eq in E. subst. specialize (Hlt _ H). simpl in Hlt. lia.
    + apply IH; assumption.
Qed.

(* --- append --- *)

Lemma tq_append_keys : forall q ts c e, In e (tq_append q ts c) -> fst e = ts \/ exists e', In e' q /\ fst e' = fst e.
Proof.
  induction q as [|[t ids] r IH]; simpl; intros ts c e H.
  - destruct H as [H|[]]. subst. now left.
  - destruct (ts <? t) eqn:E1.
    + destruct H as [H|H]; [subst; now left|]. right. exists e. split; [exact H | reflexivity].
    + destruct (ts =? t) eqn:E2.
      * destruct H as [H|H].
        -- subst. simpl. apply Z.eqb_eq in E2. now left.
        -- right. exists e. split; [now right | reflexivity].
      * destruct H as [H|H].
        -- subst. right. exists (t, ids). split; [now left | reflexivity].
        -- destruct (IH _ _ _ H) as [H'|[e' [H1 H2]]]; [now left|]. right. exists e'. split; [now right | exact H2].
Qed.

Lemma tq_append_sorted : forall q ts c, tq_sorted q -> tq_sorted (tq_append q ts c).
Proof.
  induction q as [|[t ids] r IH]; simpl; intros ts c Hs.
  - repeat split; [discriminate | intros e []].
  - destruct Hs as [Hne [Hlt Hs]].
    destruct (ts <? t) eqn:E1.
    + apply Z.ltb_lt in E1. simpl. repeat split; try assumption; [discriminate|].
      intros e [He|He]; [subst; simpl; exact E1 | specialize (Hlt e He); lia].
    + apply Z.ltb_ge in E1. destruct (ts =? t) eqn:E2.
      * simpl. repeat split; try assumption. intros Habs. apply app_eq_nil in Habs. destruct Habs; discriminate.
      * apply Z.eqb_neq in E2. simpl. repeat split; [exact Hne | | apply IH; exact Hs].
        intros e He. destruct (tq_append_keys _ _ _ _ He) as [H|[e' [H1 H2]]]; [lia|].
        rewrite <- H2. apply Hlt. exact H1.
Qed.

Lemma tq_append_get : forall q ts c ts', tq_sorted q ->
  tq_get (tq_append q ts c) ts' = if ts' =? ts then tq_get q ts ++ [c] else tq_get q ts'.
Proof.
  induction q as [|[t ids] r IH]; simpl; intros ts c ts' Hs.
  - rewrite (Z.eqb_sym ts ts'). destruct (ts' =? ts); reflexivity.
  - destruct Hs as [Hne [Hlt Hs]].
    destruct (ts <? t) eqn:E1.
    + apply Z.ltb_lt in E1. simpl. rewrite (Z.eqb_sym ts ts').
      destruct (ts' =? ts) eqn:E3.
      * apply Z.eqb_eq in E3. subst ts'.
        assert (t =? ts = false) as -> by (apply Z.eqb_neq; lia).
        rewrite tq_get_nokey; [reflexivity|]. intros e He. specialize (Hlt e He). lia.
      * reflexivity.
    + apply Z.ltb_ge in E1. destruct (ts =? t) eqn:E2.
      * apply Z.eqb_eq in E2. subst t. simpl. rewrite Z.eqb_refl.
        destruct (ts' =? ts) eqn:E3.
        -- apply Z.eqb_eq in E3. subst. rewrite Z.eqb_refl. reflexivity.
        -- rewrite (Z.eqb_sym ts ts'), E3. reflexivity.
      * simpl. rewrite IH by exact Hs.
        destruct (ts' =? ts) eqn:E3.
        -- apply Z.eqb_eq in E3. subst ts'. rewrite (Z.eqb_sym t ts), E2. reflexivity.
        -- reflexivity.
Qed.

Lemma tq_append_perm : forall q ts c, Permutation (all_ids (tq_append q ts c)) (c :: all_ids q).
Proof.
  induction q as [|[t ids] r IH]; simpl; intros ts c.
  - apply Permutation_refl.
  - destruct (ts <? t).
    + rewrite !all_ids_cons. simpl. apply Permutation_refl.
    + destruct (ts =? t).
      * rewrite !all_ids_cons. rewrite <- app_assoc. simpl.
        apply Permutation_sym. apply Permutation_middle.
      * rewrite !all_ids_cons. eapply Permutation_trans; [apply Permutation_app_head; apply IH|].
        apply Permutation_sym. apply Permutation_middle.
Qed.

(* --- remove --- *)

Lemma remove_first_perm : forall c l l', remove_first c l = Some l' -> Permutation l (c :: l').
Proof.
  induction l as [|x l IH]; simpl; intros l' H; [discriminate|].
  destruct (x =? c) eqn:E.
  - apply Z.eqb_eq in E. inversion H; subst. apply Permutation_refl.
  - destruct (remove_first c l) as [t'|] eqn:R; [|discriminate]. inversion H; subst.
    eapply Permutation_trans; [apply perm_skip; apply IH; reflexivity | apply perm_swap].
Qed.

Lemma remove_first_some : forall c l, In c l -> exists l', remove_first c l = Some l'.
Proof.
  induction l as [|x l IH]; simpl; intros H; [destruct H|].
  destruct (x =? c) eqn:E; [eexists; reflexivity|].
  destruct H as [H|H]; [subst; rewrite Z.eqb_refl in E; discriminate|].
  destruct (IH H) as [l' Hl']. rewrite Hl'. eexists; reflexivity.
Qed.

Lemma tq_remove_keys : forall q ts c q' e, tq_remove q ts c = Some q' -> In e q' -> exists e', In e' q /\ fst e' = fst e.
Proof.
  induction q as [|[t ids] r IH]; simpl; intros ts c q' e H He; [discriminate|].
  destruct (t =? ts).
  - destruct (remove_first c ids) as [[|y ids']|]; [| |discriminate]; inversion H; subst.
    + exists e. split; [now right | reflexivity].
    + destruct He as [He|He]; [subst; exists (t, ids); split; [now left | reflexivity]|].
      exists e. split; [now right | reflexivity].
  - destruct (tq_remove r ts c) as [r'|] eqn:R; [|discriminate]. inversion H; subst.
    destruct He as [He|He]; [subst; exists (t, ids); split; [now left | reflexivity]|].
    destruct (IH _ _ _ _ R He) as [e' [H1 H2]]. exists e'. split; [now right | exact H2].
Qed.

Lemma tq_remove_sorted : forall q ts c q', tq_sorted q -> tq_remove q ts c = Some q' -> tq_sorted q'.
Proof.
  induction q as [|[t ids] r IH]; simpl; intros ts c q' Hs H; [discriminate|].
  destruct Hs as [Hne [Hlt Hs]].
  destruct (t =? ts).
  - destruct (remove_first c ids) as [[|y ids']|]; [| |discriminate]; inversion H; subst.
    + exact Hs.
    + simpl. repeat split; [discriminate | exact Hlt | exact Hs].
  - destruct (tq_remove r ts c) as [r'|] eqn:R; [|discriminate]. inversion H; subst.
    simpl. repeat split; [exact Hne | | eapply IH; eassumption].
    intros e He. destruct (tq_remove_keys _ _ _ _ _ R He) as [e' [H1 H2]]. rewrite <- H2. apply Hlt. exact H1.
Qed.

Lemma tq_remove_perm : forall q ts c q', tq_remove q ts c = Some q' -> Permutation (all_ids q) (c :: all_ids q').
Proof.
  induction q as [|[t ids] r IH]; simpl; intros ts c q' H; [discriminate|].
  destruct (t =? ts).
  - destruct (remove_first c ids) as [ids'|] eqn:R; [|discriminate].
    assert (Hp := remove_first_perm _ _ _ R).
    rewrite all_ids_cons.
    destruct ids' as [|y ids']; injection H as Hq; subst q'.
    + apply (Permutation_app_tail (all_ids r)) in Hp. exact Hp.
    + rewrite all_ids_cons. apply (Permutation_app_tail (all_ids r)) in Hp. exact Hp.
  - destruct (tq_remove r ts c) as [r'|] eqn:R; [|discriminate]. inversion H; subst.
    rewrite !all_ids_cons. eapply Permutation_trans; [apply Permutation_app_head; eapply IH; exact R|].
    apply Permutation_sym. apply Permutation_middle.
Qed.

Lemma tq_remove_some : forall q ts c, In c (tq_get q ts) -> exists q', tq_remove q ts c = Some q'.
Proof.
  induction q as [|[t ids] r IH]; simpl; intros ts c H; [destruct H|].
  destruct (t =? ts).
  - destruct (remove_first_some _ _ H) as [l' Hl']. rewrite Hl'. destruct l'; eexists; reflexivity.
  - destruct (IH _ _ H) as [q' Hq']. rewrite Hq'. eexists; reflexivity.
Qed.

(* membership of another id is not affected by a removal *)
Lemma remove_first_other : forall c l l' x, remove_first c l = Some l' -> x <> c -> (In x l' <-> In x l).
Proof.
  induction l as [|y l IH]; simpl; intros l' x H Hx; [discriminate|].
  destruct (y =? c) eqn:E.
  - apply Z.eqb_eq in E. inversion H; subst. split; [now right | intros [H'|H']; [congruence | exact H']].
  - destruct (remove_first c l) as [t'|] eqn:R; [|discriminate]. inversion H; subst. simpl.
    rewrite (IH t' x eq_refl Hx). tauto.
Qed.

Lemma tq_remove_get_other : forall q ts c q' ts' x, tq_sorted q -> tq_remove q ts c = Some q' -> x <> c ->
  (In x (tq_get q' ts') <-> In x (tq_get q ts')).
Proof.
  induction q as [|[t ids] r IH]; simpl; intros ts c q' ts' x Hs H Hx; [discriminate|].
  destruct Hs as [Hne [Hlt Hs]].
  destruct (t =? ts) eqn:E.
  - apply Z.eqb_eq in E. subst t.
    destruct (remove_first c ids) as [ids'|] eqn:R; [|discriminate].
    destruct ids' as [|y ids']; inversion H; subst.
    + destruct (ts =? ts') eqn:E2.
      * apply Z.eqb_eq in E2. subst ts'.
        rewrite tq_get_nokey by (intros e He; specialize (Hlt e He); lia).
        rewrite <- (remove_first_other _ _ _ x R Hx). simpl. tauto.
      * tauto.
    + simpl. destruct (ts =? ts'); [apply (remove_first_other _ _ _ x R Hx) | tauto].
  - destruct (tq_remove r ts c) as [r'|] eqn:R; [|discriminate]. inversion H; subst. simpl.
    destruct (t =? ts'); [tauto | eapply IH; eassumption].
Qed.

(* with distinct ids, the removed id is gone *)
Lemma tq_remove_gone : forall q ts c q', NoDup (all_ids q) -> tq_remove q ts c = Some q' -> ~ In c (all_ids q').
Proof.
  intros q ts c q' Hnd H Hin.
  assert (Hp := tq_remove_perm _ _ _ _ H).
  assert (Hnd' : NoDup (c :: all_ids q')) by (eapply Permutation_NoDup; eassumption).
  inversion Hnd'; subst. contradiction.
Qed.

(* --- consume --- *)

Local Arguments firstn : simpl never.
Local Arguments skipn : simpl never.

Lemma due_cons : forall t ids r now, due ((t, ids) :: r) now = if t <=? now then ids ++ due r now else due r now.
Proof. intros. unfold due. simpl. destruct (t <=? now); reflexivity. Qed.

Lemma due_none : forall q now, (forall e, In e q -> now < fst e) -> due q now = [].
Proof.
  induction q as [|[t ids] r IH]; intros now H; [reflexivity|].
  rewrite due_cons. assert (t <=? now = false) as ->.
  { apply Z.leb_gt. apply (H (t, ids)). now left. }
  apply IH. intros e He. apply H. now right.
Qed.

Lemma due_all : forall q now, (forall e, In e q -> fst e <= now) -> due q now = all_ids q.
Proof.
  induction q as [|[t ids] r IH]; intros now H; [reflexivity|].
  rewrite due_cons, all_ids_cons. assert (t <=? now = true) as ->.
  { apply Z.leb_le. apply (H (t, ids)). now left. }
  f_equal. apply IH. intros e He. apply H. now right.
Qed.

(* the due ids are a prefix of all ids *)
Lemma due_prefix : forall q now, tq_sorted q -> exists rest, all_ids q = due q now ++ rest.
Proof.
  induction q as [|[t ids] r IH]; intros now Hs.
  - exists []. reflexivity.
  - destruct Hs as [_ [Hlt Hs]]. rewrite due_cons, all_ids_cons.
    destruct (t <=? now) eqn:E.
    + destruct (IH now Hs) as [rest Hr]. exists rest. rewrite Hr, app_assoc. reflexivity.
    + apply Z.leb_gt in E. rewrite due_none; [exists (ids ++ all_ids r); reflexivity|].
      intros e He. specialize (Hlt e He). lia.
Qed.

Lemma due_mono_prefix : forall q t1 t2, tq_sorted q -> t1 <= t2 -> exists rest, due q t2 = due q t1 ++ rest.
Proof.
  induction q as [|[t ids] r IH]; intros t1 t2 Hs Hle.
  - exists []. reflexivity.
  - destruct Hs as [_ [Hlt Hs]]. rewrite !due_cons.
    destruct (t <=? t1) eqn:E1.
    + apply Z.leb_le in E1. assert (t <=? t2 = true) as -> by (apply Z.leb_le; lia).
      destruct (IH t1 t2 Hs Hle) as [rest Hr]. exists rest. rewrite Hr, app_assoc. reflexivity.
    + apply Z.leb_gt in E1. rewrite (due_none r t1) by (intros e He; specialize (Hlt e He); lia).
      eexists. reflexivity.
Qed.

Lemma consume_split : forall q now n ids q', consume q now n = (ids, q') -> all_ids q = ids ++ all_ids q'.
Proof.
  induction q as [|[t l] r IH]; simpl; intros now n ids q' H.
  - inversion H; reflexivity.
  - destruct n as [|n]; [inversion H; reflexivity|].
    destruct (now <? t); [inversion H; reflexivity|].
    destruct (length l <=? S n)%nat.
    + destruct (consume r now (S n - length l)) as [res r'] eqn:C. inversion H; subst.
      rewrite all_ids_cons, (IH _ _ _ _ C), app_assoc. reflexivity.
    + inversion H; subst. rewrite !all_ids_cons. rewrite app_assoc. rewrite firstn_skipn. reflexivity.
Qed.

Lemma consume_firstn : forall q now n, tq_sorted q -> fst (consume q now n) = firstn n (due q now).
Proof.
  induction q as [|[t l] r IH]; simpl; intros now n Hs.
  - rewrite firstn_nil. reflexivity.
  - destruct Hs as [_ [Hlt Hs]]. rewrite due_cons.
    destruct n as [|n]; [reflexivity|].
    destruct (now <? t) eqn:E.
    + apply Z.ltb_lt in E. assert (t <=? now = false) as -> by (apply Z.leb_gt; lia).
      rewrite due_none by (intros e He; specialize (Hlt e He); lia). reflexivity.
    + apply Z.ltb_ge in E. assert (t <=? now = true) as -> by (apply Z.leb_le; lia).
      destruct (length l <=? S n)%nat eqn:E2.
      * apply Nat.leb_le in E2.
        destruct (consume r now (S n - length l)) as [res r'] eqn:C. simpl.
        rewrite firstn_app. rewrite firstn_all2 by exact E2. f_equal.
        specialize (IH now (S n - length l)%nat Hs). rewrite C in IH. exact IH.
      * apply Nat.leb_gt in E2. simpl fst. rewrite firstn_app.
        assert (S n - length l = 0)%nat as -> by lia. rewrite firstn_O, app_nil_r. reflexivity.
Qed.

Lemma consume_keys : forall q now n e, In e (snd (consume q now n)) -> exists e', In e' q /\ fst e' = fst e.
Proof.
  induction q as [|[t l] r IH]; simpl; intros now n e H; [destruct H|].
  destruct n as [|n]; [exists e; split; [exact H | reflexivity]|].
  destruct (now <? t); [exists e; split; [exact H | reflexivity]|].
  destruct (length l <=? S n)%nat.
  - destruct (consume r now (S n - length l)) as [res r'] eqn:C. simpl in H.
    specialize (IH now (S n - length l)%nat e). rewrite C in IH. destruct (IH H) as [e' [H1 H2]].
    exists e'. split; [now right | exact H2].
  - simpl in H. destruct H as [H|H]; [subst; exists (t, l); split; [now left | reflexivity]|].
    exists e. split; [now right | reflexivity].
Qed.

Lemma consume_sorted : forall q now n, tq_sorted q -> tq_sorted (snd (consume q now n)).
Proof.
  induction q as [|[t l] r IH]; simpl; intros now n Hs; [exact I|].
  destruct n as [|n]; [exact Hs|].
  destruct (now <? t); [exact Hs|].
  destruct Hs as [Hne [Hlt Hs]].
  destruct (length l <=? S n)%nat eqn:E2.
  - destruct (consume r now (S n - length l)) as [res r'] eqn:C. simpl.
    specialize (IH now (S n - length l)%nat Hs). rewrite C in IH. exact IH.
  - apply Nat.leb_gt in E2. simpl. repeat split; [|exact Hlt | exact Hs].
    intros Habs. assert (Hl := skipn_length (S n) l). rewrite Habs in Hl. simpl in Hl. lia.
Qed.

(* what is stored under a timestamp after consumption is part of what was stored before *)
Lemma consume_get_sub : forall q now n ts c, tq_sorted q -> In c (tq_get (snd (consume q now n)) ts) -> In c (tq_get q ts).
Proof.
  induction q as [|[t l] r IH]; simpl; intros now n ts c Hs H; [destruct H|].
  destruct n as [|n]; [exact H|].
  destruct (now <? t); [exact H|].
  destruct Hs as [Hne [Hlt Hs]].
  destruct (length l <=? S n)%nat.
  - destruct (consume r now (S n - length l)) as [res r'] eqn:C. simpl in H.
    specialize (IH now (S n - length l)%nat ts c Hs). rewrite C in IH. specialize (IH H).
    destruct (t =? ts) eqn:E; [|exact IH].
    apply Z.eqb_eq in E. subst ts. exfalso.
    rewrite tq_get_nokey in IH; [destruct IH|]. intros e He. specialize (Hlt e He). lia.
  - simpl in H. destruct (t =? ts); [|exact H].
    rewrite <- (firstn_skipn (S n) l). apply in_or_app. now right.
Qed.

(* an id stored before is either consumed or still stored under the same timestamp *)
Lemma consume_get_cases : forall q now n ts c, tq_sorted q -> In c (tq_get q ts) ->
  In c (fst (consume q now n)) \/ In c (tq_get (snd (consume q now n)) ts).
Proof.
  induction q as [|[t l] r IH]; simpl; intros now n ts c Hs H; [destruct H|].
  destruct n as [|n]; [right; exact H|].
  destruct (now <? t); [right; exact H|].
  destruct Hs as [Hne [Hlt Hs]].
  destruct (length l <=? S n)%nat.
  - destruct (consume r now (S n - length l)) as [res r'] eqn:C. simpl.
    destruct (t =? ts) eqn:E.
    + left. apply in_or_app. now left.
    + specialize (IH now (S n - length l)%nat ts c Hs H). rewrite C in IH. simpl in IH.
      destruct IH as [IH|IH]; [left; apply in_or_app; now right | right; exact IH].
  - simpl. destruct (t =? ts) eqn:E; [|right; exact H].
    rewrite <- (firstn_skipn (S n) l) in H. apply in_app_or in H. tauto.
Qed.

(* ids due at an earlier time T <= now: what remains due after the consumption is what was due minus the first n *)
Lemma consume_due : forall q now n T, tq_sorted q -> T <= now ->
  due (snd (consume q now n)) T = skipn n (due q T).
Proof.
  induction q as [|[t l] r IH]; simpl; intros now n T Hs Hle.
  - rewrite skipn_nil. reflexivity.
  - destruct Hs as [Hne [Hlt Hs]].
    destruct n as [|n]; [reflexivity|].
    destruct (now <? t) eqn:E.
    + apply Z.ltb_lt in E. simpl snd. rewrite due_cons.
      assert (t <=? T = false) as -> by (apply Z.leb_gt; lia).
      rewrite due_none by (intros e He; specialize (Hlt e He); lia). reflexivity.
    + apply Z.ltb_ge in E.
      destruct (length l <=? S n)%nat eqn:E2.
      * apply Nat.leb_le in E2.
        destruct (consume r now (S n - length l)) as [res r'] eqn:C. simpl snd.
        specialize (IH now (S n - length l)%nat T Hs Hle). rewrite C in IH. cbn [snd] in IH. rewrite IH.
        rewrite due_cons. destruct (t <=? T) eqn:E3.
        -- rewrite skipn_app. rewrite (@skipn_all2 _ (S n) l E2). reflexivity.
        -- apply Z.leb_gt in E3. rewrite due_none by (intros e He; specialize (Hlt e He); lia).
           rewrite !skipn_nil. reflexivity.
      * apply Nat.leb_gt in E2. simpl snd. rewrite !due_cons.
        destruct (t <=? T) eqn:E3.
        -- rewrite skipn_app. assert (S n - length l = 0)%nat as -> by lia. reflexivity.
        -- apply Z.leb_gt in E3. rewrite due_none by (intros e He; specialize (Hlt e He); lia).
           rewrite skipn_nil. reflexivity.
Qed.

Lemma consume_length : forall q now n, (length (fst (consume q now n)) <= n)%nat.
Proof.
  induction q as [|[t l] r IH]; simpl; intros now n; [lia|].
  destruct n as [|n]; [simpl; lia|].
  destruct (now <? t); [simpl; lia|].
  destruct (length l <=? S n)%nat eqn:E2.
  - apply Nat.leb_le in E2. destruct (consume r now (S n - length l)) as [res r'] eqn:C. simpl.
    rewrite app_length. specialize (IH now (S n - length l)%nat). rewrite C in IH. cbn [fst] in IH. lia.
  - cbn [fst]. rewrite firstn_length. lia.
Qed.

Lemma nodup_app_parts : forall (l1 l2 : list Z), NoDup (l1 ++ l2) ->
  NoDup l1 /\ NoDup l2 /\ (forall x, In x l1 -> In x l2 -> False).
Proof.
  induction l1 as [|a l1 IH]; simpl; intros l2 H.
  - split; [constructor|]. split; [exact H|]. intros x [].
  - inversion H as [|? ? Hna Hnd]; subst. destruct (IH _ Hnd) as (H1 & H2 & H3).
    split; [constructor; [intros Hin; apply Hna; apply in_or_app; now left | exact H1]|].
    split; [exact H2|]. intros x [Hx|Hx] Hx2.
    + subst. apply Hna. apply in_or_app. now right.
    + apply (H3 x); assumption.
Qed.

Lemma in_firstn : forall (n : nat) (l : list Z) x, In x (firstn n l) -> In x l.
Proof.
  induction n as [|n IH]; intros l x H; [destruct H|].
  destruct l as [|y l]; [destruct H|]. simpl in H. destruct H as [H|H]; [now left | right; apply IH; exact H].
Qed.

Lemma in_skipn : forall (n : nat) (l : list Z) x, In x (skipn n l) -> In x l.
Proof.
  induction n as [|n IH]; intros l x H; [exact H|].
  destruct l as [|y l]; [destruct H|]. simpl in H. right. apply IH. exact H.
Qed.
