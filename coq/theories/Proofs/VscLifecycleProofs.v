(* Lemmas about Model/VscLifecycle.v, the composition of Model/Lifecycle.v (many consumers) and Model/Vsc.v (one
   replication instance per consumer that has a client). *)
From Coq Require Import ZArith List Bool Lia Permutation Sorted.
From ICS Require Import Base.Tree.
From ICS Require Model.Lifecycle Model.Vsc.
From ICS Require Import Model.VscLifecycle.
From ICS Require Proofs.LifecycleBase Proofs.LifecycleInv Proofs.LifecycleSteps Proofs.LifecycleC10 Proofs.LifecycleC11
  Proofs.LifecycleC19 Proofs.VscMaps Proofs.VscProofs Proofs.VscIds.
Import ListNotations.
Open Scope Z_scope.

Module LB := ICS.Proofs.LifecycleBase.
Module LI := ICS.Proofs.LifecycleInv.
Module LS := ICS.Proofs.LifecycleSteps.
Module LC10 := ICS.Proofs.LifecycleC10.
Module LC11 := ICS.Proofs.LifecycleC11.
Module LC19 := ICS.Proofs.LifecycleC19.
Module VM := ICS.Proofs.VscMaps.
Module VP := ICS.Proofs.VscProofs.
Module VI := ICS.Proofs.VscIds.

(* ---------- well-formed oracle values ---------- *)
Definition wf_sop (o : sop) : Prop :=
  match o with
  | SBegin _ ora => Forall (fun e => VM.pos_set (la_set (snd e))) ora
  | SEnd _ _ ora => Forall (fun e => VM.pos_set (vo_next (snd e))) ora
  | _ => True
  end.

Lemma lookup_forall {A} (P : A -> Prop) d (l : list (Z * A)) c :
  P d -> Forall (fun e => P (snd e)) l -> P (L.lookup d l c).
Proof.
  intros Hd Hl. induction l as [|[k a] t IH]; simpl; [exact Hd|].
  inversion Hl; subst. destruct (k =? c); [assumption|]. now apply IH.
Qed.

(* ---------- instance lookup through the list operations ---------- *)
Lemma inst_map (f : Z -> V.state -> V.state) l c :
  inst_of (map (fun x => (fst x, f (fst x) (snd x))) l) c = option_map (f c) (inst_of l c).
Proof.
  induction l as [|[k v] t IH]; simpl; [reflexivity|].
  destruct (Z.eqb_spec k c) as [->|Hne]; [reflexivity|exact IH].
Qed.

Lemma inst_filter (p : Z -> bool) l c :
  inst_of (filter (fun e => p (fst e)) l) c = if p c then inst_of l c else None.
Proof.
  induction l as [|[k v] t IH]; simpl.
  - destruct (p c); reflexivity.
  - destruct (p k) eqn:Pk; simpl.
    + destruct (Z.eqb_spec k c) as [->|Hne]; [rewrite Pk; reflexivity|exact IH].
    + destruct (Z.eqb_spec k c) as [->|Hne]; [rewrite IH, Pk; reflexivity|exact IH].
Qed.

Lemma inst_sync l insts c :
  inst_of (sync l insts) c = if alive l c then option_map (sync1 l c) (inst_of insts c) else None.
Proof.
  unfold sync. rewrite (inst_map (sync1 l)). rewrite (inst_filter (alive l)). destruct (alive l c); reflexivity.
Qed.

Lemma inst_app a b c : inst_of (a ++ b) c = match inst_of a c with Some v => Some v | None => inst_of b c end.
Proof.
  induction a as [|[k v] t IH]; simpl; [reflexivity|]. destruct (k =? c); [reflexivity|exact IH].
Qed.

Lemma inst_cons_map c0 o l c :
  inst_of (map (fun x : Z * V.state => if fst x =? c0 then (fst x, V.step (snd x) o) else x) l) c =
  option_map (fun v => if c =? c0 then V.step v o else v) (inst_of l c).
Proof.
  induction l as [|[k v] t IH]; simpl; [reflexivity|].
  destruct (Z.eqb_spec k c0) as [->|Hk]; simpl.
  - destruct (Z.eqb_spec c0 c) as [->|Hne]; [rewrite Z.eqb_refl; reflexivity|exact IH].
  - destruct (Z.eqb_spec k c) as [->|Hne]; [|exact IH].
    destruct (Z.eqb_spec c c0); [contradiction|reflexivity].
Qed.

(* ---------- the Lifecycle component is a Lifecycle run ---------- *)
Fixpoint ltrace (U : Z) (s : sys) (ops : list sop) : list L.op :=
  match ops with
  | [] => []
  | o :: t => lop s o :: ltrace U (sys_step U s o) t
  end.

Lemma lc_step U s o : lc (sys_step U s o) = L.step U (lc s) (lop s o).
Proof. destruct o; reflexivity. Qed.

Lemma lc_run U ops s : lc (run_sys U s ops) = fold_left (L.step U) (ltrace U s ops) (lc s).
Proof.
  revert s. induction ops as [|o t IH]; intros s; [reflexivity|].
  simpl. rewrite IH, lc_step. reflexivity.
Qed.

Lemma ltrace_app U ops1 ops2 s :
  ltrace U s (ops1 ++ ops2) = ltrace U s ops1 ++ ltrace U (run_sys U s ops1) ops2.
Proof.
  revert s. induction ops1 as [|o t IH]; intros s; [reflexivity|]. simpl. now rewrite IH.
Qed.

Lemma run_app U ops1 ops2 s : run_sys U s (ops1 ++ ops2) = run_sys U (run_sys U s ops1) ops2.
Proof. unfold run_sys. apply fold_left_app. Qed.

Definition reached (U h vid : Z) (m0 : V.kmap) (ops : list sop) : sys := run_sys U (sys_init h vid m0) ops.

Lemma lc_reached U h vid m0 ops :
  lc (reached U h vid m0 ops) = L.reach U (ltrace U (sys_init h vid m0) ops).
Proof. unfold reached. rewrite lc_run. reflexivity. Qed.

Lemma lc_inv U h vid m0 ops : LI.inv (lc (reached U h vid m0 ops)).
Proof. rewrite lc_reached. apply LC10.reach_inv. Qed.

(* ---------- every instance is a run of Model/Vsc.v on well-formed oracle values ---------- *)
Definition traced (v : V.state) : Prop :=
  exists ph vid m0 l0 ch vops, 1 <= vid /\ VM.pos_set l0 /\ Forall VP.wf_op vops /\
    v = V.run_ops (V.init_state ph vid m0 l0 ch) vops.

Lemma traced_step v o : traced v -> VP.wf_op o -> traced (V.step v o).
Proof.
  intros (ph & vid & m0 & l0 & ch & vops & Hv & Hp & Hw & ->) Ho.
  exists ph, vid, m0, l0, ch, (vops ++ [o]). split; [assumption|]. split; [assumption|]. split.
  - apply Forall_app. split; [assumption|]. constructor; [assumption|constructor].
  - unfold V.run_ops. rewrite fold_left_app. reflexivity.
Qed.

Lemma traced_inv v : traced v -> VP.inv v.
Proof. intros (ph & vid & m0 & l0 & ch & vops & Hv & Hp & Hw & ->). now apply VP.inv_reach. Qed.

Lemma traced_sync1 l c v : traced v -> traced (sync1 l c v).
Proof.
  intros Ht. unfold sync1. destruct (L.get l c) as [r|]; [|assumption].
  set (v1 := if L.p_channel (L.c_proto r) && negb (V.p_chan v) then V.step v V.ChanOpen else v).
  assert (H1 : traced v1).
  { unfold v1. destruct (L.p_channel (L.c_proto r) && negb (V.p_chan v)); [apply traced_step; [assumption|exact I]|assumption]. }
  destruct (negb (L.c_phase r =? 3) && V.p_launched v1); [apply traced_step; [assumption|exact I]|assumption].
Qed.

Lemma wf_mode_res m : VP.wf_res (mode_res m).
Proof. unfold mode_res. destruct (m =? 0); [exact I|]. destruct (m =? 1); [reflexivity|exact I]. Qed.

Lemma wf_cons_op o : VP.wf_op (cons_op o).
Proof. destruct o; exact I. Qed.

Definition ginv (s : sys) : Prop := 1 <= g_vscid s /\ Forall (fun e => traced (snd e)) (vs s).

Lemma forall_sync l insts : Forall (fun e => traced (snd e)) insts -> Forall (fun e : Z * V.state => traced (snd e)) (sync l insts).
Proof.
  intros H. unfold sync. rewrite Forall_map. simpl.
  rewrite Forall_forall in *. intros e He. apply filter_In in He. destruct He as [He _].
  apply traced_sync1. now apply H.
Qed.

Lemma ginv_step U s o : wf_sop o -> ginv s -> ginv (sys_step U s o).
Proof.
  intros Hw [Hv Ht]. destruct o as [lo|now ora|e order ora|c vo]; simpl.
  - split; [assumption|]. now apply forall_sync.
  - split; [assumption|]. unfold spawn. apply Forall_app. split; [now apply forall_sync|].
    rewrite Forall_forall. intros e He. apply in_flat_map in He. destruct He as [r [_ He]].
    destruct (_ && _ && _); [|contradiction]. destruct He as [<-|[]]. simpl.
    apply traced_sync1. exists (g_height s), (g_vscid s), (g_vsc2h s), (la_set (L.lookup no_launch ora (L.c_id r))),
      (la_ch (L.lookup no_launch ora (L.c_id r))), []. split; [assumption|]. split.
    + apply (lookup_forall (fun la => VM.pos_set (la_set la))); [constructor|exact Hw].
    + split; [constructor|reflexivity].
  - split; [cbn [g_vscid]; destruct e; lia|]. cbn [vs]. apply forall_sync. rewrite Forall_map. simpl.
    eapply Forall_impl; [|exact Ht]. simpl. intros x Hx. apply (traced_step (snd x) (vop e ora (fst x))); [assumption|].
    unfold vop. split; [|apply wf_mode_res].
    apply (lookup_forall (fun o => VM.pos_set (vo_next o))); [constructor|exact Hw].
  - split; [assumption|]. cbn [vs]. rewrite Forall_map. eapply Forall_impl; [|exact Ht]. cbn beta. intros x Hx.
    destruct (fst x =? c); [|assumption]. cbn [snd]. apply traced_step; [assumption|apply wf_cons_op].
Qed.

Lemma ginv_run U ops s : Forall wf_sop ops -> ginv s -> ginv (run_sys U s ops).
Proof.
  revert s. induction ops as [|o t IH]; intros s Hw H; [assumption|].
  inversion Hw; subst. simpl. apply IH; [assumption|]. now apply ginv_step.
Qed.

Lemma inst_in l c v : inst_of l c = Some v -> In (c, v) l.
Proof.
  induction l as [|[k w] t IH]; simpl; [discriminate|].
  destruct (Z.eqb_spec k c) as [->|]; [intros H; inversion H; now left|intros H; right; now apply IH].
Qed.

Lemma ginv_reached U h vid m0 ops : 1 <= vid -> Forall wf_sop ops -> ginv (reached U h vid m0 ops).
Proof. intros Hv Hw. apply ginv_run; [assumption|]. split; [exact Hv|constructor]. Qed.

Theorem instance_traced U h vid m0 ops c v : 1 <= vid -> Forall wf_sop ops ->
  inst (reached U h vid m0 ops) c = Some v -> traced v.
Proof.
  intros Hv Hw Hi. destruct (ginv_reached U h vid m0 ops Hv Hw) as [_ Ht].
  rewrite Forall_forall in Ht. apply (Ht (c, v)). now apply inst_in.
Qed.

(* ---------- an instance that is not launched is frozen ---------- *)
Definition handed (v : V.state) : list V.packet := V.g_deliv v ++ V.inflight v.
Definition frozen (v0 v : V.state) : Prop :=
  V.p_launched v = false /\ V.g_prod v = V.g_prod v0 /\ V.g_prodh v = V.g_prodh v0 /\
  V.p_pending v = V.p_pending v0 /\ handed v = handed v0.

Lemma frozen_refl v : V.p_launched v = false -> frozen v v.
Proof. intros H. repeat split; assumption || reflexivity. Qed.

Lemma frozen_trans a b c : frozen a b -> frozen b c -> frozen a c.
Proof. intros (A1 & A2 & A3 & A4 & A5) (B1 & B2 & B3 & B4 & B5). repeat split; congruence. Qed.

Lemma frozen_step v o : VP.inv v -> V.p_launched v = false -> frozen v (V.step v o).
Proof.
  intros Hi Hl. destruct o as [e next r| | | | | | h | id]; simpl; try (now apply frozen_refl).
  - unfold V.p_end_block. unfold frozen, handed. destruct e; simpl.
    + unfold V.send, V.queue. simpl. rewrite Hl. simpl. repeat split; reflexivity || assumption.
    + repeat split; reflexivity || assumption.
  - unfold V.chan_open. destruct (V.p_chan v); [now apply frozen_refl|].
    unfold frozen, handed. simpl. repeat split; reflexivity || assumption.
  - unfold V.deliver. destruct (V.c_inblock v); simpl; [|now apply frozen_refl].
    destruct (V.inflight v) as [|p fl] eqn:EF; [now apply frozen_refl|].
    destruct (VP.i_flow v Hi) as [rest [Hp _]]. rewrite EF in Hp.
    assert (Hin : In p (V.g_prod v)). { rewrite Hp. apply in_or_app. right. now left. }
    pose proof (VP.i_ids_lo v Hi) as Hlo. rewrite Forall_forall in Hlo. specialize (Hlo _ Hin).
    destruct (Z.eqb_spec (V.pid p) 0) as [E0|_]; [lia|].
    unfold frozen, handed. simpl. rewrite EF. repeat split; try reflexivity; try assumption.
    rewrite <- app_assoc. reflexivity.
  - unfold V.c_begin_block. destruct (V.c_inblock v); [now apply frozen_refl|].
    unfold frozen, handed. simpl. repeat split; reflexivity || assumption.
  - unfold V.c_end_block. destruct (V.c_inblock v); simpl; [|now apply frozen_refl].
    destruct (match V.c_pending v with Some ch0 => V.apply_cc ch0 (V.c_ccvals v) | None => (V.c_ccvals v, []) end).
    unfold frozen, handed. simpl. repeat split; reflexivity || assumption.
  - unfold frozen, handed. simpl. repeat split; reflexivity.
Qed.

Lemma frozen_sync1 l c v : traced v -> V.p_launched v = false -> frozen v (sync1 l c v).
Proof.
  intros Ht Hl. unfold sync1. destruct (L.get l c) as [r|]; [|now apply frozen_refl].
  set (v1 := if L.p_channel (L.c_proto r) && negb (V.p_chan v) then V.step v V.ChanOpen else v).
  assert (F1 : frozen v v1).
  { unfold v1. destruct (L.p_channel (L.c_proto r) && negb (V.p_chan v));
      [apply frozen_step; [now apply traced_inv|assumption]|now apply frozen_refl]. }
  assert (T1 : traced v1).
  { unfold v1. destruct (L.p_channel (L.c_proto r) && negb (V.p_chan v)); [apply traced_step; [assumption|exact I]|assumption]. }
  destruct (negb (L.c_phase r =? 3) && V.p_launched v1); [|exact F1].
  eapply frozen_trans; [exact F1|]. apply frozen_step; [now apply traced_inv|]. apply F1.
Qed.

(* ---------- by construction: a launched instance belongs to a launched consumer; instances only of alive ones ---------- *)
Definition synced (s : sys) : Prop :=
  forall c v, inst s c = Some v -> alive (lc s) c = true /\ (V.p_launched v = true -> L.phase_of (lc s) c = 3).

Lemma launched_chan_open v : V.p_launched (V.step v V.ChanOpen) = V.p_launched v.
Proof. simpl. unfold V.chan_open. destruct (V.p_chan v); reflexivity. Qed.

Lemma sync1_launched l c v : alive l c = true -> V.p_launched (sync1 l c v) = true -> L.phase_of l c = 3.
Proof.
  unfold alive, sync1, L.phase_of. destruct (L.get l c) as [r|] eqn:G; [|simpl; discriminate].
  intros _.
  set (v1 := if L.p_channel (L.c_proto r) && negb (V.p_chan v) then V.step v V.ChanOpen else v).
  destruct (Z.eqb_spec (L.c_phase r) 3) as [E|E]; simpl; [intros _; exact E|].
  destruct (V.p_launched v1) eqn:E1; simpl; [discriminate|]. rewrite E1. discriminate.
Qed.

Lemma find_unique (l : list L.consumer) r :
  NoDup (map L.c_id l) -> In r l -> find (fun x => L.c_id x =? L.c_id r) l = Some r.
Proof.
  induction l as [|x t IH]; simpl; intros Hnd Hin; [contradiction|].
  inversion Hnd as [|? ? Hni Hndt]; subst. destruct Hin as [->|Hin].
  - rewrite Z.eqb_refl. reflexivity.
  - destruct (Z.eqb_spec (L.c_id x) (L.c_id r)) as [E|_]; [|now apply IH].
    exfalso. apply Hni. rewrite E. now apply in_map.
Qed.

Lemma get_of_in l r : LI.inv l -> In r (L.s_cons l) -> L.get l (L.c_id r) = Some r.
Proof.
  intros Hi Hin. unfold L.get. apply find_unique; [|assumption].
  rewrite (LI.io_ids _ _ Hi). apply LB.zseq_nodup.
Qed.

Lemma step_nop U l : L.step U l L.ONop = l.
Proof. reflexivity. Qed.

Lemma launched_cons_op v o : V.p_launched (V.step v (cons_op o)) = V.p_launched v.
Proof.
  destruct o; simpl; try reflexivity.
  - unfold V.deliver. destruct (V.c_inblock v); simpl; [|reflexivity]. destruct (V.inflight v); [reflexivity|].
    destruct (V.pid p =? 0); reflexivity.
  - unfold V.c_begin_block. destruct (V.c_inblock v); reflexivity.
  - unfold V.c_end_block. destruct (V.c_inblock v); simpl; [|reflexivity].
    destruct (match V.c_pending v with Some ch0 => V.apply_cc ch0 (V.c_ccvals v) | None => (V.c_ccvals v, []) end). reflexivity.
Qed.

Lemma spawn_inst s l ora insts c v :
  inst_of (spawn s l ora insts) c = Some v ->
  inst_of insts c = Some v \/
  (inst_of insts c = None /\ exists r, In r (L.s_cons l) /\ L.c_id r = c /\ L.c_phase r = 3 /\
     L.phase_of (lc s) c <> 3 /\
     v = sync1 l c (V.init_state (g_height s) (g_vscid s) (g_vsc2h s) (la_set (L.lookup no_launch ora c))
                                 (la_ch (L.lookup no_launch ora c)))).
Proof.
  unfold spawn. rewrite inst_app. destruct (inst_of insts c) as [w|] eqn:E; [intros H; now left|].
  intros H. right. split; [reflexivity|]. apply inst_in in H. apply in_flat_map in H.
  destruct H as [r [Hin He]].
  destruct (Z.eqb_spec (L.c_phase r) 3) as [E3|]; simpl in He; [|contradiction].
  destruct (Z.eqb_spec (L.phase_of (lc s) (L.c_id r)) 3) as [|E4]; simpl in He; [contradiction|].
  destruct (inst_of insts (L.c_id r)); simpl in He; [contradiction|].
  destruct He as [He|[]]. inversion He; subst. exists r. repeat split; assumption || reflexivity.
Qed.

Lemma synced_step U s o : LI.inv (lc s) -> synced s -> synced (sys_step U s o).
Proof.
  intros Hi Hs c v'. unfold inst.
  assert (Hi' : LI.inv (lc (sys_step U s o))) by (rewrite lc_step; now apply LI.inv_step).
  destruct o as [lo|now ora|e order ora|c0 vo]; cbn [sys_step vs lc].
  - rewrite inst_sync. destruct (alive _ c) eqn:EA; [|discriminate].
    destruct (inst_of (vs s) c) as [v|]; simpl; [|discriminate]. intros H. inversion H; subst.
    split; [reflexivity|]. now apply sync1_launched.
  - intros H. apply spawn_inst in H. destruct H as [H|[_ (r & Hin & Hid & H3 & _ & ->)]].
    + rewrite inst_sync in H. destruct (alive _ c) eqn:EA; [|discriminate].
      destruct (inst_of (vs s) c) as [v|]; simpl in H; [|discriminate]. inversion H; subst.
      split; [reflexivity|]. now apply sync1_launched.
    + set (l' := L.step U (lc s) (lop s (SBegin now ora))) in *.
      assert (Hg : L.get l' c = Some r).
      { rewrite <- Hid. apply get_of_in; [|assumption]. change l' with (lc (sys_step U s (SBegin now ora))). exact Hi'. }
      assert (Ha : alive l' c = true).
      { unfold alive, L.phase_of. rewrite Hg, H3. reflexivity. }
      split; [exact Ha|]. now apply sync1_launched.
  - rewrite inst_sync. destruct (alive _ c) eqn:EA; [|discriminate].
    rewrite (inst_map (fun k w => V.step w (vop e ora k))).
    destruct (inst_of (vs s) c) as [v|]; simpl; [|discriminate]. intros H. inversion H; subst.
    split; [reflexivity|]. now apply sync1_launched.
  - rewrite inst_cons_map. destruct (inst_of (vs s) c) as [v|] eqn:E; simpl; [|discriminate].
    intros H. inversion H; subst. destruct (Hs c v E) as [Ha Hl]. simpl lop. rewrite step_nop.
    split; [exact Ha|]. destruct (c =? c0); [rewrite launched_cons_op|]; exact Hl.
Qed.

Lemma reached_snoc U h vid m0 ops o : reached U h vid m0 (ops ++ [o]) = sys_step U (reached U h vid m0 ops) o.
Proof. unfold reached. rewrite run_app. reflexivity. Qed.

Lemma synced_reached U h vid m0 ops : synced (reached U h vid m0 ops).
Proof.
  induction ops as [|o t IH] using rev_ind.
  - intros c v H. discriminate.
  - rewrite reached_snoc. apply synced_step; [apply lc_inv|exact IH].
Qed.

(* instances exist only for launched / stopped consumers *)
Theorem instance_alive U h vid m0 ops c v :
  inst (reached U h vid m0 ops) c = Some v ->
  (L.phase_of (lc (reached U h vid m0 ops)) c = 3 \/ L.phase_of (lc (reached U h vid m0 ops)) c = 4) /\
  (V.p_launched v = true -> L.phase_of (lc (reached U h vid m0 ops)) c = 3).
Proof.
  intros H. destruct (synced_reached U h vid m0 ops c v H) as [Ha Hl]. split; [|exact Hl].
  unfold alive in Ha. apply orb_true_iff in Ha. destruct Ha as [Ha|Ha]; apply Z.eqb_eq in Ha; auto.
Qed.

(* ---------- no packets after the stop ---------- *)
Lemma stopped_step U h vid m0 ops o c : 1 <= vid -> Forall wf_sop ops -> wf_sop o ->
  let s := reached U h vid m0 ops in
  4 <= L.phase_of (lc s) c ->
  4 <= L.phase_of (lc (sys_step U s o)) c /\
  match inst (sys_step U s o) c with
  | None => True
  | Some v' => exists v, inst s c = Some v /\ frozen v v'
  end.
Proof.
  intros Hv Hw Hwo s Hp.
  assert (Hphase : 4 <= L.phase_of (lc (sys_step U s o)) c).
  { rewrite lc_step. unfold s in *. rewrite lc_reached. rewrite lc_reached in Hp.
    unfold L.phase_of in Hp. destruct (L.get _ c) as [r|] eqn:G; [|lia].
    destruct (LC11.c11_no_packets_step U _ (lop (reached U h vid m0 ops) o) c r G Hp) as (r' & G' & _ & Hq & _).
    unfold L.phase_of. rewrite G'. lia. }
  split; [exact Hphase|].
  assert (Hsy := synced_reached U h vid m0 ops). fold s in Hsy.
  assert (Hfz : forall v, inst s c = Some v -> traced v /\ V.p_launched v = false).
  { intros v Hin. split; [now apply (instance_traced U h vid m0 ops c v)|].
    destruct (V.p_launched v) eqn:E; [|reflexivity]. destruct (Hsy c v Hin) as [_ Hl]. specialize (Hl E). lia. }
  unfold inst in *. destruct o as [lo|now ora|e order ora|c0 vo]; cbn [sys_step vs lc] in *.
  - rewrite inst_sync. destruct (alive _ c); [|exact I].
    destruct (inst_of (vs s) c) as [v|] eqn:E; simpl; [|exact I].
    destruct (Hfz v eq_refl) as [Ht Hl]. exists v. split; [reflexivity|]. now apply frozen_sync1.
  - destruct (inst_of (spawn s _ ora _) c) as [v'|] eqn:E; [|exact I].
    apply spawn_inst in E. destruct E as [E|[_ (r & Hin & Hid & H3 & _ & _)]].
    + rewrite inst_sync in E. destruct (alive _ c); [|discriminate].
      destruct (inst_of (vs s) c) as [v|] eqn:E0; simpl in E; [|discriminate]. inversion E; subst.
      destruct (Hfz v eq_refl) as [Ht Hl]. exists v. split; [reflexivity|]. now apply frozen_sync1.
    + exfalso. set (l' := L.step U (lc s) (lop s (SBegin now ora))) in *.
      assert (Hg : L.get l' c = Some r).
      { rewrite <- Hid. apply get_of_in; [|assumption]. unfold l'. rewrite <- lc_step. unfold s.
        rewrite <- reached_snoc. apply lc_inv. }
      unfold L.phase_of in Hphase. rewrite Hg in Hphase. lia.
  - rewrite inst_sync. destruct (alive _ c); [|exact I].
    rewrite (inst_map (fun k w => V.step w (vop e ora k))).
    destruct (inst_of (vs s) c) as [v|] eqn:E; simpl; [|exact I].
    destruct (Hfz v eq_refl) as [Ht Hl]. exists v. split; [reflexivity|].
    assert (F1 : frozen v (V.step v (vop e ora c))) by (apply frozen_step; [now apply traced_inv|assumption]).
    eapply frozen_trans; [exact F1|]. apply frozen_sync1; [|apply F1].
    apply (traced_step v (vop e ora c)); [assumption|]. unfold vop. split; [|apply wf_mode_res].
    apply (lookup_forall (fun o => VM.pos_set (vo_next o))); [constructor|exact Hwo].
  - rewrite inst_cons_map. destruct (inst_of (vs s) c) as [v|] eqn:E; simpl; [|exact I].
    destruct (Hfz v eq_refl) as [Ht Hl]. exists v. split; [reflexivity|].
    destruct (c =? c0); [|now apply frozen_refl]. apply frozen_step; [now apply traced_inv|assumption].
Qed.

Theorem no_packets_after_stop U h vid m0 ops ops' c : 1 <= vid -> Forall wf_sop (ops ++ ops') ->
  let s := reached U h vid m0 ops in let s' := reached U h vid m0 (ops ++ ops') in
  4 <= L.phase_of (lc s) c ->
  4 <= L.phase_of (lc s') c /\
  match inst s' c with
  | None => True
  | Some v' => exists v, inst s c = Some v /\ frozen v v'
  end.
Proof.
  intros Hv Hw s s' Hp. unfold s'. clear s'. induction ops' as [|o t IH] using rev_ind.
  - rewrite app_nil_r. fold s. split; [exact Hp|]. destruct (inst s c) as [v|] eqn:E; [|exact I].
    exists v. split; [reflexivity|]. apply frozen_refl.
    destruct (V.p_launched v) eqn:El; [|reflexivity].
    destruct (synced_reached U h vid m0 ops c v E) as [_ Hl]. specialize (Hl El). fold s in Hl. lia.
  - rewrite app_assoc in Hw. apply Forall_app in Hw. destruct Hw as [Hw1 Hw2]. inversion Hw2; subst.
    destruct (IH Hw1) as [Hp1 Hi1]. rewrite app_assoc, reached_snoc.
    destruct (stopped_step U h vid m0 (ops ++ t) o c Hv Hw1 H1 Hp1) as [Hp2 Hi2]. split; [exact Hp2|].
    destruct (inst (sys_step U (reached U h vid m0 (ops ++ t)) o) c) as [v''|]; [|exact I].
    destruct Hi2 as [v1 [E1 F1]]. rewrite E1 in Hi1. destruct Hi1 as [v [E F]].
    exists v. split; [exact E|]. eapply frozen_trans; eassumption.
Qed.

(* ---------- the provider's update id: one counter, shared by all instances ---------- *)
Lemma init_vscid ph vid m0 l0 ch : V.p_vscid (V.init_state ph vid m0 l0 ch) = vid.
Proof. unfold V.init_state. destruct (V.apply_cc (V.diff [] l0) []). reflexivity. Qed.

Lemma sync1_vscid l c v : V.p_vscid (sync1 l c v) = V.p_vscid v.
Proof.
  unfold sync1. destruct (L.get l c) as [r|]; [|reflexivity].
  set (v1 := if L.p_channel (L.c_proto r) && negb (V.p_chan v) then V.step v V.ChanOpen else v).
  assert (E1 : V.p_vscid v1 = V.p_vscid v).
  { unfold v1. destruct (L.p_channel (L.c_proto r) && negb (V.p_chan v)); [|reflexivity]. rewrite VI.id_step. lia. }
  destruct (negb (L.c_phase r =? 3) && V.p_launched v1); [|exact E1]. rewrite VI.id_step. lia.
Qed.

Theorem vscid_step U s o :
  g_vscid (sys_step U s o) = g_vscid s + match o with SEnd true _ _ => 1 | _ => 0 end.
Proof. destruct o as [lo|now ora|[|] order ora|c vo]; simpl; lia. Qed.

Definition vid_inv (s : sys) : Prop := Forall (fun e => V.p_vscid (snd e) = g_vscid s) (vs s).

Lemma vid_step U s o : vid_inv s -> vid_inv (sys_step U s o).
Proof.
  unfold vid_inv. intros H.
  assert (Hsync : forall l g insts, Forall (fun e : Z * V.state => V.p_vscid (snd e) = g) insts ->
                   Forall (fun e : Z * V.state => V.p_vscid (snd e) = g) (sync l insts)).
  { intros l g insts Hf. unfold sync. rewrite Forall_map. simpl. rewrite Forall_forall in *.
    intros x Hx. apply filter_In in Hx. rewrite sync1_vscid. apply Hf. tauto. }
  destruct o as [lo|now ora|e order ora|c vo]; cbn [sys_step vs g_vscid].
  - now apply Hsync.
  - unfold spawn. apply Forall_app. split; [now apply Hsync|].
    rewrite Forall_forall. intros x Hx. apply in_flat_map in Hx. destruct Hx as [r [_ Hx]].
    destruct (_ && _ && _); [|contradiction]. destruct Hx as [<-|[]]. simpl.
    rewrite sync1_vscid. apply init_vscid.
  - apply Hsync. rewrite Forall_map. eapply Forall_impl; [|exact H]. cbn beta. intros x Hx. cbn [snd].
    unfold vop. rewrite VI.id_step. cbv zeta. destruct e; simpl; lia.
  - rewrite Forall_map. eapply Forall_impl; [|exact H]. cbn beta. intros x Hx.
    destruct (fst x =? c); [|exact Hx]. cbn [snd]. rewrite VI.id_step, Hx. destruct vo as [[|] ? ?| | | | | | |]; simpl; lia.
Qed.

Theorem instance_vscid U h vid m0 ops c v :
  inst (reached U h vid m0 ops) c = Some v -> V.p_vscid v = g_vscid (reached U h vid m0 ops).
Proof.
  assert (Hi : vid_inv (reached U h vid m0 ops)).
  { induction ops as [|o t IH] using rev_ind; [constructor|]. rewrite reached_snoc. now apply vid_step. }
  intros H.
  unfold vid_inv in Hi. rewrite Forall_forall in Hi. apply (Hi (c, v)). now apply inst_in.
Qed.

(* ---------- deleted consumers ---------- *)
Theorem deleted_drops_pending U h vid m0 ops ops' c :
  let s := reached U h vid m0 ops in let s' := reached U h vid m0 (ops ++ ops') in
  L.phase_of (lc s) c = 5 ->
  L.phase_of (lc s') c = 5 /\ inst s' c = None /\
  exists r r', L.get (lc s) c = Some r /\ L.get (lc s') c = Some r' /\
    L.p_pending (L.c_proto r') = 0 /\ L.c_sent r' = L.c_sent r.
Proof.
  intros s s' Hp.
  set (T1 := ltrace U (sys_init h vid m0) ops). set (T2 := ltrace U s ops').
  assert (E1 : lc s = L.reach U T1) by apply lc_reached.
  assert (E2 : lc s' = L.reach U (T1 ++ T2)).
  { unfold s'. rewrite lc_reached, ltrace_app. reflexivity. }
  rewrite E1 in Hp. unfold L.phase_of in Hp. destruct (L.get (L.reach U T1) c) as [r|] eqn:G; [|discriminate].
  destruct (LC11.c11_no_packets_after_stop U T1 T2 c r G ltac:(lia)) as (r' & G' & Hs & Hq & _).
  assert (H5 : L.c_phase r' = 5) by lia.
  assert (Hph : L.phase_of (lc s') c = 5). { rewrite E2. unfold L.phase_of. rewrite G'. exact H5. }
  split; [exact Hph|]. split.
  - destruct (inst s' c) as [v|] eqn:E; [|reflexivity].
    destruct (instance_alive U h vid m0 (ops ++ ops') c v E) as [Ha _]. fold s' in Ha. lia.
  - exists r, r'. rewrite E1, E2. split; [exact G|]. split; [exact G'|]. split; [|exact Hs].
    pose proof (LC11.c11_deleted_state U (T1 ++ T2) c r' G' H5) as Hd. tauto.
Qed.

(* ================= agreement of the two components ================= *)

(* ---------- EndBlockVSU of Lifecycle, consumer by consumer ---------- *)
Definition q_rec (eo : L.eora) (r : L.consumer) : L.consumer :=
  if L.p_client (L.c_proto r) && (L.c_phase r =? 3) then
    let p := L.p_set_valset (L.eo_size eo) (L.c_proto r) in
    L.set_proto (if L.eo_changes eo
                 then L.p_set_extra (L.set_del 15 (L.p_extra p)) (L.p_set_pending (L.p_pending p + 1) p)
                 else p) r
  else r.

Definition s_rec (U now : Z) (eo : L.eora) (r : L.consumer) : L.consumer :=
  if L.p_client (L.c_proto r) && (L.c_phase r =? 3) && L.p_channel (L.c_proto r) then
    if L.p_pending (L.c_proto r) =? 0 then r
    else
      let m := L.eo_mode eo in
      let all := L.set_sent (L.c_sent r + L.p_pending (L.c_proto r)) (L.set_proto (L.p_set_pending 0 (L.c_proto r)) r) in
      if m =? 0 then all
      else if m =? 1 then r
      else
        let j := Z.max 0 (m - 2) in
        if L.p_pending (L.c_proto r) <=? j then all
        else
          let r1 := L.set_sent (L.c_sent r + j) r in
          if L.eo_stopfail eo then r1
          else L.set_proto (L.p_set_removal (now + U) (L.c_proto r1)) (L.set_phase 4 r1)
  else r.

Lemma idf (f : L.consumer -> L.consumer) c : (forall r, L.c_id (f r) = L.c_id r) -> forall r, L.c_id r = c -> L.c_id (f r) = c.
Proof. intros H r Hr. now rewrite H. Qed.

Lemma queue_one_self ora s c :
  L.get (L.queue_one ora s c) c = option_map (q_rec (L.lookup L.no_eora ora c)) (L.get s c).
Proof.
  unfold L.queue_one, q_rec. destruct (L.get s c) as [r|] eqn:G; simpl; [|exact G].
  destruct (L.p_client (L.c_proto r) && (L.c_phase r =? 3)); [|exact G].
  rewrite LB.get_upd by (intros r0 Hr0; destruct (L.eo_changes _); exact Hr0).
  rewrite Z.eqb_refl, G. reflexivity.
Qed.

Lemma queue_one_other ora s c0 c : c0 <> c -> L.get (L.queue_one ora s c0) c = L.get s c.
Proof.
  intros Hne. unfold L.queue_one. destruct (L.get s c0); [|reflexivity]. destruct (_ && _); [|reflexivity].
  apply LB.get_upd_other; [intros r0 Hr0; destruct (L.eo_changes _); exact Hr0|exact Hne].
Qed.

Lemma queue_one_now ora s c0 : L.s_now (L.queue_one ora s c0) = L.s_now s.
Proof. exact (proj1 (LS.estep_queue_one 0 ora s c0)). Qed.

Lemma send_one_now U ora s c0 : L.s_now (L.send_one U ora s c0) = L.s_now s.
Proof. exact (proj1 (LS.estep_send_one U ora s c0)). Qed.

Lemma send_one_self U ora s c :
  L.get (L.send_one U ora s c) c = option_map (s_rec U (L.s_now s) (L.lookup L.no_eora ora c)) (L.get s c).
Proof.
  unfold L.send_one, s_rec. destruct (L.get s c) as [r|] eqn:G; simpl; [|exact G].
  destruct (L.p_client (L.c_proto r) && (L.c_phase r =? 3) && L.p_channel (L.c_proto r)); [|exact G].
  destruct (L.p_pending (L.c_proto r) =? 0); [exact G|].
  destruct (L.eo_mode (L.lookup L.no_eora ora c) =? 0).
  { rewrite LB.get_upd by (intros r0 Hr0; exact Hr0). rewrite Z.eqb_refl, G. reflexivity. }
  destruct (L.eo_mode (L.lookup L.no_eora ora c) =? 1); [exact G|].
  destruct (L.p_pending (L.c_proto r) <=? Z.max 0 (L.eo_mode (L.lookup L.no_eora ora c) - 2)).
  { rewrite LB.get_upd by (intros r0 Hr0; exact Hr0). rewrite Z.eqb_refl, G. reflexivity. }
  destruct (L.eo_stopfail (L.lookup L.no_eora ora c)).
  { rewrite LB.get_upd by (intros r0 Hr0; exact Hr0). rewrite Z.eqb_refl, G. reflexivity. }
  rewrite LS.stop_get, Z.eqb_refl. rewrite LB.get_upd by (intros r0 Hr0; exact Hr0). rewrite Z.eqb_refl, G. reflexivity.
Qed.

Lemma send_one_other U ora s c0 c : c0 <> c -> L.get (L.send_one U ora s c0) c = L.get s c.
Proof.
  intros Hne. unfold L.send_one. destruct (L.get s c0) as [r0|]; [|reflexivity].
  destruct (_ && _ && _); [|reflexivity]. destruct (_ =? 0); [reflexivity|].
  destruct (_ =? 0); [apply LB.get_upd_other; [intros r1 Hr1; exact Hr1 | exact Hne]|].
  destruct (_ =? 1); [reflexivity|].
  destruct (_ <=? _); [apply LB.get_upd_other; [intros r1 Hr1; exact Hr1 | exact Hne]|].
  destruct (L.eo_stopfail _); [apply LB.get_upd_other; [intros r1 Hr1; exact Hr1 | exact Hne]|].
  rewrite LS.stop_get. destruct (Z.eqb_spec c0 c); [contradiction|].
  apply LB.get_upd_other; [intros r1 Hr1; exact Hr1 | exact Hne].
Qed.

Section FoldOne.
  Variable f : L.state -> Z -> L.state.
  Variable rec : Z -> L.consumer -> L.consumer.
  Variable c : Z.
  Hypothesis Hnow : forall s c0, L.s_now (f s c0) = L.s_now s.
  Hypothesis Hself : forall s, L.get (f s c) c = option_map (rec (L.s_now s)) (L.get s c).
  Hypothesis Hother : forall s c0, c0 <> c -> L.get (f s c0) c = L.get s c.

  Lemma fold_now order s : L.s_now (fold_left f order s) = L.s_now s.
  Proof. revert s. induction order as [|x t IH]; intros s; simpl; [reflexivity|]. rewrite IH. apply Hnow. Qed.

  Lemma fold_notin order s : ~ In c order -> L.get (fold_left f order s) c = L.get s c.
  Proof.
    revert s. induction order as [|x t IH]; intros s Hni; simpl; [reflexivity|].
    rewrite IH by (intros H; apply Hni; now right). apply Hother. intros ->. apply Hni. now left.
  Qed.

  Lemma fold_in order s : NoDup order -> In c order ->
    L.get (fold_left f order s) c = option_map (rec (L.s_now s)) (L.get s c).
  Proof.
    revert s. induction order as [|x t IH]; intros s Hnd Hin; simpl; [contradiction|].
    inversion Hnd as [|? ? Hni Hndt]; subst. destruct (Z.eq_dec x c) as [->|Hne].
    - rewrite fold_notin by assumption. apply Hself.
    - destruct Hin as [->|Hin]; [contradiction|]. rewrite IH by assumption. rewrite Hnow, Hother by assumption. reflexivity.
  Qed.
End FoldOne.

Lemma do_end_in U s order ora c : NoDup order -> In c order ->
  L.get (fst (L.do_end U s true order ora)) c =
  option_map (fun r => s_rec U (L.s_now s) (L.lookup L.no_eora ora c) (q_rec (L.lookup L.no_eora ora c) r)) (L.get s c).
Proof.
  intros Hnd Hin. unfold L.do_end. simpl fst.
  rewrite (fold_in (L.send_one U ora) (fun now => s_rec U now (L.lookup L.no_eora ora c)) c
             (send_one_now U ora) (fun s0 => send_one_self U ora s0 c) (fun s0 c0 => send_one_other U ora s0 c0 c)) by assumption.
  rewrite (fold_now (L.queue_one ora) (queue_one_now ora)).
  rewrite (fold_in (L.queue_one ora) (fun _ => q_rec (L.lookup L.no_eora ora c)) c
             (queue_one_now ora) (fun s0 => queue_one_self ora s0 c) (fun s0 c0 => queue_one_other ora s0 c0 c)) by assumption.
  destruct (L.get s c); reflexivity.
Qed.

Lemma lookup_order {A} (d : A) (F : Z -> A) order c : In c order ->
  L.lookup d (map (fun c0 => (c0, F c0)) order) c = F c.
Proof.
  induction order as [|x t IH]; simpl; intros Hin; [contradiction|].
  destruct (Z.eqb_spec x c) as [->|Hne]; [reflexivity|]. destruct Hin as [->|Hin]; [contradiction|]. now apply IH.
Qed.

(* ---------- the same block in Vsc ---------- *)
Definition pend_q (next : list V.upd) (v : V.state) : list V.packet :=
  if V.p_launched v then
    match V.diff (V.p_stored v) next with
    | [] => V.p_pending v
    | us => V.p_pending v ++ [(V.p_vscid v, us)]
    end
  else V.p_pending v.

Lemma pe_fields next res v :
  let v' := V.step v (V.PEndBlock true next res) in
  let sl := V.send_loop res 0 (pend_q next v) in
  let go := V.p_launched v && V.p_chan v in
  V.p_chan v' = V.p_chan v /\
  V.p_pending v' = (if go then match snd sl with None => [] | Some _ => pend_q next v end else pend_q next v) /\
  V.p_launched v' = (if go then match snd sl with Some false => false | _ => V.p_launched v end else V.p_launched v) /\
  V.inflight v' = V.inflight v ++ (if go then fst sl else []).
Proof.
  simpl. unfold V.p_end_block, pend_q. simpl. unfold V.send, V.queue. simpl.
  destruct (V.p_launched v) eqn:EL; simpl.
  - destruct (V.diff (V.p_stored v) next) as [|u us] eqn:ED; simpl.
    + destruct (V.p_chan v) eqn:EC; simpl.
      * destruct (V.send_loop res 0 (V.p_pending v)) as [sent f]. simpl. repeat split; reflexivity.
      * rewrite app_nil_r. repeat split; reflexivity.
    + destruct (V.p_chan v) eqn:EC; simpl.
      * destruct (V.send_loop res 0 (V.p_pending v ++ [(V.p_vscid v, u :: us)])) as [sent f]. simpl.
        repeat split; reflexivity.
      * rewrite app_nil_r. repeat split; reflexivity.
  - rewrite app_nil_r. repeat split; reflexivity.
Qed.

Lemma pe_false_fields next res v :
  let v' := V.step v (V.PEndBlock false next res) in
  V.p_chan v' = V.p_chan v /\ V.p_pending v' = V.p_pending v /\ V.p_launched v' = V.p_launched v /\
  V.inflight v' = V.inflight v.
Proof. simpl. unfold V.p_end_block. simpl. repeat split; reflexivity. Qed.

Lemma send_loop_err j i pend : (i <= j)%nat ->
  V.send_loop (V.SErr j) i pend =
  if (length pend <=? j - i)%nat then (pend, None) else (firstn (j - i) pend, Some false).
Proof.
  revert i. induction pend as [|p t IH]; intros i Hle; simpl; [reflexivity|].
  destruct (Nat.eqb_spec j i) as [->|Hne].
  - rewrite Nat.sub_diag. simpl. reflexivity.
  - rewrite IH by lia. replace (j - i)%nat with (S (j - S i)) by lia.
    destruct (Nat.leb_spec (length t) (j - S i)); simpl.
    + destruct (Nat.leb_spec (length t) (j - S i)); [reflexivity|lia].
    + destruct (Nat.leb_spec (length t) (j - S i)); [lia|reflexivity].
Qed.

Lemma send_loop_expired0 pend :
  V.send_loop (V.SExpired 0) 0 pend = match pend with [] => ([], None) | _ => ([], Some true) end.
Proof. destruct pend; reflexivity. Qed.

(* what the channel keeper's answer m does to a pending list *)
Lemma send_loop_mode m pend :
  V.send_loop (mode_res m) 0 pend =
  if m =? 0 then (pend, None)
  else if m =? 1 then match pend with [] => ([], None) | _ => ([], Some true) end
  else if (Z.of_nat (length pend) <=? Z.max 0 (m - 2)) then (pend, None)
       else (firstn (Z.to_nat (Z.max 0 (m - 2))) pend, Some false).
Proof.
  unfold mode_res. destruct (m =? 0); [apply VP.send_loop_ok|]. destruct (m =? 1); [apply send_loop_expired0|].
  rewrite send_loop_err by lia. rewrite Nat.sub_0_r.
  destruct (Z.leb_spec (Z.of_nat (length pend)) (Z.max 0 (m - 2))).
  - destruct (Nat.leb_spec (length pend) (Z.to_nat (Z.max 0 (m - 2)))); [reflexivity|lia].
  - destruct (Nat.leb_spec (length pend) (Z.to_nat (Z.max 0 (m - 2)))); [lia|reflexivity].
Qed.

(* ---------- agreement of one consumer record with its instance ---------- *)
Definition agree (r : L.consumer) (v : V.state) : Prop :=
  L.p_client (L.c_proto r) = true /\ (L.c_phase r = 3 \/ L.c_phase r = 4) /\
  (L.c_phase r = 3 <-> V.p_launched v = true) /\
  L.p_channel (L.c_proto r) = V.p_chan v /\
  L.p_pending (L.c_proto r) = Z.of_nat (length (V.p_pending v)).

Definition eo_of (v : V.state) (next : list V.upd) (m : Z) : L.eora :=
  L.mkEO (negb (is_nil (V.diff (V.p_stored v) next))) (Z.of_nat (length next)) m false.

Lemma pend_q_length next v :
  Z.of_nat (length (pend_q next v)) =
  Z.of_nat (length (V.p_pending v)) +
  (if V.p_launched v && negb (is_nil (V.diff (V.p_stored v) next)) then 1 else 0).
Proof.
  unfold pend_q. destruct (V.p_launched v); simpl; [|lia].
  destruct (V.diff (V.p_stored v) next); simpl; [lia|]. rewrite app_length. simpl. lia.
Qed.

Ltac fin :=
  simpl;
  repeat match goal with
         | H : L.c_phase _ = L.c_phase _ |- _ => rewrite H
         | H : L.p_client (L.c_proto _) = _ |- _ => rewrite H
         | H : L.p_channel (L.c_proto _) = _ |- _ => rewrite H
         | H : L.p_pending (L.c_proto _) = _ |- _ => rewrite H
         end;
  simpl; repeat split; intros; try assumption; try reflexivity; try tauto; try lia; try discriminate; try congruence.

Lemma end_agree U now next m r v : agree r v ->
  agree (s_rec U now (eo_of v next m) (q_rec (eo_of v next m) r)) (V.step v (V.PEndBlock true next (mode_res m))).
Proof.
  intros (Hc & Hph & Hl & Hch & Hpd).
  destruct (pe_fields next (mode_res m) v) as (F1 & F2 & F3 & F4).
  rewrite send_loop_mode in F2, F3.
  pose proof (pend_q_length next v) as HQ.
  unfold agree. rewrite F1, F2, F3. clear F1 F2 F3 F4.
  set (r1 := q_rec (eo_of v next m) r).
  assert (Q : L.p_client (L.c_proto r1) = true /\ L.c_phase r1 = L.c_phase r /\
              L.p_channel (L.c_proto r1) = L.p_channel (L.c_proto r) /\
              L.p_pending (L.c_proto r1) = Z.of_nat (length (pend_q next v)) /\ L.c_sent r1 = L.c_sent r).
  { unfold r1, q_rec. rewrite Hc. simpl andb.
    destruct (Z.eqb_spec (L.c_phase r) 3) as [E3|E3].
    - assert (El : V.p_launched v = true) by now apply Hl. rewrite El in HQ. simpl in HQ.
      simpl. destruct (negb (is_nil (V.diff (V.p_stored v) next))); simpl; repeat split; try assumption; lia.
    - assert (El : V.p_launched v = false).
      { destruct (V.p_launched v) eqn:E; [|reflexivity]. exfalso. apply E3. now apply Hl. }
      rewrite El in HQ. simpl in HQ. repeat split; try assumption; lia. }
  destruct Q as (Q1 & Q2 & Q3 & Q4 & Q5).
  assert (Q3' : L.p_channel (L.c_proto r1) = V.p_chan v) by congruence.
  unfold s_rec. rewrite Q1, Q2, Q3', Q4. simpl andb.
  change (L.eo_mode (eo_of v next m)) with m. change (L.eo_stopfail (eo_of v next m)) with false. cbv zeta.
  destruct (Z.eqb_spec (L.c_phase r) 3) as [E3|E3].
  - assert (El : V.p_launched v = true) by now apply Hl. rewrite El. simpl andb.
    destruct (V.p_chan v) eqn:EC; simpl andb; cbv iota.
    + destruct (pend_q next v) as [|p0 pq] eqn:EPQ.
      * simpl. destruct (m =? 0); [fin|]. destruct (m =? 1); [fin|].
        destruct (Z.leb_spec 0 (Z.max 0 (m - 2))); [fin|lia].
      * assert (Hnz : Z.of_nat (length (p0 :: pq)) =? 0 = false) by (apply Z.eqb_neq; simpl; lia).
        rewrite Hnz.
        destruct (m =? 0); [fin|]. destruct (m =? 1); [fin|].
        destruct (Z.of_nat (length (p0 :: pq)) <=? Z.max 0 (m - 2)); [fin|]. fin.
    + fin.
  - assert (El : V.p_launched v = false).
    { destruct (V.p_launched v) eqn:E; [|reflexivity]. exfalso. apply E3. now apply Hl. }
    rewrite El. simpl andb. cbv iota. fin.
Qed.

(* ---------- the agreement invariant ---------- *)
Definition order_ok (l : L.state) (order : list Z) : Prop :=
  NoDup order /\ forall c r, L.get l c = Some r -> L.p_client (L.c_proto r) = true -> In c order.

(* hypotheses on the oracle values of a whole run *)
Fixpoint wf_run (U : Z) (s : sys) (ops : list sop) : Prop :=
  match ops with
  | [] => True
  | o :: t => wf_sop o /\ match o with SEnd _ order _ => order_ok (lc s) order | _ => True end /\
              wf_run U (sys_step U s o) t
  end.

Lemma wf_run_sops U ops s : wf_run U s ops -> Forall wf_sop ops.
Proof. revert s. induction ops as [|o t IH]; intros s H; [constructor|]. destruct H as (H1 & _ & H3). constructor; eauto. Qed.

Lemma wf_run_app U ops1 ops2 s : wf_run U s (ops1 ++ ops2) <-> wf_run U s ops1 /\ wf_run U (run_sys U s ops1) ops2.
Proof.
  revert s. induction ops1 as [|o t IH]; intros s; simpl; [tauto|]. rewrite IH. tauto.
Qed.

Definition AG (s : sys) : Prop := forall c v, inst s c = Some v -> exists r, L.get (lc s) c = Some r /\ agree r v.

Lemma co_fields v : V.p_chan v = false ->
  V.p_chan (V.step v V.ChanOpen) = true /\ V.p_launched (V.step v V.ChanOpen) = V.p_launched v /\
  V.p_pending (V.step v V.ChanOpen) = V.p_pending v.
Proof. intros H. simpl. unfold V.chan_open. rewrite H. simpl. repeat split; reflexivity. Qed.

Lemma sync1_agree_gen l c r' v : L.get l c = Some r' ->
  L.p_client (L.c_proto r') = true -> (L.c_phase r' = 3 \/ L.c_phase r' = 4) ->
  (L.c_phase r' = 3 -> V.p_launched v = true) ->
  (V.p_chan v = true -> L.p_channel (L.c_proto r') = true) ->
  L.p_pending (L.c_proto r') = Z.of_nat (length (V.p_pending v)) ->
  agree r' (sync1 l c v).
Proof.
  intros G Hc Hph Hl Hch Hpd. unfold sync1. rewrite G.
  set (v1 := if L.p_channel (L.c_proto r') && negb (V.p_chan v) then V.step v V.ChanOpen else v).
  assert (H1 : V.p_chan v1 = L.p_channel (L.c_proto r') /\ V.p_launched v1 = V.p_launched v /\ V.p_pending v1 = V.p_pending v).
  { unfold v1. destruct (L.p_channel (L.c_proto r')) eqn:E1; destruct (V.p_chan v) eqn:E2; simpl.
    - repeat split; reflexivity || assumption.
    - apply co_fields. exact E2.
    - specialize (Hch eq_refl). discriminate.
    - repeat split; reflexivity || assumption. }
  destruct H1 as (A1 & A2 & A3).
  destruct (Z.eqb_spec (L.c_phase r') 3) as [E3|E3]; simpl.
  - unfold agree. rewrite A1, A2, A3. repeat split; try assumption; try tauto; auto.
  - destruct (V.p_launched v1) eqn:E4; simpl.
    + unfold agree. simpl. rewrite A1, A3. repeat split; try assumption; try tauto; try discriminate; try (intros; contradiction).
    + unfold agree. rewrite A1, E4, A3. repeat split; try assumption; try tauto; try discriminate; try (intros; contradiction).
Qed.

Lemma sync1_agree l c r v : L.get l c = Some r -> agree r v -> sync1 l c v = v.
Proof.
  intros G (Hc & Hph & Hl & Hch & Hpd). unfold sync1. rewrite G, Hch.
  destruct (V.p_chan v); simpl.
  - destruct (Z.eqb_spec (L.c_phase r) 3) as [E|E]; simpl; [reflexivity|].
    destruct (V.p_launched v) eqn:El; [|reflexivity]. exfalso. apply E. now apply Hl.
  - destruct (Z.eqb_spec (L.c_phase r) 3) as [E|E]; simpl; [reflexivity|].
    destruct (V.p_launched v) eqn:El; [|reflexivity]. exfalso. apply E. now apply Hl.
Qed.

Definition not_end (o : L.op) : Prop := forall e order ora, o <> L.OEnd e order ora.

Lemma trans_keep U l o r r' : LS.trans U l o r r' -> not_end o ->
  (L.c_phase r = 3 \/ L.c_phase r = 4) -> (L.c_phase r' = 3 \/ L.c_phase r' = 4) ->
  L.p_client (L.c_proto r') = L.p_client (L.c_proto r) /\ (L.c_phase r' = 3 -> L.c_phase r = 3) /\
  (L.p_channel (L.c_proto r) = true -> L.p_channel (L.c_proto r') = true) /\
  L.p_pending (L.c_proto r') = L.p_pending (L.c_proto r).
Proof.
  intros T Hne Hp Hp'.
  destruct T as [-> | _ P _ Q | _ P Q _ _ (C1 & C2 & C3 & C4 & C5 & C6 & C7) | _ [x ->] | _ _ -> | now ora _ P -> | now ora _ P -> | _ P -> | (e & order & ora & ->) _ _].
  all: try (exfalso; eapply Hne; reflexivity).
  all: simpl in *; try rewrite P; repeat split; intros; auto; try congruence; try lia; try discriminate.
Qed.

Lemma trans_launch U l o r r' : LS.trans U l o r r' -> not_end o -> L.c_phase r <> 3 -> L.c_phase r' = 3 ->
  L.c_phase r = 2 /\ L.p_pending (L.c_proto r') = L.p_pending (L.c_proto r) /\ L.p_client (L.c_proto r') = true.
Proof.
  intros T Hne Hp Hp'.
  destruct T as [-> | _ P _ Q | _ P Q _ _ _ | _ [x ->] | _ _ -> | now ora _ P -> | now ora _ P -> | _ P -> | (e & order & ora & ->) _ _].
  all: try (exfalso; eapply Hne; reflexivity).
  all: try (simpl in *; first [contradiction | lia | discriminate]).
  unfold L.attempt in *. destruct (L.lora_good _); simpl in *; [|discriminate]. repeat split; auto.
Qed.

Lemma lop_not_end s o : (forall e order ora, o <> SEnd e order ora) -> not_end (lop s o).
Proof.
  intros H e order ora. destruct o as [lo|now ora0|e0 order0 ora0|c vo]; simpl.
  - destruct lo; discriminate.
  - discriminate.
  - exfalso. eapply H. reflexivity.
  - discriminate.
Qed.

Lemma alive_phase l c r : L.get l c = Some r -> alive l c = true -> L.c_phase r = 3 \/ L.c_phase r = 4.
Proof.
  intros G Ha. unfold alive, L.phase_of in Ha. rewrite G in Ha. apply orb_true_iff in Ha.
  destruct Ha as [Ha|Ha]; apply Z.eqb_eq in Ha; auto.
Qed.

(* an old instance across a step that is not an EndBlock *)
Lemma AG_old U s o c v : LI.inv (lc s) -> AG s -> (forall e order ora, o <> SEnd e order ora) ->
  inst s c = Some v -> alive (L.step U (lc s) (lop s o)) c = true ->
  exists r', L.get (L.step U (lc s) (lop s o)) c = Some r' /\ agree r' (sync1 (L.step U (lc s) (lop s o)) c v).
Proof.
  intros Hi Hag Hne Hin Ha. destruct (Hag c v Hin) as (r & G & (Hc & Hph & Hl & Hch & Hpd)).
  destruct (LS.step_trans U (lc s) (lop s o) c r Hi G) as (r' & G' & _ & T).
  exists r'. split; [exact G'|].
  pose proof (alive_phase _ _ _ G' Ha) as Hph'.
  destruct (trans_keep U _ _ r r' T (lop_not_end s o Hne) Hph Hph') as (K1 & K2 & K3 & K4).
  apply sync1_agree_gen; try assumption.
  - congruence.
  - intros H3. apply Hl. now apply K2.
  - intros Hcv. apply K3. congruence.
  - congruence.
Qed.

Lemma init_fields ph vid m0 l0 ch :
  V.p_launched (V.init_state ph vid m0 l0 ch) = true /\ V.p_chan (V.init_state ph vid m0 l0 ch) = false /\
  V.p_pending (V.init_state ph vid m0 l0 ch) = [].
Proof. unfold V.init_state. destruct (V.apply_cc (V.diff [] l0) []). repeat split; reflexivity. Qed.

Lemma AG_step U s o : LI.inv (lc s) -> synced s ->
  match o with SEnd _ order _ => order_ok (lc s) order | _ => True end ->
  AG s -> AG (sys_step U s o).
Proof.
  intros Hi Hsy Hord Hag c v'. unfold inst.
  assert (Hi' : LI.inv (lc (sys_step U s o))) by (rewrite lc_step; now apply LI.inv_step).
  destruct o as [lo|now ora|e order ora|c0 vo]; cbn [sys_step vs lc].
  - rewrite inst_sync. destruct (alive _ c) eqn:EA; [|discriminate].
    destruct (inst_of (vs s) c) as [v|] eqn:E; simpl; [|discriminate]. intros H. inversion H; subst.
    apply (AG_old U s (SMsg lo) c v); try assumption. intros; discriminate.
  - intros H. apply spawn_inst in H. destruct H as [H|[_ (r' & Hin & Hid & H3 & Hn3 & ->)]].
    + rewrite inst_sync in H. destruct (alive _ c) eqn:EA; [|discriminate].
      destruct (inst_of (vs s) c) as [v|] eqn:E; simpl in H; [|discriminate]. inversion H; subst.
      apply (AG_old U s (SBegin now ora) c v); try assumption. intros; discriminate.
    + set (l' := L.step U (lc s) (lop s (SBegin now ora))) in *.
      assert (Hg : L.get l' c = Some r').
      { rewrite <- Hid. apply get_of_in; [|assumption]. change l' with (lc (sys_step U s (SBegin now ora))). exact Hi'. }
      exists r'. split; [exact Hg|].
      destruct (L.get (lc s) c) as [r|] eqn:G.
      * destruct (LS.step_trans U (lc s) (lop s (SBegin now ora)) c r Hi G) as (r'' & G'' & _ & T).
        fold l' in G''. rewrite Hg in G''. inversion G''; subst r''.
        assert (Hr3 : L.c_phase r <> 3). { unfold L.phase_of in Hn3. rewrite G in Hn3. exact Hn3. }
        destruct (trans_launch U _ _ r r' T (lop_not_end s (SBegin now ora) ltac:(intros; discriminate)) Hr3 H3)
          as (P2 & Ppd & Pcl).
        pose proof (LI.io_cons _ _ Hi c r (fun H => H) G) as Hcv. LI.cinv_destruct Hcv.
        destruct (A5 ltac:(lia)) as (_ & _ & _ & _ & _ & B6 & _).
        destruct (init_fields (g_height s) (g_vscid s) (g_vsc2h s) (la_set (L.lookup no_launch ora c))
                    (la_ch (L.lookup no_launch ora c))) as (I1 & I2 & I3).
        apply sync1_agree_gen; try assumption; auto.
        -- rewrite I2. discriminate.
        -- rewrite I3. simpl. congruence.
      * exfalso. destruct (LS.step_new U (lc s) (lop s (SBegin now ora)) c Hi G) as [Hn|(Hcr & _)].
        -- fold l' in Hn. congruence.
        -- simpl in Hcr. discriminate.
  - rewrite inst_sync. destruct (alive _ c) eqn:EA; [|discriminate].
    rewrite (inst_map (fun k w => V.step w (vop e ora k))).
    destruct (inst_of (vs s) c) as [v|] eqn:E; cbn [option_map]; [|discriminate]. intros H. inversion H; subst. clear H.
    destruct (Hag c v E) as (r & G & Hagr).
    set (l' := L.step U (lc s) (lop s (SEnd e order ora))) in *.
    destruct Hord as [Hnd Hcl].
    assert (Hin : In c order) by (apply (Hcl c r G); apply Hagr).
    assert (Hr' : exists r', L.get l' c = Some r' /\ agree r' (V.step v (vop e ora c))).
    { unfold l', L.step. simpl lop. simpl L.exec. destruct e.
      - rewrite do_end_in by assumption. rewrite G. simpl. eexists. split; [reflexivity|].
        rewrite (lookup_order L.no_eora (fun c1 => to_eora s c1 (L.lookup no_vora ora c1))) by assumption.
        unfold to_eora, inst. rewrite E. unfold vop.
        apply (end_agree U (L.s_now (lc s)) (vo_next (L.lookup no_vora ora c)) (vo_mode (L.lookup no_vora ora c)) r v Hagr).
      - unfold L.do_end. cbn [fst]. exists r. split; [exact G|]. unfold vop.
        destruct (pe_false_fields (vo_next (L.lookup no_vora ora c)) (mode_res (vo_mode (L.lookup no_vora ora c))) v)
          as (F1 & F2 & F3 & F4).
        destruct Hagr as (Hc & Hph & Hl & Hch & Hpd). unfold agree. rewrite F1, F2, F3. repeat split; assumption || tauto. }
    destruct Hr' as (r' & G' & Hag'). exists r'. split; [exact G'|].
    change (agree r' (sync1 l' c (V.step v (vop e ora c)))).
    rewrite (sync1_agree l' c r' _ G' Hag'). exact Hag'.
  - rewrite inst_cons_map. destruct (inst_of (vs s) c) as [v|] eqn:E; simpl; [|discriminate].
    intros H. inversion H; subst. simpl lop. rewrite step_nop.
    destruct (Hag c v E) as (r & G & (Hc & Hph & Hl & Hch & Hpd)). exists r. split; [exact G|].
    destruct (c =? c0); [|repeat split; assumption || tauto].
    unfold agree. rewrite launched_cons_op.
    assert (Hk : V.p_chan (V.step v (cons_op vo)) = V.p_chan v /\ V.p_pending (V.step v (cons_op vo)) = V.p_pending v).
    { destruct vo; simpl; try (split; reflexivity).
      - unfold V.deliver. destruct (V.c_inblock v); simpl; [|split; reflexivity]. destruct (V.inflight v); [split; reflexivity|].
        destruct (V.pid p =? 0); split; reflexivity.
      - unfold V.c_begin_block. destruct (V.c_inblock v); split; reflexivity.
      - unfold V.c_end_block. destruct (V.c_inblock v); simpl; [|split; reflexivity].
        destruct (match V.c_pending v with Some ch0 => V.apply_cc ch0 (V.c_ccvals v) | None => (V.c_ccvals v, []) end).
        split; reflexivity. }
    destruct Hk as [K1 K2]. rewrite K1, K2. repeat split; assumption || tauto.
Qed.

Lemma AG_run U ops s : LI.inv (lc s) -> synced s -> wf_run U s ops -> AG s -> AG (run_sys U s ops).
Proof.
  revert s. induction ops as [|o t IH]; intros s Hi Hsy Hw Hag; [assumption|].
  destruct Hw as (_ & Ho & Ht). simpl. apply IH; try assumption.
  - rewrite lc_step. now apply LI.inv_step.
  - now apply synced_step.
  - now apply AG_step.
Qed.

Theorem agreement U h vid m0 ops : wf_run U (sys_init h vid m0) ops -> AG (reached U h vid m0 ops).
Proof.
  intros Hw. apply AG_run; try assumption.
  - apply LI.inv_init.
  - intros c v H. discriminate.
  - intros c v H. discriminate.
Qed.

(* ---------- replication holds for every instance, whatever happens to the other consumers ---------- *)
Theorem replication_until_stop U h vid m0 ops c v : 1 <= vid -> Forall wf_sop ops ->
  inst (reached U h vid m0 ops) c = Some v ->
  V.c_engine v = V.c_ccvals v /\
  (V.c_pending v = None -> V.c_ccvals v = nth (V.g_recv v) (V.g_hist v) []) /\
  (V.c_inblock v = false -> V.c_pending v = None) /\
  V.g_deliv v = firstn (V.g_recv v) (V.g_prod v) /\
  StronglySorted Z.lt (map V.pid (V.g_prod v)) /\
  incl (V.g_deliv v) (V.g_prod v) /\
  exists rest, V.g_prod v = V.g_deliv v ++ V.inflight v ++ rest /\ (V.p_launched v = true -> rest = V.p_pending v).
Proof.
  intros Hv Hw Hi. destruct (instance_traced U h vid m0 ops c v Hv Hw Hi) as (ph & vd & mm & l0 & ch & vops & H1 & H2 & H3 & ->).
  pose proof (VP.replication ph vd mm l0 ch vops H1 H2 H3) as R. cbv zeta in R. destruct R as (R1 & R2 & R3 & _).
  pose proof (VP.order ph vd mm l0 ch vops H1 H2 H3) as O. cbv zeta in O. destruct O as (_ & O2 & O3 & O4).
  pose proof (VP.no_loss ph vd mm l0 ch vops H1 H2 H3) as N. cbv zeta in N.
  repeat split; assumption.
Qed.

(* ---------- a send failure stops exactly that consumer ---------- *)
Lemma lookup_order_notin {A} (d : A) (F : Z -> A) order c : ~ In c order ->
  L.lookup d (map (fun c0 => (c0, F c0)) order) c = d.
Proof.
  induction order as [|x t IH]; simpl; intros Hni; [reflexivity|].
  destruct (Z.eqb_spec x c) as [->|Hne]; [exfalso; apply Hni; now left|]. apply IH. intros H. apply Hni. now right.
Qed.

Lemma sync1_get l1 l2 c v : L.get l1 c = L.get l2 c -> sync1 l1 c v = sync1 l2 c v /\ alive l1 c = alive l2 c.
Proof. intros H. unfold sync1, alive, L.phase_of. rewrite H. split; reflexivity. Qed.

Theorem end_others_continue U h vid m0 ops e order ora ora' c :
  L.lookup no_vora ora c = L.lookup no_vora ora' c ->
  let s := reached U h vid m0 ops in
  inst (sys_step U s (SEnd e order ora)) c = inst (sys_step U s (SEnd e order ora')) c /\
  L.get (lc (sys_step U s (SEnd e order ora))) c = L.get (lc (sys_step U s (SEnd e order ora'))) c.
Proof.
  intros Hl s.
  assert (HL : L.get (lc (sys_step U s (SEnd e order ora))) c = L.get (lc (sys_step U s (SEnd e order ora'))) c).
  { rewrite !lc_step. unfold s. rewrite lc_reached. simpl lop.
    apply LC19.c19_end_others_continue.
    destruct (in_dec Z.eq_dec c order) as [Hin|Hni].
    - rewrite !(lookup_order L.no_eora) by assumption. rewrite Hl. reflexivity.
    - rewrite !(lookup_order_notin L.no_eora) by assumption. reflexivity. }
  split; [|exact HL].
  unfold inst. cbn [sys_step vs]. rewrite !inst_sync.
  rewrite !lc_step in HL. 
  destruct (sync1_get _ _ c (V.step (match inst_of (vs s) c with Some v => v | None => V.init_state 0 0 [] [] 0 end) (vop e ora c)) HL) as [_ Ha].
  rewrite Ha. clear Ha. destruct (alive _ c); [|reflexivity].
  rewrite (inst_map (fun k w => V.step w (vop e ora k))), (inst_map (fun k w => V.step w (vop e ora' k))).
  destruct (inst_of (vs s) c) as [v|]; simpl; [|reflexivity].
  f_equal. unfold vop. rewrite Hl.
  apply (proj1 (sync1_get _ _ c _ HL)).
Qed.

Lemma q_rec_phase eo r : L.c_phase (q_rec eo r) = L.c_phase r.
Proof. unfold q_rec. destruct (_ && _); [|reflexivity]. destruct (L.eo_changes eo); reflexivity. Qed.

Lemma s_rec_stop U now eo r : L.c_phase r = 3 -> L.c_phase (s_rec U now eo r) = 4 ->
  L.p_removal (L.c_proto (s_rec U now eo r)) = now + U.
Proof.
  intros H3. unfold s_rec.
  destruct (_ && _ && _); [|intros; lia]. destruct (_ =? 0); [intros; lia|].
  destruct (L.eo_mode eo =? 0); [simpl; intros; lia|]. destruct (L.eo_mode eo =? 1); [intros; lia|].
  destruct (_ <=? _); [simpl; intros; lia|]. destruct (L.eo_stopfail eo); [simpl; intros; lia|].
  intros _. reflexivity.
Qed.

Theorem stop_on_send_failure U h vid m0 ops order ora c v r j :
  wf_run U (sys_init h vid m0) (ops ++ [SEnd true order ora]) ->
  let s := reached U h vid m0 ops in
  let next := vo_next (L.lookup no_vora ora c) in
  inst s c = Some v -> L.get (lc s) c = Some r -> L.c_phase r = 3 -> V.p_chan v = true ->
  vo_mode (L.lookup no_vora ora c) = 2 + Z.of_nat j -> (j < length (pend_q next v))%nat ->
  let s' := sys_step U s (SEnd true order ora) in
  exists r' v', L.get (lc s') c = Some r' /\ inst s' c = Some v' /\
    L.c_phase r' = 4 /\ L.p_removal (L.c_proto r') = L.s_now (lc s) + U /\
    V.p_launched v' = false /\ V.p_pending v' = pend_q next v /\
    V.inflight v' = V.inflight v ++ firstn j (pend_q next v).
Proof.
  intros Hw s next Hi Hg H3 Hch Hm Hj s'.
  apply wf_run_app in Hw. destruct Hw as [Hw1 Hw2]. fold (reached U h vid m0 ops) in Hw2. fold s in Hw2.
  destruct Hw2 as (Hwo & [Hnd Hcl] & _).
  pose proof (agreement U h vid m0 ops Hw1) as Hag. fold s in Hag.
  destruct (Hag c v Hi) as (r0 & G0 & Hagr). rewrite Hg in G0. inversion G0; subst r0. clear G0.
  assert (Hin : In c order) by (apply (Hcl c r Hg); apply Hagr).
  set (m := vo_mode (L.lookup no_vora ora c)) in *.
  assert (Evop : vop true ora c = V.PEndBlock true next (mode_res m)) by reflexivity.
  set (v1 := V.step v (V.PEndBlock true next (mode_res m))).
  set (eo := eo_of v next m).
  set (r1 := s_rec U (L.s_now (lc s)) eo (q_rec eo r)).
  assert (G1 : L.get (lc s') c = Some r1).
  { unfold s'. rewrite lc_step.
    change (L.get (fst (L.do_end U (lc s) true order (map (fun c1 => (c1, to_eora s c1 (L.lookup no_vora ora c1))) order))) c = Some r1).
    rewrite do_end_in by assumption. rewrite Hg. cbn [option_map].
    rewrite (lookup_order L.no_eora (fun c1 => to_eora s c1 (L.lookup no_vora ora c1))) by assumption.
    unfold to_eora. rewrite Hi. reflexivity. }
  assert (Hag1 : agree r1 v1). { unfold r1, v1, eo. now apply end_agree. }
  (* the Vsc side *)
  destruct Hagr as (Hc & Hph & Hl & Hchr & Hpd).
  assert (El : V.p_launched v = true) by now apply Hl.
  destruct (pe_fields next (mode_res m) v) as (F1 & F2 & F3 & F4). fold v1 in F1, F2, F3, F4.
  rewrite send_loop_mode in F2, F3, F4. rewrite El, Hch in F2, F3, F4. simpl andb in F2, F3, F4. cbv iota in F2, F3, F4.
  assert (M0 : m =? 0 = false) by (apply Z.eqb_neq; lia).
  assert (M1 : m =? 1 = false) by (apply Z.eqb_neq; lia).
  assert (M2 : Z.of_nat (length (pend_q next v)) <=? Z.max 0 (m - 2) = false) by (apply Z.leb_gt; lia).
  rewrite M0, M1, M2 in F2, F3, F4. cbn [fst snd] in F2, F3, F4.
  replace (Z.to_nat (Z.max 0 (m - 2))) with j in F4 by lia.
  (* the Lifecycle side *)
  assert (P4 : L.c_phase r1 = 4).
  { destruct Hag1 as (_ & Q & Ql & _). destruct Q as [Q|Q]; [|exact Q]. apply Ql in Q. congruence. }
  assert (Hrem : L.p_removal (L.c_proto r1) = L.s_now (lc s) + U).
  { unfold r1 in *. apply s_rec_stop; [rewrite q_rec_phase; exact H3|exact P4]. }
  assert (Hi' : inst s' c = Some v1).
  { unfold s', inst. cbn [sys_step vs]. rewrite inst_sync.
    assert (Ha : alive (L.step U (lc s) (lop s (SEnd true order ora))) c = true).
    { rewrite <- lc_step. fold s'. unfold alive, L.phase_of. rewrite G1, P4. reflexivity. }
    rewrite Ha. rewrite (inst_map (fun k w => V.step w (vop true ora k))). fold (inst s c). rewrite Hi. cbn [option_map].
    rewrite Evop. fold v1. f_equal. rewrite <- lc_step. fold s'. apply (sync1_agree (lc s') c r1 _ G1 Hag1). }
  exists r1, v1. repeat split; assumption.
Qed.

(* ---------- a boolean checker for the hypotheses of a concrete run (used by the non-vacuity examples) ---------- *)
Definition pos_b (l : list V.upd) : bool := forallb (fun u => 1 <=? snd u) l.
Definition wf_sop_b (o : sop) : bool :=
  match o with
  | SBegin _ ora => forallb (fun e => pos_b (la_set (snd e))) ora
  | SEnd _ _ ora => forallb (fun e => pos_b (vo_next (snd e))) ora
  | _ => true
  end.
Definition order_ok_b (l : L.state) (order : list Z) : bool :=
  znodup order && forallb (fun r => negb (L.p_client (L.c_proto r)) || zmem (L.c_id r) order) (L.s_cons l).
Fixpoint wf_run_b (U : Z) (s : sys) (ops : list sop) : bool :=
  match ops with
  | [] => true
  | o :: t => wf_sop_b o && match o with SEnd _ order _ => order_ok_b (lc s) order | _ => true end &&
              wf_run_b U (sys_step U s o) t
  end.

Lemma pos_b_sound l : pos_b l = true -> VM.pos_set l.
Proof.
  unfold pos_b, VM.pos_set. rewrite forallb_forall, Forall_forall. intros H x Hx. specialize (H x Hx). lia.
Qed.

Lemma zmem_in c l : zmem c l = true <-> In c l.
Proof.
  unfold zmem. rewrite existsb_exists. split.
  - intros [x [Hx E]]. apply Z.eqb_eq in E. now subst.
  - intros H. exists c. split; [assumption|apply Z.eqb_refl].
Qed.

Lemma znodup_sound l : znodup l = true -> NoDup l.
Proof.
  induction l as [|x t IH]; simpl; intros H; [constructor|].
  apply andb_true_iff in H. destruct H as [H1 H2]. constructor; [|now apply IH].
  intros Hin. apply zmem_in in Hin. rewrite Hin in H1. discriminate.
Qed.

Lemma order_ok_b_sound l order : order_ok_b l order = true -> order_ok l order.
Proof.
  unfold order_ok_b. intros H. apply andb_true_iff in H. destruct H as [H1 H2]. split; [now apply znodup_sound|].
  intros c r G Hc. rewrite forallb_forall in H2. specialize (H2 r (LB.get_in _ _ _ G)).
  rewrite Hc in H2. simpl in H2. apply zmem_in in H2. now rewrite (LB.get_id _ _ _ G) in H2.
Qed.

Lemma wf_sop_b_sound o : wf_sop_b o = true -> wf_sop o.
Proof.
  destruct o as [lo|now ora|e order ora|c vo]; simpl; intros H; try exact I.
  - rewrite forallb_forall in H. rewrite Forall_forall. intros x Hx. apply pos_b_sound. now apply H.
  - rewrite forallb_forall in H. rewrite Forall_forall. intros x Hx. apply pos_b_sound. now apply H.
Qed.

Lemma wf_run_b_sound U ops s : wf_run_b U s ops = true -> wf_run U s ops.
Proof.
  revert s. induction ops as [|o t IH]; intros s H; [exact I|].
  simpl in H. apply andb_true_iff in H. destruct H as [H H3]. apply andb_true_iff in H. destruct H as [H1 H2].
  split; [now apply wf_sop_b_sound|]. split; [|now apply IH].
  destruct o; try exact I. now apply order_ok_b_sound.
Qed.
