(* Lemmas about Model/Slash.v (C08, provider side). *)
From Coq Require Import ZArith List Bool Lia.
From ICS Require Import Base.Dec Base.Tree Model.Throttle Model.Slash Proofs.ThrottleProofs.
Import ListNotations.
Open Scope Z_scope.

(* ---------------------------------------------------------------- list update *)
Lemma upd_length {A} (x : A) : forall l n, length (upd n x l) = length l.
Proof. induction l as [|y t IH]; intros [|n]; cbn; auto. Qed.

Lemma nth_upd_eq {A} (x d : A) : forall l n, (n < length l)%nat -> nth n (upd n x l) d = x.
Proof.
  induction l as [|y t IH]; intros [|n] H; cbn in *; try lia; auto. apply IH. lia.
Qed.

Lemma nth_upd_neq {A} (x d : A) : forall l n m, n <> m -> nth m (upd n x l) d = nth m l d.
Proof.
  induction l as [|y t IH]; intros [|n] [|m] H; cbn; auto; try congruence.
Qed.

Lemma nth_error_upd_eq {A} (x : A) : forall l n, (n < length l)%nat -> nth_error (upd n x l) n = Some x.
Proof.
  induction l as [|y t IH]; intros [|n] H; cbn in *; try lia; auto. apply IH. lia.
Qed.

Lemma nth_error_upd_neq {A} (x : A) : forall l n m, n <> m -> nth_error (upd n x l) m = nth_error l m.
Proof.
  induction l as [|y t IH]; intros [|n] [|m] H; cbn; auto; try congruence.
Qed.

(* ---------------------------------------------------------------- accessors *)
Lemma found_in_range s i : v_found (getv s i) = true -> 0 <= i /\ (Z.to_nat i < length (vals s))%nat.
Proof.
  unfold getv. destruct (i <? 0) eqn:E; [discriminate|]. apply Z.ltb_ge in E. intros H. split; [assumption|].
  destruct (Nat.lt_ge_cases (Z.to_nat i) (length (vals s))) as [Hl|Hl]; [assumption|].
  rewrite nth_overflow in H by assumption. discriminate.
Qed.

Lemma getv_setv_eq s i v : 0 <= i -> (Z.to_nat i < length (vals s))%nat -> getv (setv s i v) i = v.
Proof.
  intros H0 Hl. unfold getv, setv. assert (E : (i <? 0) = false) by (apply Z.ltb_ge; lia). rewrite E.
  cbn [vals]. now apply nth_upd_eq.
Qed.

Lemma getv_setv_neq s i j v : i <> j -> getv (setv s i v) j = getv s j.
Proof.
  intros Hne. unfold getv, setv. destruct (j <? 0) eqn:Ej; [reflexivity|].
  destruct (i <? 0) eqn:Ei; [reflexivity|]. cbn [vals].
  apply Z.ltb_ge in Ei, Ej. apply nth_upd_neq. intros E. apply Hne. lia.
Qed.

Lemma vals_setc s c x : vals (setc s c x) = vals s.
Proof. unfold setc. destruct (c <? 0); reflexivity. Qed.
Lemma thr_setc s c x : thr (setc s c x) = thr s.
Proof. unfold setc. destruct (c <? 0); reflexivity. Qed.
Lemma conss_setv s i v : conss (setv s i v) = conss s.
Proof. unfold setv. destruct (i <? 0); reflexivity. Qed.
Lemma thr_setv s i v : thr (setv s i v) = thr s.
Proof. unfold setv. destruct (i <? 0); reflexivity. Qed.
Lemma vals_setv_length s i v : length (vals (setv s i v)) = length (vals s).
Proof. unfold setv. destruct (i <? 0); cbn [vals]; [reflexivity | apply upd_length]. Qed.

Lemma vals_append_ack s c key : vals (append_ack s c key) = vals s.
Proof. unfold append_ack. destruct (getc s c); [apply vals_setc | reflexivity]. Qed.
Lemma thr_append_ack s c key : thr (append_ack s c key) = thr s.
Proof. unfold append_ack. destruct (getc s c); [apply thr_setc | reflexivity]. Qed.

Lemma getc_some_range s c x : getc s c = Some x -> 0 <= c /\ (Z.to_nat c < length (conss s))%nat.
Proof.
  unfold getc. destruct (c <? 0) eqn:E; [discriminate|]. apply Z.ltb_ge in E. intros H. split; [assumption|].
  apply nth_error_Some. congruence.
Qed.

Lemma getc_setc s c x y c' :
  getc s c = Some y -> getc (setc s c x) c' = if c' =? c then Some x else getc s c'.
Proof.
  intros H. destruct (getc_some_range _ _ _ H) as [H0 Hl].
  unfold getc, setc. assert (E : (c <? 0) = false) by (apply Z.ltb_ge; lia). rewrite E. cbn [conss].
  destruct (c' <? 0) eqn:E'.
  - apply Z.ltb_lt in E'. destruct (c' =? c) eqn:Ec; [apply Z.eqb_eq in Ec; lia | reflexivity].
  - apply Z.ltb_ge in E'. destruct (c' =? c) eqn:Ec.
    + apply Z.eqb_eq in Ec. subst c'. now apply nth_error_upd_eq.
    + apply Z.eqb_neq in Ec. apply nth_error_upd_neq. intros En. apply Ec. lia.
Qed.

Lemma getc_setv s i v c : getc (setv s i v) c = getc s c.
Proof. unfold getc. now rewrite conss_setv. Qed.

Lemma acks_of_setv s i v c : acks_of (setv s i v) c = acks_of s c.
Proof. unfold acks_of. now rewrite getc_setv. Qed.

Lemma acks_of_append_ack s c key c' :
  acks_of (append_ack s c key) c' =
  acks_of s c' ++ (if (c =? c') && match getc s c with Some _ => true | None => false end then [key] else []).
Proof.
  unfold append_ack, acks_of. destruct (getc s c) as [x|] eqn:E.
  - rewrite (getc_setc _ _ _ _ _ E). rewrite (Z.eqb_sym c c').
    destruct (c' =? c) eqn:Ec; cbn [andb].
    + apply Z.eqb_eq in Ec. subst c'. rewrite E. reflexivity.
    + now rewrite app_nil_r.
  - rewrite andb_false_r. now rewrite app_nil_r.
Qed.

(* conss-only view of acks_of, for ops that rebuild the state record *)
Lemma acks_of_conss s s' c : conss s' = conss s -> acks_of s' c = acks_of s c.
Proof. intros H. unfold acks_of, getc. now rewrite H. Qed.

(* ---------------------------------------------------------------- the decision chain *)
Section Recv.
  Variables (s : state) (c key infr : Z) (addr_ok : bool) (power : Z) (h : option Z) (res now : Z).
  Let r := recv_slash s c key infr addr_ok power h res now.
  Let s' := snd r.

  (* validators: changed iff jail_cond, and then exactly the reported one, with the consumer's parameters *)
  Lemma recv_vals :
    if jail_cond s c infr addr_ok power h res
    then exists x frac dur height,
           getc s c = Some x /\ c_params x = Some (frac, dur) /\ h = Some height /\
           0 <= res /\ (Z.to_nat res < length (vals s))%nat /\
           vals s' = upd (Z.to_nat res) (jail_val (getv s res) frac dur power height now) (vals s)
    else vals s' = vals s.
  Proof.
    unfold s', r, jail_cond, wellformed, launched, member, has_params, admitted, punishable, recv_slash.
    destruct (getc s c) as [x|] eqn:Ec; [|reflexivity].
    destruct h as [height|]; [|cbn [andb]; destruct (validate addr_ok power infr); reflexivity].
    destruct (validate addr_ok power infr) eqn:Ev; cbn [andb negb]; [|reflexivity].
    unfold DOUBLE_SIGN, DOWNTIME in *.
    destruct (infr =? 1) eqn:E1.
    { apply Z.eqb_eq in E1. subst infr. reflexivity. }
    assert (E2 : (infr =? 2) = true).
    { unfold validate, DOUBLE_SIGN, DOWNTIME in Ev. rewrite E1 in Ev. cbn [orb] in Ev.
      apply andb_true_iff in Ev. tauto. }
    rewrite E2. cbn [andb].
    destruct (c_phase x =? LAUNCHED); cbn [andb negb]; [|apply vals_append_ack].
    destruct (memz res (c_set x)); cbn [andb negb]; [|apply vals_append_ack].
    destruct (meter (thr s) <? 0) eqn:Em; cbn [andb negb snd]; [reflexivity|].
    set (s1 := mkS (vals s) (conss s) (snd (recv_meter (eff_power (getv s res)) (thr s)))).
    assert (Hv1 : getv s1 res = getv s res) by reflexivity.
    assert (Hc1 : getc s1 c = getc s c) by reflexivity.
    unfold handle. cbv zeta. rewrite Hv1, Hc1, Ec.
    destruct (v_found (getv s res)) eqn:Ef; cbn [andb negb]; [|reflexivity].
    unfold UNBONDED.
    destruct (v_status (getv s res) =? 1); cbn [andb negb]; [reflexivity|].
    destruct (v_tomb (getv s res)); cbn [andb negb]; [reflexivity|].
    destruct (c_params x) as [[frac dur]|] eqn:Ep.
    2:{ rewrite andb_false_r. rewrite vals_append_ack. reflexivity. }
    destruct (v_jailed (getv s res)) eqn:Ej; cbn [andb negb].
    { rewrite vals_append_ack. reflexivity. }
    destruct (found_in_range _ _ Ef) as [H0 Hl].
    exists x, frac, dur, height. repeat split; auto.
    unfold setv. assert (E : (res <? 0) = false) by (apply Z.ltb_ge; lia). rewrite E.
    cbn [vals]. rewrite vals_append_ack. reflexivity.
  Qed.

  Lemma recv_vals_length : length (vals s') = length (vals s).
  Proof.
    pose proof recv_vals as H. destruct (jail_cond s c infr addr_ok power h res).
    - destruct H as (x & frac & dur & height & _ & _ & _ & _ & _ & E). rewrite E. apply upd_length.
    - now rewrite H.
  Qed.

  (* frame: every other validator is untouched *)
  Lemma recv_frame i : i <> res -> getv s' i = getv s i.
  Proof.
    intros Hne. pose proof recv_vals as H. destruct (jail_cond s c infr addr_ok power h res).
    - destruct H as (x & frac & dur & height & _ & _ & _ & H0 & _ & E).
      unfold getv. rewrite E. destruct (i <? 0) eqn:Ei; [reflexivity|]. apply Z.ltb_ge in Ei.
      apply nth_upd_neq. intros En. apply Hne. lia.
    - unfold getv. now rewrite H.
  Qed.

  Lemma recv_target :
    getv s' res =
    if jail_cond s c infr addr_ok power h res
    then match getc s c, h with
         | Some x, Some height =>
           match c_params x with
           | Some (frac, dur) => jail_val (getv s res) frac dur power height now
           | None => getv s res
           end
         | _, _ => getv s res
         end
    else getv s res.
  Proof.
    pose proof recv_vals as H. destruct (jail_cond s c infr addr_ok power h res).
    - destruct H as (x & frac & dur & height & Ec & Ep & -> & H0 & Hl & E).
      rewrite Ec, Ep. unfold getv at 1. rewrite E.
      assert (Er : (res <? 0) = false) by (apply Z.ltb_ge; lia). rewrite Er. now apply nth_upd_eq.
    - unfold getv. now rewrite H.
  Qed.

  Lemma jail_iff :
    (v_jailed (getv s' res) = true /\ v_jailed (getv s res) = false)
    <-> jail_cond s c infr addr_ok power h res = true.
  Proof.
    rewrite recv_target. destruct (jail_cond s c infr addr_ok power h res) eqn:Ej.
    - split; [reflexivity|]. intros _.
      pose proof recv_vals as H. rewrite Ej in H.
      destruct H as (x & frac & dur & height & Ec & Ep & -> & _). rewrite Ec, Ep. cbn [jail_val v_jailed].
      split; [reflexivity|].
      unfold jail_cond in Ej. repeat (apply andb_true_iff in Ej; destruct Ej as [Ej ?]).
      now apply negb_true_iff.
    - split; [|discriminate]. intros [H1 H2]. congruence.
  Qed.

  (* double-sign packets change nothing at all *)
  Lemma double_sign_noop : infr = DOUBLE_SIGN -> s' = s.
  Proof.
    intros ->. unfold s', r, recv_slash.
    destruct (getc s c); [|reflexivity].
    destruct (validate addr_ok power DOUBLE_SIGN); cbn [negb]; [|reflexivity].
    destruct h; reflexivity.
  Qed.

  (* acks *)
  Lemma recv_acks c' :
    acks_of s' c' = acks_of s c' ++ appended s (ORecv c key infr addr_ok power h res now) c'.
  Proof.
    unfold s', r, appended, ack_cond, wellformed, launched, member, admitted, punishable, recv_slash.
    destruct (getc s c) as [x|] eqn:Ec.
    2:{ cbn [andb snd]. rewrite andb_false_r. now rewrite app_nil_r. }
    destruct h as [height|].
    2:{ cbn [andb]. rewrite andb_false_r. destruct (validate addr_ok power infr); cbn [negb snd]; now rewrite app_nil_r. }
    destruct (validate addr_ok power infr) eqn:Ev; cbn [andb negb snd].
    2:{ rewrite andb_false_r. now rewrite app_nil_r. }
    unfold DOUBLE_SIGN, DOWNTIME in *.
    destruct (infr =? 1) eqn:E1.
    { apply Z.eqb_eq in E1. subst infr. cbn [Z.eqb andb snd]. rewrite andb_false_r. now rewrite app_nil_r. }
    assert (E2 : (infr =? 2) = true).
    { unfold validate, DOUBLE_SIGN, DOWNTIME in Ev. rewrite E1 in Ev. cbn [orb] in Ev.
      apply andb_true_iff in Ev. tauto. }
    rewrite E2. cbn [andb].
    destruct (c_phase x =? LAUNCHED); cbn [andb orb negb snd].
    2:{ rewrite acks_of_append_ack, Ec. rewrite andb_true_r. reflexivity. }
    destruct (memz res (c_set x)); cbn [andb orb negb snd].
    2:{ rewrite acks_of_append_ack, Ec. rewrite andb_true_r. reflexivity. }
    destruct (meter (thr s) <? 0) eqn:Em; cbn [andb negb snd].
    { rewrite andb_false_r. now rewrite app_nil_r. }
    set (s1 := mkS (vals s) (conss s) (snd (recv_meter (eff_power (getv s res)) (thr s)))).
    assert (Hv1 : getv s1 res = getv s res) by reflexivity.
    assert (Hc1 : getc s1 c = getc s c) by reflexivity.
    assert (Ha1 : acks_of s1 c' = acks_of s c') by reflexivity.
    unfold handle. cbv zeta. rewrite Hv1, Hc1, Ec.
    destruct (v_found (getv s res)); cbn [andb negb].
    2:{ rewrite andb_false_r. rewrite app_nil_r. exact Ha1. }
    unfold UNBONDED.
    destruct (v_status (getv s res) =? 1); cbn [andb negb].
    { rewrite andb_false_r. rewrite app_nil_r. exact Ha1. }
    destruct (v_tomb (getv s res)); cbn [andb negb].
    { rewrite andb_false_r. rewrite app_nil_r. exact Ha1. }
    rewrite andb_true_r.
    assert (Hack : acks_of (append_ack s1 c key) c' = acks_of s c' ++ (if c =? c' then [key] else [])).
    { rewrite acks_of_append_ack, Hc1, Ec, Ha1. rewrite andb_true_r. reflexivity. }
    destruct (c_params x) as [[frac dur]|]; [|exact Hack].
    destruct (v_jailed (getv s res)); [exact Hack|].
    rewrite acks_of_setv. exact Hack.
  Qed.

  (* result class *)
  Lemma recv_class :
    fst r =
    match getc s c with
    | None => 0
    | Some x =>
      if negb (validate addr_ok power infr) then 4
      else match h with
           | None => 4
           | Some _ =>
             if infr =? DOUBLE_SIGN then 1
             else if (c_phase x =? LAUNCHED) && memz res (c_set x) && (meter (thr s) <? 0) then 3 else 2
           end
    end.
  Proof.
    unfold r, recv_slash. destruct (getc s c) as [x|]; [|reflexivity].
    destruct (validate addr_ok power infr); cbn [negb]; [|reflexivity].
    destruct h; [|reflexivity].
    destruct (infr =? DOUBLE_SIGN); [reflexivity|].
    destruct (c_phase x =? LAUNCHED); cbn [negb andb]; [|reflexivity].
    destruct (memz res (c_set x)); cbn [negb andb]; [|reflexivity].
    destruct (meter (thr s) <? 0); reflexivity.
  Qed.

  (* the meter is deducted by the effective power exactly when the packet passes the meter check *)
  Lemma recv_meter_effect :
    meter (thr s') =
    if wellformed s c infr addr_ok power h && launched s c && member s c res && admitted s
    then meter (thr s) - eff_power (getv s res) else meter (thr s).
  Proof.
    unfold s', r, wellformed, launched, member, admitted, recv_slash.
    destruct (getc s c) as [x|] eqn:Ec; [|reflexivity].
    destruct h as [height|]; [|destruct (validate addr_ok power infr); reflexivity].
    destruct (validate addr_ok power infr) eqn:Ev; cbn [andb negb]; [|reflexivity].
    unfold DOUBLE_SIGN, DOWNTIME in *.
    destruct (infr =? 1) eqn:E1.
    { apply Z.eqb_eq in E1. subst infr. reflexivity. }
    assert (E2 : (infr =? 2) = true).
    { unfold validate, DOUBLE_SIGN, DOWNTIME in Ev. rewrite E1 in Ev. cbn [orb] in Ev.
      apply andb_true_iff in Ev. tauto. }
    rewrite E2. cbn [andb].
    destruct (c_phase x =? LAUNCHED); cbn [andb negb snd]; [|now rewrite thr_append_ack].
    destruct (memz res (c_set x)); cbn [andb negb snd]; [|now rewrite thr_append_ack].
    destruct (meter (thr s) <? 0) eqn:Em; cbn [andb negb snd]; [reflexivity|].
    set (s1 := mkS (vals s) (conss s) (snd (recv_meter (eff_power (getv s res)) (thr s)))).
    assert (Hm : meter (thr s1) = meter (thr s) - eff_power (getv s res)).
    { unfold s1. cbn [thr]. unfold recv_meter. rewrite Em. reflexivity. }
    unfold handle. cbv zeta.
    destruct (v_found (getv s1 res)); cbn [negb]; [|exact Hm].
    destruct (v_status (getv s1 res) =? UNBONDED); [exact Hm|].
    destruct (v_tomb (getv s1 res)); [exact Hm|].
    destruct (getc s1 c) as [y|]; [|now rewrite thr_append_ack].
    destruct (c_params y) as [[frac dur]|]; [|now rewrite thr_append_ack].
    destruct (v_jailed (getv s1 res)); [now rewrite thr_append_ack|].
    rewrite thr_setv. now rewrite thr_append_ack.
  Qed.
End Recv.

(* ---------------------------------------------------------------- epochs *)
Lemma epoch_nth : forall cs prod n,
  nth_error (fst (epoch cs prod)) n =
    option_map (fun x => if nth n prod false then mkCo (c_phase x) (c_set x) (c_params x) [] else x) (nth_error cs n)
  /\ nth n (snd (epoch cs prod)) [] =
     match nth_error cs n with Some x => if nth n prod false then c_acks x else [] | None => [] end.
Proof.
  induction cs as [|x t IH]; intros prod n; cbn [epoch].
  - cbn [fst snd]. destruct n; cbn; auto.
  - destruct (epoch t (tl prod)) as [t' e] eqn:E.
    specialize (IH (tl prod)). rewrite E in IH. cbn [fst snd] in IH.
    assert (Hn : forall m, nth (S m) prod false = nth m (tl prod) false).
    { intros m. destruct prod; cbn; [destruct m; reflexivity | reflexivity]. }
    assert (H0 : nth 0 prod false = hd false prod) by (destruct prod; reflexivity).
    destruct (hd false prod) eqn:Eh; cbn [fst snd]; destruct n as [|m]; cbn [nth_error nth option_map];
      rewrite ?H0, ?Hn; auto; apply IH.
Qed.

Lemma nthz_nth {A} (c : Z) (l : list A) d : 0 <= c -> nthz c l d = nth (Z.to_nat c) l d.
Proof. intros H. unfold nthz. assert (E : (c <? 0) = false) by (apply Z.ltb_ge; lia). now rewrite E. Qed.

Lemma epoch_acks frac period s prod c :
  acks_of s c = emitted_for frac period s (OEpoch prod) c ++ acks_of (step frac period s (OEpoch prod)) c.
Proof.
  unfold emitted_for, emitted, step, step_out.
  destruct (epoch (conss s) prod) as [cs em] eqn:E. cbn [fst snd].
  unfold acks_of, getc, nthz. cbn [conss].
  destruct (c <? 0); [reflexivity|].
  destruct (epoch_nth (conss s) prod (Z.to_nat c)) as [H1 H2]. rewrite E in H1, H2. cbn [fst snd] in H1, H2.
  rewrite H1, H2. destruct (nth_error (conss s) (Z.to_nat c)) as [x|]; cbn [option_map]; [|reflexivity].
  destruct (nth (Z.to_nat c) prod false); cbn [c_acks]; [now rewrite app_nil_r | reflexivity].
Qed.

Lemma epoch_exact frac period s prod c x :
  getc s c = Some x ->
  let p := nthz c prod false in
  emitted_for frac period s (OEpoch prod) c = (if p then c_acks x else []) /\
  acks_of (step frac period s (OEpoch prod)) c = (if p then [] else c_acks x).
Proof.
  intros Hc p. unfold p, emitted_for, emitted, step, step_out.
  destruct (epoch (conss s) prod) as [cs em] eqn:E. cbn [fst snd].
  unfold acks_of, getc, nthz in *. cbn [conss].
  destruct (c <? 0); [discriminate|].
  destruct (epoch_nth (conss s) prod (Z.to_nat c)) as [H1 H2]. rewrite E in H1, H2. cbn [fst snd] in H1, H2.
  rewrite H1, H2, Hc. cbn [option_map].
  destruct (nth (Z.to_nat c) prod false); cbn [c_acks]; auto.
Qed.

(* ---------------------------------------------------------------- per-step ack conservation *)
Lemma step_acks frac period s o c :
  acks_of s c ++ appended s o c = emitted_for frac period s o c ++ acks_of (step frac period s o) c.
Proof.
  destruct o as [c0 key infr addr_ok power h res now | prod | now total | rows | c0 phase set params].
  - cbn [emitted_for app]. unfold step, step_out.
    pose proof (recv_acks s c0 key infr addr_ok power h res now c) as H.
    destruct (recv_slash s c0 key infr addr_ok power h res now) as [r s']. cbn [fst snd] in *. now rewrite H.
  - cbn [appended]. rewrite app_nil_r. apply epoch_acks.
  - cbn [appended emitted_for app]. rewrite app_nil_r. reflexivity.
  - cbn [appended emitted_for app]. rewrite app_nil_r. reflexivity.
  - cbn [appended emitted_for app]. rewrite app_nil_r. unfold step, step_out.
    destruct (getc s c0) as [x|] eqn:Ec; cbn [fst]; [|reflexivity].
    unfold acks_of. rewrite (getc_setc _ _ _ _ _ Ec).
    destruct (c =? c0) eqn:E; [|reflexivity]. apply Z.eqb_eq in E. subst c0. now rewrite Ec.
Qed.

Lemma acks_conserved frac period : forall ops s c,
  acks_of s c ++ all_appended frac period s ops c =
  all_emitted frac period s ops c ++ acks_of (fold_left (step frac period) ops s) c.
Proof.
  induction ops as [|o t IH]; intros s c; cbn [all_appended all_emitted fold_left].
  - now rewrite app_nil_r.
  - rewrite app_assoc, (step_acks frac period), <- !app_assoc. f_equal. apply IH.
Qed.

(* ---------------------------------------------------------------- frame for the other ops *)
Lemma step_vals_other frac period s o :
  match o with ORecv _ _ _ _ _ _ _ _ | OExt _ => True | _ => vals (step frac period s o) = vals s end.
Proof.
  destruct o as [c0 key infr addr_ok power h res now | prod | now total | rows | c0 phase set params]; auto.
  - unfold step, step_out. destruct (epoch (conss s) prod). reflexivity.
  - unfold step, step_out. destruct (getc s c0); cbn [fst]; [apply vals_setc | reflexivity].
Qed.

(* the cases of ack_cond, as listed in the property *)
Lemma ack_cond_cases s c infr addr_ok power h res :
  ack_cond s c infr addr_ok power h res = true <->
  wellformed s c infr addr_ok power h = true /\
  (launched s c = false \/
   (launched s c = true /\ member s c res = false) \/
   jail_cond s c infr addr_ok power h res = true \/
   (launched s c = true /\ member s c res = true /\ admitted s = true /\ punishable (getv s res) = true /\
    (v_jailed (getv s res) = true \/ has_params s c = false))).
Proof.
  unfold ack_cond, jail_cond.
  destruct (wellformed s c infr addr_ok power h); cbn [andb]; [|split; [discriminate | intros [H _]; discriminate]].
  destruct (launched s c); cbn [andb orb negb].
  2:{ split; auto. }
  destruct (member s c res); cbn [andb orb negb].
  2:{ split; auto. }
  destruct (admitted s); cbn [andb].
  2:{ split; [discriminate|]. intros [_ [H|[[_ H]|[H|(_ & _ & H & _)]]]]; discriminate. }
  destruct (punishable (getv s res)); cbn [andb].
  2:{ split; [discriminate|]. intros [_ [H|[[_ H]|[H|(_ & _ & _ & H & _)]]]]; discriminate. }
  split; [|auto]. intros _. split; [reflexivity|].
  destruct (v_jailed (getv s res)); cbn [negb andb]; [right; right; right; repeat split; auto|].
  destruct (has_params s c); [right; right; left; reflexivity | right; right; right; repeat split; auto].
Qed.

(* ---------------------------------------------------------------- statements used by Props/C08.v *)
Lemma step_recv frac period s c key infr addr_ok power h res now :
  step frac period s (ORecv c key infr addr_ok power h res now) = snd (recv_slash s c key infr addr_ok power h res now).
Proof.
  unfold step, step_out. destruct (recv_slash s c key infr addr_ok power h res now); reflexivity.
Qed.

(* jail_cond spelled out *)
Lemma jail_cond_spec s c infr addr_ok power h res :
  jail_cond s c infr addr_ok power h res = true <->
  exists x height,
    getc s c = Some x /\ h = Some height /\                         (* registered channel, known vsc id *)
    validate addr_ok power infr = true /\ infr = DOWNTIME /\        (* well-formed downtime report *)
    c_phase x = LAUNCHED /\ In res (c_set x) /\                     (* launched, in the consumer's stored set *)
    0 <= meter (thr s) /\                                           (* the throttle admits the packet *)
    v_found (getv s res) = true /\ v_status (getv s res) <> UNBONDED /\
    v_tomb (getv s res) = false /\ v_jailed (getv s res) = false /\
    c_params x <> None.
Proof.
  unfold jail_cond, wellformed, launched, member, admitted, punishable, has_params.
  split.
  - intros H. repeat (apply andb_true_iff in H; destruct H as [H ?]).
    destruct (getc s c) as [x|]; [|discriminate]. destruct h as [height|]; [|discriminate].
    apply andb_true_iff in H. destruct H as [Hv Hd].
    exists x, height. repeat split; auto.
    + now apply Z.eqb_eq.
    + now apply Z.eqb_eq.
    + now apply memz_In.
    + apply negb_true_iff, Z.ltb_ge in H3. lia.
    + apply andb_true_iff in H2. destruct H2 as [H2 _]. apply andb_true_iff in H2. tauto.
    + apply andb_true_iff in H2. destruct H2 as [H2 _]. apply andb_true_iff in H2. destruct H2 as [_ H2].
      apply negb_true_iff, Z.eqb_neq in H2. assumption.
    + apply andb_true_iff in H2. destruct H2 as [_ H2]. now apply negb_true_iff.
    + now apply negb_true_iff.
    + destruct (c_params x); [discriminate | discriminate].
  - intros (x & height & -> & -> & Hv & Hd & Hp & Hm & Hmet & Hf & Hs & Ht & Hj & Hpar).
    rewrite Hv, Hf, Ht, Hj. subst infr. rewrite Hp.
    apply memz_In in Hm. rewrite Hm. cbn [andb negb Z.eqb].
    assert (E1 : (meter (thr s) <? 0) = false) by (apply Z.ltb_ge; lia). rewrite E1.
    apply Z.eqb_neq in Hs. rewrite Hs. cbn [andb negb].
    destruct (c_params x); [reflexivity | contradiction].
Qed.

Lemma jail_iff_run frac period init ops c key infr addr_ok power h res now :
  let s := fold_left (step frac period) ops init in
  let s' := step frac period s (ORecv c key infr addr_ok power h res now) in
  (v_jailed (getv s' res) = true /\ v_jailed (getv s res) = false)
  <-> jail_cond s c infr addr_ok power h res = true.
Proof. intros s s'. unfold s'. rewrite step_recv. apply jail_iff. Qed.

Lemma nobody_else_run frac period init ops o :
  let s := fold_left (step frac period) ops init in
  let s' := step frac period s o in
  match o with
  | ORecv c key infr addr_ok power h res now =>
      (forall i, i <> res -> getv s' i = getv s i) /\
      length (vals s') = length (vals s) /\
      (infr = DOUBLE_SIGN -> s' = s) /\
      v_found (getv s' res) = v_found (getv s res) /\ v_status (getv s' res) = v_status (getv s res) /\
      v_tomb (getv s' res) = v_tomb (getv s res) /\ v_lastpow (getv s' res) = v_lastpow (getv s res)
  | OExt _ => True
  | _ => vals s' = vals s
  end.
Proof.
  intros s s'. destruct o as [c key infr addr_ok power h res now | prod | now total | rows | c0 phase set params].
  - unfold s'. rewrite step_recv. split; [intros i Hi; now apply recv_frame|].
    split; [apply recv_vals_length|]. split; [apply double_sign_noop|].
    rewrite recv_target. destruct (jail_cond s c infr addr_ok power h res); [|auto].
    destruct (getc s c) as [x|]; [|auto]. destruct h; [|auto]. destruct (c_params x) as [[fr du]|]; auto.
  - apply (step_vals_other frac period s (OEpoch prod)).
  - apply (step_vals_other frac period s (OBegin now total)).
  - exact I.
  - apply (step_vals_other frac period s (OCons c0 phase set params)).
Qed.

Lemma params_run frac period init ops c key infr addr_ok power h res now :
  let s := fold_left (step frac period) ops init in
  let s' := step frac period s (ORecv c key infr addr_ok power h res now) in
  jail_cond s c infr addr_ok power h res = true ->
  exists x fr dur height,
    getc s c = Some x /\ c_params x = Some (fr, dur) /\ h = Some height /\
    getv s' res = jail_val (getv s res) fr dur power height now /\
    v_jailed (getv s' res) = true /\
    v_until (getv s' res) = now + dur /\
    v_tokens (getv s' res) = slash_tokens fr power (v_tokens (getv s res)) /\
    v_log (getv s' res) = v_log (getv s res) ++ [(height, power, fr)].
Proof.
  intros s s' Hj. unfold s'. rewrite step_recv.
  pose proof (recv_vals s c key infr addr_ok power h res now) as H. rewrite Hj in H.
  destruct H as (x & fr & dur & height & Ec & Ep & -> & H0 & Hl & E).
  exists x, fr, dur, height. repeat split; auto;
    rewrite recv_target, Hj, Ec, Ep; reflexivity.
Qed.

Lemma ack_step_run frac period init ops c key infr addr_ok power h res now c' :
  let s := fold_left (step frac period) ops init in
  let s' := step frac period s (ORecv c key infr addr_ok power h res now) in
  acks_of s' c' = acks_of s c' ++ (if (c =? c') && ack_cond s c infr addr_ok power h res then [key] else []).
Proof. intros s s'. unfold s'. rewrite step_recv. apply recv_acks. Qed.

Lemma class_run frac period init ops c key infr addr_ok power h res now :
  let s := fold_left (step frac period) ops init in
  snd (fst (step_out frac period s (ORecv c key infr addr_ok power h res now))) =
  match getc s c with
  | None => 0
  | Some x =>
    if negb (validate addr_ok power infr) then 4
    else match h with
         | None => 4
         | Some _ =>
           if infr =? DOUBLE_SIGN then 1
           else if (c_phase x =? LAUNCHED) && memz res (c_set x) && (meter (thr s) <? 0) then 3 else 2
         end
  end.
Proof.
  intros s. unfold step_out.
  pose proof (recv_class s c key infr addr_ok power h res now) as H.
  destruct (recv_slash s c key infr addr_ok power h res now) as [r0 s0]. exact H.
Qed.
