(* Lemmas about Model/EvidenceKeys.v (KeyAssign x Evidence): the composed run projects to a KeyAssign run, and an
   evidence submission punishes exactly the validator KeyAssign.resolve names (if staking knows it). *)
From Coq Require Import ZArith List Bool Lia.
From ICS Require Import Base.Dec Base.Tree.
From ICS Require Model.KeyAssign Model.Evidence Proofs.KeyAssignProofs Proofs.EvidenceProofs.
From ICS Require Import Model.EvidenceKeys.
Import ListNotations.
Open Scope Z_scope.

Module KP := ICS.Proofs.KeyAssignProofs.
Module EP := ICS.Proofs.EvidenceProofs.

(* ---------- the KeyAssign component of a composed run is a KeyAssign run ---------- *)
Lemma ks_setrow : forall s key v, ks (setrow s key v) = ks s.
Proof. intros. unfold setrow. destruct (key <? 0); reflexivity. Qed.
Lemma es_setrow : forall s key v, es (setrow s key v) = es s.
Proof. intros. unfold setrow. destruct (key <? 0); reflexivity. Qed.

Lemma ks_sstep : forall s a,
  ks (fst (sstep s a)) = match to_kop s a with Some o => fst (K.step (ks s) o) | None => ks s end.
Proof.
  intros s a. destruct a as [a|g|o key v|o|key v|entry e|entry m].
  - destruct a; try reflexivity;
      cbn [sstep to_kop]; destruct (K.step (ks s) _) as [k' e]; reflexivity.
  - reflexivity.
  - cbn [sstep to_kop]. destruct (in_table s key); cbn [negb]; [|reflexivity].
    destruct (K.step (ks s) (K.OCreateVal o key)) as [k' e] eqn:E. destruct (e =? 0) eqn:Ee; cbn [fst].
    + rewrite ks_setrow. reflexivity.
    + symmetry. replace k' with (fst (K.step (ks s) (K.OCreateVal o key))) by (rewrite E; reflexivity).
      apply KP.step_err_unchanged. rewrite E. cbn [snd]. intros ->. discriminate.
  - cbn [sstep to_kop]. destruct (K.reg_by_oper o (K.s_reg (ks s))) eqn:E; cbn [fst].
    + rewrite ks_setrow. reflexivity.
    + cbn [K.step]. rewrite E. reflexivity.
  - cbn [sstep to_kop]. destruct (registered (ks s) key); [|reflexivity].
    destruct (getrow s key); cbn [fst]; [apply ks_setrow|reflexivity].
  - cbn [sstep to_kop]. destruct (E.submit_dv _ entry e) as [[v' code] d]. reflexivity.
  - cbn [sstep to_kop]. destruct (E.submit_mb _ entry m) as [[v' code] d]. reflexivity.
Qed.

Lemma ks_srun : forall ops s, ks (srun ops s) = K.exec (ktrace s ops) (ks s).
Proof.
  induction ops as [|a t IH]; intros s; [reflexivity|].
  cbn [srun fold_left ktrace]. fold (srun t (fst (sstep s a))). rewrite IH, ks_sstep.
  destruct (to_kop s a); reflexivity.
Qed.

Lemma reach_ks : forall U nk ops,
  ks (srun ops (init_sys U nk)) = K.exec (ktrace (init_sys U nk) ops) (K.init U).
Proof. intros. rewrite ks_srun. reflexivity. Qed.

Lemma reach_sinv : forall U nk ops, KP.sinv (ks (srun ops (init_sys U nk))).
Proof. intros. rewrite reach_ks. apply KP.reach_sinv. Qed.

(* ---------- the view ---------- *)
Lemma nth_error_map_seq : forall {A} (f : nat -> A) n c,
  nth_error (map f (seq 0 n)) c = if (c <? n)%nat then Some (f c) else None.
Proof.
  intros A f n c. destruct (c <? n)%nat eqn:E.
  - apply Nat.ltb_lt in E. rewrite nth_error_map, nth_error_nth' with (d := O) by (rewrite seq_length; auto).
    rewrite seq_nth by auto. reflexivity.
  - apply Nat.ltb_ge in E. apply nth_error_None. rewrite map_length, seq_length. auto.
Qed.

Lemma getc_view : forall s addrs c0,
  E.getc (view s addrs) c0 =
  if (c0 <? 0) || negb (Z.to_nat c0 <? length (K.s_cons (ks s)))%nat then None
  else Some (cons_view s addrs (Z.to_nat c0)).
Proof.
  intros s addrs c0. unfold E.getc, view. cbn [E.s_cons]. destruct (c0 <? 0); cbn [orb]; [reflexivity|].
  rewrite nth_error_map_seq. destruct (Z.to_nat c0 <? _)%nat; reflexivity.
Qed.

Lemma getv_view : forall s addrs p, E.getv (view s addrs) p = getrow s p.
Proof. reflexivity. Qed.

Lemma assoc_map : forall (f : Z -> Z) addrs a, In a addrs -> E.assoc a (map (fun a => (a, f a)) addrs) = Some (f a).
Proof.
  intros f addrs a. induction addrs as [|b t IH]; intros H; [destruct H|]. cbn [map E.assoc].
  destruct (b =? a) eqn:Eb; [apply Z.eqb_eq in Eb; subst; reflexivity|].
  destruct H as [H|H]; [subst; rewrite Z.eqb_refl in Eb; discriminate|auto].
Qed.

Lemma resolve_view : forall s addrs c a, In a addrs -> E.resolve (cons_view s addrs c) a = target s c a.
Proof.
  intros s addrs c a H. unfold E.resolve, cons_view. cbn [E.c_keys].
  rewrite (assoc_map (target s c) addrs a H). reflexivity.
Qed.

Lemma target_cases : forall s c a,
  (registered (ks s) (K.resolve (ks s) c a) = true /\ target s c a = K.resolve (ks s) c a) \/
  (registered (ks s) (K.resolve (ks s) c a) = false /\ target s c a = -1).
Proof. intros. unfold target. destruct (registered (ks s) (K.resolve (ks s) c a)); auto. Qed.

Lemma getrow_neg : forall s, getrow s (-1) = None.
Proof. reflexivity. Qed.

(* ---------- a double-voting submission in the composed machine ---------- *)
Definition sys_dv_valid (s : sys) (entry : Z) (e : E.dv) : Prop :=
  EP.dv_conditions (view s [E.dv_addr e]) entry e.

Lemma sys_dv_valid_spec : forall s entry e,
  sys_dv_valid s entry e <->
  exists c chain ds,
    E.dv_cons e = Z.of_nat c /\ (c < length (K.s_cons (ks s)))%nat /\ K.c_client (K.getc (ks s) c) = true /\
    ec_minh (nth c (es s) ecdflt) <= E.dv_height e /\ ec_chain (nth c (es s) ecdflt) = Some chain /\
    (entry = 0 -> E.dv_vb_ok e = true /\ E.dv_bid_cmp e < 0 /\ E.dv_valset_ok e = true /\ E.dv_key_in_valset e = true) /\
    (entry <> 0 -> E.dv_key_present e = true) /\
    E.dv_key_addr_ok e = true /\ E.dv_hrt_eq e = true /\ E.dv_addr_eq e = true /\ E.dv_bid_cmp e <> 0 /\
    In chain (E.dv_sigA e) /\ In chain (E.dv_sigB e) /\ ec_ds (nth c (es s) ecdflt) = Some ds.
Proof.
  intros s entry e. unfold sys_dv_valid, EP.dv_conditions. split.
  - intros [cv [cl [chain [ds [Hc [Hcl [Hh [Hch R]]]]]]]].
    rewrite getc_view in Hc.
    destruct (E.dv_cons e <? 0) eqn:E0; cbn [orb] in Hc; [discriminate|]. apply Z.ltb_ge in E0.
    destruct (Z.to_nat (E.dv_cons e) <? length (K.s_cons (ks s)))%nat eqn:E1; cbn [negb] in Hc; [|discriminate].
    apply Nat.ltb_lt in E1. inversion Hc; subst cv. clear Hc.
    exists (Z.to_nat (E.dv_cons e)), chain, ds. cbn [cons_view E.c_client E.c_minh E.c_chain E.c_ds] in *.
    rewrite Z2Nat.id by auto.
    assert (CL : K.c_client (K.getc (ks s) (Z.to_nat (E.dv_cons e))) = true)
      by (destruct (K.c_client _); [reflexivity|discriminate]).
    destruct R as [A1 [A2 [A3 [A4 [A5 [A6 [A7 [A8 A9]]]]]]]]. repeat split; auto; try (apply A1; auto).
  - intros [c [chain [ds [Hc [Hlt [Hcl [Hh [Hch R]]]]]]]].
    exists (cons_view s [E.dv_addr e] c), (Z.of_nat c), chain, ds.
    rewrite getc_view, Hc. replace (Z.of_nat c <? 0) with false by (symmetry; apply Z.ltb_ge; lia).
    rewrite Nat2Z.id. apply Nat.ltb_lt in Hlt. rewrite Hlt. cbn [orb negb].
    cbn [cons_view E.c_client E.c_minh E.c_chain E.c_ds]. rewrite Hcl.
    destruct R as [A1 [A2 [A3 [A4 [A5 [A6 [A7 [A8 A9]]]]]]]]. repeat split; auto; try (apply A1; auto).
Qed.

Definition dv_c (e : E.dv) : nat := Z.to_nat (E.dv_cons e).
Definition dv_submit (s : sys) (entry : Z) (e : E.dv) : sys := fst (sstep s (SDoubleVote entry e)).
Definition dv_code (s : sys) (entry : Z) (e : E.dv) : Z := snd (sstep s (SDoubleVote entry e)).

(* what a double-voting submission does, stated for a validator P *)
Definition dv_facts (s : sys) (entry : Z) (e : E.dv) (P : Z) : Prop :=
  let s' := dv_submit s entry e in
  (dv_code s entry e = 0 <->
     sys_dv_valid s entry e /\ registered (ks s) P = true /\
     exists v, getrow s P = Some v /\ E.v_status v <> E.UNBONDED /\ E.v_tomb v = false /\ E.v_sinfo v = true) /\
  (dv_code s entry e = 0 ->
     (forall i, i <> P -> getrow s' i = getrow s i) /\
     exists ds v, ec_ds (nth (dv_c e) (es s) ecdflt) = Some ds /\ getrow s P = Some v /\
                  getrow s' P = Some (E.punished_rec (K.s_now (ks s)) ds v)) /\
  (dv_code s entry e <> 0 -> s' = s) /\
  ks s' = ks s /\ es s' = es s.

Lemma dv_step_proj : forall s entry e,
  let r := E.submit_dv (view s [E.dv_addr e]) entry e in
  dv_code s entry e = snd (fst r) /\ dv_submit s entry e = mkSys (ks s) (E.s_vals (fst (fst r))) (es s).
Proof.
  intros s entry e r. unfold dv_code, dv_submit, r. cbn [sstep].
  destruct (E.submit_dv _ entry e) as [[v' code] d]. split; reflexivity.
Qed.

Lemma sys_eta : forall s, mkSys (ks s) (vt s) (es s) = s.
Proof. intros [k v g]. reflexivity. Qed.

Lemma dv_on_target : forall s entry e,
  dv_facts s entry e (K.resolve (ks s) (dv_c e) (E.dv_addr e)).
Proof.
  intros s entry e. set (P := K.resolve (ks s) (dv_c e) (E.dv_addr e)).
  set (V := view s [E.dv_addr e]).
  destruct (dv_step_proj s entry e) as [Hcode Hsub]. fold V in Hcode, Hsub.
  destruct (EP.submit_dv_spec V entry e) as [A [B C]]. cbv zeta in A, B, C.
  (* when the conditions hold the consumer exists and the handlers' target is [target] *)
  assert (TG : sys_dv_valid s entry e -> E.dv_target V e = target s (dv_c e) (E.dv_addr e) /\
               E.ds_of V (E.dv_cons e) = match ec_ds (nth (dv_c e) (es s) ecdflt) with Some d => d | None => E.mkDS 0 0 false end).
  { intros Hv. apply sys_dv_valid_spec in Hv. destruct Hv as [c [chain [ds [Hc [Hlt _]]]]].
    unfold E.dv_target, E.ds_of. fold V. unfold V. rewrite getc_view, Hc.
    replace (Z.of_nat c <? 0) with false by (symmetry; apply Z.ltb_ge; lia).
    rewrite Nat2Z.id. apply Nat.ltb_lt in Hlt. rewrite Hlt. cbn [orb negb].
    unfold dv_c. rewrite Hc, Nat2Z.id. split; [apply resolve_view; left; reflexivity|reflexivity]. }
  unfold dv_facts. cbv zeta. rewrite Hcode, Hsub. split; [|split; [|split]].
  - rewrite A. fold (sys_dv_valid s entry e). split.
    + intros [Hv [v [Hg [H1 [H2 H3]]]]]. split; auto. destruct (TG Hv) as [Ht _]. rewrite Ht in Hg.
      destruct (target_cases s (dv_c e) (E.dv_addr e)) as [[R T]|[R T]]; rewrite T in Hg.
      * fold P in R, Hg. split; auto. exists v. auto.
      * assert (N : E.getv V (-1) = None) by reflexivity. congruence.
    + intros [Hv [R [v [Hg [H1 [H2 H3]]]]]]. split; auto. destruct (TG Hv) as [Ht _]. rewrite Ht.
      unfold target. fold P. rewrite R. exists v. auto.
  - intros H0. pose proof (proj1 A H0) as [Hv [w [Hw _]]]. destruct (TG Hv) as [Ht Hds].
    destruct (B H0) as [v [Hg Hs]]. rewrite Hs.
    assert (TP : E.dv_target V e = P).
    { rewrite Ht. destruct (target_cases s (dv_c e) (E.dv_addr e)) as [[R T]|[R T]]; [exact T|].
      rewrite Ht, T in Hw. assert (N : E.getv V (-1) = None) by reflexivity. congruence. }
    rewrite TP in *. split.
    + intros i Hi. change (E.getv (EP.punish_one V P (E.ds_of V (E.dv_cons e)) v) i = E.getv V i).
      apply EP.punish_one_getv_other; auto.
    + apply sys_dv_valid_spec in Hv. destruct Hv as (c & chain & ds & Hc & _ & _ & _ & _ & _ & _ & _ & _ & _ & _ & _ & _ & Hd).
      assert (dv_c e = c) by (unfold dv_c; rewrite Hc; apply Nat2Z.id). subst c.
      exists ds, v. split; auto. split; [exact Hg|].
      change (E.getv (EP.punish_one V P (E.ds_of V (E.dv_cons e)) v) P = Some (E.punished_rec (K.s_now (ks s)) ds v)).
      rewrite (EP.punish_one_getv_same _ _ _ _ Hg), Hds, Hd. reflexivity.
  - intros H0. rewrite (C H0). unfold V. cbn [view E.s_vals]. apply sys_eta.
  - split; reflexivity.
Qed.

(* ---------- misbehaviour ---------- *)
Definition mb_c (m : E.mb) : nat := Z.to_nat (E.mb_cons m).
Definition count_tgt (s : sys) (c : nat) (i : Z) (l : list Z) : nat :=
  length (filter (fun a => target s c a =? i) l).

Lemma byz_subset : forall m l a, E.get_byzantine m = E.Ok l -> In a l -> In a (mb_addrs m).
Proof.
  intros m l a H Ha. destruct (EP.get_byzantine_spec _ _ H) as [_ [AM B]].
  destruct (E.mb_conflict m) eqn:C; [|destruct (E.mb_rounds_eq m) eqn:R].
  - destruct (B (or_introl eq_refl)) as [El _]. rewrite El in Ha. apply in_map_iff in Ha.
    destruct Ha as [x [Hx Hi]]. apply filter_In in Hi. unfold mb_addrs. apply in_map_iff. exists x. tauto.
  - destruct (B (or_intror eq_refl)) as [El _]. rewrite El in Ha. apply in_map_iff in Ha.
    destruct Ha as [x [Hx Hi]]. apply filter_In in Hi. unfold mb_addrs. apply in_map_iff. exists x. tauto.
  - rewrite (AM (conj eq_refl eq_refl)) in Ha. destruct Ha.
Qed.

Lemma count_res_view : forall s addrs c i l,
  (forall a, In a l -> In a addrs) -> E.count_res (cons_view s addrs c) i l = count_tgt s c i l.
Proof.
  intros s addrs c i l. unfold E.count_res, count_tgt. induction l as [|a t IH]; intros H; [reflexivity|].
  cbn [filter]. rewrite (resolve_view s addrs c a) by (apply H; left; reflexivity).
  destruct (target s c a =? i); cbn [length]; rewrite IH; auto; intros b Hb; apply H; right; auto.
Qed.

(* an accepted misbehaviour punishes validator i exactly as often as a byzantine address is attributed to it by
   the key-assignment component (while its guards pass); nothing else changes *)
Lemma mb_on_targets : forall s entry m cv ds l,
  snd (sstep s (SMisbehaviour entry m)) = 0 ->
  EP.mb_conditions (view s (mb_addrs m)) entry m cv ds l ->
  let s' := fst (sstep s (SMisbehaviour entry m)) in
  ks s' = ks s /\ es s' = es s /\
  forall i, getrow s' i = option_map (E.punish_n (K.s_now (ks s)) ds (count_tgt s (mb_c m) i l)) (getrow s i).
Proof.
  intros s entry m cv ds l H MC s'. subst s'. set (V := view s (mb_addrs m)) in *.
  destruct (EP.step_mb_proj V entry m) as [P1 P2].
  cbn [sstep] in *. fold V in H |- *. destruct (E.submit_mb V entry m) as [[v' code] d] eqn:SM. cbn [fst snd] in *.
  subst code. assert (H0 : E.code (E.step V (E.OMB entry m)) = 0) by (rewrite P1; reflexivity).
  destruct (EP.mb_exact V entry m cv ds l H0 MC) as [_ [_ [_ X]]]. rewrite P2 in X. cbn [fst] in X.
  split; [reflexivity|]. split; [reflexivity|]. intros i.
  change (E.getv v' i = option_map (E.punish_n (K.s_now (ks s)) ds (count_tgt s (mb_c m) i l)) (E.getv V i)).
  rewrite X. cbn [V view E.s_time].
  destruct (EP.mb_conditions_inv _ _ _ _ _ _ MC) as [Hc [HB _]].
  unfold V in Hc. rewrite getc_view in Hc. destruct (_ || _); [discriminate|]. inversion Hc; subst cv.
  rewrite count_res_view; [reflexivity|]. intros a Ha. eapply byz_subset; eauto.
Qed.

(* ---------- window theorems ---------- *)
Lemma skey_step : forall s a s1,
  (exists c o k', a = K.OAssign c o k' true \/ a = K.OOptIn c o (Some k') true) ->
  sstep s (SKey a) = (s1, 0) -> K.step (ks s) a = (ks s1, 0).
Proof.
  intros s a s1 (c & o & k' & [-> | ->]) H; cbn [sstep] in *;
    destruct (K.step (ks s) _) as [k1 e] eqn:E; inversion H; subst; reflexivity.
Qed.

Lemma old_key_punished : forall U nk ops0 c a P k s1 ops entry e,
  let s0 := srun ops0 (init_sys U nk) in
  K.c_phase (K.getc (ks s0) c) = 3 -> K.lookup P (K.c_assigned (K.getc (ks s0) c)) = Some k ->
  KP.replaces (ks s0) c P a -> sstep s0 (SKey a) = (s1, 0) ->
  KP.quiet c (K.s_now (ks s0) + U) (ktrace s1 ops) (ks s1) ->
  E.dv_cons e = Z.of_nat c -> E.dv_addr e = k ->
  let s2 := srun ops s1 in
  K.resolve (ks s2) c k = P /\ dv_facts s2 entry e P.
Proof.
  intros U nk ops0 c a P k s1 ops entry e s0 Hph Hl Hr Hstep Hq Hc Hk s2.
  assert (Hform : exists c' o k', a = K.OAssign c' o k' true \/ a = K.OOptIn c' o (Some k') true).
  { destruct Hr as (o & k' & Ha & _). exists c, o, k'. exact Ha. }
  pose proof (skey_step s0 a s1 Hform Hstep) as Hks.
  assert (Ht : K.resolve (ks s2) c k = P).
  { unfold s2. rewrite ks_srun.
    pose proof (KP.attributable U (ktrace (init_sys U nk) ops0) c a P k (ks s1) (ktrace s1 ops)) as A.
    cbn zeta in A. unfold s0 in Hph, Hl, Hr, Hks, Hq. rewrite reach_ks in Hph, Hl, Hr, Hks, Hq.
    apply (A Hph Hl Hr Hks Hq). }
  split; [exact Ht|]. rewrite <- Ht. pose proof (dv_on_target s2 entry e) as F.
  unfold dv_c in F. rewrite Hc, Nat2Z.id, Hk in F. exact F.
Qed.

Lemma pruned_key : forall U nk ops0 c a P k s1 ops entry e,
  let s0 := srun ops0 (init_sys U nk) in
  K.c_phase (K.getc (ks s0) c) = 3 -> K.lookup P (K.c_assigned (K.getc (ks s0) c)) = Some k ->
  KP.replaces (ks s0) c P a -> sstep s0 (SKey a) = (s1, 0) ->
  KP.quiet c (K.s_now (ks s0) + U) (ktrace s1 ops) (ks s1) ->
  K.s_now (ks s0) + U <= K.s_now (ks (srun ops s1)) ->
  E.dv_cons e = Z.of_nat c -> E.dv_addr e = k ->
  let s3 := fst (sstep (srun ops s1) (SKey K.OEndBlock)) in
  K.resolve (ks s3) c k = k /\ dv_facts s3 entry e k.
Proof.
  intros U nk ops0 c a P k s1 ops entry e s0 Hph Hl Hr Hstep Hq Hle Hc Hk s3.
  assert (Hform : exists c' o k', a = K.OAssign c' o k' true \/ a = K.OOptIn c' o (Some k') true).
  { destruct Hr as (o & k' & Ha & _). exists c, o, k'. exact Ha. }
  pose proof (skey_step s0 a s1 Hform Hstep) as Hks.
  assert (Ht : K.resolve (ks s3) c k = k).
  { unfold s3. rewrite ks_sstep. cbn [to_kop]. rewrite ks_srun.
    pose proof (KP.forgotten_after U (ktrace (init_sys U nk) ops0) c a P k (ks s1) (ktrace s1 ops)) as A.
    cbn zeta in A. unfold s0 in Hph, Hl, Hr, Hks, Hq, Hle. rewrite reach_ks in Hph, Hl, Hr, Hks, Hq, Hle.
    rewrite ks_srun in Hle. destruct (A Hph Hl Hr Hks Hq Hle) as (_ & _ & Hres & _). exact Hres. }
  split; [exact Ht|]. replace (dv_facts s3 entry e k) with (dv_facts s3 entry e (K.resolve (ks s3) c k)) by (rewrite Ht; reflexivity).
  pose proof (dv_on_target s3 entry e) as F.
  unfold dv_c in F. rewrite Hc, Nat2Z.id, Hk in F. exact F.
Qed.

Lemma assoc_resolve : forall k c key P,
  KP.sinv k -> K.is_active (K.c_phase (K.getc k c)) = true -> KP.assoc k c key P -> K.resolve k c key = P.
Proof.
  intros k c key P Hs Ha Has. pose proof (KP.sinv_getc k c Hs) as Hc.
  unfold K.resolve, K.resolve_c. destruct Has as [H|[H|[He Hr]]].
  - rewrite (KP.J4 _ _ Hc _ _ H). reflexivity.
  - rewrite H. reflexivity.
  - subst key. destruct (K.lookup P (K.c_byaddr (K.getc k c))) as [P'|] eqn:E; [|reflexivity].
    symmetry. apply (KP.J6 _ _ Hc Ha P P' E Hr).
Qed.

Lemma unique_signer : forall U nk ops c k P entry e,
  let s := srun ops (init_sys U nk) in
  K.is_active (K.c_phase (K.getc (ks s) c)) = true -> KP.assoc (ks s) c k P ->
  E.dv_cons e = Z.of_nat c -> E.dv_addr e = k ->
  K.resolve (ks s) c k = P /\ dv_facts s entry e P.
Proof.
  intros U nk ops c k P entry e s Ha Has Hc Hk.
  assert (Ht : K.resolve (ks s) c k = P) by (apply assoc_resolve; auto; apply reach_sinv).
  split; [exact Ht|]. rewrite <- Ht. pose proof (dv_on_target s entry e) as F.
  unfold dv_c in F. rewrite Hc, Nat2Z.id, Hk in F. exact F.
Qed.

(* in EVERY phase (stopped-not-deleted included) the consumer's own stores attribute a key to at most one validator *)
Lemma store_signer : forall U nk ops c k P,
  let s := srun ops (init_sys U nk) in KP.assoc_store (ks s) c k P -> K.resolve (ks s) c k = P.
Proof.
  intros U nk ops c k P s H. pose proof (KP.sinv_getc (ks s) c (reach_sinv U nk ops)) as Hc.
  unfold K.resolve, K.resolve_c. destruct H as [H|H].
  - rewrite (KP.J4 _ _ Hc _ _ H). reflexivity.
  - rewrite H. reflexivity.
Qed.

Lemma never_assigned : forall U nk ops c k entry e,
  let s := srun ops (init_sys U nk) in
  (forall a, In a (ktrace (init_sys U nk) ops) -> KP.names a c k = false) ->
  E.dv_cons e = Z.of_nat c -> E.dv_addr e = k ->
  K.resolve (ks s) c k = k /\ dv_facts s entry e k.
Proof.
  intros U nk ops c k entry e s Hn Hc Hk.
  assert (Ht : K.resolve (ks s) c k = k).
  { unfold s. rewrite reach_ks. apply KP.identity_never_assigned. exact Hn. }
  split; [exact Ht|]. replace (dv_facts s entry e k) with (dv_facts s entry e (K.resolve (ks s) c k)) by (rewrite Ht; reflexivity).
  pose proof (dv_on_target s entry e) as F.
  unfold dv_c in F. rewrite Hc, Nat2Z.id, Hk in F. exact F.
Qed.

(* if staking has no validator with provider key P, evidence attributed to P is rejected and changes nothing *)
Lemma nobody : forall s entry e P,
  dv_facts s entry e P -> registered (ks s) P = false ->
  dv_code s entry e <> 0 /\ dv_submit s entry e = s.
Proof.
  intros s entry e P [A [_ [C _]]] R.
  assert (N : dv_code s entry e <> 0). { intro H. apply A in H. destruct H as [_ [R' _]]. congruence. }
  split; auto.
Qed.

Lemma shared_chain_id : forall s entry e c1 c2,
  dv_facts s entry (EP.dv_for e (Z.of_nat c1)) (K.resolve (ks s) c1 (E.dv_addr e)) /\
  dv_facts s entry (EP.dv_for e (Z.of_nat c2)) (K.resolve (ks s) c2 (E.dv_addr e)).
Proof.
  intros s entry e c1 c2. split.
  - pose proof (dv_on_target s entry (EP.dv_for e (Z.of_nat c1))) as F. unfold dv_c in F. cbn [EP.dv_for E.dv_cons E.dv_addr] in F.
    rewrite Nat2Z.id in F. exact F.
  - pose proof (dv_on_target s entry (EP.dv_for e (Z.of_nat c2))) as F. unfold dv_c in F. cbn [EP.dv_for E.dv_cons E.dv_addr] in F.
    rewrite Nat2Z.id in F. exact F.
Qed.
