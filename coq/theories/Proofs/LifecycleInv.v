(* The reachable-state invariant of Model/Lifecycle.v and the frame lemmas used to re-establish it. *)
From Coq Require Import ZArith List Bool Lia Permutation.
From ICS Require Import Base.Tree Model.Lifecycle Proofs.LifecycleBase.
Import ListNotations.
Open Scope Z_scope.

Definition prelaunch_proto (p : proto) : Prop :=
  p_client p = false /\ p_genesis p = false /\ p_evmin p = false /\ p_channel p = false /\
  p_valset p = 0 /\ p_pending p = 0 /\ p_removal p = 0.

(* per-consumer invariant, relative to the two time queues *)
Definition cinv (sq rq : tq) (r : consumer) : Prop :=
  1 <= c_phase r <= 5 /\
  d_rev (c_desc r) = d_hrev (c_desc r) /\
  (c_phase r = 1 -> d_spawn (c_desc r) = 0) /\
  (c_phase r = 2 -> d_spawn (c_desc r) <> 0 /\ In (c_id r) (tq_get sq (d_spawn (c_desc r)))) /\
  (c_phase r <= 2 -> prelaunch_proto (c_proto r)) /\
  (c_phase r = 3 -> p_client (c_proto r) = true /\ p_genesis (c_proto r) = true /\ p_evmin (c_proto r) = true) /\
  (p_channel (c_proto r) = true -> p_client (c_proto r) = true) /\
  (c_phase r = 4 -> In (c_id r) (tq_get rq (p_removal (c_proto r)))) /\
  (c_phase r = 5 -> proto_empty_core (c_proto r) = true).

(* the invariant with the consumers in X exempt from the per-consumer clauses *)
Record inv_on (X : list Z) (s : state) : Prop := {
  io_ids : map c_id (s_cons s) = zseq 0 (length (s_cons s));
  io_next : s_next s = Z.of_nat (length (s_cons s));
  io_sq_sorted : tq_sorted (s_spawnq s);
  io_rq_sorted : tq_sorted (s_remq s);
  io_sq_nodup : NoDup (all_ids (s_spawnq s));
  io_sq_sound : forall ts c, ~ In c X -> In c (tq_get (s_spawnq s) ts) ->
                exists r, get s c = Some r /\ c_phase r = 2 /\ d_spawn (c_desc r) = ts;
  io_rq_sound : forall c, ~ In c X -> In c (all_ids (s_remq s)) -> exists r, get s c = Some r /\ 4 <= c_phase r;
  io_cons : forall c r, ~ In c X -> get s c = Some r -> cinv (s_spawnq s) (s_remq s) r
}.

Definition inv (s : state) : Prop := inv_on [] s.

Definition keeps_id (f : consumer -> consumer) : Prop := forall r, c_id (f r) = c_id r.

Lemma keeps_id_upd : forall f c, keeps_id f -> forall r, c_id r = c -> c_id (f r) = c.
Proof. intros f c Hf r H. rewrite Hf. exact H. Qed.

Lemma inv_on_weaken : forall X Y s, inv_on X s -> incl X Y -> inv_on Y s.
Proof.
  intros X Y s [H1 H2 H3 H4 H5 H6 H7 H8] Hincl. constructor; try assumption.
  - intros ts c Hc. apply H6. intros Hin. apply Hc. apply Hincl. exact Hin.
  - intros c Hc. apply H7. intros Hin. apply Hc. apply Hincl. exact Hin.
  - intros c r Hc. apply H8. intros Hin. apply Hc. apply Hincl. exact Hin.
Qed.

(* any id-preserving change of an exempt consumer *)
Lemma inv_on_upd : forall X s c f, inv_on X s -> In c X -> keeps_id f -> inv_on X (upd s c f).
Proof.
  intros X s c f [H1 H2 H3 H4 H5 H6 H7 H8] Hc Hf.
  assert (Hf' := keeps_id_upd f c Hf).
  constructor; simpl.
  - rewrite upd_ids by exact Hf'. rewrite upd_length. exact H1.
  - rewrite upd_length. exact H2.
  - exact H3.
  - exact H4.
  - exact H5.
  - intros ts c' Hc' Hin. rewrite get_upd_other by (try exact Hf'; intros ->; contradiction).
    apply H6; assumption.
  - intros c' Hc' Hin. rewrite get_upd_other by (try exact Hf'; intros ->; contradiction).
    apply H7; assumption.
  - intros c' r Hc'. rewrite get_upd_other by (try exact Hf'; intros ->; contradiction).
    apply H8; assumption.
Qed.

(* a new spawn queue that stores the non-exempt ids exactly as before *)
Lemma inv_on_sq : forall X s q, inv_on X s -> tq_sorted q -> NoDup (all_ids q) ->
  (forall c ts, ~ In c X -> (In c (tq_get q ts) <-> In c (tq_get (s_spawnq s) ts))) ->
  inv_on X (set_spawnq q s).
Proof.
  intros X s q [H1 H2 H3 H4 H5 H6 H7 H8] Hs Hnd Hq.
  constructor; simpl; try assumption.
  - intros ts c Hc Hin. apply H6; [exact Hc | apply Hq; assumption].
  - intros c r Hc Hg. change (get (set_spawnq q s) c) with (get s c) in Hg.
    destruct (H8 c r Hc Hg) as (A1 & A2 & A3 & A4 & A5 & A6 & A7 & A8 & A9).
    refine (conj A1 (conj A2 (conj A3 (conj _ (conj A5 (conj A6 (conj A7 (conj A8 A9)))))))).
    intros Hp. destruct (A4 Hp) as [B1 B2]. split; [exact B1|].
    apply Hq; [rewrite (get_id _ _ _ Hg); exact Hc | exact B2].
Qed.

(* a new removal queue: non-exempt ids are not added, and stay where they were *)
Lemma inv_on_rq : forall X s q, inv_on X s -> tq_sorted q ->
  (forall c, ~ In c X -> In c (all_ids q) -> In c (all_ids (s_remq s))) ->
  (forall c ts, ~ In c X -> In c (tq_get (s_remq s) ts) -> In c (tq_get q ts)) ->
  inv_on X (set_remq q s).
Proof.
  intros X s q [H1 H2 H3 H4 H5 H6 H7 H8] Hs Hq1 Hq2.
  constructor; simpl; try assumption.
  - intros c Hc Hin. apply H7; [exact Hc | apply Hq1; assumption].
  - intros c r Hc Hg. change (get (set_remq q s) c) with (get s c) in Hg.
    destruct (H8 c r Hc Hg) as (A1 & A2 & A3 & A4 & A5 & A6 & A7 & A8 & A9).
    refine (conj A1 (conj A2 (conj A3 (conj A4 (conj A5 (conj A6 (conj A7 (conj _ A9)))))))).
    intros Hp. apply Hq2; [rewrite (get_id _ _ _ Hg); exact Hc | apply A8; exact Hp].
Qed.

Lemma inv_on_now : forall X s t, inv_on X s -> inv_on X (set_now t s).
Proof. intros X s t [H1 H2 H3 H4 H5 H6 H7 H8]. constructor; assumption. Qed.

(* re-admitting an exempt consumer *)
Lemma inv_on_close : forall X s c r, inv_on (c :: X) s -> get s c = Some r ->
  cinv (s_spawnq s) (s_remq s) r ->
  (forall ts, In c (tq_get (s_spawnq s) ts) -> c_phase r = 2 /\ d_spawn (c_desc r) = ts) ->
  (In c (all_ids (s_remq s)) -> 4 <= c_phase r) ->
  inv_on X s.
Proof.
  intros X s c r [H1 H2 H3 H4 H5 H6 H7 H8] Hg Hc Hsq Hrq.
  constructor; try assumption.
  - intros ts c' Hc' Hin. destruct (Z.eq_dec c' c) as [->|Hne].
    + exists r. destruct (Hsq ts Hin). auto.
    + apply H6; [|exact Hin]. intros [Heq|Hx]; [congruence | contradiction].
  - intros c' Hc' Hin. destruct (Z.eq_dec c' c) as [->|Hne].
    + exists r. auto.
    + apply H7; [|exact Hin]. intros [Heq|Hx]; [congruence | contradiction].
  - intros c' r' Hc' Hg'. destruct (Z.eq_dec c' c) as [->|Hne].
    + rewrite Hg in Hg'. inversion Hg'; subst. exact Hc.
    + apply H8 with c'; [|exact Hg']. intros [Heq|Hx]; [congruence | contradiction].
Qed.

Lemma inv_open : forall X s c, inv_on X s -> inv_on (c :: X) s.
Proof. intros. eapply inv_on_weaken; [eassumption|]. intros x Hx. now right. Qed.

(* ------------------------------------------------------------------ existence of consumers *)

Lemma find_none_ids : forall l c, ~ In c (map c_id l) -> find (fun r => c_id r =? c) l = None.
Proof.
  induction l as [|x l IH]; simpl; intros c H; [reflexivity|].
  destruct (c_id x =? c) eqn:E.
  - apply Z.eqb_eq in E. exfalso. apply H. now left.
  - apply IH. intros Hin. apply H. now right.
Qed.

Lemma find_some_ids : forall l c, In c (map c_id l) -> exists r, find (fun r => c_id r =? c) l = Some r.
Proof.
  induction l as [|x l IH]; simpl; intros c H; [destruct H|].
  destruct (c_id x =? c) eqn:E; [eexists; reflexivity|].
  destruct H as [H|H]; [subst; rewrite Z.eqb_refl in E; discriminate | apply IH; exact H].
Qed.

Lemma get_some_iff : forall X s c, inv_on X s -> ((exists r, get s c = Some r) <-> 0 <= c < s_next s).
Proof.
  intros X s c H. destruct H as [H1 H2 _ _ _ _ _ _]. rewrite H2. split.
  - intros [r Hr]. destruct (find_id _ _ _ Hr) as [Hid Hin].
    assert (In c (map c_id (s_cons s))) as Hm by (rewrite <- Hid; apply in_map; exact Hin).
    rewrite H1 in Hm. apply zseq_in in Hm. lia.
  - intros Hc. apply find_some_ids. rewrite H1. apply zseq_in. lia.
Qed.

Lemma get_next_none : forall X s, inv_on X s -> get s (s_next s) = None.
Proof.
  intros X s H. destruct (get s (s_next s)) as [r|] eqn:E; [|reflexivity].
  assert (0 <= s_next s < s_next s) by (apply (get_some_iff X s); [exact H | eauto]). lia.
Qed.

Lemma find_app_last : forall (f : consumer -> bool) l x,
  find f (l ++ [x]) = match find f l with Some y => Some y | None => if f x then Some x else None end.
Proof.
  induction l as [|y l IH]; simpl; intros x; [reflexivity|].
  destruct (f y); [reflexivity | apply IH].
Qed.

(* ------------------------------------------------------------------ one-consumer updates *)

Lemma inv_upd_close : forall X s c r f,
  inv_on (c :: X) s -> get s c = Some r -> keeps_id f ->
  cinv (s_spawnq s) (s_remq s) (f r) ->
  (forall ts, In c (tq_get (s_spawnq s) ts) -> c_phase (f r) = 2 /\ d_spawn (c_desc (f r)) = ts) ->
  (In c (all_ids (s_remq s)) -> 4 <= c_phase (f r)) ->
  inv_on X (upd s c f).
Proof.
  intros X s c r f Hi Hg Hf Hc Hsq Hrq.
  apply inv_on_close with (c := c) (r := f r).
  - apply inv_on_upd; [exact Hi | now left | exact Hf].
  - apply get_upd_same; [apply keeps_id_upd; exact Hf | exact Hg].
  - exact Hc.
  - exact Hsq.
  - exact Hrq.
Qed.

(* an update that keeps phase and descriptive record *)
Lemma inv_upd_same : forall X s c r f,
  inv_on X s -> ~ In c X -> get s c = Some r -> keeps_id f ->
  c_phase (f r) = c_phase r -> c_desc (f r) = c_desc r ->
  (cinv (s_spawnq s) (s_remq s) r -> cinv (s_spawnq s) (s_remq s) (f r)) ->
  inv_on X (upd s c f).
Proof.
  intros X s c r f Hi Hx Hg Hf Hp Hd Hc.
  apply inv_upd_close with (r := r); try assumption.
  - apply inv_open. exact Hi.
  - apply Hc. eapply io_cons; eassumption.
  - intros ts Hin. destruct (io_sq_sound _ _ Hi ts c Hx Hin) as [r' [Hg' [H1 H2]]].
    rewrite Hg in Hg'. inversion Hg'; subst r'. rewrite Hp, Hd. auto.
  - intros Hin. destruct (io_rq_sound _ _ Hi c Hx Hin) as [r' [Hg' H1]].
    rewrite Hg in Hg'. inversion Hg'; subst r'. rewrite Hp. exact H1.
Qed.

Ltac cinv_destruct H :=
  let A1 := fresh "A1" in let A2 := fresh "A2" in let A3 := fresh "A3" in let A4 := fresh "A4" in
  let A5 := fresh "A5" in let A6 := fresh "A6" in let A7 := fresh "A7" in let A8 := fresh "A8" in
  let A9 := fresh "A9" in
  destruct H as (A1 & A2 & A3 & A4 & A5 & A6 & A7 & A8 & A9).

Definition core_eq (p q : proto) : Prop :=
  p_client q = p_client p /\ p_genesis q = p_genesis p /\ p_evmin q = p_evmin p /\ p_channel q = p_channel p /\
  p_valset q = p_valset p /\ p_pending q = p_pending p /\ p_removal q = p_removal p.

Lemma proto_empty_core_spec : forall p, proto_empty_core p = true <->
  (p_client p = false /\ p_genesis p = false /\ p_evmin p = false /\ p_channel p = false /\
   p_valset p = 0 /\ p_pending p = 0 /\ p_removal p = 0 /\ p_optin p = []).
Proof.
  intros p. unfold proto_empty_core. rewrite !andb_true_iff, !negb_true_iff, !Z.eqb_eq.
  destruct (p_optin p); intuition congruence.
Qed.

(* cinv only looks at id, phase, descriptive record and the core protocol fields *)
Lemma cinv_transfer : forall sq rq r r',
  c_id r' = c_id r -> c_phase r' = c_phase r -> c_desc r' = c_desc r ->
  core_eq (c_proto r) (c_proto r') -> (c_phase r = 5 -> p_optin (c_proto r') = []) ->
  cinv sq rq r -> cinv sq rq r'.
Proof.
  intros sq rq r r' Hid Hph Hd (E1 & E2 & E3 & E4 & E5 & E6 & E7) Ho Hc. cinv_destruct Hc.
  unfold cinv, prelaunch_proto in *. rewrite Hid, Hph, Hd, E1, E2, E3, E4, E5, E6, E7.
  refine (conj A1 (conj A2 (conj A3 (conj A4 (conj A5 (conj A6 (conj A7 (conj A8 _)))))))).
  intros Hp. specialize (A9 Hp). apply proto_empty_core_spec in A9. apply proto_empty_core_spec.
  rewrite E1, E2, E3, E4, E5, E6, E7. intuition.
Qed.

(* --- opt in --- *)
Lemma inv_optin : forall s c v k, inv s -> inv (fst (do_optin s c v k)).
Proof.
  intros s c v k Hi. unfold do_optin.
  destruct (get s c) as [r|] eqn:Hg; [|exact Hi].
  destruct (negb (is_active (c_phase r))) eqn:Ha; [exact Hi|]. simpl fst.
  apply inv_upd_same with (r := r).
  - exact Hi.
  - intros [].
  - exact Hg.
  - intros r'. destruct k; reflexivity.
  - destruct k; reflexivity.
  - destruct k; reflexivity.
  - apply cinv_transfer.
    + destruct k; reflexivity.
    + destruct k; reflexivity.
    + destruct k; reflexivity.
    + destruct k; simpl; repeat split.
    + intros Hp. rewrite Hp in Ha. discriminate.
Qed.

(* --- decorate --- *)
Lemma inv_decorate : forall s c tag, inv s -> inv (fst (do_decorate s c tag)).
Proof.
  intros s c tag Hi. unfold do_decorate.
  destruct (get s c) as [r|] eqn:Hg; [|exact Hi]. simpl fst.
  apply inv_upd_same with (r := r); [exact Hi | intros [] | exact Hg | intros r'; reflexivity | reflexivity | reflexivity |].
  intros Hc. apply (cinv_transfer _ _ r); try reflexivity; [simpl; repeat split | | exact Hc].
  intros Hp. cinv_destruct Hc. specialize (A9 Hp). apply proto_empty_core_spec in A9. simpl. intuition.
Qed.

(* --- channel --- *)
Lemma inv_channel : forall s c, inv s -> inv (fst (do_channel s c)).
Proof.
  intros s c Hi. unfold do_channel.
  destruct (get s c) as [r|] eqn:Hg; [|exact Hi].
  destruct (p_client (c_proto r) && negb (p_channel (c_proto r))) eqn:Hb; [|exact Hi]. simpl fst.
  apply andb_true_iff in Hb. destruct Hb as [Hcl Hch].
  apply inv_upd_same with (r := r); [exact Hi | intros [] | exact Hg | intros r'; reflexivity | reflexivity | reflexivity |].
  intros Hc. cinv_destruct Hc. unfold cinv, prelaunch_proto in *. simpl.
  refine (conj A1 (conj A2 (conj A3 (conj A4 (conj _ (conj A6 (conj _ (conj A8 _)))))))).
  - intros Hp. destruct (A5 Hp) as [B _]. congruence.
  - intros _. exact Hcl.
  - intros Hp. specialize (A9 Hp). apply proto_empty_core_spec in A9. destruct A9 as [B _]. congruence.
Qed.

(* --- stop --- *)
Lemma inv_stop : forall U s c r, inv s -> get s c = Some r -> 3 <= c_phase r <= 4 ->
  inv (stop_and_prepare U s c).
Proof.
  intros U s c r Hi Hg Hph. unfold stop_and_prepare.
  set (t := s_now s + U).
  set (f := fun r0 : consumer => set_proto (p_set_removal t (c_proto r0)) (set_phase 4 r0)).
  assert (Hf : keeps_id f) by (intros r0; reflexivity).
  assert (Hc := io_cons _ _ Hi c r (fun H => H) Hg).
  assert (Hrs := io_rq_sorted _ _ Hi).
  change (s_remq (upd s c f)) with (s_remq s).
  apply inv_on_close with (c := c) (r := f r).
  - apply inv_on_rq.
    + apply inv_on_upd; [apply inv_open; exact Hi | now left | exact Hf].
    + apply tq_append_sorted. exact Hrs.
    + intros c' Hc' Hin. simpl.
      assert (Hp := tq_append_perm (s_remq s) t c).
      apply (Permutation_in _ Hp) in Hin. destruct Hin as [Heq|Hin]; [|exact Hin].
      exfalso. apply Hc'. left. exact Heq.
    + intros c' ts Hc' Hin. simpl in *. rewrite tq_append_get by exact Hrs.
      destruct (ts =? t) eqn:E; [|exact Hin].
      apply Z.eqb_eq in E. subst ts. apply in_or_app. now left.
  - simpl. apply get_upd_same; [apply keeps_id_upd; exact Hf | exact Hg].
  - cinv_destruct Hc. unfold cinv. simpl.
    refine (conj _ (conj A2 (conj _ (conj _ (conj _ (conj _ (conj A7 (conj _ _)))))))); try (intros; lia).
    intros _. rewrite (get_id _ _ _ Hg). rewrite tq_append_get by exact Hrs. rewrite Z.eqb_refl.
    apply in_or_app. right. now left.
  - simpl. intros ts Hin.
    destruct (io_sq_sound _ _ Hi ts c (fun H => H) Hin) as [r' [Hg' [H1 _]]].
    rewrite Hg in Hg'. inversion Hg'; subst r'. lia.
  - simpl. intros _. lia.
Qed.

Lemma channel_phase : forall sq rq r, cinv sq rq r -> p_channel (c_proto r) = true -> 3 <= c_phase r <= 4.
Proof.
  intros sq rq r Hc Hch. cinv_destruct Hc.
  assert (c_phase r <= 2 \/ c_phase r = 5 \/ 3 <= c_phase r <= 4) as [H|[H|H]] by lia; [| |exact H].
  - destruct (A5 H) as (_ & _ & _ & B & _). congruence.
  - specialize (A9 H). apply proto_empty_core_spec in A9. destruct A9 as (_ & _ & _ & B & _). congruence.
Qed.

Lemma inv_remove : forall U s c sender, inv s -> inv (fst (do_remove U s c sender)).
Proof.
  intros U s c sender Hi. unfold do_remove.
  destruct (get s c) as [r|] eqn:Hg; [|exact Hi].
  destruct (negb (d_owner (c_desc r) =? sender)); [exact Hi|].
  destruct (negb (c_phase r =? 3)) eqn:E; [exact Hi|]. simpl fst.
  apply negb_false_iff, Z.eqb_eq in E.
  apply inv_stop with (r := r); [exact Hi | exact Hg | lia].
Qed.

Lemma inv_packet_failure : forall U s c, inv s -> inv (fst (do_packet_failure U s c)).
Proof.
  intros U s c Hi. unfold do_packet_failure.
  destruct (get s c) as [r|] eqn:Hg; [|exact Hi].
  destruct (p_channel (c_proto r)) eqn:E; [|exact Hi]. simpl fst.
  apply inv_stop with (r := r); [exact Hi | exact Hg |].
  eapply channel_phase; [|exact E]. eapply io_cons; [exact Hi | | exact Hg]. intros [].
Qed.

(* --- end block --- *)
Lemma inv_queue_one : forall ora s c, inv s -> inv (queue_one ora s c).
Proof.
  intros ora s c Hi. unfold queue_one.
  destruct (get s c) as [r|] eqn:Hg; [|exact Hi].
  destruct (p_client (c_proto r) && (c_phase r =? 3)) eqn:E; [|exact Hi].
  apply andb_true_iff in E. destruct E as [Hcl Hph]. apply Z.eqb_eq in Hph.
  set (o := lookup no_eora ora c).
  apply inv_upd_same with (r := r); [exact Hi | intros [] | exact Hg | | | |].
  - intros r'. destruct (eo_changes o); reflexivity.
  - destruct (eo_changes o); reflexivity.
  - destruct (eo_changes o); reflexivity.
  - intros Hc. cinv_destruct Hc. unfold cinv.
    assert (Hfields : forall r' : consumer,
      r' = set_proto (if eo_changes o
                      then p_set_extra (set_del 15 (p_extra (p_set_valset (eo_size o) (c_proto r))))
                             (p_set_pending (p_pending (p_set_valset (eo_size o) (c_proto r)) + 1)
                                (p_set_valset (eo_size o) (c_proto r)))
                      else p_set_valset (eo_size o) (c_proto r)) r ->
      c_id r' = c_id r /\ c_phase r' = c_phase r /\ c_desc r' = c_desc r /\
      p_client (c_proto r') = p_client (c_proto r) /\ p_genesis (c_proto r') = p_genesis (c_proto r) /\
      p_evmin (c_proto r') = p_evmin (c_proto r) /\ p_channel (c_proto r') = p_channel (c_proto r) /\
      p_removal (c_proto r') = p_removal (c_proto r)).
    { intros r' ->. destruct (eo_changes o); simpl; repeat split. }
    destruct (Hfields _ eq_refl) as (F1 & F2 & F3 & F4 & F5 & F6 & F7 & F8).
    rewrite F1, F2, F3, F4, F5, F6, F7, F8.
    refine (conj A1 (conj A2 (conj _ (conj _ (conj _ (conj A6 (conj A7 (conj A8 _)))))))); intros; lia.
Qed.

Lemma inv_send_one : forall U ora s c, inv s -> inv (send_one U ora s c).
Proof.
  intros U ora s c Hi. unfold send_one.
  destruct (get s c) as [r|] eqn:Hg; [|exact Hi].
  destruct (p_client (c_proto r) && (c_phase r =? 3) && p_channel (c_proto r)) eqn:E; [|exact Hi].
  apply andb_true_iff in E. destruct E as [E Hch]. apply andb_true_iff in E. destruct E as [Hcl Hph].
  apply Z.eqb_eq in Hph.
  destruct (p_pending (c_proto r) =? 0); [exact Hi|].
  destruct (eo_mode (lookup no_eora ora c) =? 0).
  - apply inv_upd_same with (r := r); [exact Hi | intros [] | exact Hg | intros r'; reflexivity | reflexivity | reflexivity |].
    intros Hc. cinv_destruct Hc. unfold cinv. simpl.
    refine (conj A1 (conj A2 (conj _ (conj _ (conj _ (conj A6 (conj A7 (conj A8 _)))))))); intros; lia.
  - destruct (eo_mode (lookup no_eora ora c) =? 1); [exact Hi|].
    assert (Hsent : forall n, inv (upd s c (fun r0 => set_sent n r0)) /\
                              get (upd s c (fun r0 => set_sent n r0)) c = Some (set_sent n r)).
    { intros n. split.
      - apply inv_upd_same with (r := r); [exact Hi | intros [] | exact Hg | intros r'; reflexivity | reflexivity | reflexivity |].
        intros Hc. exact Hc.
      - apply get_upd_same; [intros r0 Hr0; exact Hr0 | exact Hg]. }
    destruct (p_pending (c_proto r) <=? Z.max 0 (eo_mode (lookup no_eora ora c) - 2)).
    + apply inv_upd_same with (r := r); [exact Hi | intros [] | exact Hg | intros r'; reflexivity | reflexivity | reflexivity |].
      intros Hc. cinv_destruct Hc. unfold cinv. simpl.
      refine (conj A1 (conj A2 (conj _ (conj _ (conj _ (conj A6 (conj A7 (conj A8 _)))))))); intros; lia.
    + set (j := Z.max 0 (eo_mode (lookup no_eora ora c) - 2)).
      assert (Hs1 : inv (upd s c (fun r0 => set_sent (c_sent r0 + j) r0)) /\
                    get (upd s c (fun r0 => set_sent (c_sent r0 + j) r0)) c = Some (set_sent (c_sent r + j) r)).
      { split.
        - apply inv_upd_same with (r := r); [exact Hi | intros [] | exact Hg | intros r'; reflexivity | reflexivity | reflexivity |].
          intros Hc. exact Hc.
        - apply (get_upd_same s c (fun r0 => set_sent (c_sent r0 + j) r0) r); [intros r0 Hr0; exact Hr0 | exact Hg]. }
      destruct Hs1 as [Hi1 Hg1].
      destruct (eo_stopfail (lookup no_eora ora c)); [exact Hi1|].
      apply inv_stop with (r := set_sent (c_sent r + j) r); [exact Hi1 | exact Hg1 | simpl; lia].
Qed.

Lemma inv_fold : forall (f : state -> Z -> state) l s, (forall s c, inv s -> inv (f s c)) -> inv s -> inv (fold_left f l s).
Proof. induction l as [|x l IH]; simpl; intros s Hf Hi; [exact Hi | apply IH; [exact Hf | apply Hf; exact Hi]]. Qed.

Lemma inv_end : forall U s epoch order ora, inv s -> inv (fst (do_end U s epoch order ora)).
Proof.
  intros U s epoch order ora Hi. unfold do_end. destruct epoch; [|exact Hi]. simpl fst.
  apply inv_fold; [intros; apply inv_send_one; assumption|].
  apply inv_fold; [intros; apply inv_queue_one; assumption | exact Hi].
Qed.

(* ------------------------------------------------------------------ scheduling (InitializeConsumer + PrepareConsumerForLaunch) *)

(* cinv without the clauses that relate phase, spawn time and spawn queue *)
Definition cinv_noq (rq : tq) (r : consumer) : Prop :=
  1 <= c_phase r <= 5 /\
  d_rev (c_desc r) = d_hrev (c_desc r) /\
  (c_phase r <= 2 -> prelaunch_proto (c_proto r)) /\
  (c_phase r = 3 -> p_client (c_proto r) = true /\ p_genesis (c_proto r) = true /\ p_evmin (c_proto r) = true) /\
  (p_channel (c_proto r) = true -> p_client (c_proto r) = true) /\
  (c_phase r = 4 -> In (c_id r) (tq_get rq (p_removal (c_proto r)))) /\
  (c_phase r = 5 -> proto_empty_core (c_proto r) = true).

Lemma cinv_noq_of : forall sq rq r, cinv sq rq r -> cinv_noq rq r.
Proof. intros sq rq r H. cinv_destruct H. unfold cinv_noq. tauto. Qed.

Lemma cinv_of_noq : forall sq rq r, cinv_noq rq r ->
  (c_phase r = 1 -> d_spawn (c_desc r) = 0) ->
  (c_phase r = 2 -> d_spawn (c_desc r) <> 0 /\ In (c_id r) (tq_get sq (d_spawn (c_desc r)))) ->
  cinv sq rq r.
Proof. intros sq rq r H H1 H2. unfold cinv_noq in H. unfold cinv. tauto. Qed.

(* removing the exempt consumer from its spawn-queue entry *)
Lemma inv_on_remove : forall s c prev q1, inv_on [c] s -> tq_remove (s_spawnq s) prev c = Some q1 ->
  inv_on [c] (set_spawnq q1 s) /\ ~ In c (all_ids q1).
Proof.
  intros s c prev q1 Hi Hr.
  assert (Hs := io_sq_sorted _ _ Hi). assert (Hnd := io_sq_nodup _ _ Hi).
  assert (Hp := tq_remove_perm _ _ _ _ Hr).
  assert (Hnd' : NoDup (c :: all_ids q1)) by (eapply Permutation_NoDup; eassumption).
  inversion Hnd' as [|? ? Hnotin Hnd1]; subst.
  split; [|exact Hnotin].
  apply inv_on_sq; [exact Hi | eapply tq_remove_sorted; eassumption | exact Hnd1 |].
  intros c' ts Hc'. eapply tq_remove_get_other; [exact Hs | exact Hr |].
  intros ->. apply Hc'. now left.
Qed.

(* scheduling the exempt consumer (not in the queue) at its spawn time *)
Lemma inv_append_close : forall s c r, inv_on [c] s -> get s c = Some r ->
  ~ In c (all_ids (s_spawnq s)) -> ~ In c (all_ids (s_remq s)) ->
  1 <= c_phase r <= 2 -> d_spawn (c_desc r) <> 0 -> cinv_noq (s_remq s) r ->
  inv (let s1 := upd s c (set_phase 2) in set_spawnq (tq_append (s_spawnq s1) (d_spawn (c_desc r)) c) s1).
Proof.
  intros s c r Hi Hg Hnq Hnr Hph Hsp Hc. cbv zeta.
  change (s_spawnq (upd s c (set_phase 2))) with (s_spawnq s).
  assert (Hs := io_sq_sorted _ _ Hi). assert (Hnd := io_sq_nodup _ _ Hi).
  set (sp := d_spawn (c_desc r)) in *.
  assert (Hf : keeps_id (set_phase 2)) by (intros r0; reflexivity).
  apply inv_on_close with (c := c) (r := set_phase 2 r).
  - apply inv_on_sq.
    + apply inv_on_upd; [exact Hi | now left | exact Hf].
    + apply tq_append_sorted. exact Hs.
    + eapply Permutation_NoDup; [apply Permutation_sym; apply tq_append_perm|]. constructor; assumption.
    + intros c' ts Hc'. simpl. rewrite tq_append_get by exact Hs.
      destruct (ts =? sp) eqn:E; [apply Z.eqb_eq in E; rewrite E|tauto]. split.
      * intros H. apply in_app_or in H. destruct H as [H|[H|[]]]; [exact H|]. exfalso. apply Hc'. left. exact H.
      * intros H. apply in_or_app. now left.
  - simpl. apply get_upd_same; [apply keeps_id_upd; exact Hf | exact Hg].
  - destruct Hc as (C1 & C2 & C3 & C4 & C5 & C6 & C7). unfold cinv. simpl.
    refine (conj _ (conj C2 (conj _ (conj _ (conj _ (conj _ (conj C5 (conj _ _)))))))); try (intros; lia).
    + intros _. split; [exact Hsp|]. rewrite (get_id _ _ _ Hg). fold sp. rewrite tq_append_get by exact Hs.
      rewrite Z.eqb_refl. apply in_or_app. right. now left.
    + intros _. apply C3. lia.
  - simpl. intros ts Hin. split; [reflexivity|]. rewrite tq_append_get in Hin by exact Hs.
    destruct (ts =? sp) eqn:E; [apply Z.eqb_eq in E; auto|].
    exfalso. apply Hnq. eapply tq_get_in_all. exact Hin.
  - simpl. intros Hin. contradiction.
Qed.

Lemma inv_init_prepare : forall s c prev r,
  inv_on [c] s -> get s c = Some r -> cinv_noq (s_remq s) r ->
  (c_phase r = 2 -> d_spawn (c_desc r) <> 0) ->
  (~ In c (all_ids (s_spawnq s)) \/
   (In c (tq_get (s_spawnq s) prev) /\ prev <> 0 /\ c_phase r = 2)) ->
  (is_prelaunched (c_phase r) = true -> d_spawn (c_desc r) <> 0 -> ~ In c (all_ids (s_spawnq s)) -> prev = 0) ->
  (is_prelaunched (c_phase r) = true -> ~ In c (all_ids (s_remq s))) ->
  (In c (all_ids (s_remq s)) -> 4 <= c_phase r) ->
  exists s', initialize_and_prepare s c prev = Some s' /\ inv s'.
Proof.
  intros s c prev r Hi Hg Hc H2 Hq Hprev Hnr Hrq. unfold initialize_and_prepare. rewrite Hg.
  destruct (is_prelaunched (c_phase r) && negb (d_spawn (c_desc r) =? 0)) eqn:E.
  - apply andb_true_iff in E. destruct E as [Epl Esp]. apply negb_true_iff, Z.eqb_neq in Esp.
    assert (Hph : 1 <= c_phase r <= 2).
    { unfold is_prelaunched in Epl. apply orb_true_iff in Epl. rewrite !Z.eqb_eq in Epl. lia. }
    change (s_spawnq (upd s c (set_phase 2))) with (s_spawnq s).
    destruct Hq as [Hq|(Hq & Hp0 & Hp2)].
    + rewrite (Hprev Epl Esp Hq). rewrite Z.eqb_refl. eexists. split; [reflexivity|].
      apply (inv_append_close s c r); auto.
    + assert (prev =? 0 = false) as -> by (apply Z.eqb_neq; exact Hp0).
      destruct (tq_remove_some _ _ _ Hq) as [q1 Hq1]. rewrite Hq1.
      eexists. split; [reflexivity|].
      destruct (inv_on_remove _ _ _ _ Hi Hq1) as [Hi1 Hgone].
      assert (Hgoal := inv_append_close (set_spawnq q1 s) c r Hi1 Hg Hgone (Hnr Epl) Hph Esp Hc).
      exact Hgoal.
  - eexists. split; [reflexivity|].
    assert (Hnot : is_prelaunched (c_phase r) = true -> d_spawn (c_desc r) = 0).
    { intros Hpl. rewrite Hpl in E. simpl in E. apply negb_false_iff, Z.eqb_eq in E. exact E. }
    assert (Hpl1 : c_phase r = 1 -> is_prelaunched (c_phase r) = true) by (intros ->; reflexivity).
    assert (Hpl2 : c_phase r = 2 -> is_prelaunched (c_phase r) = true) by (intros ->; reflexivity).
    assert (Hnq : ~ In c (all_ids (s_spawnq s))).
    { destruct Hq as [Hq|(Hq & Hp0 & Hp2)]; [exact Hq|]. exfalso. apply (H2 Hp2). apply Hnot. apply Hpl2. exact Hp2. }
    apply inv_on_close with (c := c) (r := r); [exact Hi | exact Hg | | |exact Hrq].
    + apply cinv_of_noq; [exact Hc | |].
      * intros Hp. apply Hnot. apply Hpl1. exact Hp.
      * intros Hp. exfalso. apply (H2 Hp). apply Hnot. apply Hpl2. exact Hp.
    + intros ts Hin. exfalso. apply Hnq. eapply tq_get_in_all. exact Hin.
Qed.

(* ------------------------------------------------------------------ create *)

Lemma not_queued_unknown : forall s c, inv s -> get s c = None ->
  ~ In c (all_ids (s_spawnq s)) /\ ~ In c (all_ids (s_remq s)).
Proof.
  intros s c Hi Hn. split; intros Hin.
  - destruct (in_all_tq_get _ _ (io_sq_sorted _ _ Hi) Hin) as [ts Hts].
    destruct (io_sq_sound _ _ Hi ts c (fun H => H) Hts) as [r [Hg _]]. congruence.
  - destruct (io_rq_sound _ _ Hi c (fun H => H) Hin) as [r [Hg _]]. congruence.
Qed.

Lemma inv_create : forall s owner chain rev ini, inv s -> inv (fst (do_create s owner chain rev ini)).
Proof.
  intros s owner chain rev ini Hi. unfold do_create.
  destruct (match ini with Some x => x | None => (0, 1, 0) end) as [[spawn hrev] conn].
  destruct (negb (hrev =? rev)) eqn:Erev; [exact Hi|].
  apply negb_false_iff, Z.eqb_eq in Erev. subst hrev.
  set (c := s_next s).
  set (r := mkC c 1 (mkD owner chain rev spawn rev conn) empty_proto 0).
  set (s1 := mkS (c + 1) (s_now s) (s_cons s ++ [r]) (s_spawnq s) (s_remq s)).
  assert (Hnone : get s c = None) by (apply (get_next_none [] s); exact Hi).
  destruct (not_queued_unknown s c Hi Hnone) as [Hnq Hnr].
  assert (Hget1 : forall c', get s1 c' = match get s c' with Some y => Some y | None => if c =? c' then Some r else None end).
  { intros c'. unfold get, s1. simpl. rewrite find_app_last. reflexivity. }
  assert (Hgc : get s1 c = Some r) by (rewrite Hget1, Hnone, Z.eqb_refl; reflexivity).
  assert (Hother : forall c' r', c' <> c -> get s1 c' = Some r' -> get s c' = Some r').
  { intros c' r' Hne Hg. rewrite Hget1 in Hg. destruct (get s c') as [y|]; [exact Hg|].
    destruct (c =? c') eqn:E; [apply Z.eqb_eq in E; congruence | discriminate]. }
  assert (Hkeep : forall c' r', get s c' = Some r' -> get s1 c' = Some r').
  { intros c' r' Hg. rewrite Hget1, Hg. reflexivity. }
  assert (Hi1 : inv_on [c] s1).
  { constructor; simpl.
    - rewrite map_app, app_length, Nat.add_1_r, zseq_snoc. simpl map.
      rewrite (io_ids _ _ Hi). f_equal. f_equal. unfold c. rewrite (io_next _ _ Hi). lia.
    - rewrite app_length, Nat.add_1_r. unfold c. rewrite (io_next _ _ Hi). lia.
    - exact (io_sq_sorted _ _ Hi).
    - exact (io_rq_sorted _ _ Hi).
    - exact (io_sq_nodup _ _ Hi).
    - intros ts c' _ Hin. destruct (io_sq_sound _ _ Hi ts c' (fun H => H) Hin) as [r' [Hg' Hr']].
      exists r'. split; [apply Hkeep; exact Hg' | exact Hr'].
    - intros c' _ Hin. destruct (io_rq_sound _ _ Hi c' (fun H => H) Hin) as [r' [Hg' Hr']].
      exists r'. split; [apply Hkeep; exact Hg' | exact Hr'].
    - intros c' r' Hc' Hg. apply (io_cons _ _ Hi c' r' (fun H => H)). apply Hother; [|exact Hg].
      intros ->. apply Hc'. now left. }
  destruct (inv_init_prepare s1 c 0 r Hi1 Hgc) as [s' [Hs' Hinv]].
  - unfold cinv_noq, prelaunch_proto. simpl. repeat split; try lia; try discriminate; intros; try lia; try discriminate.
  - simpl. intros; discriminate.
  - left. exact Hnq.
  - reflexivity.
  - intros _. exact Hnr.
  - intros Hin. contradiction.
  - rewrite Hs'. exact Hinv.
Qed.

(* ------------------------------------------------------------------ update *)

Lemma view_desc : forall s c r (g : desc -> desc), inv_on [c] s -> get s c = Some r ->
  let s' := upd s c (fun r => set_desc (g (c_desc r)) r) in
  inv_on [c] s' /\ get s' c = Some (set_desc (g (c_desc r)) r) /\
  s_spawnq s' = s_spawnq s /\ s_remq s' = s_remq s.
Proof.
  intros s c r g Hi Hg s'.
  assert (Hf : keeps_id (fun r => set_desc (g (c_desc r)) r)) by (intros r0; reflexivity).
  split; [|split; [|split; reflexivity]].
  - apply inv_on_upd; [exact Hi | now left | exact Hf].
  - apply (get_upd_same s c (fun r => set_desc (g (c_desc r)) r) r); [apply keeps_id_upd; exact Hf | exact Hg].
Qed.

Ltac split6 := split; [|split; [|split; [|split; [|split]]]].

Lemma inv_update : forall s c sender nc no ini, inv s -> inv (fst (do_update s c sender nc no ini)).
Proof.
  intros s c sender nc no ini Hi. unfold do_update.
  destruct (get s c) as [r0|] eqn:Hg0; [|exact Hi].
  destruct (negb (is_active (c_phase r0))) eqn:Eact; [exact Hi|].
  destruct (negb (d_owner (c_desc r0) =? sender)); [exact Hi|].
  set (chg := match nc with
              | Some (ch, rv) => negb ((ch =? d_chain (c_desc r0)) && (rv =? d_rev (c_desc r0)))
              | None => false end).
  destruct (chg && negb (is_prelaunched (c_phase r0))) eqn:Echg; [exact Hi|].
  set (s1 := match nc with
             | Some (ch, rv) => if chg then upd s c (fun r => set_desc (d_set_chain ch rv (c_desc r)) r) else s
             | None => s end).
  set (s2 := match no with
             | Some o => upd s1 c (fun r => set_desc (d_set_owner o (c_desc r)) r)
             | None => s1 end).
  set (prev := d_spawn (c_desc r0)).
  assert (Hc0 := io_cons _ _ Hi c r0 (fun H => H) Hg0).
  assert (Hid0 := get_id _ _ _ Hg0).
  (* the record after the chain-id / owner changes *)
  assert (H2 : exists D2, get s2 c = Some (set_desc D2 r0) /\ inv_on [c] s2 /\
                s_spawnq s2 = s_spawnq s /\ s_remq s2 = s_remq s /\
                d_spawn D2 = d_spawn (c_desc r0) /\ d_hrev D2 = d_hrev (c_desc r0)).
  { assert (H1 : exists D1, get s1 c = Some (set_desc D1 r0) /\ inv_on [c] s1 /\
                  s_spawnq s1 = s_spawnq s /\ s_remq s1 = s_remq s /\
                  d_spawn D1 = d_spawn (c_desc r0) /\ d_hrev D1 = d_hrev (c_desc r0)).
    { assert (Hbase : exists D1, get s c = Some (set_desc D1 r0) /\ inv_on [c] s /\
                  s_spawnq s = s_spawnq s /\ s_remq s = s_remq s /\
                  d_spawn D1 = d_spawn (c_desc r0) /\ d_hrev D1 = d_hrev (c_desc r0)).
      { exists (c_desc r0). split6; try reflexivity; [destruct r0; exact Hg0 | apply inv_open; exact Hi]. }
      unfold s1. destruct nc as [[ch rv]|]; [|exact Hbase]. destruct chg; [|exact Hbase].
      destruct (view_desc s c r0 (d_set_chain ch rv) (inv_open _ _ c Hi) Hg0) as (V1 & V2 & V3 & V4).
      exists (d_set_chain ch rv (c_desc r0)). split6; try assumption; reflexivity. }
    destruct H1 as (D1 & G1 & I1 & Q1 & R1 & S1 & T1).
    unfold s2. destruct no as [o|].
    - destruct (view_desc s1 c _ (d_set_owner o) I1 G1) as (V1 & V2 & V3 & V4).
      exists (d_set_owner o D1). split6; try assumption; try congruence; exact V2.
    - exists D1. split6; assumption. }
  destruct H2 as (D2 & G2 & I2 & Q2 & R2 & S2 & T2).
  (* facts about the consumer in the pre-state *)
  cinv_destruct Hc0.
  assert (Hact : 1 <= c_phase r0 <= 3).
  { apply negb_false_iff in Eact. unfold is_active in Eact. rewrite !orb_true_iff, !Z.eqb_eq in Eact. lia. }
  assert (Hinq : forall ts, In c (tq_get (s_spawnq s) ts) -> c_phase r0 = 2 /\ ts = prev).
  { intros ts Hin. destruct (io_sq_sound _ _ Hi ts c (fun H => H) Hin) as [r' [Hg' [P1 P2]]].
    rewrite Hg0 in Hg'. inversion Hg'; subst r'. auto. }
  assert (Hnotq : c_phase r0 <> 2 -> ~ In c (all_ids (s_spawnq s))).
  { intros Hne Hin. destruct (in_all_tq_get _ _ (io_sq_sorted _ _ Hi) Hin) as [ts Hts].
    destruct (Hinq ts Hts). contradiction. }
  assert (Hnotr : ~ In c (all_ids (s_remq s))).
  { intros Hin. destruct (io_rq_sound _ _ Hi c (fun H => H) Hin) as [r' [Hg' P1]].
    rewrite Hg0 in Hg'. inversion Hg'; subst r'. lia. }
  assert (Hpl : forall p, is_prelaunched p = true <-> (p = 1 \/ p = 2)).
  { intros p. unfold is_prelaunched. rewrite orb_true_iff, !Z.eqb_eq. tauto. }
  destruct ini as [[[sp hr] cn]|]; simpl apply_ini.
  - (* new initialization parameters *)
    destruct (negb (is_prelaunched (c_phase r0))) eqn:Epl; [exact Hi|].
    apply negb_false_iff in Epl. apply Hpl in Epl.
    destruct ((sp =? 0) && (c_phase r0 =? 2)) eqn:Eun.
    + (* unschedule *)
      apply andb_true_iff in Eun. destruct Eun as [Esp Eph]. apply Z.eqb_eq in Esp, Eph. subst sp.
      rewrite Q2. destruct (tq_remove (s_spawnq s) prev c) as [q|] eqn:Hrem; [|exact Hi].
      rewrite <- Q2 in Hrem.
      destruct (inv_on_remove _ _ _ _ I2 Hrem) as [I3 Hgone].
      set (s3 := upd (set_spawnq q s2) c (set_phase 1)).
      assert (G3 : get s3 c = Some (set_phase 1 (set_desc D2 r0))).
      { apply get_upd_same; [intros r1 Hr1; exact Hr1 | exact G2]. }
      rewrite G3. simpl d_rev.
      destruct (negb (hr =? d_rev D2)) eqn:Ehr; [exact Hi|].
      apply negb_false_iff, Z.eqb_eq in Ehr.
      set (s4 := upd s3 c (fun r => set_desc (d_set_init 0 hr cn (c_desc r)) r)).
      assert (I4 : inv_on [c] s4).
      { apply inv_on_upd; [|now left | intros r1; reflexivity].
        apply inv_on_upd; [exact I3 | now left | intros r1; reflexivity]. }
      assert (G4 : get s4 c = Some (set_desc (d_set_init 0 hr cn D2) (set_phase 1 (set_desc D2 r0)))).
      { apply (get_upd_same s3 c (fun r => set_desc (d_set_init 0 hr cn (c_desc r)) r) (set_phase 1 (set_desc D2 r0)));
          [intros r1 Hr1; exact Hr1 | exact G3]. }
      destruct (inv_init_prepare s4 c prev _ I4 G4) as [s' [Hs' Hinv]].
      * unfold cinv_noq. simpl. rewrite R2. split; [lia|]. split; [symmetry; exact Ehr|].
        split; [intros _; apply A5; lia|]. repeat split; intros; try lia. exact (A7 H).
      * simpl. intros; discriminate.
      * left. exact Hgone.
      * simpl. intros _ Hne. contradiction.
      * simpl. rewrite R2. intros _. exact Hnotr.
      * simpl. rewrite R2. intros Hin. contradiction.
      * rewrite Hs'. exact Hinv.
    + (* keep / (re)schedule *)
      rewrite G2. simpl d_rev.
      destruct (negb (hr =? d_rev D2)) eqn:Ehr; [exact Hi|].
      apply negb_false_iff, Z.eqb_eq in Ehr.
      set (s4 := upd s2 c (fun r => set_desc (d_set_init sp hr cn (c_desc r)) r)).
      destruct (view_desc s2 c _ (d_set_init sp hr cn) I2 G2) as (I4 & G4 & Q4 & R4).
      fold s4 in I4, G4, Q4, R4.
      assert (Hspne : c_phase r0 = 2 -> sp <> 0).
      { intros Hp Hsp. subst sp. rewrite Hp in Eun. simpl in Eun. discriminate. }
      destruct (inv_init_prepare s4 c prev _ I4 G4) as [s' [Hs' Hinv]].
      * unfold cinv_noq. simpl. rewrite ?R4, ?R2. split; [lia|]. split; [symmetry; exact Ehr|].
        split; [exact A5|]. repeat split; intros; try lia. exact (A7 H).
      * simpl. exact Hspne.
      * rewrite Q4, Q2. simpl.
        destruct (Z.eq_dec (c_phase r0) 2) as [Hp|Hp].
        -- right. destruct (A4 Hp) as [B1 B2]. rewrite Hid0 in B2. repeat split; assumption.
        -- left. apply Hnotq. exact Hp.
      * rewrite Q4, Q2. simpl. intros _ Hsp Hnq.
        destruct Epl as [Hp|Hp]; [apply A3; exact Hp|].
        exfalso. apply Hnq. destruct (A4 Hp) as [B1 B2]. rewrite Hid0 in B2. eapply tq_get_in_all. exact B2.
      * rewrite R4, R2. intros _. exact Hnotr.
      * rewrite R4, R2. intros Hin. contradiction.
      * rewrite Hs'. exact Hinv.
  - (* no new initialization parameters *)
    rewrite G2. simpl d_hrev. simpl d_rev.
    destruct (d_hrev D2 =? d_rev D2) eqn:Ehr; [|exact Hi].
    apply Z.eqb_eq in Ehr.
    destruct (inv_init_prepare s2 c prev _ I2 G2) as [s' [Hs' Hinv]].
    + unfold cinv_noq. simpl. rewrite R2. split; [lia|]. split; [symmetry; exact Ehr|].
      split; [exact A5|]. repeat split; intros; try lia; try (apply A6; assumption). exact (A7 H).
    + simpl. rewrite S2. intros Hp. apply A4. exact Hp.
    + rewrite Q2. simpl.
      destruct (Z.eq_dec (c_phase r0) 2) as [Hp|Hp].
      * right. destruct (A4 Hp) as [B1 B2]. rewrite Hid0 in B2. repeat split; assumption.
      * left. apply Hnotq. exact Hp.
    + rewrite Q2. simpl. rewrite S2. intros Hpre Hsp Hnq. apply Hpl in Hpre.
      destruct Hpre as [Hp|Hp]; [apply A3; exact Hp|].
      exfalso. apply Hnq. destruct (A4 Hp) as [B1 B2]. rewrite Hid0 in B2. eapply tq_get_in_all. exact B2.
    + rewrite R2. intros _. exact Hnotr.
    + rewrite R2. intros Hin. contradiction.
    + rewrite Hs'. exact Hinv.
Qed.

(* ------------------------------------------------------------------ begin block *)

(* inv_on_upd for a function that is only required to keep the id c *)
Lemma inv_on_upd' : forall X s c f, inv_on X s -> In c X -> (forall r, c_id r = c -> c_id (f r) = c) ->
  inv_on X (upd s c f).
Proof.
  intros X s c f [H1 H2 H3 H4 H5 H6 H7 H8] Hc Hf'.
  constructor; simpl.
  - rewrite upd_ids by exact Hf'. rewrite upd_length. exact H1.
  - rewrite upd_length. exact H2.
  - exact H3.
  - exact H4.
  - exact H5.
  - intros ts c' Hc' Hin. rewrite get_upd_other by (try exact Hf'; intros ->; contradiction).
    apply H6; assumption.
  - intros c' Hc' Hin. rewrite get_upd_other by (try exact Hf'; intros ->; contradiction).
    apply H7; assumption.
  - intros c' r Hc'. rewrite get_upd_other by (try exact Hf'; intros ->; contradiction).
    apply H8; assumption.
Qed.

(* what is known about the consumers still to be attempted *)
Definition launch_pending (s : state) (ids : list Z) : Prop :=
  forall c, In c ids -> exists r, get s c = Some r /\ c_phase r = 2 /\ cinv_noq (s_remq s) r /\
                                  ~ In c (all_ids (s_spawnq s)) /\ ~ In c (all_ids (s_remq s)).

Lemma launch_loop_inv : forall ora ids s, inv_on ids s -> NoDup ids -> launch_pending s ids ->
  exists s', launch_loop s ora ids = Some s' /\ inv s' /\ s_remq s' = s_remq s /\ s_spawnq s' = s_spawnq s /\ s_now s' = s_now s.
Proof.
  intros ora. induction ids as [|c rest IH]; intros s Hi Hnd Hp.
  - exists s. simpl. split; [reflexivity|]. split; [exact Hi|]. repeat split.
  - inversion Hnd as [|? ? Hnotin Hnd']; subst.
    destruct (Hp c (or_introl eq_refl)) as (r & Hg & Hph & Hc & Hnq & Hnr).
    assert (Hid := get_id _ _ _ Hg).
    simpl. rewrite Hg.
    assert (Hrest : forall (f : consumer -> consumer), (forall r0, c_id r0 = c -> c_id (f r0) = c) ->
              launch_pending (upd s c f) rest).
    { intros f Hf c' Hc'. destruct (Hp c' (or_intror Hc')) as (r' & Hg' & Hr').
      exists r'. split; [|exact Hr'].
      rewrite get_upd_other; [exact Hg' | exact Hf | intros ->; contradiction]. }
    destruct Hc as (C1 & C2 & C3 & C4 & C5 & C6 & C7).
    assert (Hclose : forall r', c_id r' = c ->
              cinv (s_spawnq s) (s_remq s) r' -> inv_on rest (upd s c (fun _ => r'))).
    { intros r' Hid' Hc'. apply inv_on_close with (c := c) (r := r').
      - apply inv_on_upd'; [exact Hi | now left | intros; exact Hid'].
      - rewrite get_upd_same with (r := r); [reflexivity | intros; exact Hid' | exact Hg].
      - exact Hc'.
      - simpl. intros ts Hin. exfalso. apply Hnq. eapply tq_get_in_all. exact Hin.
      - simpl. intros Hin. contradiction. }
    destruct (launch_consumer r (lookup no_lora ora c)) as [r'|] eqn:El.
    + (* launched *)
      assert (Hr' : r' = set_phase 3 (set_proto (p_set_launch (lo_size (lookup no_lora ora c)) (c_proto r)) r)).
      { unfold launch_consumer in El.
        destruct (lo_size (lookup no_lora ora c) =? 0); [discriminate|].
        destruct (negb (lo_active (lookup no_lora ora c))); [discriminate|].
        destruct (lo_extfail (lookup no_lora ora c)); [discriminate|].
        destruct ((d_conn (c_desc r) =? 0) && negb (c_phase r =? 2)); [discriminate|].
        inversion El. reflexivity. }
      destruct (IH (upd s c (fun _ => r'))) as (s' & Hs' & Hinv & Hq).
      * apply Hclose; [subst r'; exact Hid|].
        subst r'. unfold cinv. simpl.
        refine (conj _ (conj C2 (conj _ (conj _ (conj _ (conj _ (conj _ (conj _ _)))))))); try (intros; lia); auto.
      * exact Hnd'.
      * apply Hrest. intros; subst r'; exact Hid.
      * exists s'. split; [exact Hs'|]. split; [exact Hinv|]. exact Hq.
    + (* fallback *)
      assert (d_rev (c_desc r) =? d_hrev (c_desc r) = true) as -> by (apply Z.eqb_eq; exact C2).
      destruct (IH (upd s c fallback)) as (s' & Hs' & Hinv & Hq).
      * apply inv_on_close with (c := c) (r := fallback r).
        -- apply inv_on_upd; [exact Hi | now left | intros r0; reflexivity].
        -- apply get_upd_same; [intros r0 Hr0; exact Hr0 | exact Hg].
        -- unfold cinv. simpl.
           refine (conj _ (conj C2 (conj _ (conj _ (conj _ (conj _ (conj C5 (conj _ _)))))))); try (intros; lia); auto.
           intros _. apply C3. lia.
        -- simpl. intros ts Hin. exfalso. apply Hnq. eapply tq_get_in_all. exact Hin.
        -- simpl. intros Hin. contradiction.
      * exact Hnd'.
      * apply Hrest. intros r0 Hr0. exact Hr0.
      * exists s'. split; [exact Hs'|]. split; [exact Hinv|]. exact Hq.
Qed.

(* what is known about the ids still to be processed by the removal loop *)
Definition remove_pending (s : state) (ids : list Z) : Prop :=
  forall c, In c ids -> exists r, get s c = Some r /\ 4 <= c_phase r <= 5 /\
    d_rev (c_desc r) = d_hrev (c_desc r) /\ (c_phase r = 5 -> proto_empty_core (c_proto r) = true) /\
    ~ In c (all_ids (s_spawnq s)).

Lemma cinv_deleted : forall sq rq r, c_phase r = 5 -> d_rev (c_desc r) = d_hrev (c_desc r) ->
  proto_empty_core (c_proto r) = true -> cinv sq rq r.
Proof.
  intros sq rq r Hp Hr He. unfold cinv. rewrite Hp.
  apply proto_empty_core_spec in He. destruct He as (E1 & E2 & E3 & E4 & E5 & E6 & E7 & E8).
  refine (conj _ (conj Hr (conj _ (conj _ (conj _ (conj _ (conj _ (conj _ _)))))))); try (intros; lia).
  - intros H. congruence.
  - intros _. apply proto_empty_core_spec. tauto.
Qed.

Lemma remove_loop_inv : forall ids s, inv_on ids s -> remove_pending s ids ->
  inv (remove_loop s ids) /\ s_spawnq (remove_loop s ids) = s_spawnq s /\ s_remq (remove_loop s ids) = s_remq s /\
  s_now (remove_loop s ids) = s_now s.
Proof.
  induction ids as [|c rest IH]; intros s Hi Hp.
  - simpl. split; [exact Hi|]. repeat split.
  - destruct (Hp c (or_introl eq_refl)) as (r & Hg & Hph & Hrev & Hemp & Hnq).
    simpl. rewrite (phase_of_get _ _ _ Hg).
    destruct (c_phase r =? 4) eqn:E.
    + apply Z.eqb_eq in E.
      assert (Hf : keeps_id delete_consumer) by (intros r0; reflexivity).
      destruct (IH (upd s c delete_consumer)) as (I1 & I2).
      * apply inv_on_close with (c := c) (r := delete_consumer r).
        -- apply inv_on_upd; [exact Hi | now left | exact Hf].
        -- apply get_upd_same; [apply keeps_id_upd; exact Hf | exact Hg].
        -- apply cinv_deleted; [reflexivity | exact Hrev | reflexivity].
        -- simpl. intros ts Hin. exfalso. apply Hnq. eapply tq_get_in_all. exact Hin.
        -- simpl. intros _. lia.
      * intros c' Hc'. destruct (Z.eq_dec c' c) as [->|Hne].
        -- exists (delete_consumer r). split; [apply get_upd_same; [apply keeps_id_upd; exact Hf | exact Hg]|].
           simpl. repeat split; try lia; try assumption.
        -- destruct (Hp c' (or_intror Hc')) as (r' & Hg' & Hr').
           exists r'. split; [|exact Hr'].
           rewrite get_upd_other; [exact Hg' | apply keeps_id_upd; exact Hf | congruence].
      * split; [exact I1 | exact I2].
    + apply Z.eqb_neq in E. assert (Hp5 : c_phase r = 5) by lia.
      destruct (IH s) as (I1 & I2).
      * apply inv_on_close with (c := c) (r := r); [exact Hi | exact Hg | | |].
        -- apply cinv_deleted; [exact Hp5 | exact Hrev | apply Hemp; exact Hp5].
        -- intros ts Hin. exfalso. apply Hnq. eapply tq_get_in_all. exact Hin.
        -- intros _. lia.
      * intros c' Hc'. apply Hp. now right.
      * split; [exact I1 | exact I2].
Qed.

Lemma inv_begin_aux : forall s now ora, inv s ->
  exists s1, launch_loop (set_spawnq (snd (consume (s_spawnq s) now limit)) (set_now now s)) ora
                         (fst (consume (s_spawnq s) now limit)) = Some s1 /\
             inv s1 /\ s_remq s1 = s_remq s /\ s_spawnq s1 = snd (consume (s_spawnq s) now limit) /\ s_now s1 = now.
Proof.
  intros s now ora Hi.
  destruct (consume (s_spawnq s) now limit) as [ids q'] eqn:Ec. simpl fst. simpl snd.
  assert (Hs := io_sq_sorted _ _ Hi). assert (Hnd := io_sq_nodup _ _ Hi).
  assert (Hsplit := consume_split _ _ _ _ _ Ec). rewrite Hsplit in Hnd.
  destruct (nodup_app_parts _ _ Hnd) as (Hnd1 & Hnd2 & Hdisj).
  assert (Hq' : q' = snd (consume (s_spawnq s) now limit)) by (rewrite Ec; reflexivity).
  assert (Hids : ids = fst (consume (s_spawnq s) now limit)) by (rewrite Ec; reflexivity).
  set (s0 := set_spawnq q' (set_now now s)).
  assert (Hi0 : inv_on ids s0).
  { apply inv_on_sq.
    - apply inv_on_now. eapply inv_on_weaken; [exact Hi | intros x []].
    - rewrite Hq'. apply consume_sorted. exact Hs.
    - exact Hnd2.
    - intros c ts Hc. simpl. split.
      + rewrite Hq'. apply consume_get_sub. exact Hs.
      + intros Hin. destruct (consume_get_cases _ now limit _ _ Hs Hin) as [H|H].
        * rewrite <- Hids in H. contradiction.
        * rewrite <- Hq' in H. exact H. }
  destruct (launch_loop_inv ora ids s0 Hi0) as (s1 & Hl & Hinv & Hr & Hq & Hn).
  - exact Hnd1.
  - intros c Hc.
    assert (Hin : In c (all_ids (s_spawnq s))) by (rewrite Hsplit; apply in_or_app; now left).
    destruct (in_all_tq_get _ _ Hs Hin) as [ts Hts].
    destruct (io_sq_sound _ _ Hi ts c (fun H => H) Hts) as (r & Hg & Hph & Hsp).
    exists r. split; [exact Hg|]. split; [exact Hph|]. split; [|split].
    + eapply cinv_noq_of. eapply (io_cons _ _ Hi); [intros [] | exact Hg].
    + simpl. intros Hin'. apply (Hdisj c); assumption.
    + simpl. intros Hin'. destruct (io_rq_sound _ _ Hi c (fun H => H) Hin') as (r' & Hg' & Hph').
      rewrite Hg in Hg'. inversion Hg'; subst r'. lia.
  - exists s1. split; [exact Hl|]. split; [exact Hinv|]. split; [exact Hr|]. split; [exact Hq | exact Hn].
Qed.

(* the state after the launch part of BeginBlock, and the final state *)
Lemma begin_shape : forall s now ora, inv s ->
  exists s1, launch_loop (set_spawnq (snd (consume (s_spawnq s) now limit)) (set_now now s)) ora
                         (fst (consume (s_spawnq s) now limit)) = Some s1 /\
    inv s1 /\ s_remq s1 = s_remq s /\ s_spawnq s1 = snd (consume (s_spawnq s) now limit) /\ s_now s1 = now /\
    do_begin s now ora =
      (remove_loop (set_remq (snd (consume (s_remq s) now limit)) s1) (fst (consume (s_remq s) now limit)), r_ok).
Proof.
  intros s now ora Hi.
  destruct (inv_begin_aux s now ora Hi) as (s1 & Hl & Hinv & Hr & Hq & Hn).
  exists s1. split; [exact Hl|]. split; [exact Hinv|]. split; [exact Hr|]. split; [exact Hq|]. split; [exact Hn|].
  unfold do_begin. change (s_spawnq (set_now now s)) with (s_spawnq s).
  destruct (consume (s_spawnq s) now limit) as [ids q'] eqn:Ec. simpl fst in Hl. simpl snd in Hl.
  rewrite Hl. rewrite Hr.
  destruct (consume (s_remq s) now limit) as [rids rq']. reflexivity.
Qed.

Lemma inv_begin : forall s now ora, inv s -> inv (fst (do_begin s now ora)) /\ snd (do_begin s now ora) = r_ok.
Proof.
  intros s now ora Hi.
  destruct (begin_shape s now ora Hi) as (s1 & Hl & Hinv & Hr & Hq & Hn & Heq).
  rewrite Heq. simpl fst. simpl snd. split; [|reflexivity].
  destruct (consume (s_remq s) now limit) as [rids rq'] eqn:Ec. simpl fst. simpl snd.
  assert (Hs := io_rq_sorted _ _ Hinv). rewrite Hr in Hs.
  assert (Hsplit := consume_split _ _ _ _ _ Ec).
  assert (Hq' : rq' = snd (consume (s_remq s) now limit)) by (rewrite Ec; reflexivity).
  assert (Hids : rids = fst (consume (s_remq s) now limit)) by (rewrite Ec; reflexivity).
  apply remove_loop_inv.
  - apply inv_on_rq.
    + eapply inv_on_weaken; [exact Hinv | intros x []].
    + rewrite Hq'. apply consume_sorted. exact Hs.
    + intros c _ Hin. rewrite Hr, Hsplit. apply in_or_app. now right.
    + intros c ts Hc Hin. rewrite Hr in Hin.
      destruct (consume_get_cases _ now limit _ _ Hs Hin) as [H|H].
      * rewrite <- Hids in H. contradiction.
      * rewrite <- Hq' in H. exact H.
  - intros c Hc.
    assert (Hin : In c (all_ids (s_remq s1))) by (rewrite Hr, Hsplit; apply in_or_app; now left).
    destruct (io_rq_sound _ _ Hinv c (fun H => H) Hin) as (r & Hg & Hph).
    assert (Hcv := io_cons _ _ Hinv c r (fun H => H) Hg). cinv_destruct Hcv.
    exists r. split; [exact Hg|]. split; [lia|]. split; [exact A2|]. split; [exact A9|].
    simpl. intros Hin'. destruct (in_all_tq_get _ _ (io_sq_sorted _ _ Hinv) Hin') as [ts Hts].
    destruct (io_sq_sound _ _ Hinv ts c (fun H => H) Hts) as (r' & Hg' & Hph' & _).
    rewrite Hg in Hg'. inversion Hg'; subst r'. lia.
Qed.

(* ------------------------------------------------------------------ every step preserves the invariant *)

Theorem inv_step : forall U s o, inv s -> inv (step U s o).
Proof.
  intros U s o Hi. unfold step. destruct o; simpl exec.
  - apply inv_create. exact Hi.
  - apply inv_update. exact Hi.
  - apply inv_remove. exact Hi.
  - apply inv_optin. exact Hi.
  - apply inv_decorate. exact Hi.
  - apply inv_channel. exact Hi.
  - apply inv_begin. exact Hi.
  - apply inv_end. exact Hi.
  - apply inv_packet_failure. exact Hi.
  - apply inv_packet_failure. exact Hi.
  - exact Hi.
Qed.

Lemma inv_init : inv init_state.
Proof.
  constructor; simpl.
  - reflexivity.
  - reflexivity.
  - exact I.
  - exact I.
  - constructor.
  - intros ts c0 _ [].
  - intros c0 _ [].
  - intros c0 r _ H. discriminate.
Qed.

Lemma inv_fold_steps : forall U ops s, inv s -> inv (fold_left (step U) ops s).
Proof. intros U. induction ops as [|o ops IH]; simpl; intros s Hi; [exact Hi | apply IH; apply inv_step; exact Hi]. Qed.

Theorem inv_reach : forall U ops, inv (fold_left (step U) ops init_state).
Proof. intros. apply inv_fold_steps. apply inv_init. Qed.
